#!/bin/bash
# regress.sh <seed-id> : apply the seed to a fresh worktree of /repo HEAD, run the quick check of its property
ID=$1; P=${ID%%-*}; W=${TMPDIR:-/tmp}/lead-rg-$ID
git -C /repo worktree add -q $W HEAD || exit 1
if (cd $W && git apply /verif/seeded/$ID/patch.diff 2>/dev/null); then
  out=$(cd /verif && ABTMC_REPO=$W bin/check $P --tier quick 2>&1)
  nv=$(echo "$out" | grep -c "^VIOLATION")
  echo "$ID: $(echo "$out" | grep '^check ' | tail -1 | cut -c1-110) VIOLATION-lines=$nv"
else
  echo "$ID: patch does not apply to HEAD any more"
fi
git -C /repo worktree remove --force $W
