#!/usr/bin/env python3
"""Regenerates MANIFEST.json from registry/*.json (+ manifest_meta.json)."""
import json, os, glob, subprocess
V = '/verif'
meta = json.load(open(V + '/manifest_meta.json'))
props = [json.loads(l) for l in open(V + '/properties.jsonl')]
checks = []
na = []
hooks_commits = meta['hooks']['source_commits']
for p in props:
    pid = p['id']
    f = '%s/registry/%s.json' % (V, pid)
    if not os.path.exists(f) or pid in meta.get('withdrawn', {}) or pid not in meta.get('claimed', []):
        na.append({'property_id': pid, 'reason': meta.get('withdrawn', {}).get(pid) or meta['not_built_reason']})
        continue
    r = json.load(open(f))
    m = r.get('manifest', {})
    checks.append({
        'property_id': pid,
        'quick_cmd': 'bin/check %s --tier quick' % pid,
        'thorough_cmd': 'bin/check %s --tier thorough' % pid,
        'evidence_file': '/verif/evidence/%s.json' % pid,
        'replay_cmd_template': 'bin/check %s --replay {path}' % pid,
        'engine': 'abtmc',
        'level_claimed': {'category': r.get('level', 'model_checking'),
                          'text': m.get('text', ''), 'design_ref': m.get('design_ref', 'DESIGN.md section 4, ' + pid)},
        'level_note': m.get('level_note', meta['default_level_note']),
        'technique': m.get('technique', meta['default_technique']),
    })
man = {'version': 1, 'setup_cmd': meta['setup_cmd'], 'hooks': meta['hooks'],
       'engines': meta['engines'], 'checks': checks, 'notes': meta['notes'],
       'not_applicable': na}
for e in man['engines']:
    e['serves_properties'] = [c['property_id'] for c in checks]
json.dump(man, open(V + '/MANIFEST.json', 'w'), indent=1)
print('MANIFEST: %d checks, %d not_applicable' % (len(checks), len(na)))
