# registry.py -- loads /verif/registry/CNN.json: which drivers decide which
# property and with which tier bounds.
#
# {"level": "model_checking" | "fault_enumeration",
#  "deadline": {"quick": seconds, "thorough": seconds},   (whole property)
#  "runs": [ {"driver": "c04_mutex", "flavour": "mc" | "mc-asan" | "mc-nobar",
#             "tiers": ["quick","thorough"],               (optional)
#             "all":      {...options common to both tiers...},
#             "quick":    {"P":2,"T":0,"E":0,"configs":"quick"},
#             "thorough": {"P":3,"T":0,"E":0,"configs":"all"}} ],
#  "rule": "...", "bounds_note": {"quick": "...", "thorough": "..."},
#  "assumptions": ["..."]}
# options: P,T,E, configs ("quick"|"all"), config (single index), workers,
#          horizon, wall, no_iter, cache_bits
import json, os, glob

PROPS = {}
for f in sorted(glob.glob(os.path.join(os.path.dirname(__file__), '..', 'registry', 'C*.json'))):
    PROPS[os.path.basename(f)[:-5]] = json.load(open(f))
