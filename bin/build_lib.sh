#!/bin/bash
# build_lib.sh <flavour> [extra-cflags...]  -> prints the build directory
# Rebuilds libabt from /repo's working tree with the abtmc hooks.  The build
# directory is keyed by a hash of the sources and flags.
set -e
FLAV=${1:-mc}; shift || true
REPO=${ABTMC_REPO:-/repo}
V=/verif
CC=gcc
case "$FLAV" in
  mc)        CFLAGS="-O1 -g -fno-omit-frame-pointer"; SAN="";;
  mc-asan)   CFLAGS="-O1 -g -fno-omit-frame-pointer -fsanitize=address,undefined -fno-sanitize-recover=undefined -fno-sanitize=alignment"; SAN=1;;
  mc-nobar)  CFLAGS="-O1 -g -fno-omit-frame-pointer -DABTMC_NO_PTHREAD_BARRIER"; SAN="";;
  *) echo "unknown flavour $FLAV" >&2; exit 2;;
esac
HOOK="-DABT_CONFIG_VERIF_MC -include $V/engine/abtmc_hooks.h"
SRCHASH=$( (cd $REPO/src && find . \( -name '*.c' -o -name '*.h' -o -name '*.S' \) -type f | LC_ALL=C sort | xargs sha1sum; sha1sum $V/engine/abtmc_hooks.h $V/engine/libc_map.txt $V/bin/build_lib.sh; echo "$FLAV $CFLAGS $*") | sha1sum | cut -c1-16)
B=$V/build/$FLAV-$SRCHASH
if [ -f $B/libabt.a ]; then echo $B; exit 0; fi
# drop stale builds of the same flavour
rm -rf $V/build/$FLAV-* 2>/dev/null || true
mkdir -p $B/obj $B/include
# generated headers: reuse the tree's configure output, else configure here
if [ -f $REPO/src/include/abt_config.h ] && [ -f $REPO/src/include/abt.h ]; then
  cp $REPO/src/include/abt_config.h $REPO/src/include/abt.h $B/include/
else
  (mkdir -p $B/cfg && cd $B/cfg && $REPO/configure -q >/dev/null 2>&1 && cp src/include/abt_config.h src/include/abt.h $B/include/) || { echo "configure failed" >&2; exit 2; }
  rm -rf $B/cfg
fi
if [ "$FLAV" = "mc-nobar" ]; then
  sed -i 's/^#define HAVE_PTHREAD_BARRIER_INIT 1/\/* #undef HAVE_PTHREAD_BARRIER_INIT *\//' $B/include/abt_config.h
fi
INC="-I$B/include -I$REPO/src/include -I$REPO/src"
cd $REPO/src
SRCS=$(find . -name '*.c' | LC_ALL=C sort)
compile() {
  f=$1; o=$B/obj/$(echo $f | sed 's|^\./||; s|/|_|g; s|\.c$|.o|')
  $CC -std=gnu99 -DHAVE_CONFIG_H $INC $HOOK $CFLAGS $EXTRA -fvisibility=hidden -Wno-error -c $f -o $o 2>$o.err || { cat $o.err >&2; exit 1; }
}
export -f compile; export B CC INC HOOK CFLAGS; export EXTRA="$*"
echo "$SRCS" | xargs -P 16 -I{} bash -c 'compile {}' || { echo "libabt build failed" >&2; rm -rf $B; exit 2; }
$CC $INC $CFLAGS -c arch/fcontext/fcontext_x86_64_sysv_elf_gas.S -o $B/obj/fcontext.o
for o in $B/obj/*.o; do
  [ "$o" = "$B/obj/fcontext.o" ] && continue
  objcopy --redefine-syms=$V/engine/libc_map.txt $o
done
ar rcs $B/libabt.a $B/obj/*.o
echo $B
