#!/bin/bash
# build_lib.sh <flavour> [extra-cflags...]  -> prints the build directory
# Rebuilds libabt from /repo's working tree with the abtmc hooks.  The build
# directory is keyed by a hash of the sources and flags.
set -e
FLAV=${1:-mc}; shift || true
REPO=${ABTMC_REPO:-/repo}
V=/verif
CC=gcc
case "$FLAV" in
  mc)        CFLAGS="-O1 -g -fno-omit-frame-pointer"; SAN="";;
  mc-asan)   CFLAGS="-O1 -g -fno-omit-frame-pointer -fsanitize=address,undefined -fno-sanitize-recover=undefined -fno-sanitize=alignment"; SAN=1;;
  mc-asan-nopool) CFLAGS="-O1 -g -fno-omit-frame-pointer -fsanitize=address,undefined -fno-sanitize-recover=undefined -fno-sanitize=alignment -DABTMC_NO_MEM_POOL"; SAN=1;;
  mc-asan-noalign) CFLAGS="-O1 -g -fno-omit-frame-pointer -fsanitize=address,undefined -fno-sanitize-recover=undefined -fno-sanitize=alignment -DABTMC_NO_ALIGNED_ALLOC"; SAN=1;;
  mc-ub)     CFLAGS="-O1 -g -fno-omit-frame-pointer -DABTMC_UB_ASSERT"; SAN="";;
  mc-active) CFLAGS="-O1 -g -fno-omit-frame-pointer -DABTMC_ACTIVE_WAIT"; SAN="";;
  mc-nobar)  CFLAGS="-O1 -g -fno-omit-frame-pointer -DABTMC_NO_PTHREAD_BARRIER"; SAN="";;
  free-tsan) CC=clang; CFLAGS="-O1 -g -fno-omit-frame-pointer -fsanitize=thread -DABTMC_PASSTHROUGH"; SAN=2;;
  *) echo "unknown flavour $FLAV" >&2; exit 2;;
esac
HOOK="-DABT_CONFIG_VERIF_MC -include $V/engine/abtmc_hooks.h"
SRCHASH=$( (cd $REPO/src && find . \( -name '*.c' -o -name '*.h' -o -name '*.S' \) -type f | LC_ALL=C sort | xargs sha1sum; sha1sum $V/engine/abtmc_hooks.h $V/engine/libc_map.txt $V/bin/build_lib.sh; echo "$FLAV $CFLAGS $*") | sha1sum | cut -c1-16)
B=$V/build/$FLAV-$SRCHASH
mkdir -p $V/build
exec 9>$V/build/.lock.$FLAV
flock 9
if [ -f $B/libabt.a ]; then touch $B/.used; echo $B; exit 0; fi
# drop stale builds of the same flavour (not used for 3 hours)
for d in $V/build/$FLAV-????????????????; do
  [ -d "$d" ] || continue
  case "$(basename $d)" in $FLAV-[0-9a-f]*) ;; *) continue;; esac
  [ "${#d}" -eq "$(( ${#V} + 7 + ${#FLAV} + 17 ))" ] || continue
  if [ -z "$(find $d -maxdepth 1 -name .used -mmin -180 2>/dev/null)" ]; then rm -rf $d; fi
done
mkdir -p $B/obj $B/include
# generated headers: abt.h is always regenerated from the tree's abt.h.in (so
# edits to the public header are seen); abt_config.h comes from the tree's
# configure output, else from /repo's, else from the copy kept with the engine
sed -e 's/@ABT_VERSION@/1.2rc1/' -e 's/@ABT_NUMVERSION@/10200201/' \
    -e 's/@ABT_DEPRECATED@/__attribute__((deprecated))/' \
    -e 's/@ABT_ENABLE_VER_20_API@/0/' -e 's/@ABT_NULL@/0/' \
    $REPO/src/include/abt.h.in > $B/include/abt.h
if [ -f $REPO/src/include/abt_config.h ]; then
  cp $REPO/src/include/abt_config.h $B/include/
elif [ -f /repo/src/include/abt_config.h ]; then
  cp /repo/src/include/abt_config.h $B/include/
else
  cp $V/engine/fallback/abt_config.h $B/include/
fi
if [ "$FLAV" = "mc-asan-nopool" ]; then
  # every descriptor and stack comes straight from malloc/free: the address
  # sanitizer then sees uses after free that the memory pools would hide
  sed -i 's/^#define ABT_CONFIG_USE_MEM_POOL 1/\/* #undef ABT_CONFIG_USE_MEM_POOL *\//' $B/include/abt_config.h
fi
if [ "$FLAV" = "mc-asan-noalign" ]; then
  # configure --disable-aligned-alloc: ABTU_malloc is plain malloc(size), no
  # rounding up to the cache line that would hide small overruns
  sed -i 's/^#define ABT_CONFIG_USE_ALIGNED_ALLOC 1/\/* #undef ABT_CONFIG_USE_ALIGNED_ALLOC *\//' $B/include/abt_config.h
fi
if [ "$FLAV" = "mc-ub" ]; then
  # configure --enable-debug=err style: ABTI_UB_ASSERT active, i.e. the library
  # aborts when it is used in a way its documentation declares undefined
  sed -i 's/^#define ABT_CONFIG_DISABLE_UB_ASSERT 1/\/* #undef ABT_CONFIG_DISABLE_UB_ASSERT *\//' $B/include/abt_config.h
fi
if [ "$FLAV" = "mc-active" ]; then
  # configure --enable-wait-policy=active: external threads and tasklets busy-wait
  # instead of sleeping on a futex
  sed -i 's/^\/\* #undef ABT_CONFIG_ACTIVE_WAIT_POLICY \*\//#define ABT_CONFIG_ACTIVE_WAIT_POLICY 1/' $B/include/abt_config.h
fi
if [ "$FLAV" = "mc-nobar" ]; then
  sed -i 's/^#define HAVE_PTHREAD_BARRIER_INIT 1/\/* #undef HAVE_PTHREAD_BARRIER_INIT *\//' $B/include/abt_config.h
fi
INC="-I$B/include -I$REPO/src/include -I$REPO/src"
cd $REPO/src
SRCS=$(find . -name '*.c' | LC_ALL=C sort)
compile() {
  f=$1; o=$B/obj/$(echo $f | sed 's|^\./||; s|/|_|g; s|\.c$|.o|')
  $CC -std=gnu99 -DHAVE_CONFIG_H $INC $HOOK $CFLAGS $EXTRA -fvisibility=hidden -Wno-error -c $f -o $o 2>$o.err || { cat $o.err >&2; exit 1; }
}
export -f compile; export B CC INC HOOK CFLAGS; export EXTRA="$*"
echo "$SRCS" | xargs -P 16 -I{} bash -c 'compile {}' || { echo "libabt build failed" >&2; rm -rf $B; exit 2; }
$CC $INC $CFLAGS -c arch/fcontext/fcontext_x86_64_sysv_elf_gas.S -o $B/obj/fcontext.o
if [ "$FLAV" != "free-tsan" ]; then
for o in $B/obj/*.o; do
  [ "$o" = "$B/obj/fcontext.o" ] && continue
  objcopy --redefine-syms=$V/engine/libc_map.txt $o
done
fi
ar rcs $B/libabt.a $B/obj/*.o
touch $B/.used
echo $B
