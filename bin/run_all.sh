#!/bin/bash
# run_all.sh <tier>: run every registered check sequentially, print exit code and wall time
T=${1:-quick}
cd /verif
for f in registry/C*.json; do
  id=$(basename $f .json)
  s=$(date +%s)
  out=$(bin/check $id --tier $T 2>&1); rc=$?
  e=$(( $(date +%s) - s ))
  echo "$id rc=$rc ${e}s :: $(echo "$out" | grep '^check ' | tail -1)"
  echo "$out" | grep -E "^(VIOLATION|KNOWN-FINDING|ENGINE-ERROR)" | cut -c1-220
done
