/* abtmc_free.c -- free-running implementation of the driver API for the
 * `free-tsan` flavour (DESIGN.md 3.2): the same driver bodies run on real
 * pthreads with real time, libabt compiled with clang -fsanitize=thread and
 * the hooks compiled out.  Purpose: look for unsynchronised plain accesses
 * that the controlled scheduler (which preempts only at hooked operations)
 * cannot interleave.  Advisory: reports are counted, never turned into a
 * property verdict. */
#define _GNU_SOURCE
#include <errno.h>
#include <fcntl.h>
#include <pthread.h>
#include <sched.h>
#include <stdarg.h>
#include <stdio.h>
#include <stdlib.h>
#include <string.h>
#include <sys/stat.h>
#include <sys/wait.h>
#include <time.h>
#include <unistd.h>
#include "abtmc.h"

static unsigned seed_;
static pthread_t thr_[64];
static int nthr_;
static int progress_ctr_, step_ctr_;

struct tramp_arg {
    void (*fn)(void *);
    void *arg;
};
static void *tramp(void *p)
{
    struct tramp_arg a = *(struct tramp_arg *)p;
    free(p);
    a.fn(a.arg);
    return NULL;
}

int abtmc_thread_create(void (*fn)(void *), void *arg)
{
    struct tramp_arg *a = malloc(sizeof(*a));
    a->fn = fn;
    a->arg = arg;
    int id = __atomic_fetch_add(&nthr_, 1, __ATOMIC_SEQ_CST);
    pthread_create(&thr_[id], NULL, tramp, a);
    return id;
}
void abtmc_thread_join(int tid) { pthread_join(thr_[tid], NULL); }
int abtmc_self(void) { return 0; }
void abtmc_after_release(const volatile void *a) { (void)a; }
void abtmc_stack_init(void *top, size_t size) { (void)top; (void)size; }
void abtmc_set_invariant(void (*fn)(void)) { (void)fn; }
void abtmc_window_begin(void) {}
void abtmc_window_end(void) {}
int abtmc_choose(int n, int kind)
{
    (void)kind;
    if (n <= 1)
        return 0;
    static pthread_mutex_t m = PTHREAD_MUTEX_INITIALIZER;
    pthread_mutex_lock(&m);
    int r = rand_r(&seed_) % n;
    pthread_mutex_unlock(&m);
    return r;
}
void abtmc_clock_candidates(const double *a, int n) { (void)a; (void)n; }
double abtmc_now(void)
{
    struct timespec ts;
    clock_gettime(CLOCK_REALTIME, &ts);
    return (double)ts.tv_sec + 1e-9 * (double)ts.tv_nsec;
}
int abtmc_load(const int *p) { return __atomic_load_n(p, __ATOMIC_SEQ_CST); }
void abtmc_store(int *p, int v) { __atomic_store_n(p, v, __ATOMIC_SEQ_CST); }
int abtmc_fetch_add(int *p, int v)
{
    return __atomic_fetch_add(p, v, __ATOMIC_SEQ_CST);
}
void abtmc_progress(void)
{
    __atomic_fetch_add(&progress_ctr_, 1, __ATOMIC_RELAXED);
}
void abtmc_spin_hint(int site, const void *ctx)
{
    (void)site;
    (void)ctx;
    sched_yield();
}
void abtmc_wait_until_ne(const int *p, int v)
{
    while (abtmc_load(p) == v)
        sched_yield();
}
void abtmc_wait_until_eq(const int *p, int v)
{
    while (abtmc_load(p) != v)
        sched_yield();
}
long abtmc_step(void)
{
    return __atomic_fetch_add(&step_ctr_, 1, __ATOMIC_SEQ_CST);
}
void abtmc_check_fail(const char *key, const char *fmt, ...)
{
    va_list ap;
    va_start(ap, fmt);
    fprintf(stderr, "ORACLE-FAIL key=%s: ", key);
    vfprintf(stderr, fmt, ap);
    fputc('\n', stderr);
    _exit(3);
}
void abtmc_observe(const char *fmt, ...) { (void)fmt; }
void abtmc_stat(const char *name, long long add) { (void)name; (void)add; }
long abtmc_ledger_live(void) { return 0; }
long abtmc_ledger_live_bytes(void) { return 0; }
long abtmc_ledger_acquisitions(void) { return 0; }
long abtmc_ledger_bad_frees(void) { return 0; }
void abtmc_fail_nth(int m, long n) { (void)m; (void)n; }
int abtmc_fault_fired(void) { return 0; }
int abtmc_ledger_blocks(void **p, size_t *s, int m) { (void)p; (void)s; (void)m; return 0; }
int abtmc_ledger_find(const void *p, void **b, size_t *s) { (void)p; (void)b; (void)s; return 0; }
void abtmc_set_rand_range(int n) { (void)n; }
int abtmc_is_replay(void) { return 0; }
void abtmc_tracef(const char *fmt, ...) { (void)fmt; }
void abtmc_std_env(void)
{
    setenv("ABT_SET_AFFINITY", "0", 1);
    setenv("ABT_MEM_LP_ALLOC", "malloc", 1);
    setenv("ABT_MEM_MAX_NUM_STACKS", "4", 1);
    setenv("ABT_MEM_MAX_NUM_DESCS", "4", 1);
    setenv("ABT_SCHED_EVENT_FREQ", "1", 1);
    setenv("ABT_MEM_PAGE_SIZE", "65536", 1);
    setenv("ABT_MEM_STACK_PAGE_SIZE", "131072", 1);
}

/* usage: drv --free [--quick] [--config N] --reps R --out FILE --seed S */
int abtmc_main(int argc, char **argv, const abtmc_driver *d)
{
    int reps = 10, quick = 0, only = -1;
    unsigned seed = 1;
    const char *out = NULL;
    for (int i = 1; i < argc; i++) {
        if (!strcmp(argv[i], "--quick"))
            quick = 1;
        else if (!strcmp(argv[i], "--reps") && i + 1 < argc)
            reps = atoi(argv[++i]);
        else if (!strcmp(argv[i], "--config") && i + 1 < argc)
            only = atoi(argv[++i]);
        else if (!strcmp(argv[i], "--seed") && i + 1 < argc)
            seed = (unsigned)atoi(argv[++i]);
        else if (!strcmp(argv[i], "--out") && i + 1 < argc)
            out = argv[++i];
    }
    long runs = 0, tsan = 0, tsan_lib = 0, oracle = 0, other = 0, timeouts = 0;
    char first[400] = "";
    for (int c = 0; c < d->nconfigs; c++) {
        if (only >= 0 && c != only)
            continue;
        if (quick && d->config_quick && !d->config_quick(c))
            continue;
        for (int r = 0; r < reps; r++) {
            char path[64];
            mkdir("/verif/build", 0755);
            mkdir("/verif/build/tmp", 0755);
            snprintf(path, sizeof(path), "/verif/build/tmp/abtmc_free.%d", (int)getpid());
            int fd = open(path, O_RDWR | O_CREAT | O_TRUNC, 0600);
            unlink(path);
            pid_t p = fork();
            if (p == 0) {
                dup2(fd, 2);
                dup2(fd, 1);
                seed_ = seed * 7919u + (unsigned)(c * 131 + r);
                alarm(30);
                d->scenario(c);
                _exit(0);
            }
            int st;
            waitpid(p, &st, 0);
            runs++;
            char buf[4000];
            ssize_t n = pread(fd, buf, sizeof(buf) - 1, 0);
            if (n < 0)
                n = 0;
            buf[n] = 0;
            close(fd);
            int is_tsan = strstr(buf, "ThreadSanitizer: data race") != NULL;
            if (is_tsan) {
                tsan++;
                /* does the first access of the report lie in libabt (and not in
                 * the driver's own bookkeeping, which the controlled scheduler
                 * serialises but a free run does not)? */
                const char *q0 = strstr(buf, "ThreadSanitizer: data race");
                const char *f0 = q0 ? strstr(q0, "#0 ") : NULL;
                const char *nl = f0 ? strchr(f0, '\n') : NULL;
                int in_lib = 0;
                if (f0 && nl) {
                    size_t len = (size_t)(nl - f0);
                    char line[400];
                    if (len >= sizeof(line))
                        len = sizeof(line) - 1;
                    memcpy(line, f0, len);
                    line[len] = 0;
                    in_lib = strstr(line, "/src/") != NULL &&
                             strstr(line, "/verif/") == NULL;
                }
                if (in_lib)
                    tsan_lib++;
                if (in_lib && !first[0]) {
                    const char *q = strstr(buf, "ThreadSanitizer");
                    snprintf(first, sizeof(first), "cfg %d: %.300s", c, q);
                    for (char *z = first; *z; z++)
                        if (*z == '"' || *z == '\\' || (unsigned char)*z < 32)
                            *z = ' ';
                }
            } else if (WIFSIGNALED(st) && WTERMSIG(st) == SIGALRM)
                timeouts++;
            else if (WIFEXITED(st) && WEXITSTATUS(st) == 3)
                oracle++;
            else if (!(WIFEXITED(st) && WEXITSTATUS(st) == 0))
                other++;
        }
    }
    FILE *f = out ? fopen(out, "w") : stdout;
    fprintf(f, "{\"driver\":\"%s\",\"runs\":%ld,\"tsan_reports\":%ld,"
               "\"tsan_reports_in_libabt\":%ld,"
               "\"oracle_failures\":%ld,\"timeouts\":%ld,\"other_failures\":%ld,"
               "\"first_report\":\"%s\"}\n",
            d->name, runs, tsan, tsan_lib, oracle, timeouts, other, first);
    if (out)
        fclose(f);
    return 0;
}
