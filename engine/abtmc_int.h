/* abtmc_int.h -- shared between the in-child runtime and the explorer */
#ifndef ABTMC_INT_H_INCLUDED
#define ABTMC_INT_H_INCLUDED
#include <stdint.h>
#include "abtmc.h"

#define ABTMC_MAXDEV 64
#define ABTMC_MAXCP 16384
#define ABTMC_MAXALT 10
#define ABTMC_MAXT 8

typedef struct {
    uint32_t idx;
    uint16_t alt;
    uint16_t pad;
} abtmc_dev;

typedef struct {
    uint64_t fp;
    uint8_t nalt;
    uint8_t type; /* 0 sched, 1 choose */
    uint8_t altkind[ABTMC_MAXALT]; /* budget kind each alternative costs */
} abtmc_cp;

enum {
    ABTMC_ST_NONE = 0,
    ABTMC_ST_OK = 1,
    ABTMC_ST_VIOLATION = 2,
    ABTMC_ST_DEADLOCK = 3,
    ABTMC_ST_HORIZON = 4,
    ABTMC_ST_PRUNED = 5,
    ABTMC_ST_ENGINE = 6,
    ABTMC_ST_CRASH = 7, /* set by the parent */
    ABTMC_ST_TIMEOUT = 8 /* set by the parent */
};

typedef struct {
    volatile int status;
    char key[96];
    char msg[1024];
    uint32_t ncp;
    uint32_t first_new_cp;
    uint64_t nops;  /* hooked operations executed */
    uint64_t nsteps; /* scheduling steps inside the window */
    uint64_t newstates;
    uint32_t skipped_p; /* preemption alternatives seen but unaffordable */
    uint64_t tracehash;
    uint64_t thash[ABTMC_MAXT]; /* per-thread hash chains at the end */
    uint64_t tops[ABTMC_MAXT];  /* per-thread log lengths */
    int obslen;
    char obs[1024];
    int nstat;
    char statname[12][32];
    int64_t statval[12];
    abtmc_cp cp[ABTMC_MAXCP];
} abtmc_xrec;

typedef struct {
    uint64_t key;
    int32_t val; /* remaining P + 1; 0 = empty */
    int32_t pad;
} abtmc_centry;

typedef struct {
    /* set by the parent before fork */
    int active;
    int replay; /* 1: no cache, trace allowed */
    int trace;
    int ndev;
    abtmc_dev dev[ABTMC_MAXDEV];
    int bound[5]; /* indexed by budget kind */
    long horizon;
    abtmc_xrec *xr;
    abtmc_centry *cache;
    uint64_t cache_mask;
    int use_cache;
} abtmc_ctl;

extern abtmc_ctl abtmc_g;

void abtmc_rt_begin(void); /* called in the child on thread 0 before scenario */
void abtmc_rt_end(void);   /* scenario returned */

static inline uint64_t abtmc_mix(uint64_t h, uint64_t v)
{
    h ^= v + 0x9e3779b97f4a7c15ULL + (h << 6) + (h >> 2);
    h *= 0xff51afd7ed558ccdULL;
    h ^= h >> 32;
    return h;
}

#endif
