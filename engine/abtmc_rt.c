/* abtmc_rt.c -- in-child controlled scheduler, virtual time, pthread/futex
 * model, allocation ledger and fault injector (DESIGN.md 2.2, 2.4-2.8).
 *
 * Exactly one controlled thread runs at a time.  Every hooked operation of
 * libabt (atomics via abtmc_hooks.h, libc/pthread calls via objcopy
 * --redefine-syms) enters schedule() *before* it executes.
 *
 * This file is compiled without sanitizers and without the hook header.
 */
#define _GNU_SOURCE
#include <errno.h>
#include <limits.h>
#include <linux/futex.h>
#include <malloc.h>
#include <pthread.h>
#include <stdarg.h>
#include <stdio.h>
#include <stdlib.h>
#include <string.h>
#include <sys/mman.h>
#include <sys/syscall.h>
#include <sys/time.h>
#include <time.h>
#include <unistd.h>
#include <dlfcn.h>

#include "abtmc_int.h"

abtmc_ctl abtmc_g;

enum { K_LOAD = 1, K_STORE = 2, K_RMW = 3, K_CAS = 4, K_TAS = 5, K_FENCE = 6,
       K_CLOCK = 7, K_LIBC = 8, K_CHOOSE = 9 };
enum { W_NONE = 0, W_MUTEX, W_COND, W_FUTEX, W_JOIN, W_SPIN, W_BARRIER };
enum { ST_FREE = 0, ST_RUN = 1, ST_FIN = 2 };

#define LOGMAX 32768
#define WATCHMAX 384
#define SITEMAX 32
#define VBASE 1700000000.0
#define VTMAX (VBASE + 1.0e6)
#define Q0 1.0e-4

typedef struct {
    const void *addr;
    uint64_t before, after;
    uint8_t size, wrote, isclock;
} logent;

typedef struct {
    const void *addr;
    uint64_t val;
    uint8_t size;
} watchent;

typedef struct {
    int site;
    const void *ctx;
    int pos;
    int nper;
    uint64_t sig[12]; /* signatures of the last periods, newest first */
    int start[12];    /* log position where each of them started */
} siteent;

typedef struct cthr {
    int id, st;
    volatile int fx;
    pthread_t pt;
    void (*fn)(void *);
    void *(*pfn)(void *);
    void *arg, *ret;
    int wk;
    const void *waddr;
    int wtarget, wflag, timed, timedout;
    double deadline;
    uint64_t ticket, wgen;
    uint64_t h;
    uint64_t h2; /* address-free trace hash (replay determinism test) */
    /* pending op (trace) */
    int pkind;
    const void *paddr;
    unsigned psize;
    uint64_t pbefore[2];
    /* period log */
    logent *log;
    int loglen, logovf;
    siteent sites[SITEMAX];
    int nsites;
    watchent watch[WATCHMAX];
    int nwatch, forced, clockwatch;
    double clockval;
    int spin_site;
} cthr;

static cthr T[ABTMC_MAXT];
static int nthr, cur;
static __thread int my_tid = -1;
static int in_window;
static double vclock; /* seconds since VBASE */
static double quantum = Q0;
static int forced_rounds;
static long rem[5];
static int must_switch, cp_switching;
static uint64_t ticket_ctr;
static double cands[32];
static int ncands;
static int rand_range = 2;
static int step_ctr;
static int progress_ctr;
static int next_dev; /* index into abtmc_g.dev */

/* ---------------------------------------------------------------- utils */

static void sys_futex_wait(volatile int *p, int v)
{
    syscall(SYS_futex, p, FUTEX_WAIT, v, NULL, NULL, 0);
}
static void sys_futex_wake(volatile int *p)
{
    syscall(SYS_futex, p, FUTEX_WAKE, 1, NULL, NULL, 0);
}

static void finish(int status, const char *key, const char *fmt, va_list ap)
    __attribute__((noreturn));
static void finish(int status, const char *key, const char *fmt, va_list ap)
{
    abtmc_xrec *xr = abtmc_g.xr;
    if (xr) {
        if (key)
            snprintf(xr->key, sizeof(xr->key), "%s", key);
        if (fmt)
            vsnprintf(xr->msg, sizeof(xr->msg), fmt, ap);
        uint64_t th = 0;
        for (int i = 0; i < nthr; i++) {
            th = abtmc_mix(th, T[i].h2);
            xr->thash[i] = T[i].h2;
            xr->tops[i] = (uint64_t)T[i].loglen;
        }
        xr->tracehash = th;
        __atomic_store_n(&xr->status, status, __ATOMIC_SEQ_CST);
    }
    if (abtmc_g.trace && status != ABTMC_ST_OK && status != ABTMC_ST_PRUNED)
        fprintf(stderr, "[abtmc] status=%d key=%s msg=%s\n", status,
                key ? key : "", xr ? xr->msg : "");
    _exit(0);
}

static void finishf(int status, const char *key, const char *fmt, ...)
    __attribute__((noreturn, format(printf, 3, 4)));
static void finishf(int status, const char *key, const char *fmt, ...)
{
    va_list ap;
    va_start(ap, fmt);
    finish(status, key, fmt, ap);
}

#define ENGINE_FATAL(...) finishf(ABTMC_ST_ENGINE, "engine", __VA_ARGS__)

static const char *symname(const void *p, char *buf, size_t n)
{
    Dl_info di;
    if (p && dladdr(p, &di) && di.dli_sname) {
        snprintf(buf, n, "%s+0x%lx", di.dli_sname,
                 (unsigned long)((const char *)p - (const char *)di.dli_saddr));
    } else {
        snprintf(buf, n, "%p", p);
    }
    return buf;
}

void abtmc_tracef(const char *fmt, ...)
{
    if (!abtmc_g.trace)
        return;
    va_list ap;
    va_start(ap, fmt);
    fprintf(stderr, "[t%d] ", my_tid);
    vfprintf(stderr, fmt, ap);
    fputc('\n', stderr);
    va_end(ap);
}

static uint64_t readval(const void *addr, unsigned size)
{
    uint64_t v = 0;
    switch (size) {
        case 1: v = *(const volatile uint8_t *)addr; break;
        case 2: v = *(const volatile uint16_t *)addr; break;
        case 4: v = *(const volatile uint32_t *)addr; break;
        default: v = *(const volatile uint64_t *)addr; break;
    }
    return v;
}

/* --------------------------------------------------- location hash table */

typedef struct {
    const void *addr;
    uint64_t whash, raccum;
} locent;
#define LOCTAB (1 << 14)
static locent loctab[LOCTAB];
static int nloc;

static locent *loc_get(const void *addr)
{
    uint64_t h = abtmc_mix(0x1234, (uint64_t)(uintptr_t)addr) & (LOCTAB - 1);
    for (int i = 0; i < LOCTAB; i++) {
        locent *e = &loctab[(h + i) & (LOCTAB - 1)];
        if (e->addr == addr)
            return e;
        if (!e->addr) {
            if (nloc > LOCTAB / 2)
                ENGINE_FATAL("location table full");
            e->addr = addr;
            nloc++;
            return e;
        }
    }
    ENGINE_FATAL("location table full");
}

/* ------------------------------------------------------- pthread objects */

typedef struct {
    const void *addr;
    int owner; /* -1 free */
} mtxent;
typedef struct {
    const void *addr;
    int count, arrived;
    uint64_t gen;
} barent;
#define OBJMAX 256
static mtxent mtx[OBJMAX];
static int nmtx;
static barent bar[OBJMAX];
static int nbar;

static mtxent *mtx_get(const void *a)
{
    for (int i = 0; i < nmtx; i++)
        if (mtx[i].addr == a)
            return &mtx[i];
    if (nmtx >= OBJMAX)
        ENGINE_FATAL("too many mutexes");
    mtx[nmtx].addr = a;
    mtx[nmtx].owner = -1;
    return &mtx[nmtx++];
}
static barent *bar_get(const void *a)
{
    for (int i = 0; i < nbar; i++)
        if (bar[i].addr == a)
            return &bar[i];
    return NULL;
}

/* ------------------------------------------------------------ scheduling */

static void wake_event(void)
{
    quantum = Q0;
    forced_rounds = 0;
}

static int watch_changed(cthr *t, int *nonclock)
{
    *nonclock = 0;
    for (int i = 0; i < t->nwatch; i++) {
        watchent *w = &t->watch[i];
        if (readval(w->addr, w->size) != w->val) {
            *nonclock = 1;
            return 1;
        }
    }
    if (t->clockwatch && t->clockval != vclock)
        return 1;
    return 0;
}

static int enabled(cthr *t)
{
    if (t->st != ST_RUN)
        return 0;
    switch (t->wk) {
        case W_NONE:
            return 1;
        case W_MUTEX:
            return mtx_get(t->waddr)->owner == -1;
        case W_COND:
        case W_FUTEX:
            if (t->wflag)
                return 1;
            if (t->timed && vclock >= t->deadline) {
                return 1;
            }
            return 0;
        case W_JOIN:
            return T[t->wtarget].st == ST_FIN;
        case W_BARRIER: {
            barent *b = bar_get(t->waddr);
            return b && b->gen != t->wgen;
        }
        case W_SPIN: {
            if (t->forced)
                return 1;
            int nc;
            if (watch_changed(t, &nc)) {
                if (nc)
                    wake_event();
                return 1;
            }
            return 0;
        }
    }
    return 0;
}

static const char *wkname(int wk)
{
    static const char *n[] = { "run", "mutex", "cond", "futex", "join", "spin",
                               "barrier" };
    return n[wk];
}

static void describe_threads(char *buf, size_t n)
{
    size_t o = 0;
    for (int i = 0; i < nthr && o < n; i++) {
        cthr *t = &T[i];
        char sb[96];
        o += snprintf(buf + o, n - o, "t%d:%s", i,
                      t->st == ST_FIN ? "fin" : wkname(t->wk));
        if (t->st != ST_FIN && t->wk == W_SPIN && o < n)
            o += snprintf(buf + o, n - o, "(site%d,nw=%d%s)", t->spin_site,
                          t->nwatch, t->clockwatch ? ",clk" : "");
        else if (t->st != ST_FIN && t->wk != W_NONE && o < n)
            o += snprintf(buf + o, n - o, "(%s)",
                          symname(t->waddr, sb, sizeof(sb)));
        if (o < n)
            o += snprintf(buf + o, n - o, " ");
    }
}

/* next interesting time strictly after vclock, or -1 */
static double next_time_target(int *time_sensitive)
{
    double best = -1;
    *time_sensitive = 0;
    for (int i = 0; i < nthr; i++) {
        cthr *t = &T[i];
        if (t->st != ST_RUN)
            continue;
        if ((t->wk == W_COND || t->wk == W_FUTEX) && t->timed && !t->wflag) {
            *time_sensitive = 1;
            if (t->deadline > vclock && (best < 0 || t->deadline < best))
                best = t->deadline;
        }
        if (t->wk == W_SPIN && t->clockwatch)
            *time_sensitive = 1;
    }
    if (*time_sensitive) {
        for (int i = 0; i < ncands; i++)
            if (cands[i] > vclock && (best < 0 || cands[i] < best))
                best = cands[i];
    }
    return best;
}

/* nobody is enabled: advance time or release spinners; 0 = deadlock */
static int handle_stall(void)
{
    int ts;
    double target = next_time_target(&ts);
    if (ts) {
        int clockwatchers = 0;
        for (int i = 0; i < nthr; i++)
            if (T[i].st == ST_RUN && T[i].wk == W_SPIN && T[i].clockwatch)
                clockwatchers = 1;
        if (clockwatchers && (target < 0 || target > vclock + quantum)) {
            target = vclock + quantum;
            quantum *= 2;
        } else if (target >= 0) {
            target += 1.0e-6;
        }
        if (target >= 0) {
            if (target > VTMAX - VBASE)
                return 0;
            vclock = target;
            return 1;
        }
    }
    int any = 0;
    for (int i = 0; i < nthr; i++)
        if (T[i].st == ST_RUN && T[i].wk == W_SPIN)
            any = 1;
    if (any && forced_rounds < 4) {
        forced_rounds++;
        for (int i = 0; i < nthr; i++)
            if (T[i].st == ST_RUN && T[i].wk == W_SPIN)
                T[i].forced = 1;
        return 1;
    }
    return 0;
}

static uint64_t fingerprint(void)
{
    uint64_t f = 0xabcdef;
    for (int i = 0; i < nthr; i++) {
        f = abtmc_mix(f, T[i].h);
        f = abtmc_mix(f, (uint64_t)T[i].st * 16 + T[i].wk);
    }
    f = abtmc_mix(f, cur * 2 + cp_switching);
    uint64_t vb;
    memcpy(&vb, &vclock, 8);
    f = abtmc_mix(f, vb);
    return f;
}

/* returns 1 if pruned */
static int cache_check(uint64_t fp)
{
    if (!abtmc_g.use_cache || !abtmc_g.cache)
        return 0;
    uint64_t key = abtmc_mix(abtmc_mix(fp, rem[ABTMC_B_T]), rem[ABTMC_B_E]);
    if (key == 0)
        key = 1;
    int32_t mine = (int32_t)rem[ABTMC_B_P] + 1;
    uint64_t mask = abtmc_g.cache_mask;
    for (int i = 0; i < 128; i++) {
        abtmc_centry *e = &abtmc_g.cache[(key + i) & mask];
        uint64_t k = __atomic_load_n(&e->key, __ATOMIC_ACQUIRE);
        if (k == 0) {
            uint64_t exp = 0;
            if (__atomic_compare_exchange_n(&e->key, &exp, key, 0,
                                            __ATOMIC_ACQ_REL,
                                            __ATOMIC_ACQUIRE)) {
                __atomic_store_n(&e->val, mine, __ATOMIC_RELEASE);
                abtmc_g.xr->newstates++;
                return 0;
            }
            k = exp;
        }
        if (k == key) {
            int32_t v = __atomic_load_n(&e->val, __ATOMIC_ACQUIRE);
            while (v < mine) {
                if (__atomic_compare_exchange_n(&e->val, &v, mine, 0,
                                                __ATOMIC_ACQ_REL,
                                                __ATOMIC_ACQUIRE))
                    return 0;
            }
            return 1;
        }
    }
    return 0; /* table crowded: do not cache */
}

static int can_afford(int kind)
{
    if (kind == ABTMC_B_FREE)
        return 1;
    if (kind == ABTMC_B_PT)
        return rem[ABTMC_B_P] > 0 && rem[ABTMC_B_T] > 0;
    return rem[kind] > 0;
}
static void charge(int kind)
{
    if (kind == ABTMC_B_PT) {
        rem[ABTMC_B_P]--;
        rem[ABTMC_B_T]--;
    } else if (kind != ABTMC_B_FREE) {
        rem[kind]--;
    }
}

/* record a choice point with nalt alternatives; returns the alternative */
static int choice_point(int type, int nalt, const uint8_t *altkind)
{
    abtmc_xrec *xr = abtmc_g.xr;
    /* is any non-default alternative affordable? */
    int affordable = 0;
    for (int i = 1; i < nalt; i++)
        if (can_afford(altkind[i]))
            affordable = 1;
    if (!affordable) {
        for (int i = 1; i < nalt; i++)
            if (altkind[i] == ABTMC_B_P || altkind[i] == ABTMC_B_PT)
                xr->skipped_p = 1;
        return 0;
    }
    if (nalt > ABTMC_MAXALT)
        ENGINE_FATAL("too many alternatives (%d)", nalt);
    uint32_t idx = xr->ncp;
    if (idx >= ABTMC_MAXCP)
        finishf(ABTMC_ST_HORIZON, "horizon", "choice point table full");
    abtmc_cp *cp = &xr->cp[idx];
    cp->nalt = (uint8_t)nalt;
    cp->type = (uint8_t)type;
    memcpy(cp->altkind, altkind, nalt);
    cp->fp = fingerprint();
    if (type == 1)
        cp->fp = abtmc_mix(cp->fp, 0x77);
    xr->ncp = idx + 1;
    int alt = 0;
    if (next_dev < abtmc_g.ndev && abtmc_g.dev[next_dev].idx == idx) {
        alt = abtmc_g.dev[next_dev].alt;
        next_dev++;
        if (alt >= nalt)
            ENGINE_FATAL("replay divergence: cp %u has %d alternatives, "
                         "deviation wants %d",
                         idx, nalt, alt);
        if (!can_afford(altkind[alt]))
            ENGINE_FATAL("replay divergence: budget exhausted at cp %u", idx);
        charge(altkind[alt]);
    } else if (next_dev < abtmc_g.ndev && abtmc_g.dev[next_dev].idx < idx) {
        ENGINE_FATAL("replay divergence: deviation cp %u skipped (now %u)",
                     abtmc_g.dev[next_dev].idx, idx);
    } else if (next_dev >= abtmc_g.ndev) {
        /* beyond the prefix: state caching */
        if (cache_check(cp->fp)) {
            xr->ncp = idx; /* nothing to expand here */
            finishf(ABTMC_ST_PRUNED, NULL, "pruned");
        }
    }
    return alt;
}

static void switch_to(int next)
{
    int prev = cur;
    if (next == prev)
        return;
    cur = next;
    cthr *n = &T[next];
    __atomic_store_n(&n->fx, 1, __ATOMIC_SEQ_CST);
    sys_futex_wake(&n->fx);
    cthr *p = &T[prev];
    if (p->st == ST_FIN)
        return;
    while (__atomic_load_n(&p->fx, __ATOMIC_SEQ_CST) == 0)
        sys_futex_wait(&p->fx, 0);
    __atomic_store_n(&p->fx, 0, __ATOMIC_SEQ_CST);
}

static void schedule(void)
{
    for (;;) {
        int en[ABTMC_MAXT], n = 0;
        int cur_en = enabled(&T[cur]);
        int switching = 0;
        if (must_switch) {
            /* a timer was fired together with a preemption: somebody else runs */
            for (int i = 0; i < nthr; i++)
                if (i != cur && enabled(&T[i]))
                    en[n++] = i;
            must_switch = 0;
            if (n > 0)
                switching = 1;
        }
        if (!switching) {
            n = 0;
            if (cur_en)
                en[n++] = cur;
            for (int i = 0; i < nthr; i++)
                if (i != cur && enabled(&T[i]))
                    en[n++] = i;
        }
        if (n == 0) {
            if (T[0].st == ST_FIN)
                return; /* cannot happen: thread 0 ends the process */
            if (handle_stall())
                continue;
            char buf[700];
            describe_threads(buf, sizeof(buf));
            finishf(ABTMC_ST_DEADLOCK, "deadlock",
                    "no enabled thread: %s vclock=%.6f", buf, vclock);
        }
        int alt = 0;
        if (in_window) {
            uint8_t ak[ABTMC_MAXALT];
            int nalt = n;
            ak[0] = ABTMC_B_FREE;
            for (int i = 1; i < n; i++)
                ak[i] = (cur_en && !switching) ? ABTMC_B_P : ABTMC_B_FREE;
            int ts = 0;
            double target = -1;
            int tkind = 0;
            if (rem[ABTMC_B_T] > 0 && !switching) {
                target = next_time_target(&ts);
                if (ts && target >= 0) {
                    /* Firing a timer only matters right before a context
                     * switch or before the running thread reads the clock:
                     * "advance, then keep running" equals advancing later. */
                    if (!cur_en || T[cur].pkind == K_CLOCK)
                        tkind = ABTMC_B_T;
                    else if (nthr > 1)
                        tkind = ABTMC_B_PT;
                    if (tkind)
                        ak[nalt++] = (uint8_t)tkind;
                }
            }
            cp_switching = switching;
            if (nalt > 1)
                alt = choice_point(0, nalt, ak);
            cp_switching = 0;
            abtmc_g.xr->nsteps++;
            if (alt >= n) {
                /* fire the timer: advance virtual time, decide again */
                vclock = target + 1.0e-6;
                if (tkind == ABTMC_B_PT)
                    must_switch = 1;
                if (abtmc_g.trace)
                    fprintf(stderr, "[sched] time -> +%.6f%s\n", vclock,
                            must_switch ? " (and switch)" : "");
                continue;
            }
        }
        int next = en[alt];
        if (T[next].wk == W_SPIN)
            T[next].forced = 0;
        if (abtmc_g.trace && next != cur)
            fprintf(stderr, "[sched] t%d -> t%d\n", cur, next);
        switch_to(next);
        return;
    }
}

/* ---------------------------------------------------------- hooked ops */

static inline cthr *self(void)
{
    if (my_tid < 0)
        ENGINE_FATAL("hooked operation on an uncontrolled thread");
    return &T[my_tid];
}

static void count_op(void)
{
    abtmc_xrec *xr = abtmc_g.xr;
    if ((long)++xr->nops > abtmc_g.horizon) {
        char buf[700];
        describe_threads(buf, sizeof(buf));
        finishf(ABTMC_ST_HORIZON, "horizon",
                "operation horizon %ld exceeded: %s", abtmc_g.horizon, buf);
    }
}

static void (*invariant_fn)(void);
static int in_invariant;

void abtmc_pre(const volatile void *addr, unsigned size, int kind)
{
    if (!abtmc_g.active)
        return;
    cthr *t = self();
    count_op();
    t->pkind = kind;
    t->paddr = (const void *)addr;
    t->psize = size;
    t->wk = W_NONE;
    schedule();
    if (size == 16) {
        t->pbefore[0] = readval((const void *)addr, 8);
        t->pbefore[1] = readval((const char *)addr + 8, 8);
    } else {
        t->pbefore[0] = readval((const void *)addr, size);
    }
}

static void log_access(cthr *t, const void *addr, unsigned size,
                       uint64_t before, uint64_t after, int wrote, int isclock)
{
    if (t->loglen >= LOGMAX) {
        t->logovf = 1;
        return;
    }
    logent *e = &t->log[t->loglen++];
    e->addr = addr;
    e->size = (uint8_t)size;
    e->before = before;
    e->after = after;
    e->wrote = (uint8_t)wrote;
    e->isclock = (uint8_t)isclock;
}

static void hash_access(cthr *t, const void *addr, int kind, int wrote,
                        uint64_t val)
{
    /* h2: operation kinds and small (non-pointer) values only, so that two
     * replays of one schedule agree even if the heap layout differs */
    t->h2 = abtmc_mix(t->h2, (uint64_t)kind * 4 + (wrote ? 1 : 0));
    t->h2 = abtmc_mix(t->h2, val < (1u << 20) ? val : 0xdead);
    locent *le = loc_get(addr);
    if (wrote) {
        uint64_t h = abtmc_mix(t->h, (uint64_t)kind * 2 + 1);
        h = abtmc_mix(h, (uint64_t)(uintptr_t)addr);
        h = abtmc_mix(h, le->whash);
        h = abtmc_mix(h, le->raccum);
        h = abtmc_mix(h, val);
        t->h = h;
        le->whash = h;
        le->raccum = 0;
    } else {
        uint64_t h = abtmc_mix(t->h, K_LOAD * 2);
        h = abtmc_mix(h, (uint64_t)(uintptr_t)addr);
        h = abtmc_mix(h, le->whash);
        h = abtmc_mix(h, val);
        t->h = h;
        le->raccum ^= h;
    }
}

void abtmc_post(const volatile void *vaddr, unsigned size, int kind, int wrote)
{
    if (!abtmc_g.active)
        return;
    cthr *t = self();
    const void *addr = (const void *)vaddr;
    if (size == 16) {
        uint64_t a0 = readval(addr, 8), a1 = readval((const char *)addr + 8, 8);
        log_access(t, addr, 8, t->pbefore[0], a0, wrote, 0);
        log_access(t, (const char *)addr + 8, 8, t->pbefore[1], a1, wrote, 0);
        hash_access(t, addr, kind, wrote, a0);
        hash_access(t, (const char *)addr + 8, kind, wrote, a1);
        if (abtmc_g.trace) {
            char sb[128];
            fprintf(stderr, "[t%d] cas16 %p %s %s\n", t->id, addr,
                    wrote ? "ok" : "fail",
                    symname(__builtin_return_address(0), sb, sizeof(sb)));
        }
        return;
    }
    uint64_t after = readval(addr, size);
    log_access(t, addr, size, t->pbefore[0], after, wrote, 0);
    hash_access(t, addr, kind, wrote, after);
    if (abtmc_g.trace) {
        static const char *kn[] = { "?", "load", "store", "rmw", "cas", "tas",
                                    "fence" };
        char sb[128];
        fprintf(stderr, "[t%d] %-5s %p/%u %llx -> %llx%s  %s\n", t->id,
                kn[kind], addr, size, (unsigned long long)t->pbefore[0],
                (unsigned long long)after,
                (kind == K_CAS || kind == K_TAS) ? (wrote ? " ok" : " fail")
                                                 : "",
                symname(__builtin_return_address(0), sb, sizeof(sb)));
    }
    if (wrote && invariant_fn && in_window && !in_invariant) {
        /* global invariant: evaluated in the state right after every write */
        in_invariant = 1;
        invariant_fn();
        in_invariant = 0;
    }
}

void abtmc_set_invariant(void (*fn)(void))
{
    invariant_fn = fn;
}

void abtmc_after_release(const volatile void *addr)
{
    if (!abtmc_g.active)
        return;
    cthr *t = self();
    (void)addr;
    count_op();
    t->pkind = K_LIBC;
    t->wk = W_NONE;
    schedule();
    /* the plain code that follows is a step of its own: the state at the next
     * scheduling point of this thread differs from the one just passed */
    t->h = abtmc_mix(t->h, 0x5700);
}

/* a scheduling point for a libc-level operation (no memory location) */
static cthr *libc_point(int tag, const void *obj)
{
    cthr *t = self();
    count_op();
    t->pkind = K_LIBC;
    t->paddr = obj;
    t->wk = W_NONE;
    schedule();
    t->h = abtmc_mix(abtmc_mix(t->h, 0x5000 + tag), (uint64_t)(uintptr_t)obj);
    t->h2 = abtmc_mix(t->h2, 0x5000 + tag);
    /* order libc-level operations on the same object in the HB hash */
    locent *le = loc_get(obj ? obj : (const void *)&nthr);
    t->h = abtmc_mix(abtmc_mix(t->h, le->whash), le->raccum);
    le->whash = t->h;
    le->raccum = 0;
    if (abtmc_g.trace) {
        static const char *tn[] = { "?", "mutex_lock", "mutex_unlock",
                                    "cond_wait", "cond_signal", "cond_bcast",
                                    "futex_wait", "futex_wake", "thr_create",
                                    "thr_join", "barrier", "mutex_trylock",
                                    "thr_start", "thr_exit" };
        fprintf(stderr, "[t%d] %s %p\n", t->id, tn[tag], obj);
    }
    return t;
}

/* ---------------------------------------------------------- spin hints */

/* A thread that calls abtmc_spin_hint(site, ctx) once per iteration of a wait
 * loop is put to sleep ("spin-blocked") when it demonstrably goes round in
 * circles: the sequence of hooked accesses (address, kind, value) of its last
 * k periods equals that of the k periods before (k = 1..CYCMAX: a scheduler
 * loop rotating through k yielding ULTs has period k), and everything it
 * wrote during the cycle has been restored.  It is woken when any location it
 * read during the cycle holds a different value (or the virtual clock moved,
 * if it read the clock). */
#define CYCMAX 6

static uint64_t period_signature(cthr *t, int from, int to)
{
    uint64_t h = 0x51;
    for (int i = from; i < to; i++) {
        logent *e = &t->log[i];
        if (e->isclock) {
            h = abtmc_mix(h, 0xc10c);
            continue;
        }
        h = abtmc_mix(h, (uint64_t)(uintptr_t)e->addr);
        h = abtmc_mix(h, ((uint64_t)e->size << 8) | e->wrote);
        h = abtmc_mix(h, e->after);
    }
    return abtmc_mix(h, (uint64_t)(to - from));
}

void abtmc_spin_hint(int site, const void *ctx)
{
    if (!abtmc_g.active)
        return;
    cthr *t = self();
    siteent *s = NULL;
    for (int i = 0; i < t->nsites; i++)
        if (t->sites[i].site == site && t->sites[i].ctx == ctx)
            s = &t->sites[i];
    if (!s) {
        if (t->nsites >= SITEMAX) {
            /* recycle the oldest entry */
            memmove(&t->sites[0], &t->sites[1],
                    sizeof(siteent) * (SITEMAX - 1));
            t->nsites--;
        }
        s = &t->sites[t->nsites++];
        memset(s, 0, sizeof(*s));
        s->site = site;
        s->ctx = ctx;
        s->pos = t->loglen;
        return; /* first visit: the period starts here */
    }
    if (t->logovf)
        return;
    /* close the current period and remember its signature */
    int pstart = s->pos;
    s->pos = t->loglen;
    memmove(&s->sig[1], &s->sig[0], sizeof(s->sig[0]) * (2 * CYCMAX - 1));
    memmove(&s->start[1], &s->start[0], sizeof(s->start[0]) * (2 * CYCMAX - 1));
    s->sig[0] = period_signature(t, pstart, t->loglen);
    s->start[0] = pstart;
    if (s->nper < 2 * CYCMAX)
        s->nper++;
    /* smallest k such that the last k periods repeat the k before them */
    int k = 0;
    for (int c = 1; c <= CYCMAX && 2 * c <= s->nper; c++) {
        int same = 1;
        for (int i = 0; i < c; i++)
            if (s->sig[i] != s->sig[i + c])
                same = 0;
        if (same) {
            k = c;
            break;
        }
    }
    if (!k)
        return; /* still making (apparent) progress */
    int pos = s->start[k - 1];
    /* build the watch set from log[pos..loglen) */
    t->nwatch = 0;
    t->clockwatch = 0;
    for (int i = pos; i < t->loglen; i++) {
        logent *e = &t->log[i];
        if (e->isclock) {
            t->clockwatch = 1;
            continue;
        }
        int j;
        for (j = 0; j < t->nwatch; j++)
            if (t->watch[j].addr == e->addr)
                break;
        if (j == t->nwatch) {
            if (t->nwatch >= WATCHMAX)
                return; /* cycle too long: do not block */
            t->watch[j].addr = e->addr;
            t->watch[j].size = e->size;
            t->nwatch++;
        }
        t->watch[j].val = e->after;
    }
    /* net identity of own writes: value before first write == value now */
    for (int j = 0; j < t->nwatch; j++) {
        const void *a = t->watch[j].addr;
        int wrote = 0, have = 0;
        uint64_t first_before = 0;
        for (int i = pos; i < t->loglen; i++) {
            logent *e = &t->log[i];
            if (e->isclock || e->addr != a)
                continue;
            if (!have) {
                first_before = e->before;
                have = 1;
            }
            if (e->wrote)
                wrote = 1;
        }
        if (wrote && first_before != readval(a, t->watch[j].size)) {
            wake_event();
            return; /* the cycle changed something: progress */
        }
    }
    if (t->nwatch == 0 && !t->clockwatch) {
        /* nothing hooked was observed: wait for any progress marker */
        t->watch[0].addr = &progress_ctr;
        t->watch[0].size = 4;
        t->watch[0].val = (uint32_t)progress_ctr;
        t->nwatch = 1;
    }
    t->clockval = vclock;
    t->spin_site = site;
    count_op();
    t->wk = W_SPIN;
    t->forced = 0;
    t->pkind = K_LIBC;
    if (abtmc_g.trace)
        fprintf(stderr, "[t%d] spin-block site=%d cycle=%d nwatch=%d clk=%d\n",
                t->id, site, k, t->nwatch, t->clockwatch);
    schedule();
    t->wk = W_NONE;
    t->h = abtmc_mix(t->h, 0x6000 + site);
    t->h2 = abtmc_mix(t->h2, 0x6000 + site);
}

/* ------------------------------------------------------- thread control */

static cthr *new_thread(void)
{
    if (nthr >= ABTMC_MAXT)
        ENGINE_FATAL("too many controlled threads");
    cthr *t = &T[nthr];
    memset(t, 0, sizeof(*t));
    t->id = nthr;
    t->st = ST_RUN;
    t->h = abtmc_mix(0x1000, nthr);
    t->log = (logent *)mmap(NULL, sizeof(logent) * LOGMAX, PROT_READ | PROT_WRITE,
                            MAP_PRIVATE | MAP_ANONYMOUS, -1, 0);
    if (t->log == MAP_FAILED)
        ENGINE_FATAL("mmap log");
    nthr++;
    return t;
}

static void *tramp(void *p)
{
    cthr *t = (cthr *)p;
    my_tid = t->id;
    while (__atomic_load_n(&t->fx, __ATOMIC_SEQ_CST) == 0)
        sys_futex_wait(&t->fx, 0);
    __atomic_store_n(&t->fx, 0, __ATOMIC_SEQ_CST);
    if (abtmc_g.trace)
        fprintf(stderr, "[t%d] started\n", t->id);
    if (t->pfn)
        t->ret = t->pfn(t->arg);
    else
        t->fn(t->arg);
    /* thread exit is a visible event */
    count_op();
    t->st = ST_FIN;
    wake_event();
    if (abtmc_g.trace)
        fprintf(stderr, "[t%d] finished\n", t->id);
    schedule();
    return t->ret;
}

static int spawn(cthr *t)
{
    pthread_attr_t at;
    pthread_attr_init(&at);
    pthread_attr_setstacksize(&at, 1 << 20);
    int r = pthread_create(&t->pt, &at, tramp, t);
    pthread_attr_destroy(&at);
    return r;
}

int abtmc_thread_create(void (*fn)(void *), void *arg)
{
    cthr *me = libc_point(8, NULL);
    cthr *t = new_thread();
    t->fn = fn;
    t->arg = arg;
    me->h = abtmc_mix(me->h, 0x7000 + t->id);
    t->h = abtmc_mix(t->h, me->h);
    if (spawn(t) != 0)
        ENGINE_FATAL("pthread_create failed");
    return t->id;
}

void abtmc_thread_join(int tid)
{
    cthr *t = self();
    count_op();
    t->wk = W_JOIN;
    t->wtarget = tid;
    t->pkind = K_LIBC;
    schedule();
    t->wk = W_NONE;
    t->h = abtmc_mix(abtmc_mix(t->h, 0x7100), T[tid].h);
    pthread_join(T[tid].pt, NULL);
}

int abtmc_self(void)
{
    return my_tid;
}

/* ------------------------------------------------- fault injector/ledger */

typedef struct {
    void *ptr;
    size_t size;
    int kind;
    long seq;
} ledent;
#define LEDMAX 16384
static ledent led[LEDMAX];
static long led_live, led_live_bytes, led_acq, led_badfree;
static int fail_mask;
static long fail_n, fail_count;
static int fault_fired;

static int should_fail(int kind)
{
    led_acq++;
    if (fail_n > 0 && (fail_mask & kind)) {
        if (++fail_count == fail_n) {
            fault_fired = 1;
            fail_n = 0;
            if (abtmc_g.trace)
                fprintf(stderr, "[t%d] FAULT injected kind=%d\n", my_tid, kind);
            return 1;
        }
    }
    return 0;
}

static void led_add(void *p, size_t size, int kind)
{
    uint64_t h = abtmc_mix(0x99, (uint64_t)(uintptr_t)p) & (LEDMAX - 1);
    for (int i = 0; i < LEDMAX; i++) {
        ledent *e = &led[(h + i) & (LEDMAX - 1)];
        if (e->ptr == NULL || e->ptr == (void *)-1) {
            e->ptr = p;
            e->size = size;
            e->kind = kind;
            e->seq = led_acq;
            led_live++;
            led_live_bytes += size;
            return;
        }
    }
    ENGINE_FATAL("ledger full");
}

static ledent *led_find(void *p, int kindmask)
{
    uint64_t h = abtmc_mix(0x99, (uint64_t)(uintptr_t)p) & (LEDMAX - 1);
    for (int i = 0; i < LEDMAX; i++) {
        ledent *e = &led[(h + i) & (LEDMAX - 1)];
        if (e->ptr == p && (e->kind & kindmask))
            return e;
        if (e->ptr == NULL)
            return NULL;
    }
    return NULL;
}

static int led_del(void *p, int kind)
{
    ledent *e = led_find(p, kind);
    if (!e)
        return 0;
    led_live--;
    led_live_bytes -= e->size;
    e->ptr = (void *)-1;
    return 1;
}

long abtmc_ledger_live(void) { return led_live; }
long abtmc_ledger_live_bytes(void) { return led_live_bytes; }
long abtmc_ledger_acquisitions(void) { return led_acq; }
long abtmc_ledger_bad_frees(void) { return led_badfree; }
int abtmc_fault_fired(void) { return fault_fired; }
void abtmc_fail_nth(int mask, long n)
{
    fail_mask = mask;
    fail_n = n;
    fail_count = 0;
    fault_fired = 0;
}
int abtmc_ledger_blocks(void **ptrs, size_t *sizes, int max)
{
    int n = 0;
    for (int i = 0; i < LEDMAX; i++) {
        ledent *e = &led[i];
        if (e->ptr && e->ptr != (void *)-1) {
            if (n < max) {
                ptrs[n] = e->ptr;
                sizes[n] = e->size;
            }
            n++;
        }
    }
    return n;
}
int abtmc_ledger_find(const void *p, void **base, size_t *size)
{
    for (int i = 0; i < LEDMAX; i++) {
        ledent *e = &led[i];
        if (e->ptr && e->ptr != (void *)-1 && (const char *)p >= (char *)e->ptr &&
            (const char *)p < (char *)e->ptr + e->size) {
            if (base)
                *base = e->ptr;
            if (size)
                *size = e->size;
            return 1;
        }
    }
    return 0;
}

/* purge watch entries inside a range that is going away */
static void purge_range(const void *p, size_t n)
{
    for (int i = 0; i < nthr; i++) {
        cthr *t = &T[i];
        if (t->st != ST_RUN || t->wk != W_SPIN)
            continue;
        for (int j = 0; j < t->nwatch; j++) {
            const char *a = (const char *)t->watch[j].addr;
            if (a >= (const char *)p && a < (const char *)p + n) {
                t->forced = 1;
                t->watch[j] = t->watch[--t->nwatch];
                j--;
            }
        }
    }
}

void *abtmc_malloc(size_t n)
{
    if (!abtmc_g.active)
        return malloc(n);
    if (should_fail(ABTMC_R_MALLOC))
        return NULL;
    void *p = malloc(n);
    if (p)
        led_add(p, n, ABTMC_R_MALLOC);
    return p;
}
void *abtmc_calloc(size_t a, size_t b)
{
    if (!abtmc_g.active)
        return calloc(a, b);
    if (should_fail(ABTMC_R_MALLOC))
        return NULL;
    void *p = calloc(a, b);
    if (p)
        led_add(p, a * b, ABTMC_R_MALLOC);
    return p;
}
void *abtmc_realloc(void *o, size_t n)
{
    if (!abtmc_g.active)
        return realloc(o, n);
    if (should_fail(ABTMC_R_MALLOC))
        return NULL;
    if (o && !led_del(o, ABTMC_R_MALLOC))
        led_badfree++;
    void *p = realloc(o, n);
    if (p)
        led_add(p, n, ABTMC_R_MALLOC);
    return p;
}
int abtmc_posix_memalign(void **pp, size_t al, size_t n)
{
    if (!abtmc_g.active)
        return posix_memalign(pp, al, n);
    if (should_fail(ABTMC_R_MALLOC))
        return ENOMEM;
    int r = posix_memalign(pp, al, n);
    if (r == 0)
        led_add(*pp, n, ABTMC_R_MALLOC);
    return r;
}
void abtmc_free(void *p)
{
    if (!abtmc_g.active) {
        free(p);
        return;
    }
    if (!p)
        return;
    ledent *e = led_find(p, ABTMC_R_MALLOC);
    if (!e) {
        led_badfree++;
        finishf(ABTMC_ST_VIOLATION, "bad_free",
                "libabt freed %p which is not a live block it allocated "
                "(double free or interior pointer)",
                p);
    }
    purge_range(p, e->size);
    led_del(p, ABTMC_R_MALLOC);
    free(p);
}
void *abtmc_mmap(void *a, size_t n, int prot, int flags, int fd, off_t off)
{
    if (!abtmc_g.active)
        return mmap(a, n, prot, flags, fd, off);
    if (should_fail(ABTMC_R_MMAP)) {
        errno = ENOMEM;
        return MAP_FAILED;
    }
    void *p = mmap(a, n, prot, flags, fd, off);
    if (p != MAP_FAILED)
        led_add(p, n, ABTMC_R_MMAP);
    return p;
}
int abtmc_munmap(void *p, size_t n)
{
    if (!abtmc_g.active)
        return munmap(p, n);
    ledent *e = led_find(p, ABTMC_R_MMAP);
    if (!e || e->size != n) {
        led_badfree++;
        finishf(ABTMC_ST_VIOLATION, "bad_munmap",
                "libabt munmap(%p,%zu) does not match a live mapping", p, n);
    }
    purge_range(p, n);
    led_del(p, ABTMC_R_MMAP);
    return munmap(p, n);
}

/* ----------------------------------------------------- pthread wrappers */

static void do_mutex_lock(cthr *t, const void *m)
{
    count_op();
    t->wk = W_MUTEX;
    t->waddr = m;
    t->pkind = K_LIBC;
    schedule();
    t->wk = W_NONE;
    mtxent *e = mtx_get(m);
    if (e->owner != -1)
        ENGINE_FATAL("mutex model: scheduled while locked");
    e->owner = t->id;
    locent *le = loc_get(m);
    t->h = abtmc_mix(abtmc_mix(t->h, 0x5101), le->whash);
    le->whash = t->h;
    if (abtmc_g.trace)
        fprintf(stderr, "[t%d] mutex_lock %p\n", t->id, m);
}

int abtmc_pthread_mutex_lock(pthread_mutex_t *m)
{
    if (!abtmc_g.active)
        return pthread_mutex_lock(m);
    do_mutex_lock(self(), m);
    return 0;
}
int abtmc_pthread_mutex_trylock(pthread_mutex_t *m)
{
    if (!abtmc_g.active)
        return pthread_mutex_trylock(m);
    cthr *t = libc_point(11, m);
    mtxent *e = mtx_get(m);
    if (e->owner != -1)
        return EBUSY;
    e->owner = t->id;
    return 0;
}
static void do_mutex_unlock(cthr *t, const void *m)
{
    mtxent *e = mtx_get(m);
    if (e->owner != t->id)
        ENGINE_FATAL("mutex model: unlock by non-owner (owner %d)", e->owner);
    e->owner = -1;
    for (int i = 0; i < nthr; i++)
        if (T[i].st == ST_RUN && T[i].wk == W_MUTEX && T[i].waddr == m)
            wake_event();
}
int abtmc_pthread_mutex_unlock(pthread_mutex_t *m)
{
    if (!abtmc_g.active)
        return pthread_mutex_unlock(m);
    cthr *t = libc_point(2, m);
    do_mutex_unlock(t, m);
    abtmc_after_release(m);
    return 0;
}
int abtmc_pthread_mutex_init(pthread_mutex_t *m, const pthread_mutexattr_t *a)
{
    if (!abtmc_g.active)
        return pthread_mutex_init(m, a);
    if (should_fail(ABTMC_R_SYNCOBJ))
        return EAGAIN;
    led_add(m, 0, ABTMC_R_SYNCOBJ);
    mtx_get(m)->owner = -1;
    return pthread_mutex_init(m, a);
}
int abtmc_pthread_mutex_destroy(pthread_mutex_t *m)
{
    if (!abtmc_g.active)
        return pthread_mutex_destroy(m);
    if (!led_del(m, ABTMC_R_SYNCOBJ))
        finishf(ABTMC_ST_VIOLATION, "bad_destroy",
                "pthread_mutex_destroy(%p) of an object not initialised",
                (void *)m);
    return pthread_mutex_destroy(m);
}
int abtmc_pthread_cond_init(pthread_cond_t *c, const pthread_condattr_t *a)
{
    if (!abtmc_g.active)
        return pthread_cond_init(c, a);
    if (should_fail(ABTMC_R_SYNCOBJ))
        return EAGAIN;
    led_add(c, 0, ABTMC_R_SYNCOBJ);
    return pthread_cond_init(c, a);
}
int abtmc_pthread_cond_destroy(pthread_cond_t *c)
{
    if (!abtmc_g.active)
        return pthread_cond_destroy(c);
    if (!led_del(c, ABTMC_R_SYNCOBJ))
        finishf(ABTMC_ST_VIOLATION, "bad_destroy",
                "pthread_cond_destroy(%p) of an object not initialised",
                (void *)c);
    for (int i = 0; i < nthr; i++)
        if (T[i].st == ST_RUN && T[i].wk == W_COND && T[i].waddr == c)
            finishf(ABTMC_ST_VIOLATION, "cond_destroy_busy",
                    "pthread_cond_destroy(%p) with a waiter", (void *)c);
    return pthread_cond_destroy(c);
}

static int cond_wait_common(pthread_cond_t *c, pthread_mutex_t *m, int timed,
                            double deadline)
{
    cthr *t = libc_point(3, c);
    /* atomically release and wait */
    do_mutex_unlock(t, m);
    count_op();
    t->wk = W_COND;
    t->waddr = c;
    t->wflag = 0;
    t->timed = timed;
    t->deadline = deadline;
    t->ticket = ++ticket_ctr;
    schedule();
    t->wk = W_NONE;
    int r = t->wflag ? 0 : ETIMEDOUT;
    t->timed = 0;
    t->h = abtmc_mix(t->h, 0x5200 + r);
    if (abtmc_g.trace)
        fprintf(stderr, "[t%d] cond_wait %p -> %s\n", t->id, (void *)c,
                r ? "timeout" : "signalled");
    do_mutex_lock(t, m);
    return r;
}
int abtmc_pthread_cond_wait(pthread_cond_t *c, pthread_mutex_t *m)
{
    if (!abtmc_g.active)
        return pthread_cond_wait(c, m);
    return cond_wait_common(c, m, 0, 0);
}
int abtmc_pthread_cond_timedwait(pthread_cond_t *c, pthread_mutex_t *m,
                                 const struct timespec *ts)
{
    if (!abtmc_g.active)
        return pthread_cond_timedwait(c, m, ts);
    double d = ((double)ts->tv_sec - VBASE) + (double)ts->tv_nsec * 1e-9;
    return cond_wait_common(c, m, 1, d);
}
static void cond_wake(cthr *me, const void *c, int all)
{
    for (;;) {
        cthr *best = NULL;
        for (int i = 0; i < nthr; i++) {
            cthr *t = &T[i];
            if (t->st == ST_RUN && t->wk == W_COND && t->waddr == c &&
                !t->wflag && (!best || t->ticket < best->ticket))
                best = t;
        }
        if (!best)
            break;
        best->wflag = 1;
        best->h = abtmc_mix(best->h, me->h);
        wake_event();
        if (!all)
            break;
    }
}
int abtmc_pthread_cond_signal(pthread_cond_t *c)
{
    if (!abtmc_g.active)
        return pthread_cond_signal(c);
    cthr *t = libc_point(4, c);
    cond_wake(t, c, 0);
    return 0;
}
int abtmc_pthread_cond_broadcast(pthread_cond_t *c)
{
    if (!abtmc_g.active)
        return pthread_cond_broadcast(c);
    cthr *t = libc_point(5, c);
    cond_wake(t, c, 1);
    return 0;
}

int abtmc_pthread_barrier_init(pthread_barrier_t *b,
                               const pthread_barrierattr_t *a, unsigned n)
{
    if (!abtmc_g.active)
        return pthread_barrier_init(b, a, n);
    (void)a;
    if (should_fail(ABTMC_R_SYNCOBJ))
        return EAGAIN;
    if (n == 0)
        return EINVAL;
    led_add(b, 0, ABTMC_R_SYNCOBJ);
    barent *e = bar_get(b);
    if (!e) {
        if (nbar >= OBJMAX)
            ENGINE_FATAL("too many barriers");
        e = &bar[nbar++];
    }
    e->addr = b;
    e->count = (int)n;
    e->arrived = 0;
    e->gen = 1;
    return 0;
}
int abtmc_pthread_barrier_destroy(pthread_barrier_t *b)
{
    if (!abtmc_g.active)
        return pthread_barrier_destroy(b);
    if (!led_del(b, ABTMC_R_SYNCOBJ))
        finishf(ABTMC_ST_VIOLATION, "bad_destroy",
                "pthread_barrier_destroy(%p) of an object not initialised",
                (void *)b);
    barent *e = bar_get(b);
    if (e && e->arrived)
        finishf(ABTMC_ST_VIOLATION, "barrier_destroy_busy",
                "pthread_barrier_destroy(%p) with waiters", (void *)b);
    if (e)
        e->addr = NULL;
    return 0;
}
int abtmc_pthread_barrier_wait(pthread_barrier_t *b)
{
    if (!abtmc_g.active)
        return pthread_barrier_wait(b);
    cthr *t = libc_point(10, b);
    barent *e = bar_get(b);
    if (!e)
        ENGINE_FATAL("barrier_wait on unknown barrier");
    if (e->arrived + 1 == e->count) {
        e->arrived = 0;
        e->gen++;
        wake_event();
        return PTHREAD_BARRIER_SERIAL_THREAD;
    }
    e->arrived++;
    count_op();
    t->wk = W_BARRIER;
    t->waddr = b;
    t->wgen = e->gen;
    schedule();
    t->wk = W_NONE;
    t->h = abtmc_mix(t->h, 0x5300);
    return 0;
}

int abtmc_pthread_create(pthread_t *pt, const pthread_attr_t *attr,
                         void *(*fn)(void *), void *arg)
{
    if (!abtmc_g.active)
        return pthread_create(pt, attr, fn, arg);
    (void)attr;
    cthr *me = libc_point(8, NULL);
    if (should_fail(ABTMC_R_PTHREAD))
        return EAGAIN;
    cthr *t = new_thread();
    t->pfn = fn;
    t->arg = arg;
    me->h = abtmc_mix(me->h, 0x7000 + t->id);
    t->h = abtmc_mix(t->h, me->h);
    if (spawn(t) != 0)
        ENGINE_FATAL("pthread_create failed");
    *pt = t->pt;
    led_add((void *)(uintptr_t)(0x100000 + t->id), 0, ABTMC_R_PTHREAD);
    return 0;
}
int abtmc_pthread_join(pthread_t pt, void **ret)
{
    if (!abtmc_g.active)
        return pthread_join(pt, ret);
    cthr *t = self();
    int target = -1;
    for (int i = 0; i < nthr; i++)
        if (T[i].pfn && pthread_equal(T[i].pt, pt))
            target = i;
    if (target < 0)
        ENGINE_FATAL("pthread_join of unknown thread");
    count_op();
    t->wk = W_JOIN;
    t->wtarget = target;
    t->pkind = K_LIBC;
    schedule();
    t->wk = W_NONE;
    t->h = abtmc_mix(abtmc_mix(t->h, 0x7100), T[target].h);
    led_del((void *)(uintptr_t)(0x100000 + target), ABTMC_R_PTHREAD);
    if (abtmc_g.trace)
        fprintf(stderr, "[t%d] joined t%d\n", t->id, target);
    return pthread_join(pt, ret);
}

/* ---------------------------------------------------------------- futex */

long abtmc_syscall(long nr, long a1, long a2, long a3, long a4, long a5,
                   long a6)
{
    if (!abtmc_g.active || nr != SYS_futex)
        return syscall(nr, a1, a2, a3, a4, a5, a6);
    int *addr = (int *)a1;
    int op = (int)a2 & ~FUTEX_PRIVATE_FLAG;
    int val = (int)a3;
    if (op == FUTEX_WAIT) {
        cthr *t = libc_point(6, addr);
        /* the kernel's value check is atomic with going to sleep */
        uint64_t cv = readval(addr, 4);
        log_access(t, addr, 4, cv, cv, 0, 0);
        hash_access(t, addr, K_LOAD, 0, cv);
        if ((int)cv != val) {
            errno = EAGAIN;
            return -1;
        }
        const struct timespec *ts = (const struct timespec *)a4;
        count_op();
        t->wk = W_FUTEX;
        t->waddr = addr;
        t->wflag = 0;
        t->ticket = ++ticket_ctr;
        t->timed = ts != NULL;
        if (ts)
            t->deadline =
                vclock + (double)ts->tv_sec + (double)ts->tv_nsec * 1e-9;
        schedule();
        t->wk = W_NONE;
        int woken = t->wflag;
        t->timed = 0;
        t->h = abtmc_mix(t->h, 0x5400 + woken);
        if (abtmc_g.trace)
            fprintf(stderr, "[t%d] futex_wait %p -> %s\n", t->id, (void *)addr,
                    woken ? "woken" : "timeout");
        if (!woken) {
            errno = ETIMEDOUT;
            return -1;
        }
        return 0;
    } else if (op == FUTEX_WAKE) {
        cthr *me = libc_point(7, addr);
        int n = 0;
        while (n < val) {
            cthr *best = NULL;
            for (int i = 0; i < nthr; i++) {
                cthr *t = &T[i];
                if (t->st == ST_RUN && t->wk == W_FUTEX && t->waddr == addr &&
                    !t->wflag && (!best || t->ticket < best->ticket))
                    best = t;
            }
            if (!best)
                break;
            best->wflag = 1;
            best->h = abtmc_mix(best->h, me->h);
            wake_event();
            n++;
        }
        return n;
    }
    ENGINE_FATAL("unsupported futex op %d", op);
}

/* --------------------------------------------------------- virtual time */

static void clock_read(void)
{
    cthr *t = self();
    count_op();
    t->pkind = K_CLOCK;
    t->wk = W_NONE;
    schedule();
    uint64_t vb;
    memcpy(&vb, &vclock, 8);
    log_access(t, &vclock, 8, vb, vb, 0, 1);
    t->h = abtmc_mix(abtmc_mix(t->h, 0x5500), vb);
}

int abtmc_clock_gettime(clockid_t c, struct timespec *ts)
{
    if (!abtmc_g.active)
        return clock_gettime(c, ts);
    clock_read();
    double now = VBASE + vclock;
    ts->tv_sec = (time_t)now;
    ts->tv_nsec = (long)((vclock - (double)(long)vclock) * 1e9);
    if (ts->tv_nsec < 0)
        ts->tv_nsec = 0;
    if (ts->tv_nsec > 999999999)
        ts->tv_nsec = 999999999;
    ts->tv_sec = (time_t)VBASE + (time_t)(long)vclock;
    return 0;
}
int abtmc_gettimeofday(struct timeval *tv, void *tz)
{
    if (!abtmc_g.active)
        return gettimeofday(tv, tz);
    clock_read();
    tv->tv_sec = (time_t)VBASE + (time_t)(long)vclock;
    tv->tv_usec = (long)((vclock - (double)(long)vclock) * 1e6);
    return 0;
}
time_t abtmc_time(time_t *p)
{
    if (!abtmc_g.active)
        return time(p);
    time_t v = (time_t)VBASE; /* only used as a PRNG seed by libabt */
    if (p)
        *p = v;
    return v;
}
int abtmc_nanosleep(const struct timespec *req, struct timespec *remn)
{
    if (!abtmc_g.active)
        return nanosleep(req, remn);
    (void)req;
    (void)remn;
    clock_read();
    abtmc_spin_hint(900, __builtin_return_address(0));
    return 0;
}
int abtmc_rand_r(unsigned *seed)
{
    if (!abtmc_g.active)
        return rand_r(seed);
    return abtmc_choose(rand_range, ABTMC_B_E);
}
void abtmc_set_rand_range(int n) { rand_range = n < 1 ? 1 : n; }

double abtmc_now(void) { return VBASE + vclock; }
void abtmc_clock_candidates(const double *a, int n)
{
    ncands = 0;
    for (int i = 0; i < n && i < 32; i++)
        cands[ncands++] = a[i] - VBASE;
}

/* ------------------------------------------------------------ driver API */

int abtmc_choose(int n, int kind)
{
    if (!abtmc_g.active || n <= 1)
        return 0;
    cthr *t = self();
    int alt = 0;
    if (in_window) {
        uint8_t ak[ABTMC_MAXALT];
        if (n > ABTMC_MAXALT)
            ENGINE_FATAL("abtmc_choose(%d): too many alternatives", n);
        ak[0] = ABTMC_B_FREE;
        for (int i = 1; i < n; i++)
            ak[i] = (uint8_t)kind;
        alt = choice_point(1, n, ak);
    }
    t->h = abtmc_mix(abtmc_mix(t->h, 0x5600 + n), alt);
    if (abtmc_g.trace)
        fprintf(stderr, "[t%d] choose(%d) -> %d\n", t->id, n, alt);
    return alt;
}

void abtmc_window_begin(void) { in_window = 1; }
void abtmc_window_end(void) { in_window = 0; }

int abtmc_load(const int *p)
{
    abtmc_pre(p, 4, K_LOAD);
    int v = __atomic_load_n(p, __ATOMIC_SEQ_CST);
    abtmc_post(p, 4, K_LOAD, 0);
    return v;
}
void abtmc_store(int *p, int v)
{
    abtmc_pre(p, 4, K_STORE);
    __atomic_store_n(p, v, __ATOMIC_SEQ_CST);
    abtmc_post(p, 4, K_STORE, 1);
}
int abtmc_fetch_add(int *p, int v)
{
    abtmc_pre(p, 4, K_RMW);
    int r = __atomic_fetch_add(p, v, __ATOMIC_SEQ_CST);
    abtmc_post(p, 4, K_RMW, 1);
    return r;
}
void abtmc_progress(void) { abtmc_fetch_add(&progress_ctr, 1); }
long abtmc_step(void) { return abtmc_fetch_add(&step_ctr, 1); }
void abtmc_wait_until_ne(const int *p, int v)
{
    while (abtmc_load(p) == v)
        abtmc_spin_hint(901, p);
}
void abtmc_wait_until_eq(const int *p, int v)
{
    while (abtmc_load(p) != v)
        abtmc_spin_hint(902, p);
}

void abtmc_check_fail(const char *key, const char *fmt, ...)
{
    va_list ap;
    va_start(ap, fmt);
    if (!abtmc_g.active) {
        vfprintf(stderr, fmt, ap);
        fputc('\n', stderr);
        abort();
    }
    finish(ABTMC_ST_VIOLATION, key, fmt, ap);
}

void abtmc_observe(const char *fmt, ...)
{
    abtmc_xrec *xr = abtmc_g.xr;
    if (!xr)
        return;
    va_list ap;
    va_start(ap, fmt);
    int room = (int)sizeof(xr->obs) - xr->obslen - 1;
    if (room > 1) {
        int n = vsnprintf(xr->obs + xr->obslen, room, fmt, ap);
        if (n > room - 1)
            n = room - 1;
        xr->obslen += n;
        if (xr->obslen < (int)sizeof(xr->obs) - 1)
            xr->obs[xr->obslen++] = ';';
        xr->obs[xr->obslen] = 0;
    }
    va_end(ap);
}

void abtmc_stat(const char *name, long long add)
{
    abtmc_xrec *xr = abtmc_g.xr;
    if (!xr)
        return;
    for (int i = 0; i < xr->nstat; i++)
        if (!strcmp(xr->statname[i], name)) {
            xr->statval[i] += add;
            return;
        }
    if (xr->nstat < 12) {
        snprintf(xr->statname[xr->nstat], 32, "%s", name);
        xr->statval[xr->nstat++] = add;
    }
}

int abtmc_is_replay(void) { return abtmc_g.replay; }

void abtmc_std_env(void)
{
    setenv("ABT_SET_AFFINITY", "0", 1);
    setenv("ABT_MEM_LP_ALLOC", "malloc", 1);
    setenv("ABT_MEM_MAX_NUM_STACKS", "4", 1);
    setenv("ABT_MEM_MAX_NUM_DESCS", "4", 1);
    setenv("ABT_SCHED_EVENT_FREQ", "1", 1);
    setenv("ABT_MEM_PAGE_SIZE", "65536", 1);
    setenv("ABT_MEM_STACK_PAGE_SIZE", "131072", 1);
}

/* ------------------------------------------------------------ lifecycle */

void abtmc_rt_begin(void)
{
    mallopt(M_MMAP_THRESHOLD, 32 << 20);
    mallopt(M_TRIM_THRESHOLD, 1 << 30);
    nthr = 0;
    cur = 0;
    vclock = 0;
    for (int k = 0; k < 5; k++)
        rem[k] = abtmc_g.bound[k];
    must_switch = 0;
    next_dev = 0;
    cthr *t = new_thread();
    t->pt = pthread_self();
    my_tid = 0;
    abtmc_xrec *xr = abtmc_g.xr;
    xr->first_new_cp =
        abtmc_g.ndev ? abtmc_g.dev[abtmc_g.ndev - 1].idx + 1 : 0;
    abtmc_g.active = 1;
}

void abtmc_rt_end(void)
{
    if (next_dev < abtmc_g.ndev)
        ENGINE_FATAL("replay divergence: execution ended with %d of %d "
                     "deviations unused (next cp %u, reached %u)",
                     abtmc_g.ndev - next_dev, abtmc_g.ndev,
                     abtmc_g.dev[next_dev].idx, abtmc_g.xr->ncp);
    abtmc_g.active = 0;
    finishf(ABTMC_ST_OK, NULL, "ok");
}

/* ---- ULT stack (re)use: libabt tells us when a context is (re)initialised on
 * a stack (hook ABTI_VERIF_STACK_INIT).  A ULT leaves its stack through a
 * context switch, not by returning, so the address sanitizer keeps the
 * redzones of its last frames poisoned; the next user of the same stack (stack
 * pool, revive) would trip over them.  Clear the shadow of the whole stack. */
extern void __asan_unpoison_memory_region(void const volatile *addr, size_t size)
    __attribute__((weak));
void abtmc_stack_init(void *p_stacktop, size_t stacksize)
{
    if (p_stacktop && stacksize && __asan_unpoison_memory_region)
        __asan_unpoison_memory_region((char *)p_stacktop - stacksize, stacksize);
}
