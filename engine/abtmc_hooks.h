/* abtmc_hooks.h -- force-included (-include) into every libabt translation
 * unit built by /verif.  Turns every atomic builtin that libabt uses into a
 * scheduling point of the controlled scheduler (abtmc_rt.c).  Nothing here is
 * part of the repository; the sources are compiled unmodified.
 *
 * A function-like macro is not re-expanded inside its own expansion, so the
 * inner __atomic_xxx below is the compiler builtin.
 */
#ifndef ABTMC_HOOKS_H_INCLUDED
#define ABTMC_HOOKS_H_INCLUDED

#ifndef __ASSEMBLER__

#include <stddef.h>
#include <stdint.h>

enum {
    ABTMC_K_LOAD = 1,
    ABTMC_K_STORE = 2,
    ABTMC_K_RMW = 3,
    ABTMC_K_CAS = 4,   /* effective kind decided by success */
    ABTMC_K_TAS = 5,   /* effective kind decided by previous value */
    ABTMC_K_FENCE = 6
};

/* scheduling point before the operation */
void abtmc_pre(const volatile void *addr, unsigned size, int kind);
/* bookkeeping after it executed (never a scheduling point).  wrote: 0 = the
 * operation turned out to be a pure read (failed CAS, TAS on a set flag) */
void abtmc_post(const volatile void *addr, unsigned size, int kind, int wrote);
/* extra scheduling point right AFTER a lock release (spinlock clear): lets
 * another thread run between the release and plain accesses that follow it,
 * i.e. exposes work that slipped out of a critical section */
void abtmc_after_release(const volatile void *addr);

#ifdef ABTMC_PASSTHROUGH
/* free-running flavour (TSan pass): hooks compiled out */
#else

/* make sure the int128 CAS is defined before we shadow it */
#include "abt_config.h"
#if defined(ABT_CONFIG_HAVE_ATOMIC_INT128) && defined(__x86_64__)
#include "asm/abtd_asm_int128_cas.h"
#define ABTD_asm_bool_cas_weak_int128(var, oldv, newv)                         \
    __extension__({                                                            \
        __int128 *abtmc_p_ = (var);                                            \
        abtmc_pre(abtmc_p_, 16, ABTMC_K_CAS);                                  \
        int abtmc_r_ = ABTD_asm_bool_cas_weak_int128(abtmc_p_, oldv, newv);    \
        abtmc_post(abtmc_p_, 16, ABTMC_K_CAS, abtmc_r_);                       \
        abtmc_r_;                                                              \
    })
#endif

#define __atomic_load_n(p, mo)                                                 \
    __extension__({                                                            \
        __typeof__(p) abtmc_p_ = (p);                                          \
        abtmc_pre(abtmc_p_, sizeof(*abtmc_p_), ABTMC_K_LOAD);                  \
        __typeof__(__atomic_load_n(abtmc_p_, mo)) abtmc_v_ =                   \
            __atomic_load_n(abtmc_p_, mo);                                     \
        abtmc_post(abtmc_p_, sizeof(*abtmc_p_), ABTMC_K_LOAD, 0);              \
        abtmc_v_;                                                              \
    })

#define __atomic_store_n(p, v, mo)                                             \
    __extension__({                                                            \
        __typeof__(p) abtmc_p_ = (p);                                          \
        abtmc_pre(abtmc_p_, sizeof(*abtmc_p_), ABTMC_K_STORE);                 \
        __atomic_store_n(abtmc_p_, v, mo);                                     \
        abtmc_post(abtmc_p_, sizeof(*abtmc_p_), ABTMC_K_STORE, 1);             \
    })

#define __atomic_exchange_n(p, v, mo)                                          \
    __extension__({                                                            \
        __typeof__(p) abtmc_p_ = (p);                                          \
        abtmc_pre(abtmc_p_, sizeof(*abtmc_p_), ABTMC_K_RMW);                   \
        __typeof__(__atomic_exchange_n(abtmc_p_, v, mo)) abtmc_v_ =            \
            __atomic_exchange_n(abtmc_p_, v, mo);                              \
        abtmc_post(abtmc_p_, sizeof(*abtmc_p_), ABTMC_K_RMW, 1);               \
        abtmc_v_;                                                              \
    })

#define __atomic_compare_exchange_n(p, e, d, w, smo, fmo)                      \
    __extension__({                                                            \
        __typeof__(p) abtmc_p_ = (p);                                          \
        abtmc_pre(abtmc_p_, sizeof(*abtmc_p_), ABTMC_K_CAS);                   \
        _Bool abtmc_r_ =                                                       \
            __atomic_compare_exchange_n(abtmc_p_, e, d, 0, smo, fmo);          \
        abtmc_post(abtmc_p_, sizeof(*abtmc_p_), ABTMC_K_CAS, abtmc_r_);        \
        abtmc_r_;                                                              \
    })

#define ABTMC_DEF_FETCH(name, p, v, mo)                                                \
    __extension__({                                                            \
        __typeof__(p) abtmc_p_ = (p);                                          \
        abtmc_pre(abtmc_p_, sizeof(*abtmc_p_), ABTMC_K_RMW);                   \
        __typeof__(name(abtmc_p_, v, mo)) abtmc_v_ = name(abtmc_p_, v, mo);    \
        abtmc_post(abtmc_p_, sizeof(*abtmc_p_), ABTMC_K_RMW, 1);               \
        abtmc_v_;                                                              \
    })
#define __atomic_fetch_add(p, v, mo) ABTMC_DEF_FETCH(__atomic_fetch_add, p, v, mo)
#define __atomic_fetch_sub(p, v, mo) ABTMC_DEF_FETCH(__atomic_fetch_sub, p, v, mo)
#define __atomic_fetch_and(p, v, mo) ABTMC_DEF_FETCH(__atomic_fetch_and, p, v, mo)
#define __atomic_fetch_or(p, v, mo) ABTMC_DEF_FETCH(__atomic_fetch_or, p, v, mo)
#define __atomic_fetch_xor(p, v, mo) ABTMC_DEF_FETCH(__atomic_fetch_xor, p, v, mo)

#define __atomic_test_and_set(p, mo)                                           \
    __extension__({                                                            \
        volatile void *abtmc_p_ = (volatile void *)(p);                        \
        abtmc_pre(abtmc_p_, 1, ABTMC_K_TAS);                                   \
        _Bool abtmc_r_ = __atomic_test_and_set(abtmc_p_, mo);                  \
        abtmc_post(abtmc_p_, 1, ABTMC_K_TAS, !abtmc_r_);                       \
        abtmc_r_;                                                              \
    })

#define __atomic_clear(p, mo)                                                  \
    __extension__({                                                            \
        volatile void *abtmc_p_ = (volatile void *)(p);                        \
        abtmc_pre(abtmc_p_, 1, ABTMC_K_STORE);                                 \
        __atomic_clear((_Bool *)abtmc_p_, mo);                                 \
        abtmc_post(abtmc_p_, 1, ABTMC_K_STORE, 1);                             \
        abtmc_after_release(abtmc_p_);                                         \
    })

/* fences are not scheduling points under the SC assumption (DESIGN 3.1) */

#endif /* !ABTMC_PASSTHROUGH */
#endif /* !__ASSEMBLER__ */
#endif /* ABTMC_HOOKS_H_INCLUDED */
