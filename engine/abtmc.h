/* abtmc.h -- driver API of the abtmc engine (see DESIGN.md section 2) */
#ifndef ABTMC_H_INCLUDED
#define ABTMC_H_INCLUDED

#include <stddef.h>
#include <stdint.h>

#ifdef __cplusplus
extern "C" {
#endif

/* budget kinds */
enum { ABTMC_B_FREE = 0, ABTMC_B_P = 1, ABTMC_B_T = 2, ABTMC_B_E = 3,
       ABTMC_B_PT = 4 /* internal: one preemption and one timer firing */ };

typedef struct abtmc_driver {
    const char *name;     /* e.g. "c04_mutex" */
    const char *property; /* e.g. "C04" */
    int nconfigs;
    const char *(*config_name)(int cfg);
    void (*scenario)(int cfg); /* runs on controlled thread 0 in a forked child */
    /* 1 if the config belongs to the quick tier */
    int (*config_quick)(int cfg);
} abtmc_driver;

int abtmc_main(int argc, char **argv, const abtmc_driver *d);

/* exploration window: choice points branch only inside */
void abtmc_window_begin(void);
void abtmc_window_end(void);

/* controlled external threads */
int abtmc_thread_create(void (*fn)(void *), void *arg);
void abtmc_thread_join(int tid);
int abtmc_self(void);

/* explorer-owned choice: returns 0..n-1; alternative 0 is the default, every
 * other alternative costs one unit of `budget_kind` (ABTMC_B_FREE: no cost) */
int abtmc_choose(int n, int budget_kind);

/* virtual clock */
void abtmc_clock_candidates(const double *abs_times, int n);
double abtmc_now(void);

/* hooked driver-side shared variables and waits */
int abtmc_load(const int *p);
void abtmc_store(int *p, int v);
int abtmc_fetch_add(int *p, int v);
void abtmc_progress(void);
/* A global invariant: fn is called (inside the exploration window) in the state
 * right after every hooked WRITE of any thread, i.e. in every state the explorer
 * distinguishes.  fn may read anything with plain loads and report with
 * abtmc_check(); it must not call Argobots or hooked operations. */
void abtmc_set_invariant(void (*fn)(void));
void abtmc_spin_hint(int site, const void *ctx);
/* block the calling controlled thread until *p != v (hooked, hinted loop) */
void abtmc_wait_until_ne(const int *p, int v);
void abtmc_wait_until_eq(const int *p, int v);
long abtmc_step(void); /* globally ordered logical time stamp (hooked RMW) */

/* oracle */
void abtmc_check_fail(const char *key, const char *fmt, ...)
    __attribute__((format(printf, 2, 3)));
#define abtmc_check(cond, key, ...)                                            \
    do {                                                                       \
        if (!(cond))                                                           \
            abtmc_check_fail(key, __VA_ARGS__);                                \
    } while (0)
void abtmc_observe(const char *fmt, ...) __attribute__((format(printf, 1, 2)));
/* named counter summed over all executions into the evidence */
void abtmc_stat(const char *name, long long add);

/* ledger / fault injector (allocations made by libabt only) */
enum {
    ABTMC_R_MALLOC = 1,   /* malloc/calloc/realloc/posix_memalign */
    ABTMC_R_MMAP = 2,
    ABTMC_R_PTHREAD = 4,  /* pthread_create */
    ABTMC_R_SYNCOBJ = 8,  /* pthread_{mutex,cond,barrier}_init */
    ABTMC_R_ALL = 15
};
long abtmc_ledger_live(void);          /* live resources (count) */
long abtmc_ledger_live_bytes(void);
long abtmc_ledger_acquisitions(void);  /* acquisitions so far */
long abtmc_ledger_bad_frees(void);
void abtmc_fail_nth(int kind_mask, long n); /* n-th from now fails; n<=0 disarms */
int abtmc_fault_fired(void);
/* iterate live ledger blocks: returns number, fills up to max */
int abtmc_ledger_blocks(void **ptrs, size_t *sizes, int max);
int abtmc_ledger_find(const void *p, void **base, size_t *size);

/* misc */
void abtmc_set_rand_range(int n); /* rand_r() in libabt -> abtmc_choose(n, E) */
int abtmc_is_replay(void);
void abtmc_tracef(const char *fmt, ...) __attribute__((format(printf, 1, 2)));
/* standard environment for fast deterministic ABT_init */
void abtmc_std_env(void);

#ifdef __cplusplus
}
#endif
#endif
