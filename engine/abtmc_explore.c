/* abtmc_explore.c -- stateless, deviation-bounded, parallel explorer
 * (DESIGN.md 2.3, 2.7).  One execution = fork() + scenario under a deviation
 * list; workers expand the recorded choice points into new deviation lists.
 */
#define _GNU_SOURCE
#include <errno.h>
#include <fcntl.h>
#include <sched.h>
#include <signal.h>
#include <stdarg.h>
#include <stdio.h>
#include <stdlib.h>
#include <string.h>
#include <sys/mman.h>
#include <sys/personality.h>
#include <sys/resource.h>
#include <sys/stat.h>
#include <sys/wait.h>
#include <time.h>
#include <unistd.h>

#include "abtmc_int.h"

#define MAXW 64
#define FRONTIER_CAP (1 << 19)
#define MAXOUT 256
#define MAXVIOL 16

typedef struct {
    int ndev;
    abtmc_dev dev[ABTMC_MAXDEV];
} fent;

typedef struct {
    uint64_t hash;
    uint64_t count;
    char text[200];
} outent;

typedef struct {
    int status;
    int ndev;
    abtmc_dev dev[ABTMC_MAXDEV];
    int bound[5];
    char key[96];
    char msg[1024];
    int confirmed;
} violent;

typedef struct {
    volatile int lock;
    volatile long top;
    volatile int inflight;
    volatile int stop;       /* deadline or cap hit */
    volatile int nondet;     /* determinism failure */
    uint64_t executions, pruned, ok, horizon_hits, timeouts, transitions, ops,
        states, devlist_overflow, frontier_overflow, cps, p_alts, hash_mismatch;
    long max_frontier;
    int nout;
    outent out[MAXOUT];
    int nviol;
    violent viol[MAXVIOL];
    uint64_t viol_total;
    int nstat;
    char statname[16][32];
    int64_t statval[16];
    /* samples */
    int nsamp;
    fent samp[6];
    int samp_bound[6][5]; /* bounds of the level the sample was recorded at */
    char samp_obs[6][200];
} shared_t;

static const abtmc_driver *D;
static shared_t *S;
static fent *F;
static abtmc_centry *CACHE;
static uint64_t CACHE_MASK;
static abtmc_xrec *XR[MAXW];
static int opt_workers = 16, opt_P = 2, opt_T = 0, opt_E = 0, opt_cfg = -1;
static long opt_horizon = 20000;
static double opt_deadline = 0; /* seconds for the whole run, 0 = none */
static int opt_wall = 60;       /* per execution: wall seconds; CPU limit is wall/4 */
static int opt_trace, opt_iter = 1, opt_cachebits = 22, opt_quick;
static long opt_maxexec = 0;
static const char *opt_out, *opt_replay, *opt_tmp = "/verif/build/tmp",
                              *opt_replaydir;
static double t_start;
static int cur_cfg;
static int cur_bound[5];
static int force_errfd;

static double now_s(void)
{
    struct timespec ts;
    clock_gettime(CLOCK_MONOTONIC, &ts);
    return ts.tv_sec + ts.tv_nsec * 1e-9;
}

static void lock(void)
{
    while (__atomic_exchange_n(&S->lock, 1, __ATOMIC_ACQUIRE))
        while (__atomic_load_n(&S->lock, __ATOMIC_RELAXED))
            __builtin_ia32_pause();
}
static void unlock(void) { __atomic_store_n(&S->lock, 0, __ATOMIC_RELEASE); }

static void *shalloc(size_t n)
{
    void *p = mmap(NULL, n, PROT_READ | PROT_WRITE,
                   MAP_SHARED | MAP_ANONYMOUS | MAP_NORESERVE, -1, 0);
    if (p == MAP_FAILED) {
        perror("mmap");
        exit(2);
    }
    return p;
}

/* run one execution; returns final status.  errfd: file for child's stderr */
static int run_exec(abtmc_xrec *xr, int cfg, const abtmc_dev *dev, int ndev,
                    const int *bound, long horizon, int use_cache, int replay,
                    int trace, int errfd, int wall)
{
    xr->status = ABTMC_ST_NONE;
    xr->key[0] = xr->msg[0] = xr->obs[0] = 0;
    xr->ncp = 0;
    xr->first_new_cp = 0;
    xr->nops = xr->nsteps = xr->newstates = xr->tracehash = 0;
    xr->skipped_p = 0;
    xr->obslen = 0;
    xr->nstat = 0;
    pid_t pid = fork();
    if (pid < 0) {
        perror("fork");
        exit(2);
    }
    if (pid == 0) {
        if (errfd >= 0 && (!trace || force_errfd)) {
            if (ftruncate(errfd, 0)) {
            }
            lseek(errfd, 0, SEEK_SET);
            dup2(errfd, 2);
            dup2(errfd, 1);
        }
        memset(&abtmc_g, 0, sizeof(abtmc_g));
        abtmc_g.replay = replay;
        abtmc_g.trace = trace;
        abtmc_g.ndev = ndev;
        memcpy(abtmc_g.dev, dev, sizeof(abtmc_dev) * ndev);
        for (int k = 0; k < 5; k++)
            abtmc_g.bound[k] = bound[k];
        abtmc_g.horizon = horizon;
        abtmc_g.xr = xr;
        abtmc_g.cache = CACHE;
        abtmc_g.cache_mask = CACHE_MASK;
        abtmc_g.use_cache = use_cache;
        alarm(wall);
        {
            struct rlimit rl;
            rl.rlim_cur = wall / 4 > 5 ? wall / 4 : 5;
            rl.rlim_max = rl.rlim_cur + 2;
            setrlimit(RLIMIT_CPU, &rl);
        }
        abtmc_rt_begin();
        D->scenario(cfg);
        abtmc_rt_end();
        _exit(0);
    }
    int st;
    while (waitpid(pid, &st, 0) < 0 && errno == EINTR)
        ;
    if (xr->status == ABTMC_ST_NONE) {
        if (WIFSIGNALED(st) && (WTERMSIG(st) == SIGALRM || WTERMSIG(st) == SIGXCPU ||
                                WTERMSIG(st) == SIGKILL)) {
            xr->status = ABTMC_ST_TIMEOUT;
            snprintf(xr->key, sizeof(xr->key), "timeout");
            snprintf(xr->msg, sizeof(xr->msg),
                     "execution exceeded %d s wall time or %d s CPU time "
                     "(signal %d)", wall, wall / 4 > 5 ? wall / 4 : 5,
                     WTERMSIG(st));
        } else {
            xr->status = ABTMC_ST_CRASH;
            int sig = WIFSIGNALED(st) ? WTERMSIG(st) : 0;
            int ec = WIFEXITED(st) ? WEXITSTATUS(st) : 0;
            char tail[700];
            tail[0] = 0;
            if (errfd >= 0) {
                static char big[16384];
                ssize_t n = pread(errfd, big, sizeof(big) - 1, 0);
                if (n < 0)
                    n = 0;
                big[n] = 0;
                /* start at the actual report, not at preceding warnings */
                const char *from = strstr(big, "ERROR: ");
                if (!from)
                    from = strstr(big, "runtime error");
                if (!from)
                    from = strstr(big, "Assertion");
                if (!from)
                    from = big;
                else if (from - big > 60 && strstr(big, "runtime error") == from)
                    from -= 60;
                snprintf(tail, sizeof(tail), "%s", from);
                for (char *z = tail; *z; z++)
                    if (*z == '"' || *z == '\\' || (unsigned char)*z < 32)
                        *z = ' ';
                /* classify on the whole output */
                if (strstr(big, "AddressSanitizer"))
                    snprintf(xr->key, sizeof(xr->key), "crash_asan");
                else if (strstr(big, "runtime error"))
                    snprintf(xr->key, sizeof(xr->key), "crash_ubsan");
                else if (strstr(big, "Assertion"))
                    snprintf(xr->key, sizeof(xr->key), "crash_assert");
            }
            /* key: first sanitizer/assert marker if any */
            if (!xr->key[0])
                snprintf(xr->key, sizeof(xr->key), "%s",
                         sig == SIGSEGV ? "crash_segv" : "crash");
            snprintf(xr->msg, sizeof(xr->msg), "child died sig=%d exit=%d: %s",
                     sig, ec, tail);
        }
    }
    return xr->status;
}

static void record_outcome(const char *obs)
{
    uint64_t h = 0x42;
    for (const char *p = obs; *p; p++)
        h = abtmc_mix(h, (unsigned char)*p);
    for (int i = 0; i < S->nout; i++)
        if (S->out[i].hash == h) {
            S->out[i].count++;
            return;
        }
    if (S->nout < MAXOUT) {
        outent *o = &S->out[S->nout++];
        o->hash = h;
        o->count = 1;
        snprintf(o->text, sizeof(o->text), "%s", obs);
    }
}

static void record_violation(abtmc_xrec *xr, const fent *e, int confirmed)
{
    S->viol_total++;
    for (int i = 0; i < S->nviol; i++) {
        violent *v = &S->viol[i];
        if (v->status == xr->status && !strcmp(v->key, xr->key)) {
            if (e->ndev < v->ndev) {
                v->ndev = e->ndev;
                memcpy(v->dev, e->dev, sizeof(e->dev));
                snprintf(v->msg, sizeof(v->msg), "%s", xr->msg);
                v->confirmed = confirmed;
            }
            return;
        }
    }
    if (S->nviol < MAXVIOL) {
        violent *v = &S->viol[S->nviol++];
        v->status = xr->status;
        v->ndev = e->ndev;
        memcpy(v->dev, e->dev, sizeof(e->dev));
        memcpy(v->bound, cur_bound, sizeof(cur_bound));
        snprintf(v->key, sizeof(v->key), "%s", xr->key);
        snprintf(v->msg, sizeof(v->msg), "%s", xr->msg);
        v->confirmed = confirmed;
    }
}

static void worker(int wi)
{
    cpu_set_t cs;
    CPU_ZERO(&cs);
    long ncpu = sysconf(_SC_NPROCESSORS_ONLN);
    int mycpu = (wi + (int)(getppid() % ncpu)) % ncpu;
    CPU_SET(mycpu, &cs);
    sched_setaffinity(0, sizeof(cs), &cs);
    double avg_exec = 0;
    long nexec = 0;
    char path[256];
    snprintf(path, sizeof(path), "%s/err.%d.%d", opt_tmp, (int)getppid(), wi);
    int errfd = open(path, O_RDWR | O_CREAT | O_TRUNC, 0644);
    unlink(path);
    abtmc_xrec *xr = XR[wi];
    static fent e, ne;
    for (;;) {
        lock();
        if (S->stop || S->nondet) {
            unlock();
            break;
        }
        if (S->top > 0) {
            e = F[--S->top];
            S->inflight++;
            unlock();
        } else if (S->inflight == 0) {
            unlock();
            break;
        } else {
            unlock();
            usleep(200);
            continue;
        }
        double tx0 = now_s();
        int st = run_exec(xr, cur_cfg, e.dev, e.ndev, cur_bound, opt_horizon,
                          1, 0, 0, errfd, opt_wall);
        {
            /* all threads of an execution share this worker's CPU; if another
             * process hogs it, hand-offs crawl: move to the next CPU */
            double dt = now_s() - tx0;
            nexec++;
            avg_exec += (dt - avg_exec) / (double)(nexec < 50 ? nexec : 50);
            if (dt > 0.03 && dt > 8 * avg_exec && ncpu > 1) {
                mycpu = (mycpu + 1 + wi % 3) % ncpu;
                CPU_ZERO(&cs);
                CPU_SET(mycpu, &cs);
                sched_setaffinity(0, sizeof(cs), &cs);
            }
        }
        int rerun = 0;
        if (st == ABTMC_ST_HORIZON || st == ABTMC_ST_TIMEOUT) {
            /* re-run alone, no cache, 10x horizon, 5x wall */
            rerun = 1;
            st = run_exec(xr, cur_cfg, e.dev, e.ndev, cur_bound,
                          opt_horizon * 10, 0, 1, 0, errfd, opt_wall * 5);
        }
        int is_viol = (st == ABTMC_ST_VIOLATION || st == ABTMC_ST_DEADLOCK ||
                       st == ABTMC_ST_HORIZON || st == ABTMC_ST_TIMEOUT ||
                       st == ABTMC_ST_CRASH);
        int confirmed = 0;
        if (is_viol || st == ABTMC_ST_ENGINE) {
            /* replay before report: same deviation list must fail alike */
            static abtmc_xrec tmp; /* header copy */
            char key0[96];
            int st0 = st;
            uint64_t th0 = xr->tracehash;
            snprintf(key0, sizeof(key0), "%s", xr->key);
            memcpy(&tmp, xr, offsetof(abtmc_xrec, cp));
            uint32_t ncp0 = xr->ncp;
            int st1 = run_exec(xr, cur_cfg, e.dev, e.ndev, cur_bound,
                               rerun ? opt_horizon * 10 : opt_horizon, 0, 1, 0,
                               errfd, rerun ? opt_wall * 5 : opt_wall);
            /* same deviation list must fail alike (status and key); the trace
             * hash is compared too but a mismatch there is only counted: it
             * contains raw addresses, and a replay in a process with another
             * heap layout may legitimately differ */
            confirmed = (st1 == st0 && !strcmp(key0, xr->key));
            if (confirmed && st0 != ABTMC_ST_CRASH && st0 != ABTMC_ST_TIMEOUT &&
                th0 != xr->tracehash)
                __atomic_fetch_add(&S->hash_mismatch, 1, __ATOMIC_RELAXED);
            if (!confirmed && st0 != ABTMC_ST_ENGINE) {
                lock();
                S->nondet = 1;
                snprintf(S->viol[MAXVIOL - 1].msg, sizeof(S->viol[0].msg),
                         "replay mismatch: first status=%d key=%s hash=%llx, "
                         "second status=%d key=%s hash=%llx",
                         st0, key0, (unsigned long long)th0, st1, xr->key,
                         (unsigned long long)xr->tracehash);
                S->viol[MAXVIOL - 1].ndev = e.ndev;
                memcpy(S->viol[MAXVIOL - 1].dev, e.dev, sizeof(e.dev));
                unlock();
            }
            /* restore the first record's header for reporting; cps of the
             * replay are identical when deterministic */
            memcpy(xr, &tmp, offsetof(abtmc_xrec, cp));
            xr->ncp = ncp0 < xr->ncp ? ncp0 : xr->ncp;
            xr->ncp = ncp0;
        }
        /* expansion */
        int spent[5] = { 0, 0, 0, 0, 0 };
        int bad = 0;
        for (int i = 0; i < e.ndev; i++) {
            if (e.dev[i].idx >= xr->ncp) {
                bad = 1;
                break;
            }
            int k0 = xr->cp[e.dev[i].idx].altkind[e.dev[i].alt];
            if (k0 == ABTMC_B_PT) {
                spent[ABTMC_B_P]++;
                spent[ABTMC_B_T]++;
            } else {
                spent[k0]++;
            }
        }
        uint32_t first = e.ndev ? e.dev[e.ndev - 1].idx + 1 : 0;
        long pushed = 0;
        lock();
        S->executions++;
        S->transitions += xr->nsteps;
        S->ops += xr->nops;
        S->states += xr->newstates;
        S->p_alts += xr->skipped_p;
        if (rerun)
            S->horizon_hits++;
        if (st == ABTMC_ST_OK)
            for (int i = 0; i < xr->nstat; i++) {
                int j;
                for (j = 0; j < S->nstat; j++)
                    if (!strcmp(S->statname[j], xr->statname[i]))
                        break;
                if (j == S->nstat && S->nstat < 16) {
                    snprintf(S->statname[j], 32, "%s", xr->statname[i]);
                    S->statval[j] = 0;
                    S->nstat++;
                }
                if (j < S->nstat)
                    S->statval[j] += xr->statval[i];
            }
        if (st == ABTMC_ST_PRUNED)
            S->pruned++;
        if (st == ABTMC_ST_OK) {
            S->ok++;
            record_outcome(xr->obs);
            if (S->nsamp < 6 && (S->ok % 97 == 1 || S->nsamp == 0)) {
                S->samp[S->nsamp] = e;
                memcpy(S->samp_bound[S->nsamp], cur_bound, sizeof(cur_bound));
                snprintf(S->samp_obs[S->nsamp], 200, "%s", xr->obs);
                S->nsamp++;
            }
        }
        if (is_viol)
            record_violation(xr, &e, confirmed);
        if (st == ABTMC_ST_ENGINE) {
            S->nondet = 2;
            snprintf(S->viol[MAXVIOL - 1].msg, sizeof(S->viol[0].msg),
                     "engine error: %s", xr->msg);
            S->viol[MAXVIOL - 1].ndev = e.ndev;
            memcpy(S->viol[MAXVIOL - 1].dev, e.dev, sizeof(e.dev));
        }
        if (!bad && st != ABTMC_ST_ENGINE) {
            for (uint32_t i = first; i < xr->ncp; i++) {
                abtmc_cp *cp = &xr->cp[i];
                S->cps++;
                for (int a = 1; a < cp->nalt; a++) {
                    int k = cp->altkind[a];
                    if (k == ABTMC_B_P || k == ABTMC_B_PT)
                        S->p_alts++;
                    if (k == ABTMC_B_PT) {
                        if (spent[ABTMC_B_P] >= cur_bound[ABTMC_B_P] ||
                            spent[ABTMC_B_T] >= cur_bound[ABTMC_B_T])
                            continue;
                    } else if (k != ABTMC_B_FREE && spent[k] >= cur_bound[k])
                        continue;
                    if (e.ndev + 1 > ABTMC_MAXDEV) {
                        S->devlist_overflow++;
                        continue;
                    }
                    if (S->top >= FRONTIER_CAP) {
                        S->frontier_overflow++;
                        continue;
                    }
                    ne = e;
                    ne.dev[ne.ndev].idx = i;
                    ne.dev[ne.ndev].alt = (uint16_t)a;
                    ne.dev[ne.ndev].pad = 0;
                    ne.ndev++;
                    F[S->top++] = ne;
                    pushed++;
                }
            }
        }
        if (S->top > S->max_frontier)
            S->max_frontier = S->top;
        S->inflight--;
        if (opt_deadline > 0 && now_s() - t_start > opt_deadline)
            S->stop = 1;
        if (opt_maxexec > 0 && (long)S->executions >= opt_maxexec)
            S->stop = 1;
        unlock();
    }
    _exit(0);
}

static void json_str(FILE *f, const char *s)
{
    fputc('"', f);
    for (; *s; s++) {
        unsigned char c = (unsigned char)*s;
        if (c == '"' || c == '\\')
            fprintf(f, "\\%c", c);
        else if (c < 32)
            fputc(' ', f);
        else
            fputc(c, f);
    }
    fputc('"', f);
}

static void json_devs(FILE *f, const abtmc_dev *d, int n)
{
    fputc('[', f);
    for (int i = 0; i < n; i++)
        fprintf(f, "%s[%u,%u]", i ? "," : "", d[i].idx, d[i].alt);
    fputc(']', f);
}

static const char *stname(int st)
{
    static const char *n[] = { "none", "ok", "violation", "deadlock", "horizon",
                               "pruned", "engine", "crash", "timeout" };
    return n[st];
}

static void write_replay_file(const char *path, int cfg, const violent *v)
{
    FILE *f = fopen(path, "w");
    if (!f)
        return;
    fprintf(f, "{\"driver\":\"%s\",\"property\":\"%s\",\"config\":%d,"
               "\"config_name\":",
            D->name, D->property, cfg);
    json_str(f, D->config_name(cfg));
    fprintf(f, ",\"bounds\":[%d,%d,%d],\"horizon\":%ld,\"status\":\"%s\","
               "\"key\":",
            v->bound[1], v->bound[2], v->bound[3], opt_horizon * 10,
            stname(v->status));
    json_str(f, v->key);
    fprintf(f, ",\"msg\":");
    json_str(f, v->msg);
    fprintf(f, ",\"deviations\":");
    json_devs(f, v->dev, v->ndev);
    fprintf(f, "}\n");
    fclose(f);
}

/* explore one config at one bound level; returns 1 if drained */
static int explore_level(int cfg, int P, int T, int E)
{
    cur_cfg = cfg;
    cur_bound[0] = 0;
    cur_bound[ABTMC_B_P] = P;
    cur_bound[ABTMC_B_T] = T;
    cur_bound[ABTMC_B_E] = E;
    /* reset cache: MADV_DONTNEED zero-fills a shared anonymous mapping? no:
     * use explicit memset on the touched part via remap */
    munmap(CACHE, (CACHE_MASK + 1) * sizeof(abtmc_centry));
    CACHE = shalloc((CACHE_MASK + 1) * sizeof(abtmc_centry));
    S->top = 0;
    S->inflight = 0;
    F[S->top].ndev = 0;
    S->top++;
    pid_t pids[MAXW];
    fflush(NULL); /* children must not inherit unflushed stdio buffers */
    for (int w = 0; w < opt_workers; w++) {
        pid_t p = fork();
        if (p == 0)
            worker(w);
        pids[w] = p;
    }
    for (int w = 0; w < opt_workers; w++) {
        int st;
        while (waitpid(pids[w], &st, 0) < 0 && errno == EINTR)
            ;
        if (!WIFEXITED(st) || WEXITSTATUS(st) != 0) {
            fprintf(stderr, "abtmc: worker %d died (status %x)\n", w, st);
            S->nondet = 3;
        }
    }
    return !S->stop && !S->nondet && S->top == 0 && !S->devlist_overflow &&
           !S->frontier_overflow;
}

static int parse_replay(const char *path, int *cfg, int *bound, long *horizon,
                        abtmc_dev *dev, int *ndev)
{
    FILE *f = fopen(path, "r");
    if (!f)
        return -1;
    static char buf[65536];
    size_t n = fread(buf, 1, sizeof(buf) - 1, f);
    buf[n] = 0;
    fclose(f);
    char *p;
    *cfg = 0;
    if ((p = strstr(buf, "\"config\":")))
        *cfg = atoi(p + 9);
    bound[0] = 0;
    bound[1] = bound[2] = bound[3] = 0;
    if ((p = strstr(buf, "\"bounds\":[")))
        sscanf(p + 10, "%d,%d,%d", &bound[1], &bound[2], &bound[3]);
    if ((p = strstr(buf, "\"horizon\":")))
        *horizon = atol(p + 10);
    *ndev = 0;
    if ((p = strstr(buf, "\"deviations\":["))) {
        p += 14;
        while (*p && *p != ']') {
            if (*p == '[') {
                unsigned a, b;
                if (sscanf(p, "[%u,%u]", &a, &b) == 2 && *ndev < ABTMC_MAXDEV) {
                    dev[*ndev].idx = a;
                    dev[*ndev].alt = (uint16_t)b;
                    dev[*ndev].pad = 0;
                    (*ndev)++;
                }
                while (*p && *p != ']')
                    p++;
                if (*p)
                    p++;
            } else
                p++;
        }
    }
    return 0;
}

static void usage(void)
{
    fprintf(stderr,
            "options: --list | --replay FILE [--trace] | [--config N|--quick] "
            "--P n --T n --E n --workers n --horizon n --deadline s --out FILE "
            "--replay-dir DIR --tmp DIR --no-iter --max-exec n --run N\n");
    exit(2);
}

int abtmc_main(int argc, char **argv, const abtmc_driver *d)
{
    D = d;
    /* fixed address-space layout so that traces print identically */
    int pers = personality(0xffffffff);
    if (pers != -1 && !(pers & ADDR_NO_RANDOMIZE) && !getenv("ABTMC_NOREEXEC")) {
        personality(pers | ADDR_NO_RANDOMIZE);
        setenv("ABTMC_NOREEXEC", "1", 1);
        execv("/proc/self/exe", argv);
    }
    int do_list = 0, run_cfg = -1;
    for (int i = 1; i < argc; i++) {
        const char *a = argv[i];
#define ARG(name) (!strcmp(a, name) && i + 1 < argc)
        if (!strcmp(a, "--list"))
            do_list = 1;
        else if (!strcmp(a, "--trace"))
            opt_trace = 1;
        else if (!strcmp(a, "--quick"))
            opt_quick = 1;
        else if (!strcmp(a, "--no-iter"))
            opt_iter = 0;
        else if (ARG("--replay"))
            opt_replay = argv[++i];
        else if (ARG("--config"))
            opt_cfg = atoi(argv[++i]);
        else if (ARG("--run"))
            run_cfg = atoi(argv[++i]);
        else if (ARG("--P"))
            opt_P = atoi(argv[++i]);
        else if (ARG("--T"))
            opt_T = atoi(argv[++i]);
        else if (ARG("--E"))
            opt_E = atoi(argv[++i]);
        else if (ARG("--workers"))
            opt_workers = atoi(argv[++i]);
        else if (ARG("--horizon"))
            opt_horizon = atol(argv[++i]);
        else if (ARG("--deadline"))
            opt_deadline = atof(argv[++i]);
        else if (ARG("--wall"))
            opt_wall = atoi(argv[++i]);
        else if (ARG("--out"))
            opt_out = argv[++i];
        else if (ARG("--replay-dir"))
            opt_replaydir = argv[++i];
        else if (ARG("--tmp"))
            opt_tmp = argv[++i];
        else if (ARG("--max-exec"))
            opt_maxexec = atol(argv[++i]);
        else if (ARG("--cache-bits"))
            opt_cachebits = atoi(argv[++i]);
        else
            usage();
    }
    if (opt_workers > MAXW)
        opt_workers = MAXW;
    if (do_list) {
        printf("{\"driver\":\"%s\",\"property\":\"%s\",\"configs\":[", d->name,
               d->property);
        for (int i = 0; i < d->nconfigs; i++) {
            printf("%s{\"index\":%d,\"name\":", i ? "," : "", i);
            json_str(stdout, d->config_name(i));
            printf(",\"quick\":%d}", d->config_quick ? d->config_quick(i) : 1);
        }
        printf("]}\n");
        return 0;
    }
    mkdir(opt_tmp, 0755);
    S = shalloc(sizeof(shared_t));
    for (int w = 0; w < MAXW; w++)
        XR[w] = NULL;
    XR[0] = shalloc(sizeof(abtmc_xrec));
    t_start = now_s();

    if (opt_replay || run_cfg >= 0) {
        int cfg = run_cfg, bound[5] = { 0, 0, 0, 0, 0 }, ndev = 0;
        long horizon = opt_horizon * 10;
        static abtmc_dev dev[ABTMC_MAXDEV];
        if (opt_replay &&
            parse_replay(opt_replay, &cfg, bound, &horizon, dev, &ndev) != 0) {
            fprintf(stderr, "cannot read %s\n", opt_replay);
            return 2;
        }
        if (cfg < 0 || cfg >= d->nconfigs) {
            fprintf(stderr, "bad config %d\n", cfg);
            return 2;
        }
        int trace_first_fd = -1;
        if (getenv("ABTMC_TRACE_FIRST"))
            trace_first_fd = open(getenv("ABTMC_TRACE_FIRST"),
                                  O_RDWR | O_CREAT | O_TRUNC, 0644);
        char path[256];
        snprintf(path, sizeof(path), "%s/replay.err.%d", opt_tmp, (int)getpid());
        int errfd = open(path, O_RDWR | O_CREAT | O_TRUNC, 0644);
        unlink(path);
        abtmc_xrec *xr = XR[0];
        int st0;
        if (trace_first_fd >= 0) {
            /* debugging aid: trace the first replay into a file as well */
            force_errfd = 1;
            st0 = run_exec(xr, cfg, dev, ndev, bound, horizon, 0, 1, 1,
                           trace_first_fd, opt_wall * 5);
            force_errfd = 0;
        } else
            st0 = run_exec(xr, cfg, dev, ndev, bound, horizon, 0, 1, 0, errfd,
                           opt_wall * 5);
        uint64_t h0 = xr->tracehash;
        uint64_t th0[ABTMC_MAXT], to0[ABTMC_MAXT];
        memcpy(th0, xr->thash, sizeof(th0));
        memcpy(to0, xr->tops, sizeof(to0));
        char key0[96], msg0[1024];
        snprintf(key0, sizeof(key0), "%s", xr->key);
        snprintf(msg0, sizeof(msg0), "%s", xr->msg);
        int st1 = run_exec(xr, cfg, dev, ndev, bound, horizon, 0, 1, opt_trace,
                           errfd, opt_wall * 5);
        int det = st0 == st1 && !strcmp(key0, xr->key) &&
                  (st0 == ABTMC_ST_CRASH || st0 == ABTMC_ST_TIMEOUT ||
                   h0 == xr->tracehash);
        printf("{\"driver\":\"%s\",\"config\":%d,\"config_name\":", d->name,
               cfg);
        json_str(stdout, d->config_name(cfg));
        printf(",\"status\":\"%s\",\"key\":", stname(st1));
        json_str(stdout, xr->key);
        printf(",\"msg\":");
        json_str(stdout, xr->msg);
        printf(",\"obs\":");
        json_str(stdout, xr->obs);
        printf(",\"ops\":%llu,\"choice_points\":%u,\"deterministic\":%s}\n",
               (unsigned long long)xr->nops, xr->ncp, det ? "true" : "false");
        if (!det) {
            fprintf(stderr, "replay mismatch: status %d/%d key %s/%s\n", st0, st1,
                    key0, xr->key);
            for (int i = 0; i < ABTMC_MAXT; i++)
                fprintf(stderr, "  t%d: hash %llx / %llx  ops %llu / %llu\n", i,
                        (unsigned long long)th0[i],
                        (unsigned long long)xr->thash[i],
                        (unsigned long long)to0[i],
                        (unsigned long long)xr->tops[i]);
            return 3;
        }
        if (st1 == ABTMC_ST_ENGINE)
            return 3;
        return st1 == ABTMC_ST_OK ? 0 : 1;
    }

    for (int w = 1; w < opt_workers; w++)
        XR[w] = shalloc(sizeof(abtmc_xrec));
    F = shalloc(sizeof(fent) * FRONTIER_CAP);
    CACHE_MASK = (1ULL << opt_cachebits) - 1;
    CACHE = shalloc((CACHE_MASK + 1) * sizeof(abtmc_centry));

    FILE *out = opt_out ? fopen(opt_out, "w") : stdout;
    if (!out) {
        perror(opt_out);
        return 2;
    }
    fprintf(out, "{\"driver\":\"%s\",\"property\":\"%s\",\"workers\":%d,"
                 "\"horizon\":%ld,\"configs\":[",
            d->name, d->property, opt_workers, opt_horizon);
    int firstcfg = 1, total_viol = 0, engine_fail = 0;
    for (int cfg = 0; cfg < d->nconfigs; cfg++) {
        if (opt_cfg >= 0 && cfg != opt_cfg)
            continue;
        if (opt_quick && d->config_quick && !d->config_quick(cfg))
            continue;
        double t0 = now_s();
        int completedP = -1, drained = 0;
        memset(S, 0, sizeof(*S));
        uint64_t agg_exec = 0, agg_states = 0, agg_trans = 0, agg_pruned = 0,
                 agg_hh = 0, agg_ops = 0, agg_cps = 0;
        for (int P = opt_iter ? 0 : opt_P; P <= opt_P; P++) {
            /* keep outcomes/violations/samples across levels */
            S->executions = S->states = S->transitions = S->pruned = 0;
            S->horizon_hits = S->ops = S->cps = S->p_alts = 0;
            drained = explore_level(cfg, P, opt_T, opt_E);
            agg_exec += S->executions;
            agg_trans += S->transitions;
            agg_pruned += S->pruned;
            agg_hh += S->horizon_hits;
            agg_ops += S->ops;
            agg_cps += S->cps;
            if (S->states > agg_states)
                agg_states = S->states;
            if (drained)
                completedP = P;
            if (!drained || S->nviol || S->nondet)
                break;
            if (S->p_alts == 0) {
                /* no preemption alternative exists anywhere: higher
                 * preemption bounds explore exactly the same executions */
                completedP = opt_P;
                break;
            }
        }
        fprintf(out, "%s{\"index\":%d,\"name\":", firstcfg ? "" : ",", cfg);
        firstcfg = 0;
        json_str(out, d->config_name(cfg));
        fprintf(out,
                ",\"bounds\":{\"P\":%d,\"T\":%d,\"E\":%d},\"completed_P\":%d,"
                "\"exhaustive\":%s,\"executions\":%llu,\"states\":%llu,"
                "\"transitions\":%llu,\"ops\":%llu,\"choice_points\":%llu,"
                "\"pruned_by_cache\":%llu,"
                "\"horizon_hits\":%llu,\"max_frontier\":%ld,"
                "\"devlist_overflow\":%llu,\"frontier_overflow\":%llu,"
                "\"hash_mismatch\":%llu,"
                "\"stopped\":%d,\"wall_s\":%.3f,\"outcomes\":[",
                opt_P, opt_T, opt_E, completedP,
                (drained && completedP == opt_P) ? "true" : "false",
                (unsigned long long)agg_exec, (unsigned long long)agg_states,
                (unsigned long long)agg_trans, (unsigned long long)agg_ops,
                (unsigned long long)agg_cps, (unsigned long long)agg_pruned,
                (unsigned long long)agg_hh, S->max_frontier,
                (unsigned long long)S->devlist_overflow,
                (unsigned long long)S->frontier_overflow,
                (unsigned long long)S->hash_mismatch, S->stop, now_s() - t0);
        for (int i = 0; i < S->nout; i++) {
            fprintf(out, "%s{\"obs\":", i ? "," : "");
            json_str(out, S->out[i].text);
            fprintf(out, ",\"count\":%llu}", (unsigned long long)S->out[i].count);
        }
        fprintf(out, "],\"stats\":{");
        for (int i = 0; i < S->nstat; i++) {
            fprintf(out, "%s", i ? "," : "");
            json_str(out, S->statname[i]);
            fprintf(out, ":%lld", (long long)S->statval[i]);
        }
        fprintf(out, "},\"samples\":[");
        for (int i = 0; i < S->nsamp; i++) {
            fprintf(out, "%s{\"deviations\":", i ? "," : "");
            json_devs(out, S->samp[i].dev, S->samp[i].ndev);
            fprintf(out, ",\"bounds\":[%d,%d,%d]", S->samp_bound[i][1],
                    S->samp_bound[i][2], S->samp_bound[i][3]);
            fprintf(out, ",\"obs\":");
            json_str(out, S->samp_obs[i]);
            fprintf(out, "}");
        }
        fprintf(out, "],\"violations\":[");
        for (int i = 0; i < S->nviol; i++) {
            violent *v = &S->viol[i];
            char rp[512] = "";
            if (opt_replaydir) {
                mkdir(opt_replaydir, 0755);
                snprintf(rp, sizeof(rp), "%s/%s-%s-cfg%d-%d.json",
                         opt_replaydir, d->property, d->name, cfg, i);
                write_replay_file(rp, cfg, v);
            }
            fprintf(out, "%s{\"status\":\"%s\",\"key\":", i ? "," : "",
                    stname(v->status));
            json_str(out, v->key);
            fprintf(out, ",\"msg\":");
            json_str(out, v->msg);
            fprintf(out, ",\"confirmed\":%s,\"deviations\":",
                    v->confirmed ? "true" : "false");
            json_devs(out, v->dev, v->ndev);
            fprintf(out, ",\"replay\":");
            json_str(out, rp);
            fprintf(out, "}");
            total_viol++;
        }
        fprintf(out, "],\"violation_executions\":%llu",
                (unsigned long long)S->viol_total);
        if (S->nondet) {
            engine_fail = 1;
            fprintf(out, ",\"engine_error\":");
            json_str(out, S->viol[MAXVIOL - 1].msg);
            fprintf(out, ",\"engine_error_deviations\":");
            json_devs(out, S->viol[MAXVIOL - 1].dev, S->viol[MAXVIOL - 1].ndev);
        }
        fprintf(out, "}");
        fflush(out);
        if (opt_deadline > 0 && now_s() - t_start > opt_deadline) {
            /* remaining configs are reported as not run */
            for (int c2 = cfg + 1; c2 < d->nconfigs; c2++) {
                if (opt_cfg >= 0 && c2 != opt_cfg)
                    continue;
                if (opt_quick && d->config_quick && !d->config_quick(c2))
                    continue;
                fprintf(out, ",{\"index\":%d,\"name\":", c2);
                json_str(out, d->config_name(c2));
                fprintf(out, ",\"skipped\":true,\"exhaustive\":false}");
            }
            break;
        }
    }
    fprintf(out, "],\"wall_s\":%.3f}\n", now_s() - t_start);
    if (out != stdout)
        fclose(out);
    if (engine_fail)
        return 3;
    return total_viol ? 1 : 0;
}
