/* c14_common.h -- shared by the C14 drivers (c14_userpool.c, c14_poolapi.c):
 * the instrumented user pools (new ABT_pool_user_def flavour and legacy
 * ABT_pool_def flavour) whose units come from a static arena with chosen hash
 * buckets, the driver's own record of every unit's life, the white-box view of
 * the runtime's unit table, the translation check and the work units. */
#ifndef C14_COMMON_H
#define C14_COMMON_H
#include "abti.h"
#include "common.h"

/* ------------------------------------------------------------------ arena ---*/
#define NSLOT 48
static char arena[1 << 18] __attribute__((aligned(64)));
static ABT_unit slot_addr[NSLOT];
enum { U_UNUSED, U_LIVE, U_FREED };
typedef struct {
    int state;
    ABT_thread thread;
    int pool;     /* user pool index */
    int queued;   /* currently inside the pool's queue */
} urec_t;
static urec_t urec[NSLOT];
static int nslot;                 /* slots handed out so far */
static int recycle_units;         /* config: a freed unit address is handed out
                                     again (LIFO), as a real allocator would */
static int freed_stack[NSLOT], nfreed_stack;
static int n_create, n_free;      /* callback counters */
static int fail_next_create;      /* next create_unit returns ABT_UNIT_NULL */
static int create_failed;
static ABT_thread mig_watch = ABT_THREAD_NULL; /* see I_MIGRATE */
static int mig_at = -1;  /* slices the migrating ULT had started when its unit in
                            the target pool was created */
static const int *mig_watch_started;
static char logbuf[400];
static int loglen;

static void logev(char c, int s)
{
    if (loglen < (int)sizeof(logbuf) - 8)
        loglen += snprintf(logbuf + loglen, sizeof(logbuf) - loglen, "%c%d ", c, s);
}

/* the runtime's hash (src/unit.c unit_get_hash_index) */
static size_t uhash(ABT_unit unit)
{
    size_t val = (uintptr_t)unit;
    size_t base_val = val >> 3;
#if ABTI_UNIT_HASH_TABLE_SIZE_EXP <= 14
    base_val += val >> (ABTI_UNIT_HASH_TABLE_SIZE_EXP + 3);
#endif
#if ABTI_UNIT_HASH_TABLE_SIZE_EXP <= 9
    base_val += val >> (ABTI_UNIT_HASH_TABLE_SIZE_EXP * 2 + 3);
#endif
    return base_val & (ABTI_UNIT_HASH_TABLE_SIZE - 1);
}

static void arena_init(int collide)
{
    int n = 0;
    size_t want = 0;
    for (size_t off = 64; off + 8 <= sizeof(arena) && n < NSLOT; off += 8) {
        ABT_unit u = (ABT_unit)(arena + off);
        if (collide) {
            if (n == 0)
                want = uhash(u);
            else if (uhash(u) != want)
                continue;
        }
        slot_addr[n++] = u;
    }
    abtmc_check(n == NSLOT, "harness", "arena too small: %d slots", n);
}

static int slot_of(ABT_unit u, const char *where)
{
    for (int i = 0; i < nslot; i++)
        if (slot_addr[i] == u)
            return i;
    abtmc_check_fail("alien_unit", "%s: runtime passed unit %p which no "
                     "create_unit ever returned (log: %s)", where, (void *)u,
                     logbuf);
    return -1;
}

static int live_slot(ABT_unit u, const char *where)
{
    int s = slot_of(u, where);
    abtmc_check(urec[s].state == U_LIVE, "poisoned_unit_used",
                "%s: unit #%d was already freed by free_unit (log: %s)", where, s,
                logbuf);
    return s;
}

/* ------------------------------------------------------------- user pools ---*/
enum { POL_FIFO, POL_LIFO, POL_CHOOSE };
#define NUPOOL 3
#define QCAP 12
typedef struct {
    ABT_pool handle;
    int q[QCAP], n;
    int policy;
    int want; /* the driver asks the next pop to return this slot (-1: policy) */
} upool_t;
static upool_t UP[NUPOOL];
static int legacy_pool = -1;  /* index of the pool built from ABT_pool_def */
/* optional pool functions: which ones the next make_new_pool() registers with
 * ABT_pool_user_def_set_*() / the next make_legacy_pool() fills in (p_pop_wait
 * is not a member of ABT_pool_def in the 1.x API, p_pop_timedwait and p_remove
 * are).  0 (c14_userpool): only the required functions + get_size + free. */
enum { OPT_POP_MANY = 1, OPT_PUSH_MANY = 2, OPT_POP_WAIT = 4, OPT_L_TIMEDWAIT = 8,
       OPT_L_REMOVE = 16 };
static int pool_opts;
static int n_pop_many, n_push_many, n_pop_wait, n_pop_timedwait, n_remove;

static int pool_index(ABT_pool pool)
{
    for (int i = 0; i < NUPOOL; i++)
        if (UP[i].handle == pool)
            return i;
    abtmc_check_fail("harness", "callback for an unknown pool");
    return -1;
}

static ABT_unit up_create(int p, ABT_thread thread)
{
    abtmc_check(thread != ABT_THREAD_NULL && thread != ABT_TASK_NULL,
                "create_unit_null_thread", "create_unit called with a null handle");
    if (fail_next_create) {
        fail_next_create = 0;
        create_failed = 1;
        logev('x', p);
        return ABT_UNIT_NULL;
    }
    for (int i = 0; i < nslot; i++)
        abtmc_check(!(urec[i].state == U_LIVE && urec[i].thread == thread &&
                      urec[i].pool == p),
                    "double_create_unit",
                    "create_unit called for a work unit that already has live "
                    "unit #%d in the same pool %d (log: %s)", i, p, logbuf);
    abtmc_check(nslot < NSLOT, "harness", "out of unit slots");
    if (mig_watch != ABT_THREAD_NULL && thread == mig_watch && p == 1)
        mig_at = mig_watch_started ? *mig_watch_started : 0;
    int s;
    if (recycle_units && nfreed_stack > 0)
        s = freed_stack[--nfreed_stack]; /* same address, new association */
    else
        s = nslot++;
    urec[s].state = U_LIVE;
    urec[s].thread = thread;
    urec[s].pool = p;
    urec[s].queued = 0;
    n_create++;
    logev('c', s);
    return slot_addr[s];
}

static void up_free_unit(int p, ABT_unit unit)
{
    abtmc_check(unit != ABT_UNIT_NULL, "free_unit_null", "free_unit(ABT_UNIT_NULL)");
    int s = slot_of(unit, "free_unit");
    abtmc_check(urec[s].state == U_LIVE, "double_free_unit",
                "free_unit called twice for unit #%d (log: %s)", s, logbuf);
    abtmc_check(p < 0 || urec[s].pool == p, "free_unit_wrong_pool",
                "free_unit of unit #%d (pool %d) through pool %d", s, urec[s].pool,
                p);
    abtmc_check(!urec[s].queued, "free_unit_in_pool",
                "free_unit of unit #%d while it is inside its pool (log: %s)", s,
                logbuf);
    urec[s].state = U_FREED;
    if (recycle_units)
        freed_stack[nfreed_stack++] = s;
    n_free++;
    logev('f', s);
}

static void up_push(int p, ABT_unit unit)
{
    int s = live_slot(unit, "push");
    abtmc_check(urec[s].pool == p, "foreign_unit_pushed",
                "unit #%d of pool %d pushed into pool %d (log: %s)", s,
                urec[s].pool, p, logbuf);
    abtmc_check(!urec[s].queued, "double_push",
                "unit #%d pushed while already inside the pool (log: %s)", s,
                logbuf);
    abtmc_check(UP[p].n < QCAP, "harness", "user pool full");
    UP[p].q[UP[p].n++] = s;
    urec[s].queued = 1;
    logev('p', s);
}

static int up_pop(int p)
{
    upool_t *P = &UP[p];
    if (P->n == 0)
        return -1;
    int k = 0;
    if (P->want >= 0) {
        k = -1;
        for (int i = 0; i < P->n; i++)
            if (P->q[i] == P->want)
                k = i;
        P->want = -1;
        if (k < 0)
            return -1;
    } else if (P->policy == POL_LIFO) {
        k = P->n - 1;
    } else if (P->policy == POL_CHOOSE && P->n > 1) {
        k = abtmc_choose(P->n, ABTMC_B_E);
    }
    int s = P->q[k];
    memmove(&P->q[k], &P->q[k + 1], sizeof(int) * (P->n - k - 1));
    P->n--;
    abtmc_check(urec[s].state == U_LIVE && urec[s].queued, "poisoned_unit_used",
                "pool %d holds unit #%d that was freed (log: %s)", p, s, logbuf);
    urec[s].queued = 0;
    logev('o', s);
    return s;
}

/* new-style callbacks */
static ABT_unit n_create_unit(ABT_pool pool, ABT_thread t)
{
    return up_create(pool_index(pool), t);
}
static void n_free_unit(ABT_pool pool, ABT_unit u) { up_free_unit(pool_index(pool), u); }
static ABT_bool n_is_empty(ABT_pool pool)
{
    return UP[pool_index(pool)].n == 0 ? ABT_TRUE : ABT_FALSE;
}
static ABT_thread n_pop(ABT_pool pool, ABT_pool_context ctx)
{
    (void)ctx;
    int s = up_pop(pool_index(pool));
    return s < 0 ? ABT_THREAD_NULL : urec[s].thread;
}
static void n_push(ABT_pool pool, ABT_unit u, ABT_pool_context ctx)
{
    (void)ctx;
    up_push(pool_index(pool), u);
}
static size_t n_get_size(ABT_pool pool) { return (size_t)UP[pool_index(pool)].n; }
/* optional functions.  pop_wait does not wait: time_secs is a hint and the
 * virtual clock only moves by explorer decision; an empty pool gives
 * ABT_THREAD_NULL at once (the caller's loop carries the spin hint). */
static ABT_thread n_pop_wait_fn(ABT_pool pool, double secs, ABT_pool_context ctx)
{
    (void)ctx;
    abtmc_check(secs >= 0.0, "pop_wait_negative_time", "pop_wait(%f)", secs);
    n_pop_wait++;
    int s = up_pop(pool_index(pool));
    return s < 0 ? ABT_THREAD_NULL : urec[s].thread;
}
static void n_pop_many_fn(ABT_pool pool, ABT_thread *threads, size_t max_threads,
                          size_t *num_popped, ABT_pool_context ctx)
{
    (void)ctx;
    int p = pool_index(pool);
    size_t k = 0;
    n_pop_many++;
    while (k < max_threads) {
        int s = up_pop(p);
        if (s < 0)
            break;
        threads[k++] = urec[s].thread;
    }
    if (num_popped)
        *num_popped = k;
}
static void n_push_many_fn(ABT_pool pool, const ABT_unit *units, size_t num_units,
                           ABT_pool_context ctx)
{
    (void)ctx;
    int p = pool_index(pool);
    n_push_many++;
    for (size_t i = 0; i < num_units; i++)
        up_push(p, units[i]);
}
static void n_free_pool(ABT_pool pool)
{
    int p = pool_index(pool);
    abtmc_check(UP[p].n == 0, "pool_freed_nonempty", "pool %d freed with %d units",
                p, UP[p].n);
}
/* legacy callbacks (no pool argument for the unit functions) */
static ABT_unit l_create(ABT_thread t) { return up_create(legacy_pool, t); }
static void l_free(ABT_unit *pu) { up_free_unit(legacy_pool, *pu); }
static ABT_bool l_is_in_pool(ABT_unit u)
{
    int s = live_slot(u, "u_is_in_pool");
    return urec[s].queued ? ABT_TRUE : ABT_FALSE;
}
static size_t l_get_size(ABT_pool pool) { return (size_t)UP[pool_index(pool)].n; }
static void l_push(ABT_pool pool, ABT_unit u) { up_push(pool_index(pool), u); }
static ABT_unit l_pop(ABT_pool pool)
{
    int s = up_pop(pool_index(pool));
    return s < 0 ? ABT_UNIT_NULL : slot_addr[s];
}
static ABT_unit l_pop_timedwait(ABT_pool pool, double abstime)
{
    (void)abstime;
    n_pop_timedwait++;
    return l_pop(pool);
}
static int l_remove(ABT_pool pool, ABT_unit u)
{
    int p = pool_index(pool);
    int s = live_slot(u, "p_remove");
    n_remove++;
    abtmc_check(urec[s].pool == p && urec[s].queued, "remove_not_in_pool",
                "p_remove of unit #%d (pool %d, queued %d) from pool %d (log: %s)",
                s, urec[s].pool, urec[s].queued, p, logbuf);
    int k = -1;
    for (int i = 0; i < UP[p].n; i++)
        if (UP[p].q[i] == s)
            k = i;
    abtmc_check(k >= 0, "harness", "queued unit #%d not in queue %d", s, p);
    memmove(&UP[p].q[k], &UP[p].q[k + 1], sizeof(int) * (UP[p].n - k - 1));
    UP[p].n--;
    urec[s].queued = 0;
    logev('r', s);
    return ABT_SUCCESS;
}
static int l_free_pool(ABT_pool pool)
{
    n_free_pool(pool);
    return ABT_SUCCESS;
}

static void make_new_pool(int p, int policy)
{
    ABT_pool_user_def def;
    OK(ABT_pool_user_def_create(n_create_unit, n_free_unit, n_is_empty, n_pop,
                                n_push, &def));
    OK(ABT_pool_user_def_set_get_size(def, n_get_size));
    OK(ABT_pool_user_def_set_free(def, n_free_pool));
    if (pool_opts & OPT_POP_MANY)
        OK(ABT_pool_user_def_set_pop_many(def, n_pop_many_fn));
    if (pool_opts & OPT_PUSH_MANY)
        OK(ABT_pool_user_def_set_push_many(def, n_push_many_fn));
    if (pool_opts & OPT_POP_WAIT)
        OK(ABT_pool_user_def_set_pop_wait(def, n_pop_wait_fn));
    UP[p].policy = policy;
    UP[p].n = 0;
    UP[p].want = -1;
    /* the handle is needed by callbacks only after creation */
    OK(ABT_pool_create(def, ABT_POOL_CONFIG_NULL, &UP[p].handle));
    OK(ABT_pool_user_def_free(&def));
}

static void make_legacy_pool(int p, int policy)
{
    ABT_pool_def def;
    memset(&def, 0, sizeof(def));
    def.access = ABT_POOL_ACCESS_MPMC;
    def.u_create_from_thread = l_create;
    def.u_free = l_free;
    def.u_is_in_pool = l_is_in_pool;
    def.p_get_size = l_get_size;
    def.p_push = l_push;
    def.p_pop = l_pop;
    def.p_free = l_free_pool;
    if (pool_opts & OPT_L_TIMEDWAIT)
        def.p_pop_timedwait = l_pop_timedwait;
    if (pool_opts & OPT_L_REMOVE)
        def.p_remove = l_remove;
    UP[p].policy = policy;
    UP[p].n = 0;
    UP[p].want = -1;
    legacy_pool = p;
    OK(ABT_pool_create(&def, ABT_POOL_CONFIG_NULL, &UP[p].handle));
}

/* ------------------------------------------------- white box: the hash table */
typedef struct u2t {
    void *unit;
    void *p_thread;
    struct u2t *p_next;
} u2t; /* layout of unit_to_thread in src/unit.c */

static int mapped_entries(int *maxchain)
{
    ABTI_global *g = ABTI_global_get_global();
    int live = 0, mc = 0;
    for (size_t i = 0; i < ABTI_UNIT_HASH_TABLE_SIZE; i++) {
        int chain = 0;
        for (u2t *e = (u2t *)g->unit_to_thread_entires[i].list.val.val; e;
             e = e->p_next) {
            chain++;
            if (e->unit != (void *)ABT_UNIT_NULL)
                live++;
        }
        if (chain > mc)
            mc = chain;
    }
    if (maxchain)
        *maxchain = mc;
    return live;
}

static int live_units(void)
{
    int n = 0;
    for (int i = 0; i < nslot; i++)
        n += urec[i].state == U_LIVE;
    return n;
}

/* translation of a live work unit: handle -> unit -> handle */
static void check_translation(ABT_thread t, int user_pool, const char *when)
{
    ABT_unit u = ABT_UNIT_NULL;
    OK(ABT_thread_get_unit(t, &u));
    abtmc_check(u != ABT_UNIT_NULL, "translation", "%s: get_unit gave NULL", when);
    if (user_pool >= 0) {
        int s = live_slot(u, "ABT_thread_get_unit");
        abtmc_check(urec[s].thread == t && urec[s].pool == user_pool,
                    "translation",
                    "%s: ABT_thread_get_unit returned unit #%d which create_unit "
                    "made for another work unit / pool (%d, expected pool %d)",
                    when, s, urec[s].pool, user_pool);
    } else {
        for (int i = 0; i < nslot; i++)
            abtmc_check(slot_addr[i] != u, "translation",
                        "%s: work unit in a built-in pool still reports user "
                        "unit #%d", when, i);
    }
    ABT_thread back = ABT_THREAD_NULL;
    OK(ABT_unit_get_thread(u, &back));
    abtmc_check(back == t, "translation",
                "%s: ABT_unit_get_thread(ABT_thread_get_unit(t)) = %p, not t = %p",
                when, (void *)back, (void *)t);
}

/* ------------------------------------------------------------- work units ---*/
#define NW 6
static ABT_thread W[NW];
static int wkind[NW];            /* 0 named yielding ULT, 1 named tasklet, 2 unnamed ULT */
static int wstart[NW], wdone[NW], winc[NW];
static int wyields[NW];
static int nw;
static char ranon[NW + 1];
static int go_flag;              /* hooked: set after the migration request */
static int wpoll[NW];            /* unit first polls go_flag, yielding */
static int wslices[NW];          /* yields done so far */
static void (*w_action)(int id); /* run by every work unit when it starts */

static void wbody(int id, void *arg)
{
    abtmc_check(arg == (void *)(uintptr_t)(0xC14000 + id), "wrong_argument",
                "work unit %d got argument %p", id, arg);
    abtmc_check(wstart[id] == wdone[id] && wstart[id] < winc[id], "started_twice",
                "work unit %d entered again (starts=%d completions=%d "
                "incarnations=%d)", id, wstart[id], wdone[id], winc[id]);
    wstart[id]++;
    int rank = -1;
    ABT_xstream_self_rank(&rank);
    ranon[id] = (char)('0' + rank);
    if (w_action)
        w_action(id);
    if (wpoll[id])
        while (!abtmc_load(&go_flag)) {
            wslices[id] = 1;
            OK(ABT_thread_yield());
        }
    for (int y = 0; y < wyields[id]; y++) {
        wslices[id] = 2 + y;
        OK(ABT_thread_yield());
    }
    wdone[id]++;
}
#define WFN(n) static void wfn##n(void *a) { wbody(n, a); }
WFN(0) WFN(1) WFN(2) WFN(3) WFN(4) WFN(5)
static void (*const wfns[NW])(void *) = { wfn0, wfn1, wfn2, wfn3, wfn4, wfn5 };
#define WARG(id) ((void *)(uintptr_t)(0xC14000 + (id)))

/* kind: 0 named ULT, 1 named tasklet, 2 unnamed ULT, 3 unnamed tasklet */
static int new_work_unit(ABT_pool pool, int kind, int yields)
{
    abtmc_check(nw < NW, "harness", "too many work units");
    int id = nw++;
    wkind[id] = kind;
    wyields[id] = (kind == 0 || kind == 2) ? yields : 0;
    winc[id] = 1;
    W[id] = ABT_THREAD_NULL;
    switch (kind) {
        case 0:
            OK(ABT_thread_create(pool, wfns[id], WARG(id), ABT_THREAD_ATTR_NULL,
                                 &W[id]));
            break;
        case 1:
            OK(ABT_task_create(pool, wfns[id], WARG(id), &W[id]));
            break;
        case 2:
            OK(ABT_thread_create(pool, wfns[id], WARG(id), ABT_THREAD_ATTR_NULL,
                                 NULL));
            break;
        default:
            OK(ABT_task_create(pool, wfns[id], WARG(id), NULL));
            break;
    }
    return id;
}

#endif /* C14_COMMON_H */
