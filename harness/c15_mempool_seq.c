/* c15_mempool_seq.c -- C15a: every alloc/free/recreate history (up to a depth)
 * over 2-3 local memory pools sharing one global pool, on the real
 * ABTI_mem_pool_* code instantiated with tiny parameters (white box).
 *
 * The first SHARD choices of a history are explorer choices
 * (abtmc_choose(.., FREE): every combination is a separate execution); the
 * remaining ones are enumerated inside the execution, each history on a fresh
 * global pool.  Oracle: see c15_pool.h.
 * History notation in messages: A<p> alloc from pool p, Fo<p>/Fn<p> free the
 * oldest/newest live block into pool p, R<p> destroy + re-initialise pool p,
 * Ax<p> alloc from pool p while the next page allocation fails. */
#include "c15_pool.h"

enum { K_ALLOC, K_FREE_OLD, K_FREE_NEW, K_RECREATE, K_ALLOC_FAULT };
typedef struct {
    int kind, pool;
} op_t;

#define MAXOPS 10
typedef struct {
    const char *name;
    int quick;
    px_params P;
    int depth;
    int nops;
    op_t ops[MAXOPS];
} cfg_t;

#define OPS2                                                                   \
    9, {                                                                       \
        { K_ALLOC, 0 }, { K_ALLOC, 1 }, { K_FREE_OLD, 0 }, { K_FREE_NEW, 0 },  \
        { K_FREE_OLD, 1 }, { K_FREE_NEW, 1 }, { K_RECREATE, 0 },               \
        { K_RECREATE, 1 }, { K_ALLOC_FAULT, 0 }                               \
    }
/* three pools: fewer variants per pool to stay at <= 10 alternatives */
#define OPS3                                                                   \
    10, {                                                                      \
        { K_ALLOC, 0 }, { K_ALLOC, 1 }, { K_ALLOC, 2 }, { K_FREE_OLD, 0 },     \
        { K_FREE_NEW, 1 }, { K_FREE_OLD, 2 }, { K_RECREATE, 0 },               \
        { K_RECREATE, 1 }, { K_RECREATE, 2 }, { K_ALLOC_FAULT, 1 }            \
    }

/* { nper, header_size, header_offset, per_page, page_slack, nlocal }, depth.
 * Quick configs are re-run at a larger depth by the non-quick ones. */
static const cfg_t cfgs[] = {
    { "n1 hdr64 page4 2pools d6", 1, { 1, 64, 0, 4, 0, 2 }, 6, OPS2 },
    { "n2 hdr64 page5 2pools d7", 1, { 2, 64, 0, 5, 8, 2 }, 7, OPS2 },
    { "n3 hdr64 page4 2pools d7", 1, { 3, 64, 0, 4, 56, 2 }, 7, OPS2 },
    { "n2 hdr192 off128 page3 2pools (stack-like) d6", 1,
      { 2, 192, 128, 3, 64, 2 }, 6, OPS2 },
    { "n3 hdr128 page5 3pools d6", 1, { 3, 128, 0, 5, 16, 3 }, 6, OPS3 },
    { "n1 hdr64 page4 2pools d8", 0, { 1, 64, 0, 4, 0, 2 }, 8, OPS2 },
    { "n2 hdr64 page5 2pools d8", 0, { 2, 64, 0, 5, 8, 2 }, 8, OPS2 },
    { "n3 hdr64 page4 2pools d9", 0, { 3, 64, 0, 4, 56, 2 }, 9, OPS2 },
    { "n2 hdr192 off128 page3 2pools (stack-like) d8", 0,
      { 2, 192, 128, 3, 64, 2 }, 8, OPS2 },
    { "n3 hdr128 page5 3pools d7", 0, { 3, 128, 0, 5, 16, 3 }, 7, OPS3 },
    { "n4 hdr64 page3 2pools d9", 0, { 4, 64, 0, 3, 0, 2 }, 9, OPS2 },
    { "n2 hdr64 page2 3pools d7", 0, { 2, 64, 0, 2, 24, 3 }, 7, OPS3 },
};

#define SHARD 4
#define MAXDEPTH 12

static px_t X; /* aligned as ABTI_mem_pool_global_pool requires */
static const cfg_t *C;
static int depth;
static long long n_hist, n_ops, n_pruned, n_fault_fired;
static unsigned ev_mask;
static long long ev_cnt[8];
enum {
    EV_PAGE,        /* a page was obtained from the allocator */
    EV_TAKE_LIFO,   /* a bucket was taken from the global LIFO */
    EV_RETURN,      /* a local pool handed a full bucket back */
    EV_PART_SET,    /* destroy: partial bucket installed */
    EV_PART_JOIN,   /* destroy: partial bucket grew (still partial) */
    EV_PART_FULL,   /* destroy: partial buckets completed a bucket */
    EV_FAULT,       /* page allocation failed inside take_bucket */
    EV_CROSS        /* a block was freed into a pool that did not allocate it */
};
static void ev(int e)
{
    ev_mask |= 1u << e;
    ev_cnt[e]++;
}

static int lifo_depth(void)
{
    int n = 0;
    ABTI_sync_lifo_element *e =
        (ABTI_sync_lifo_element *)X.g.bucket_lifo.p_top.ptr;
    while (e && n < PX_MAXHDR) {
        n++;
        e = e->p_next;
    }
    return n;
}
static long partial_n(void)
{
    return X.g.partial_bucket
               ? (long)X.g.partial_bucket->bucket_info.num_headers
               : 0;
}

/* applies one op; returns 0 if the op is not applicable in this state */
static int apply(const op_t *o)
{
    int i = o->pool;
    long pages0 = abtmc_ledger_live();
    int lifo0 = lifo_depth();
    long part0 = partial_n();
    switch (o->kind) {
        case K_ALLOC: {
            if (X.nlive >= 12)
                return 0;
            int r = px_alloc(&X, i, NULL);
            abtmc_check(r == ABT_SUCCESS, "pool_alloc_failed",
                        "ABTI_mem_pool_alloc returned %d without any "
                        "allocation failure", r);
            break;
        }
        case K_ALLOC_FAULT: {
            if (X.nlive >= 12)
                return 0;
            int live0 = X.nlive;
            abtmc_fail_nth(ABTMC_R_MALLOC, 1);
            int r = px_alloc(&X, i, NULL);
            int fired = abtmc_fault_fired();
            abtmc_fail_nth(0, 0);
            if (!fired) {
                /* no page was needed: identical to K_ALLOC -> not a new
                 * history */
                abtmc_check(r == ABT_SUCCESS, "pool_alloc_failed",
                            "alloc returned %d", r);
                return 0;
            }
            ev(EV_FAULT);
            n_fault_fired++;
            abtmc_check(r == ABT_ERR_MEM, "pool_fault_code",
                        "page allocation failed but alloc returned %d", r);
            abtmc_check(X.nlive == live0, "harness_error", "model");
            break;
        }
        case K_FREE_OLD:
        case K_FREE_NEW: {
            if (X.nlive == 0)
                return 0;
            if (X.nlive == 1 && o->kind == K_FREE_NEW)
                return 0; /* same as FREE_OLD */
            int k = o->kind == K_FREE_OLD ? 0 : X.nlive - 1;
            if (X.live[k].owner != i)
                ev(EV_CROSS);
            px_free(&X, i, k);
            break;
        }
        default:
            px_local_destroy(&X, i);
            {
                long part1 = partial_n();
                int lifo1 = lifo_depth();
                if (part0 == 0 && part1 > 0)
                    ev(EV_PART_SET);
                else if (part1 > part0)
                    ev(EV_PART_JOIN);
                else if (part0 > 0 && part1 < part0)
                    ev(EV_PART_FULL);
                (void)lifo1;
            }
            px_check_structure(&X, "after destroying a local pool");
            lifo0 = lifo_depth();
            pages0 = abtmc_ledger_live();
            {
                int r = px_local_init(&X, i);
                abtmc_check(r == ABT_SUCCESS, "pool_alloc_failed",
                            "init_local_pool returned %d", r);
            }
            break;
    }
    if (abtmc_ledger_live() > pages0)
        ev(EV_PAGE);
    int lifo1 = lifo_depth();
    if (lifo1 < lifo0)
        ev(EV_TAKE_LIFO);
    if (lifo1 > lifo0 && o->kind != K_RECREATE)
        ev(EV_RETURN);
    n_ops++;
    px_check_structure(&X, "after an operation");
    return 1;
}

/* runs ops[0..n) on a fresh set of pools; returns the index of the first
 * inapplicable op (n if all applied) */
static char hist[100];
static void hist_add(const op_t *o)
{
    static const char *kn[] = { "A", "Fo", "Fn", "R", "Ax" };
    size_t l = strlen(hist);
    snprintf(hist + l, sizeof(hist) - l, "%s%s%d", l ? " " : "", kn[o->kind],
             o->pool);
}

static int run_history(const int *h, int n)
{
    hist[0] = 0;
    px_context = hist;
    px_init(&X, &C->P);
    for (int i = 0; i < C->P.nlocal; i++) {
        int r = px_local_init(&X, i);
        abtmc_check(r == ABT_SUCCESS, "pool_alloc_failed",
                    "init_local_pool returned %d", r);
    }
    px_check_structure(&X, "after initialisation");
    int k;
    for (k = 0; k < n; k++) {
        hist_add(&C->ops[h[k]]);
        if (!apply(&C->ops[h[k]]))
            break;
    }
    px_teardown(&X);
    return k;
}

static void scenario(int cfg)
{
    C = &cfgs[cfg];
    depth = C->depth;
    if (depth > MAXDEPTH)
        depth = MAXDEPTH;
    int h[MAXDEPTH];
    abtmc_window_begin();
    int ns = depth < SHARD ? depth : SHARD;
    for (int k = 0; k < ns; k++)
        h[k] = abtmc_choose(C->nops, ABTMC_B_FREE);
    abtmc_window_end();

    /* the sharded prefix must itself be applicable */
    if (run_history(h, ns) < ns) {
        abtmc_stat("vacuous_shards", 1);
        abtmc_observe("inapplicable-prefix");
        return;
    }
    /* odometer over the remaining positions; a history whose op k is
     * inapplicable prunes every history with that prefix */
    for (int k = ns; k < depth; k++)
        h[k] = 0;
    while (1) {
        int bad = run_history(h, depth);
        int pos;
        if (bad < depth) {
            n_pruned++;
            pos = bad; /* skip the whole subtree below the inapplicable op */
            for (int k = bad + 1; k < depth; k++)
                h[k] = 0;
        } else {
            n_hist++;
            pos = depth - 1;
        }
        /* increment at pos */
        while (pos >= ns && ++h[pos] == C->nops) {
            h[pos] = 0;
            pos--;
        }
        if (pos < ns)
            break;
        if (depth == ns)
            break;
    }
    abtmc_stat("cases", n_hist);
    abtmc_stat("ops", n_ops);
    abtmc_stat("pruned_inapplicable", n_pruned);
    abtmc_stat("fault_fired", n_fault_fired);
    static const char *evn[] = { "ev_page", "ev_take_lifo", "ev_return_bucket",
                                 "ev_partial_set", "ev_partial_join",
                                 "ev_partial_complete", "ev_alloc_fault",
                                 "ev_cross_free" };
    for (int e = 0; e < 8; e++)
        abtmc_stat(evn[e], ev_cnt[e]);
    abtmc_observe("paths=%02x", ev_mask);
}

static const char *cfg_name(int i) { return cfgs[i].name; }
static int cfg_quick(int i) { return cfgs[i].quick; }

int main(int argc, char **argv)
{
    static abtmc_driver d = { "c15_mempool_seq", "C15", ARRAY_LEN(cfgs),
                              cfg_name, scenario, cfg_quick };
    return abtmc_main(argc, argv, &d);
}
