/* c17_asan.h -- ASan-only helper for the C17 drivers (include after abti.h).
 *
 * ABT_xstream_revive restarts the main-scheduler ULT of the stream on the SAME
 * stack.  The previous life of that ULT ended in ABTI_ythread_exit (a context
 * switch away from frames that are never unwound); ASan cannot unpoison them
 * ("ASan is ignoring requested __asan_handle_no_return ... False positive
 * error reports may follow"), so the stale red zones of the dead frames make
 * the next life report a bogus stack-buffer-underflow.  Before a revive the
 * drivers therefore clear the shadow of that one stack.  This removes only
 * stale poison of dead frames; it hides no access of the code under test. */
#ifndef C17_ASAN_H
#define C17_ASAN_H
#if defined(__SANITIZE_ADDRESS__)
#include <sanitizer/asan_interface.h>
static inline void c17_unpoison_main_sched_stack(ABT_xstream x)
{
    ABTI_xstream *p = ABTI_xstream_get_ptr(x);
    if (!p || !p->p_main_sched || !p->p_main_sched->p_ythread)
        return;
    ABTI_ythread *y = p->p_main_sched->p_ythread;
    char *top = (char *)ABTD_ythread_context_get_stacktop(&y->ctx);
    size_t sz = ABTD_ythread_context_get_stacksize(&y->ctx);
    if (top && sz)
        __asan_unpoison_memory_region(top - sz, sz);
}
#else
static inline void c17_unpoison_main_sched_stack(ABT_xstream x) { (void)x; }
#endif
#endif
