/* c11_suspend.c -- C11 (first half) and C02 (race half): a ULT that suspends
 * does not run again until resumed, runs exactly once per resume, even when
 * the resume comes from another stream the moment BLOCKED is observable; it
 * never runs on two streams at once and its stack context survives. */
#include "abti.h"
#include "common.h"

enum { R_EXT, R_PRIMARY, R_ULT_SAME, R_ULT_ES1 };
enum { B_SUSPEND, B_EVENTUAL };
enum { POLL_RESUME_RC, POLL_STATE };
typedef struct {
    const char *name;
    int quick;
    int a_on_es1;   /* A lives on ES1's pool (else primary ES) */
    int shared;     /* A lives in a pool shared by ES1 and ES2 */
    int resumer, block, poll, rounds;
} cfg_t;

static const cfg_t cfgs[] = {
    { "A@ES0 suspend x2, X resumes (retry on ERR_THREAD)", 1, 0, 0, R_EXT,
      B_SUSPEND, POLL_RESUME_RC, 2 },
    { "A@ES1 suspend x2, primary resumes (poll state)", 1, 1, 0, R_PRIMARY,
      B_SUSPEND, POLL_STATE, 2 },
    { "A@ES1 suspend x2, X resumes (poll state)", 1, 1, 0, R_EXT, B_SUSPEND,
      POLL_STATE, 2 },
    { "A@ES0 suspend, ULT on ES1 resumes (poll state)", 1, 0, 0, R_ULT_ES1,
      B_SUSPEND, POLL_STATE, 1 },
    { "A@ES0 eventual wait, X sets", 1, 0, 0, R_EXT, B_EVENTUAL, 0, 1 },
    { "A@ES0 suspend x2, second ULT on ES0 resumes", 1, 0, 0, R_ULT_SAME,
      B_SUSPEND, POLL_RESUME_RC, 2 },
    { "A@shared(ES1,ES2) suspend x2, X resumes (poll state)", 0, 1, 1, R_EXT,
      B_SUSPEND, POLL_STATE, 2 },
    { "A@shared(ES1,ES2) suspend x2, primary resumes (retry)", 0, 1, 1,
      R_PRIMARY, B_SUSPEND, POLL_RESUME_RC, 2 },
    { "A@ES1 eventual wait, primary sets", 0, 1, 0, R_PRIMARY, B_EVENTUAL, 0, 1 },
    { "A@ES1 suspend x3, X resumes (retry)", 0, 1, 0, R_EXT, B_SUSPEND,
      POLL_RESUME_RC, 3 },
};

static const cfg_t *C;
static ABT_thread A;
static ABT_eventual EV;
static int credit;             /* hooked: resumes announced - slices consumed */
static int in_slice, slices, resumes_ok, mirror;
static int retries;
static char where[8];
static int nwhere;

static void note_where(void)
{
    int rank = -1;
    ABT_xstream_self_rank(&rank);
    if (nwhere < 7)
        where[nwhere++] = (char)('0' + rank);
}

static void a_fn(void *arg)
{
    (void)arg;
    volatile int step = 0; /* lives on A's stack */
    volatile unsigned char pat[64];
    for (int i = 0; i < 64; i++)
        pat[i] = (unsigned char)(i * 7 + 1);
    slices++;
    note_where();
    for (int r = 0; r < C->rounds; r++) {
        in_slice++;
        abtmc_check(in_slice == 1, "two_slices_at_once",
                    "ULT A is executing %d slices at the same time", in_slice);
        abtmc_progress();
        in_slice--;
        step++;
        mirror = step;
        if (C->block == B_SUSPEND) {
            OK(ABT_self_suspend());
        } else {
            OK(ABT_eventual_wait(EV, NULL));
        }
        /* resumed: must have been announced, exactly once per resume */
        int c = abtmc_fetch_add(&credit, -1);
        abtmc_check(c >= 1, "ran_without_resume",
                    "ULT A ran after suspending without being resumed "
                    "(credit %d)", c);
        slices++;
        note_where();
        in_slice++;
        abtmc_check(in_slice == 1, "two_slices_at_once",
                    "ULT A is executing %d slices at the same time", in_slice);
        abtmc_progress();
        in_slice--;
        abtmc_check(step == mirror, "stale_context",
                    "ULT A resumed with stack counter %d, expected %d (stale "
                    "saved context)", step, mirror);
        for (int i = 0; i < 64; i++)
            abtmc_check(pat[i] == (unsigned char)(i * 7 + 1), "stack_corrupted",
                        "stack pattern of A damaged at %d", i);
        ABT_thread self;
        OK(ABT_self_get_thread(&self));
        abtmc_check(self == A, "wrong_self", "ABT_self_get_thread != A");
        ABT_thread_state st;
        OK(ABT_thread_get_state(A, &st));
        abtmc_check(st == ABT_THREAD_STATE_RUNNING, "state_not_running",
                    "A is executing but its state is %d", (int)st);
    }
}

static void resumer_fn(void *arg)
{
    (void)arg;
    int is_ult = C->resumer != R_EXT;
    for (int r = 0; r < C->rounds; r++) {
        if (C->block == B_EVENTUAL) {
            abtmc_fetch_add(&credit, 1);
            OK(ABT_eventual_set(EV, NULL, 0));
            resumes_ok++;
            continue;
        }
        if (C->poll == POLL_STATE) {
            /* documented pattern: wait until BLOCKED is observable, resume */
            for (;;) {
                ABT_thread_state st;
                OK(ABT_thread_get_state(A, &st));
                if (st == ABT_THREAD_STATE_BLOCKED)
                    break;
                if (retries < 2)
                    retries++;
                if (is_ult)
                    OK(ABT_thread_yield());
                else
                    abtmc_spin_hint(1001, A);
            }
            abtmc_fetch_add(&credit, 1);
            int rc = ABT_thread_resume(A);
            abtmc_check(rc == ABT_SUCCESS, "resume_failed",
                        "ABT_thread_resume of a BLOCKED ULT returned %d", rc);
            resumes_ok++;
        } else {
            for (;;) {
                abtmc_fetch_add(&credit, 1);
                int rc = ABT_thread_resume(A);
                if (rc == ABT_SUCCESS)
                    break;
                abtmc_check(rc == ABT_ERR_THREAD, "resume_rc",
                            "ABT_thread_resume returned %d", rc);
                abtmc_fetch_add(&credit, -1);
                if (retries < 2)
                    retries++;
                if (is_ult)
                    OK(ABT_thread_yield());
                else
                    abtmc_spin_hint(1002, A);
            }
            resumes_ok++;
        }
    }
}

static void scenario(int cfg)
{
    C = &cfgs[cfg];
    h_init();
    ABT_xstream es1 = ABT_XSTREAM_NULL, es2 = ABT_XSTREAM_NULL;
    ABT_pool pa, p0 = h_main_pool(h_self_xstream()), shared = ABT_POOL_NULL;
    if (C->shared) {
        OK(ABT_pool_create_basic(ABT_POOL_FIFO, ABT_POOL_ACCESS_MPMC, ABT_TRUE,
                                 &shared));
        ABT_sched s1, s2;
        OK(ABT_sched_create_basic(ABT_SCHED_BASIC, 1, &shared,
                                  ABT_SCHED_CONFIG_NULL, &s1));
        OK(ABT_sched_create_basic(ABT_SCHED_BASIC, 1, &shared,
                                  ABT_SCHED_CONFIG_NULL, &s2));
        OK(ABT_xstream_create(s1, &es1));
        OK(ABT_xstream_create(s2, &es2));
        pa = shared;
    } else if (C->a_on_es1 || C->resumer == R_ULT_ES1) {
        OK(ABT_xstream_create(ABT_SCHED_NULL, &es1));
        pa = C->a_on_es1 ? h_main_pool(es1) : p0;
    } else {
        pa = p0;
    }
    if (C->block == B_EVENTUAL)
        OK(ABT_eventual_create(0, &EV));

    h_watch_pool(p0);
    h_watch_pool(pa);
    if (es1 != ABT_XSTREAM_NULL)
        h_watch_pool(h_main_pool(es1));
    abtmc_window_begin();
    OK(ABT_thread_create(pa, a_fn, NULL, ABT_THREAD_ATTR_NULL, &A));
    ABT_thread rt = ABT_THREAD_NULL;
    int xt = -1;
    switch (C->resumer) {
        case R_EXT: xt = abtmc_thread_create(resumer_fn, NULL); break;
        case R_PRIMARY: resumer_fn(NULL); break;
        case R_ULT_SAME:
            OK(ABT_thread_create(p0, resumer_fn, NULL, ABT_THREAD_ATTR_NULL, &rt));
            break;
        case R_ULT_ES1:
            OK(ABT_thread_create(h_main_pool(es1), resumer_fn, NULL,
                                 ABT_THREAD_ATTR_NULL, &rt));
            break;
    }
    OK(ABT_thread_join(A));
    if (rt != ABT_THREAD_NULL)
        OK(ABT_thread_free(&rt));
    if (xt >= 0)
        abtmc_thread_join(xt);
    abtmc_window_end();

    abtmc_check(resumes_ok == C->rounds, "resume_count", "resumes %d of %d",
                resumes_ok, C->rounds);
    abtmc_check(slices == C->rounds + 1, "slice_count",
                "A executed %d slices for %d resumes (expected %d)", slices,
                resumes_ok, C->rounds + 1);
    abtmc_check(abtmc_load(&credit) == 0, "credit_left",
                "credit %d at the end", credit);
    int nb = h_pool_blocked(pa);
    abtmc_check(nb == 0, "blocked_count",
                "pool reports %d blocked units at quiescence", nb);
    where[nwhere] = 0;
    abtmc_observe("ran_on=%s polls=%d", where, retries);
    OK(ABT_thread_free(&A));
    if (C->block == B_EVENTUAL)
        OK(ABT_eventual_free(&EV));
    if (es1 != ABT_XSTREAM_NULL) {
        OK(ABT_xstream_join(es1));
        OK(ABT_xstream_free(&es1));
    }
    if (es2 != ABT_XSTREAM_NULL) {
        OK(ABT_xstream_join(es2));
        OK(ABT_xstream_free(&es2));
    }
    h_finalize();
}

static const char *cfg_name(int i) { return cfgs[i].name; }
static int cfg_quick(int i) { return cfgs[i].quick; }

int main(int argc, char **argv)
{
    static abtmc_driver d = { "c11_suspend", "C11", ARRAY_LEN(cfgs), cfg_name,
                              scenario, cfg_quick };
    return abtmc_main(argc, argv, &d);
}
