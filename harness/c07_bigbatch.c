/* c07_bigbatch.c -- C07: "concurrent push, push_many, ... behave as atomic
 * operations on one queue" for batches LARGER than the 64-entry stack buffer
 * that ABT_pool_push_threads[_ex] / ABT_pool_pop_threads[_ex] use internally:
 * a batch of N > 64 units takes the heap-buffer path and must still be ONE
 * push_many on the pool.
 *
 *   A (primary ULT) pushes N units with one ABT_pool_push_threads call;
 *   B (external thread) pushes two single units, one by one, concurrently;
 *   optionally C (external thread) pops one unit concurrently.
 * Afterwards the pool is drained one by one.  Oracle (FIFO kinds): every unit
 * comes out exactly once; A's units are contiguous and in order, except that a
 * concurrent pop may have taken a prefix of the whole queue; B's units keep
 * their order; nothing of B lies inside A's batch.  RANDWS (pushes at the tail
 * with the context used here, pops from the head): same.  Also sequentially:
 * pop_threads with len > 64 returns exactly what is there, in order. */
#include "common.h"

typedef struct {
    const char *name;
    int quick;
    ABT_pool_kind kind;
    int n, with_popper;
} cfg_t;
static const cfg_t cfgs[] = {
    { "FIFO/MPMC: push_threads(66) || 2 single pushes", 1, ABT_POOL_FIFO, 66, 0 },
    { "FIFO_WAIT/MPMC: push_threads(65) || 2 single pushes || 1 pop", 1,
      ABT_POOL_FIFO_WAIT, 65, 1 },
    { "RANDWS/MPMC: push_threads(70) || 2 single pushes", 0, ABT_POOL_RANDWS, 70, 0 },
    { "FIFO/MPMC: push_threads(130) || 2 single pushes || 1 pop", 1, ABT_POOL_FIFO, 130,
      1 },
};

#define MAXN 140
static const cfg_t *C;
static ABT_pool T, stage;
static ABT_thread A_u[MAXN], B_u[2], popped_by_c = ABT_THREAD_NULL;
static int ran[MAXN + 2];

static void unit_fn(void *arg)
{
    ran[(int)(intptr_t)arg]++;
}

static int index_of(ABT_thread t)
{
    for (int i = 0; i < C->n; i++)
        if (A_u[i] == t)
            return i;
    for (int i = 0; i < 2; i++)
        if (B_u[i] == t)
            return MAXN + i;
    return -1;
}

static void b_fn(void *arg)
{
    (void)arg;
    OK(ABT_pool_push_thread(T, B_u[0]));
    OK(ABT_pool_push_thread(T, B_u[1]));
}

static void c_fn(void *arg)
{
    (void)arg;
    OK(ABT_pool_pop_thread(T, &popped_by_c));
}

static void scenario(int cfg)
{
    C = &cfgs[cfg];
    h_init();
    ABT_pool p0 = h_main_pool(h_self_xstream());
    OK(ABT_pool_create_basic(C->kind, ABT_POOL_ACCESS_MPMC, ABT_FALSE, &T));
    OK(ABT_pool_create_basic(ABT_POOL_FIFO, ABT_POOL_ACCESS_MPMC, ABT_FALSE, &stage));
    /* work units that sit in no pool: created in a staging pool, popped in
     * one call (len > 64: the pop side of the same buffer logic) */
    for (int i = 0; i < C->n; i++)
        OK(ABT_thread_create(stage, unit_fn, (void *)(intptr_t)i, ABT_THREAD_ATTR_NULL,
                             &A_u[i]));
    {
        ABT_thread got[MAXN];
        size_t num = 9999;
        OK(ABT_pool_pop_threads(stage, got, (size_t)C->n + 3, &num));
        abtmc_check((int)num == C->n, "pop_many_count",
                    "pop_threads(len=%d) on a pool holding %d units returned %zu",
                    C->n + 3, C->n, num);
        for (int i = 0; i < C->n && i < (int)num; i++)
            abtmc_check(got[i] == A_u[i], "pop_many_order",
                        "pop_threads: element %d is not the %d-th unit pushed", i, i);
    }
    for (int i = 0; i < 2; i++) {
        ABT_thread t;
        OK(ABT_thread_create(stage, unit_fn, (void *)(intptr_t)(MAXN + i),
                             ABT_THREAD_ATTR_NULL, &B_u[i]));
        OK(ABT_pool_pop_thread(stage, &t));
    }

    abtmc_window_begin();
    int xb = abtmc_thread_create(b_fn, NULL);
    int xc = C->with_popper ? abtmc_thread_create(c_fn, NULL) : -1;
    OK(ABT_pool_push_threads(T, A_u, (size_t)C->n));
    abtmc_thread_join(xb);
    if (xc >= 0)
        abtmc_thread_join(xc);
    abtmc_window_end();

    /* drain */
    int order[MAXN + 2], no = 0;
    for (;;) {
        ABT_thread t = ABT_THREAD_NULL;
        OK(ABT_pool_pop_thread(T, &t));
        if (t == ABT_THREAD_NULL)
            break;
        int ix = index_of(t);
        abtmc_check(ix >= 0 && no < MAXN + 2, "phantom_unit",
                    "the pool returned a unit that was never pushed");
        order[no++] = ix;
    }
    int expect = C->n + 2 - (popped_by_c != ABT_THREAD_NULL ? 1 : 0);
    abtmc_check(no == expect, "lost_or_duplicated_unit",
                "%d units drained, %d expected", no, expect);
    int seen[MAXN + 2] = { 0 };
    for (int i = 0; i < no; i++) {
        int s = order[i] < MAXN ? order[i] : C->n + (order[i] - MAXN);
        seen[s]++;
        abtmc_check(seen[s] == 1, "lost_or_duplicated_unit", "unit %d drained twice",
                    order[i]);
    }
    /* A's units: consecutive positions, ascending indices; B's in order */
    int first_a = -1, last_a = -1, prev_a = -1, prev_b = -1;
    for (int i = 0; i < no; i++) {
        if (order[i] < MAXN) {
            if (first_a < 0)
                first_a = i;
            last_a = i;
            abtmc_check(order[i] > prev_a, "batch_order",
                        "units of the batch left the pool out of order (%d after %d)",
                        order[i], prev_a);
            prev_a = order[i];
        } else {
            abtmc_check(order[i] > prev_b, "fifo_order", "B's units out of order");
            prev_b = order[i];
        }
    }
    if (first_a >= 0) {
        int na = 0;
        for (int i = first_a; i <= last_a; i++)
            na += order[i] < MAXN;
        abtmc_check(na == last_a - first_a + 1, "batch_not_atomic",
                    "a unit of another producer sits inside the batch pushed by one "
                    "ABT_pool_push_threads(%d) call (batch spans drain positions "
                    "%d..%d but holds %d of its units there)", C->n, first_a, last_a, na);
        /* the batch is complete except for what the concurrent pop took from the
         * queue's head: its remaining units are its tail */
        int missing = C->n - na;
        abtmc_check(missing == 0 ||
                        (missing == 1 && popped_by_c != ABT_THREAD_NULL &&
                         index_of(popped_by_c) == 0 && order[first_a] == 1),
                    "batch_not_atomic",
                    "%d units of the batch are missing from the queue", missing);
    }
    abtmc_observe("a@%d b%d c=%d", first_a, prev_b >= 0,
                  popped_by_c == ABT_THREAD_NULL ? -1 : index_of(popped_by_c));

    /* let everything run and go away */
    for (int i = 0; i < C->n; i++)
        OK(ABT_pool_push_thread(p0, A_u[i]));
    for (int i = 0; i < 2; i++)
        OK(ABT_pool_push_thread(p0, B_u[i]));
    for (int i = 0; i < C->n; i++)
        OK(ABT_thread_free(&A_u[i]));
    for (int i = 0; i < 2; i++)
        OK(ABT_thread_free(&B_u[i]));
    for (int i = 0; i < C->n; i++)
        abtmc_check(ran[i] == 1, "run_count", "unit %d ran %d times", i, ran[i]);
    OK(ABT_pool_free(&T));
    OK(ABT_pool_free(&stage));
    h_finalize();
    abtmc_check(abtmc_ledger_live() == 0, "leak", "%ld live allocations",
                abtmc_ledger_live());
}

static const char *cfg_name(int i) { return cfgs[i].name; }
static int cfg_quick(int i) { return cfgs[i].quick; }

int main(int argc, char **argv)
{
    static abtmc_driver d = { "c07_bigbatch", "C07", ARRAY_LEN(cfgs), cfg_name, scenario,
                              cfg_quick };
    return abtmc_main(argc, argv, &d);
}
