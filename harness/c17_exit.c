/* c17_exit.c -- C17 (and C06): a stream or scheduler that is ended from the
 * inside -- ABT_xstream_exit, ABT_sched_exit, ABT_sched_finish called by a ULT
 * while other units are still queued -- can be joined, revived, given more
 * work, joined again and freed; no unit is lost or run twice on the way.
 *
 *   T = pool of the scheduler that is ended, pre-filled [U.. , E, U..] before
 *       ES1 starts.  E is the ULT that issues the request:
 *     XEXIT  ABT_xstream_exit()      (does not return; "sends a cancellation
 *                                     request to the execution stream ... and
 *                                     terminates the calling ULT")
 *     SEXIT  ABT_sched_exit(sched)   ("finish even if its pools are not empty")
 *     SFIN   ABT_sched_finish(sched) ("will terminate after all of its pools
 *                                     get empty")
 *   where = MAIN:    sched is the main scheduler of ES1 (T = its pool Q)
 *           STACKED: sched is a scheduler work unit pushed to ES1's main pool Q
 *                    with ABT_pool_add_sched (T = its own pool R)
 *   A pusher (the primary ULT or an external thread X) pushes one more unit
 *   into T while ES1 works on it.  Then the primary ULT joins ES1, revives
 *   it, pushes two more units (for STACKED: adds a fresh stacked scheduler over
 *   R), joins again, frees the stream and finalizes.
 *
 * What the documentation says about the units still queued: after a
 * cancellation / exit request they MAY be left behind ("terminates regardless
 * of remaining work units" is the implementation comment; the public text
 * only says the stream/scheduler finishes even if the pools are not empty),
 * after a finish request the scheduler ends only once its pools are empty.
 * Oracle, therefore:
 *   - no unit function is entered twice; code after ABT_xstream_exit is never
 *     reached; E itself is TERMINATED and can be freed;
 *   - when the first ABT_xstream_join returns the stream is TERMINATED, and
 *     every unit that did not run is still in its pool (pool sizes == number
 *     of units not run): nothing vanished;
 *   - SFIN: every unit that was in the pool when E asked for the finish has
 *     run by then;
 *   - with "poll": after ABT_xstream_exit the stream becomes TERMINATED by
 *     itself ("An execution stream that receives a cancellation request will
 *     terminate"), without a join request;
 *   - ABT_xstream_revive succeeds, the stream is RUNNING, keeps its rank,
 *     ABT_xstream_get_num stays 2; after the second join (plain join: waits
 *     for all work) EVERY unit has run exactly once, the units run by the
 *     second incarnation saw rank 1, the pools are empty, the stream is
 *     TERMINATED; after ABT_xstream_free ABT_xstream_get_num is 1;
 *   - after ABT_finalize the allocation ledger is empty (an automatic stacked
 *     scheduler that was told to exit is freed exactly once). */
#include "abti.h"
#include "common.h"
#include "c17_asan.h"

enum { M_XEXIT, M_SEXIT, M_SFIN };
enum { W_MAIN, W_STACKED };
enum { K_BASIC, K_BASIC_WAIT, K_USER };
enum { PUSH_NONE, PUSH_PRIMARY, PUSH_EXT };

typedef struct {
    const char *name;
    int quick;
    int mode, where, kind;
    int automatic; /* the ended scheduler is automatic */
    int nbefore, nafter, pusher;
    int poll;      /* XEXIT: wait for TERMINATED before asking for the join */
    int eyield;    /* E yields once first: it goes behind the units queued after
                    * it and races with the pusher for the tail of the pool */
} cfg_t;

static const cfg_t cfgs[] = {
    /* ---- quick (a deadline cuts the tail, not the head) ------------------- */
    { "sched_finish, stacked BASIC (automatic): [U,E,U] + primary pushes", 1,
      M_SFIN, W_STACKED, K_BASIC, 1, 1, 1, PUSH_PRIMARY, 0, 0 },
    { "xstream_exit, main BASIC: [U,E,U,U] + primary pushes; join, revive, "
      "push 2, join, free", 1, M_XEXIT, W_MAIN, K_BASIC, 1, 1, 2, PUSH_PRIMARY, 0,
      0 },
    { "sched_exit, stacked BASIC (user-owned): [U,E(yields),U] + primary pushes",
      1, M_SEXIT, W_STACKED, K_BASIC, 0, 1, 1, PUSH_PRIMARY, 0, 1 },
    { "sched_finish, main BASIC (user-owned): [U,E,U] + primary pushes", 1,
      M_SFIN, W_MAIN, K_BASIC, 0, 1, 1, PUSH_PRIMARY, 0, 0 },
    { "sched_exit, main user-defined scheduler: [E(yields),U,U] + primary pushes",
      1, M_SEXIT, W_MAIN, K_USER, 0, 0, 2, PUSH_PRIMARY, 0, 1 },
    { "xstream_exit from a unit of a stacked BASIC (automatic): [E(yields),U] + "
      "primary pushes", 1, M_XEXIT, W_STACKED, K_BASIC, 1, 0, 1, PUSH_PRIMARY, 0,
      1 },
    { "xstream_exit, main BASIC: [E(yields),U] + primary pushes; primary polls "
      "for TERMINATED, then joins", 1, M_XEXIT, W_MAIN, K_BASIC, 1, 0, 1,
      PUSH_PRIMARY, 1, 1 },
    /* ---- thorough only --------------------------------------------------- */
    { "xstream_exit, main BASIC_WAIT/FIFO_WAIT: [U,E(yields),U,U] + X pushes", 0,
      M_XEXIT, W_MAIN, K_BASIC_WAIT, 1, 1, 2, PUSH_EXT, 0, 1 },
    { "sched_exit, stacked user-defined scheduler (automatic): [U,E(yields),U] + "
      "X pushes", 0, M_SEXIT, W_STACKED, K_USER, 1, 1, 1, PUSH_EXT, 0, 1 },
    { "sched_finish, stacked BASIC (user-owned): [U,E(yields),U,U] + X pushes", 0,
      M_SFIN, W_STACKED, K_BASIC, 0, 1, 2, PUSH_EXT, 0, 1 },
    { "sched_finish, main user-defined scheduler (automatic): [E,U,U] + X "
      "pushes", 0, M_SFIN, W_MAIN, K_USER, 1, 0, 2, PUSH_EXT, 0, 0 },
    { "sched_exit, main BASIC (automatic): [U,E(yields),U] + X pushes", 0,
      M_SEXIT, W_MAIN, K_BASIC, 1, 1, 1, PUSH_EXT, 0, 1 },
    { "xstream_exit, main user-defined scheduler: [U,E(yields),U] + X pushes; "
      "primary polls for TERMINATED", 0, M_XEXIT, W_MAIN, K_USER, 0, 1, 1,
      PUSH_EXT, 1, 1 },
    { "xstream_exit from a unit of a stacked BASIC (user-owned): [U,E,U,U] + X "
      "pushes", 0, M_XEXIT, W_STACKED, K_BASIC, 0, 1, 2, PUSH_EXT, 0, 0 },
};

#define MAXU 8
static const cfg_t *C;
static ABT_xstream es1 = ABT_XSTREAM_NULL;
static ABT_pool Q = ABT_POOL_NULL, R = ABT_POOL_NULL, T;
static ABT_sched S = ABT_SCHED_NULL, S2 = ABT_SCHED_NULL, TS;
static int ran[MAXU], inc_of[MAXU], rank_of[MAXU];
static int created[MAXU];
static int e_started, e_returned;
static int incarnation = 1;
static int n_pre;       /* units pre-filled around E */
static int xslot, post0; /* index of the pusher's unit, of the first post unit */
static ABT_thread last_named = ABT_THREAD_NULL, e_handle = ABT_THREAD_NULL;
static char run1[2 * MAXU]; /* what ran in the first life, in order */
static int nrun1;

static void note(char c)
{
    if (incarnation == 1 && nrun1 < (int)sizeof(run1) - 1)
        run1[nrun1++] = c;
}

static void unit_fn(void *arg)
{
    int id = (int)(intptr_t)arg - 100;
    abtmc_check(id >= 0 && id < MAXU && created[id], "phantom_unit",
                "a unit function ran with the foreign argument %p", arg);
    ran[id]++;
    abtmc_check(ran[id] == 1, "ran_twice", "unit %d was run %d times", id,
                ran[id]);
    inc_of[id] = incarnation;
    note(id == xslot ? 'x' : (char)('0' + id));
    OK(ABT_xstream_self_rank(&rank_of[id]));
}

static void e_fn(void *arg)
{
    (void)arg;
    e_started++;
    abtmc_check(e_started == 1, "ran_twice", "E was started %d times", e_started);
    int rank = -1;
    OK(ABT_xstream_self_rank(&rank));
    abtmc_check(rank == 1, "self_rank", "E runs on rank %d", rank);
    if (C->eyield)
        OK(ABT_thread_yield());
    abtmc_progress();
    note('E');
    switch (C->mode) {
        case M_XEXIT: {
            int r = ABT_xstream_exit();
            abtmc_check(0, "exit_returned",
                        "ABT_xstream_exit returned (%d) to a ULT running on a "
                        "secondary stream", r);
            break;
        }
        case M_SEXIT:
            OK(ABT_sched_exit(TS));
            break;
        default:
            OK(ABT_sched_finish(TS));
            break;
    }
    e_returned++;
}

/* unit number id into pool p: ULT, tasklet, ULT, ... */
static void make_unit(int id, ABT_pool p, ABT_thread *h)
{
    created[id] = 1;
    void *a = (void *)(intptr_t)(100 + id);
    if (id % 2 == 0 || h)
        OK(ABT_thread_create(p, unit_fn, a, ABT_THREAD_ATTR_NULL, h));
    else
        OK(ABT_task_create(p, unit_fn, a, NULL));
}

static void x_push(void *arg)
{
    (void)arg;
    make_unit(xslot, T, NULL);
}

/* ---- user-defined scheduler: pop one, run it, ask ABT_sched_has_to_stop --- */
static int user_init(ABT_sched s, ABT_sched_config c)
{
    (void)s;
    (void)c;
    return ABT_SUCCESS;
}
static void user_run(ABT_sched sched)
{
    ABT_pool pool;
    OK(ABT_sched_get_pools(sched, 1, 0, &pool));
    for (;;) {
        ABT_thread t = ABT_THREAD_NULL;
        OK(ABT_pool_pop_thread(pool, &t));
        if (t != ABT_THREAD_NULL)
            OK(ABT_self_schedule(t, ABT_POOL_NULL));
        OK(ABT_xstream_check_events(sched));
        ABT_bool stop = ABT_FALSE;
        OK(ABT_sched_has_to_stop(sched, &stop));
        if (stop == ABT_TRUE)
            break;
    }
}
static int user_free(ABT_sched s)
{
    (void)s;
    return ABT_SUCCESS;
}

static ABT_sched make_sched(int kind, int automatic, ABT_pool *pool)
{
    static ABT_sched_def def = { ABT_SCHED_TYPE_ULT, user_init, user_run,
                                 user_free, NULL };
    ABT_sched s = ABT_SCHED_NULL;
    ABT_sched_config cf;
    OK(ABT_sched_config_create(&cf, ABT_sched_config_automatic, automatic,
                               ABT_sched_config_var_end));
    if (kind == K_USER)
        OK(ABT_sched_create(&def, 1, pool, cf, &s));
    else
        OK(ABT_sched_create_basic(kind == K_BASIC_WAIT ? ABT_SCHED_BASIC_WAIT
                                                       : ABT_SCHED_BASIC,
                                  1, pool, cf, &s));
    OK(ABT_sched_config_free(&cf));
    return s;
}

static size_t pool_total(ABT_pool p)
{
    size_t n = 0;
    OK(ABT_pool_get_total_size(p, &n));
    return n;
}

static void check_ident(const char *when, int expect_num)
{
    int n = -1, r = -1;
    OK(ABT_xstream_get_num(&n));
    abtmc_check(n == expect_num, "num_xstreams",
                "%s: ABT_xstream_get_num = %d, expected %d", when, n, expect_num);
    if (es1 != ABT_XSTREAM_NULL) {
        OK(ABT_xstream_get_rank(es1, &r));
        abtmc_check(r == 1, "rank_changed", "%s: rank of ES1 is %d", when, r);
    }
}

static char st_char(void)
{
    ABT_xstream_state st;
    OK(ABT_xstream_get_state(es1, &st));
    abtmc_check(st == ABT_XSTREAM_STATE_RUNNING ||
                    st == ABT_XSTREAM_STATE_TERMINATED,
                "xstream_state", "ABT_xstream_get_state returned %d", (int)st);
    return st == ABT_XSTREAM_STATE_RUNNING ? 'R' : 'T';
}

static void scenario(int cfg)
{
    C = &cfgs[cfg];
    h_init();
    int wait = C->kind == K_BASIC_WAIT;
    OK(ABT_pool_create_basic(wait && C->where == W_MAIN ? ABT_POOL_FIFO_WAIT
                                                        : ABT_POOL_FIFO,
                             ABT_POOL_ACCESS_MPMC, ABT_FALSE, &Q));
    if (C->where == W_MAIN) {
        S = make_sched(C->kind, C->automatic, &Q);
        T = Q;
        TS = S;
    } else {
        S = make_sched(K_BASIC, 1, &Q);
        OK(ABT_pool_create_basic(wait ? ABT_POOL_FIFO_WAIT : ABT_POOL_FIFO,
                                 ABT_POOL_ACCESS_MPMC, ABT_FALSE, &R));
        S2 = make_sched(C->kind, C->automatic, &R);
        T = R;
        TS = S2;
    }
    /* pre-fill T: [before.., E, after..]; the last "after" unit is named */
    int id = 0;
    for (int i = 0; i < C->nbefore; i++)
        make_unit(id++, T, NULL);
    OK(ABT_thread_create(T, e_fn, NULL, ABT_THREAD_ATTR_NULL, &e_handle));
    for (int i = 0; i < C->nafter; i++)
        make_unit(id++, T, i == C->nafter - 1 ? &last_named : NULL);
    n_pre = id;
    xslot = id++;
    post0 = id;
    if (C->where == W_STACKED)
        OK(ABT_pool_add_sched(Q, S2));

    abtmc_window_begin();
    OK(ABT_xstream_create(S, &es1));
    check_ident("after create", 2);
    int xt = -1;
    if (C->pusher == PUSH_EXT)
        xt = abtmc_thread_create(x_push, NULL);
    else if (C->pusher == PUSH_PRIMARY)
        x_push(NULL);
    if (xt >= 0)
        abtmc_thread_join(xt); /* the push is complete before the join request */
    if (C->poll) {
        /* a cancelled stream terminates by itself */
        for (;;) {
            if (st_char() == 'T')
                break;
            OK(ABT_thread_yield());
        }
    }
    char st_before = st_char();
    OK(ABT_xstream_join(es1));
    abtmc_check(st_char() == 'T', "not_terminated",
                "ABT_xstream_join returned but the stream is RUNNING");
    check_ident("after the first join", 2);
    abtmc_check(e_started == 1, "unit_not_run",
                "ABT_xstream_join returned but E never ran");
    abtmc_check(e_returned == (C->mode == M_XEXIT ? 0 : 1), "exit_returned",
                "E continued after its request %d times", e_returned);
    {
        ABT_thread_state ts;
        OK(ABT_thread_get_state(e_handle, &ts));
        abtmc_check(ts == ABT_THREAD_STATE_TERMINATED, "exiter_state",
                    "after the join the ULT that asked for the exit is in state "
                    "%d", (int)ts);
        OK(ABT_thread_free(&e_handle));
    }
    /* nothing vanished: what did not run is still queued */
    int have_x = C->pusher != PUSH_NONE;
    int left = 0, left_pre = 0;
    for (int i = 0; i < post0; i++) {
        if (i == xslot && !have_x)
            continue;
        left += ran[i] == 0;
        if (i < n_pre)
            left_pre += ran[i] == 0;
    }
    size_t queued = pool_total(T) + (C->where == W_STACKED ? pool_total(Q) : 0);
    abtmc_check((int)queued == left, "lost_unit",
                "after the first join %d unit(s) have not run but the pools hold "
                "%zu", left, queued);
    if (C->mode == M_SFIN)
        abtmc_check(left_pre == 0, "finish_left_units",
                    "ABT_sched_finish: the scheduler ended although %d unit(s) "
                    "that were queued when it was asked to finish never ran",
                    left_pre);

    /* second life */
    if (C->where == W_STACKED && !C->automatic)
        OK(ABT_sched_free(&S2)); /* its work unit has ended: not in use */
    incarnation = 2;
    c17_unpoison_main_sched_stack(es1); /* ASan only, see c17_asan.h */
    int ret = ABT_xstream_revive(es1);
    abtmc_check(ret == ABT_SUCCESS, "revive_failed",
                "ABT_xstream_revive of the joined stream returned %d", ret);
    abtmc_check(st_char() == 'R', "revive_state",
                "the stream is not RUNNING right after ABT_xstream_revive");
    check_ident("after revive", 2);
    make_unit(post0, T, NULL);
    make_unit(post0 + 1, T, NULL);
    if (C->where == W_STACKED) {
        /* a fresh stacked scheduler for R (it ends when R is empty, so it is
         * added after the new units) */
        ABT_sched s3 = make_sched(K_BASIC, 1, &R);
        OK(ABT_pool_add_sched(Q, s3));
    }
    OK(ABT_xstream_join(es1));
    abtmc_check(st_char() == 'T', "not_terminated",
                "the second ABT_xstream_join returned but the stream is RUNNING");
    check_ident("after the second join", 2);
    for (int i = 0; i < post0 + 2; i++) {
        if (i == xslot && !have_x)
            continue;
        abtmc_check(ran[i] == 1, "unit_not_run",
                    "the join of the revived stream returned but unit %d (%s) "
                    "has run %d times", i,
                    i >= post0 ? "pushed after the revive"
                               : i == xslot ? "pushed concurrently"
                                            : "queued before the exit request",
                    ran[i]);
        abtmc_check(inc_of[i] == 1 || rank_of[i] == 1, "self_rank",
                    "unit %d run by the revived stream saw rank %d", i,
                    rank_of[i]);
    }
    abtmc_check(pool_total(T) == 0 && pool_total(Q) == 0, "pool_not_empty",
                "after the second join the pools hold %zu/%zu units",
                pool_total(T), pool_total(Q));
    abtmc_window_end();

    {
        ABT_thread_state ts;
        OK(ABT_thread_get_state(last_named, &ts));
        abtmc_check(ts == ABT_THREAD_STATE_TERMINATED, "unit_not_run",
                    "the named unit is in state %d after everything ran",
                    (int)ts);
        OK(ABT_thread_free(&last_named));
    }
    OK(ABT_xstream_free(&es1));
    check_ident("after free", 1);
    if (C->where == W_MAIN && !C->automatic)
        OK(ABT_sched_free(&S));
    OK(ABT_pool_free(&Q));
    if (R != ABT_POOL_NULL)
        OK(ABT_pool_free(&R));
    h_finalize();
    abtmc_check(abtmc_ledger_live() == 0, "leak",
                "%ld resources still allocated after ABT_finalize",
                abtmc_ledger_live());
    abtmc_observe("st=%c run1=%s left=%d", st_before, run1, left);
}

static const char *cfg_name(int i) { return cfgs[i].name; }
static int cfg_quick(int i) { return cfgs[i].quick; }

int main(int argc, char **argv)
{
    static abtmc_driver d = { "c17_exit", "C17", ARRAY_LEN(cfgs), cfg_name,
                              scenario, cfg_quick };
    return abtmc_main(argc, argv, &d);
}
