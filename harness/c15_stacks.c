/* c15_stacks.c -- C15c: "a ULT may be created with any positive stack size or
 * any 8-byte-aligned user-supplied stack, gets at least that much usable
 * stack, and can be freed without corrupting the allocator".
 *
 * For every stack size s = base + delta (delta 0..127: every residue modulo
 * 8, 16, 64 and 128 around each base) and each provenance
 *   MALLOC  ABT_thread_attr_set_stacksize(s)          (stack malloc'ed)
 *   USER    ABT_thread_attr_set_stack(buf + off, s)   (off = 0,8,..,56)
 *   DEFAULT ABT_THREAD_STACKSIZE=s, no attribute      (stack from the pool)
 * two ULTs are created and are live at the same time; each checks the
 * alignment of its frame, asks for its own stack region, walks down its stack
 * to (s - 1 KiB) writing a pattern (it yields half-way so that both are deep
 * at once) and verifies the pattern on the way back; the main ULT checks
 * ABT_thread_get_stacksize >= s, that stack regions and descriptors are
 * pairwise disjoint and lie inside blocks libabt obtained from the allocator
 * (or inside the user's buffer, whose guard zones must stay intact); after
 * join + free two more ULTs are created and freed.  The engine's ledger
 * reports a free of anything that is not a live block ("bad_free"), the
 * mc-asan flavour reports any access outside the allocation; after
 * ABT_finalize the ledger must be empty.
 * Explorer choices (8, for DEFAULT 8x4 alternatives) shard the deltas /
 * offsets. */
#include "abti.h"
#include "common.h"
#ifdef __SANITIZE_ADDRESS__
#include <sanitizer/asan_interface.h>
#endif

enum { PV_MALLOC, PV_USER, PV_DEFAULT };
typedef struct {
    const char *name;
    int quick;
    int prov;
    size_t base;
} cfg_t;

#define MIB (1024u * 1024u)
static const cfg_t cfgs[] = {
    { "malloc 4096+d", 1, PV_MALLOC, 4096 },
    { "malloc 16320+d", 1, PV_MALLOC, 16320 },
    { "malloc 16384+d", 1, PV_MALLOC, 16384 },
    { "malloc 16448+d", 1, PV_MALLOC, 16448 },
    { "malloc 65536+d", 1, PV_MALLOC, 65536 },
    { "malloc 1MiB+d", 1, PV_MALLOC, MIB },
    { "user 4096+d", 1, PV_USER, 4096 },
    { "user 16320+d", 1, PV_USER, 16320 },
    { "user 16384+d", 1, PV_USER, 16384 },
    { "user 16448+d", 1, PV_USER, 16448 },
    { "user 65536+d", 1, PV_USER, 65536 },
    { "user 1MiB+d", 1, PV_USER, MIB },
    { "default 4096+d", 1, PV_DEFAULT, 4096 },
    { "default 16320+d", 1, PV_DEFAULT, 16320 },
    { "default 16384+d", 1, PV_DEFAULT, 16384 },
    { "default 16448+d", 1, PV_DEFAULT, 16448 },
    { "default 65536+d", 1, PV_DEFAULT, 65536 },
    { "default 1MiB+d", 1, PV_DEFAULT, MIB },
    { "malloc 16MiB+d", 0, PV_MALLOC, 16 * MIB },
    { "user 16MiB+d", 0, PV_USER, 16 * MIB },
    { "default 16MiB+d", 0, PV_DEFAULT, 16 * MIB },
};

/* Under ASan every frame of libabt and of the engine carries red zones, so a
 * context switch needs far more than 1 KiB of stack: there the ULT only
 * yields when at least YIELD_ROOM bytes are left, i.e. not at all on the
 * small stacks (both ULTs are live at the same time regardless: stacks are
 * allocated at creation). */
#ifdef __SANITIZE_ADDRESS__
#define YIELD_ROOM (48u * 1024u)
#else
#define YIELD_ROOM 3072u
#endif
#ifdef __SANITIZE_ADDRESS__
#define SLACK 2048  /* instrumented frames (red zones) need more */
#else
#define SLACK 768   /* the walk aims at s - SLACK ... */
#endif
#define FRAME_OVH 192 /* ... and stops within FRAME_OVH + 16 bytes of it */
#define GUARD 256

typedef struct {
    size_t req;
    int idx;
    /* filled in by the ULT */
    int ran, yielded, bad_pattern;
    void *stackaddr;
    size_t stacksize;
    uintptr_t frame, lowest;
    size_t yield_at;
} rec_t;

static const cfg_t *C;
static long long n_cases, n_ults, n_deep_pairs;

/* walk down the stack in frames of BIG bytes while more than 4*BIG are
 * missing, then in frames of SMALL bytes; every frame writes a pattern at
 * both ends of its block and verifies it when control comes back.  Returns
 * the number of damaged blocks. */
#define BIG 16384
#define SMALL 128
static int descend_small(rec_t *r, uintptr_t top, size_t target, int depth);
static int descend_big(rec_t *r, uintptr_t top, size_t target, int depth);

static inline int descend_next(rec_t *r, uintptr_t top, size_t target,
                               uintptr_t here, int depth)
{
    if (here < r->lowest)
        r->lowest = here;
    if (r->yielded == 0 && top - here >= r->yield_at) {
        r->yielded = 1;
        /* the ULT's progress is in plain memory only; tell the engine's
         * busy-wait detector that this yield is not a polling loop */
        abtmc_progress();
        OK(ABT_thread_yield());
    }
    size_t used = top - here;
    if (used + 4 * BIG < target)
        return descend_big(r, top, target, depth + 1);
    if (used + SMALL + FRAME_OVH < target)
        return descend_small(r, top, target, depth + 1);
    return 0;
}

static __attribute__((noinline)) int descend_small(rec_t *r, uintptr_t top,
                                                   size_t target, int depth)
{
    volatile unsigned char b[SMALL];
    unsigned char v0 = (unsigned char)(depth * 7 + r->idx * 31 + 1);
    unsigned char v1 = (unsigned char)(depth * 13 + r->idx * 17 + 2);
    b[0] = v0;
    b[SMALL - 1] = v1;
    int bad = descend_next(r, top, target, (uintptr_t)&b[0], depth);
    if (b[0] != v0 || b[SMALL - 1] != v1)
        bad++;
    return bad;
}

static __attribute__((noinline)) int descend_big(rec_t *r, uintptr_t top,
                                                 size_t target, int depth)
{
    volatile unsigned char b[BIG];
    unsigned char v0 = (unsigned char)(depth * 7 + r->idx * 31 + 1);
    unsigned char v1 = (unsigned char)(depth * 13 + r->idx * 17 + 2);
    b[0] = v0;
    b[BIG / 2] = v1;
    b[BIG - 1] = v1;
    int bad = descend_next(r, top, target, (uintptr_t)&b[0], depth);
    if (b[0] != v0 || b[BIG / 2] != v1 || b[BIG - 1] != v1)
        bad++;
    return bad;
}

static void body(void *arg)
{
    rec_t *r = (rec_t *)arg;
    uintptr_t fa = (uintptr_t)__builtin_frame_address(0);
    r->frame = fa;
    abtmc_check(fa % 16 == 0, "stack_misaligned",
                "ULT with stack size %zu runs with frame address %#lx (not "
                "16-byte aligned)", r->req, (unsigned long)fa);
    /* r->stackaddr / r->stacksize were obtained by the creator through
     * ABT_thread_get_attr (calling it here would run malloc on this stack,
     * which alone needs > 2 KiB under ASan) */
    abtmc_check(r->stacksize >= r->req, "stack_too_small",
                "requested %zu bytes of stack, ABT_thread_get_attr reports %zu", r->req,
                r->stacksize);
    uintptr_t lo = (uintptr_t)r->stackaddr, top = lo + r->stacksize;
    abtmc_check(r->stackaddr != NULL && fa > lo && fa <= top,
                "stack_outside_region",
                "frame %#lx of the ULT is not inside its stack [%#lx,%#lx)",
                (unsigned long)fa, (unsigned long)lo, (unsigned long)top);
    abtmc_check(top - fa <= 512, "stack_too_small",
                "%lu bytes of the %zu-byte stack are already used at the "
                "ULT's entry", (unsigned long)(top - fa), r->req);
    /* never step outside what the library itself declares as the stack:
     * report instead of corrupting memory */
    size_t target = r->req - SLACK;
    abtmc_check(top - target >= lo, "stack_too_small", "region too small");
    r->lowest = fa;
    /* yield half-way down if that leaves room for the context switch,
     * else at the entry, else not at all */
    if (r->req / 2 >= YIELD_ROOM)
        r->yield_at = r->req / 2;
    else if (r->req >= YIELD_ROOM + 512)
        r->yield_at = 0;
    else
        r->yielded = -1;
    r->bad_pattern = descend_small(r, top, target, 0);
    abtmc_check(r->lowest >= lo, "stack_outside_region",
                "walked to %#lx, below the stack base %#lx",
                (unsigned long)r->lowest, (unsigned long)lo);
    abtmc_check(top - r->lowest + 2 * SMALL + 2 * FRAME_OVH >= target,
                "harness_error", "walk stopped early: %lu of %zu",
                (unsigned long)(top - r->lowest), target);
    r->ran = 1;
}

typedef struct {
    uintptr_t lo, hi;
    const char *what;
} range_t;

static void check_disjoint(const range_t *a, int n, size_t s)
{
    for (int i = 0; i < n; i++)
        for (int j = i + 1; j < n; j++)
            abtmc_check(a[i].hi <= a[j].lo || a[j].hi <= a[i].lo,
                        "stack_overlap",
                        "stack size %zu: %s [%#lx,%#lx) overlaps %s "
                        "[%#lx,%#lx)", s, a[i].what, (unsigned long)a[i].lo,
                        (unsigned long)a[i].hi, a[j].what,
                        (unsigned long)a[j].lo, (unsigned long)a[j].hi);
}

static void check_in_ledger(uintptr_t lo, uintptr_t hi, const char *what,
                            size_t s)
{
    void *base = NULL;
    size_t bsz = 0;
    int f = abtmc_ledger_find((void *)lo, &base, &bsz);
    abtmc_check(f && hi <= (uintptr_t)base + bsz, "stack_outside_allocation",
                "stack size %zu: %s [%#lx,%#lx) is not inside a block libabt "
                "obtained from the allocator (found=%d base=%p size=%zu)", s,
                what, (unsigned long)lo, (unsigned long)hi, f, base, bsz);
}

typedef struct {
    unsigned char *buf;
    unsigned char *stack;
    size_t s;
} ubuf_t;

static void ubuf_make(ubuf_t *u, size_t s, size_t off)
{
    /* buf is 64-aligned so that `off` is the residue of the stack address */
    abtmc_check(posix_memalign((void **)&u->buf, 64, s + 2 * GUARD + 64) == 0,
                "harness_error", "oom");
    u->stack = u->buf + GUARD + off;
    u->s = s;
    memset(u->buf, 0xA5, GUARD + off);
    memset(u->stack + s, 0x5A, GUARD + 64 - off);
}
static void ubuf_check_free(ubuf_t *u, size_t off)
{
    for (size_t k = 0; k < GUARD + off; k++)
        abtmc_check(u->buf[k] == 0xA5, "user_stack_guard",
                    "user stack (size %zu, offset %zu): byte %zu below the "
                    "stack was overwritten", u->s, off, GUARD + off - k);
    for (size_t k = 0; k < GUARD + 64 - off; k++)
        abtmc_check(u->stack[u->s + k] == 0x5A, "user_stack_guard",
                    "user stack (size %zu, offset %zu): byte %zu above the "
                    "stack was overwritten", u->s, off, k);
    free(u->buf);
    u->buf = NULL;
}

/* ASan artefact, not an Argobots matter: a ULT leaves its stack through a
 * noreturn jump, so the red zones of the frames that were active at that
 * moment stay poisoned in the shadow memory (ASan cannot clean up because it
 * does not know the bounds of ULT stacks: "ignoring requested
 * __asan_handle_no_return").  When the same stack memory is handed to the
 * next ULT, the sanitizer run-time trips over that stale shadow.  The stack
 * of a ULT that has not started yet holds no live frame, so its shadow can be
 * reset; the red zones around the allocation are not touched. */
static void forget_stale_shadow(const rec_t *r)
{
#ifdef __SANITIZE_ADDRESS__
    if (r->stackaddr)
        __asan_unpoison_memory_region(r->stackaddr, r->stacksize);
#else
    (void)r;
#endif
}

static ABT_thread make_ult(ABT_pool pool, rec_t *r, size_t s, int idx,
                           int prov, ubuf_t *u)
{
    ABT_thread th;
    memset(r, 0, sizeof(*r));
    r->req = s;
    r->idx = idx;
    if (prov == PV_DEFAULT && idx == 0) {
        OK(ABT_thread_create(pool, body, r, ABT_THREAD_ATTR_NULL, &th));
    } else {
        ABT_thread_attr at;
        OK(ABT_thread_attr_create(&at));
        if (prov == PV_MALLOC)
            OK(ABT_thread_attr_set_stacksize(at, s));
        else if (prov == PV_USER)
            OK(ABT_thread_attr_set_stack(at, u->stack, s));
        /* PV_DEFAULT: the default attribute */
        OK(ABT_thread_create(pool, body, r, at, &th));
        OK(ABT_thread_attr_free(&at));
    }
    {
        ABT_thread_attr at;
        OK(ABT_thread_get_attr(th, &at));
        OK(ABT_thread_attr_get_stack(at, &r->stackaddr, &r->stacksize));
        OK(ABT_thread_attr_free(&at));
    }
    forget_stale_shadow(r);
    size_t got = 0;
    OK(ABT_thread_get_stacksize(th, &got));
    abtmc_check(got >= s, "stack_too_small",
                "ABT_thread_get_stacksize = %zu for a requested size of %zu",
                got, s);
    n_ults++;
    return th;
}

static void after_run(rec_t *r, size_t s)
{
    abtmc_check(r->ran, "harness_error", "ULT (size %zu) did not run", s);
    abtmc_check(r->bad_pattern == 0, "stack_clobbered",
                "stack size %zu: %d block(s) written on the ULT's stack were "
                "modified while it was suspended / deeper in the walk", s,
                r->bad_pattern);
}

/* one case: stack size s (and user-stack offset off) */
static void one_case(ABT_pool pool, int prov, size_t s, size_t off)
{
    rec_t r[4];
    ubuf_t u[2] = { { 0 }, { 0 } };
    ABT_thread th[2];
    if (prov == PV_USER) {
        ubuf_make(&u[0], s, off);
        ubuf_make(&u[1], s, (off + 24) & 56);
    }
    th[0] = make_ult(pool, &r[0], s, 0, prov, &u[0]);
    th[1] = make_ult(pool, &r[1], s, 1, prov, &u[1]);
    OK(ABT_thread_join(th[0]));
    OK(ABT_thread_join(th[1]));
    after_run(&r[0], s);
    after_run(&r[1], s);
    abtmc_check(r[0].yielded && r[1].yielded, "harness_error", "no yield");
    if (r[0].yielded > 0)
        n_deep_pairs++;
    /* regions: two stacks, two descriptors */
    range_t g[4];
    for (int i = 0; i < 2; i++) {
        g[i].lo = (uintptr_t)r[i].stackaddr;
        g[i].hi = g[i].lo + r[i].stacksize;
        g[i].what = i ? "stack of ULT 2" : "stack of ULT 1";
        g[2 + i].lo = (uintptr_t)ABTI_thread_get_ptr(th[i]);
        g[2 + i].hi = g[2 + i].lo + sizeof(ABTI_ythread);
        g[2 + i].what = i ? "descriptor of ULT 2" : "descriptor of ULT 1";
        check_in_ledger(g[2 + i].lo, g[2 + i].hi, g[2 + i].what, s);
        if (prov == PV_USER) {
            abtmc_check(r[i].stackaddr == (void *)u[i].stack &&
                            r[i].stacksize == s,
                        "user_stack_not_used",
                        "ULT reports stack %p/%zu, the user supplied %p/%zu",
                        r[i].stackaddr, r[i].stacksize, (void *)u[i].stack, s);
        } else {
            check_in_ledger(g[i].lo, g[i].hi, g[i].what, s);
        }
    }
    check_disjoint(g, 4, s);
    OK(ABT_thread_free(&th[0]));
    OK(ABT_thread_free(&th[1]));
    if (prov == PV_USER) {
        ubuf_check_free(&u[1], (off + 24) & 56);
    }
    /* the allocator still works: same kind again (re-using the first user
     * buffer), then a plain pool-backed ULT */
    th[0] = make_ult(pool, &r[2], s, 2, prov, &u[0]);
    OK(ABT_thread_free(&th[0]));
    after_run(&r[2], s);
    if (prov == PV_USER)
        ubuf_check_free(&u[0], off);
    memset(&r[3], 0, sizeof(r[3]));
    r[3].req = 4096;
    r[3].idx = 3;
    OK(ABT_thread_create(pool, body, &r[3], ABT_THREAD_ATTR_NULL, &th[1]));
    {
        ABT_thread_attr at;
        OK(ABT_thread_get_attr(th[1], &at));
        OK(ABT_thread_attr_get_stack(at, &r[3].stackaddr, &r[3].stacksize));
        OK(ABT_thread_attr_free(&at));
    }
    forget_stale_shadow(&r[3]);
    OK(ABT_thread_free(&th[1]));
    after_run(&r[3], s);
    n_ults++;
    n_cases++;
}

/* resolve every lazily bound symbol the walk may use on the roomy OS stack:
 * the dynamic linker's resolver needs several KiB of stack by itself */
static void warm_up(void)
{
    rec_t w;
    memset(&w, 0, sizeof(w));
    w.req = 4096;
    w.yielded = -1;
    w.lowest = (uintptr_t)__builtin_frame_address(0);
    (void)descend_small(&w, (uintptr_t)__builtin_frame_address(0), 2048, 0);
    (void)descend_big(&w, (uintptr_t)__builtin_frame_address(0), 5 * BIG, 0);
}

static void nop_body(void *arg)
{
    (void)arg;
}

/* ASan prints its one-time "ignoring requested __asan_handle_no_return"
 * warning from the exit path of the first ULT that terminates; the printing
 * needs several KiB of stack.  Let that happen on a roomy stack. */
static void first_exit_on_big_stack(ABT_pool pool)
{
#ifdef __SANITIZE_ADDRESS__
    ABT_thread_attr at;
    ABT_thread th;
    OK(ABT_thread_attr_create(&at));
    OK(ABT_thread_attr_set_stacksize(at, 256 * 1024));
    OK(ABT_thread_create(pool, nop_body, NULL, at, &th));
    OK(ABT_thread_attr_free(&at));
    OK(ABT_thread_free(&th));
#else
    (void)pool;
#endif
}

static void scenario(int cfg)
{
    C = &cfgs[cfg];
    warm_up();
    abtmc_window_begin();
    int shard = abtmc_choose(8, ABTMC_B_FREE);
    /* every ABT_init/ABT_finalize round touches fresh addresses (the
     * engine's location table is finite): 4 sizes per execution here */
    int sub = C->prov == PV_DEFAULT ? abtmc_choose(4, ABTMC_B_FREE) : 0;
    abtmc_window_end();
    long live_ref = -1;
    if (C->prov == PV_DEFAULT) {
        for (int d = shard * 16 + sub * 4; d < shard * 16 + sub * 4 + 4; d++) {
            size_t s = C->base + (size_t)d;
            char v[32];
            snprintf(v, sizeof(v), "%zu", s);
            abtmc_std_env();
            setenv("ABT_THREAD_STACKSIZE", v, 1);
            OK(ABT_init(0, NULL));
            first_exit_on_big_stack(h_main_pool(h_self_xstream()));
            one_case(h_main_pool(h_self_xstream()), PV_DEFAULT, s, 0);
            OK(ABT_finalize());
            abtmc_check(abtmc_ledger_live() == 0, "stack_leak",
                        "ABT_THREAD_STACKSIZE=%zu: %ld allocation(s) still "
                        "live after ABT_finalize", s, abtmc_ledger_live());
        }
    } else {
        h_init();
        ABT_pool pool = h_main_pool(h_self_xstream());
        first_exit_on_big_stack(pool);
        if (C->prov == PV_MALLOC) {
            for (int d = shard * 16; d < shard * 16 + 16; d++) {
                one_case(pool, PV_MALLOC, C->base + (size_t)d, 0);
                if (live_ref < 0)
                    live_ref = abtmc_ledger_live();
                abtmc_check(abtmc_ledger_live() == live_ref, "stack_leak",
                            "stack size %zu: %ld live allocations after the "
                            "ULTs were freed, %ld before", C->base + d,
                            abtmc_ledger_live(), live_ref);
            }
        } else {
            size_t off = (size_t)shard * 8;
            for (int d = 0; d < 128; d++) {
                one_case(pool, PV_USER, C->base + (size_t)d, off);
                if (live_ref < 0)
                    live_ref = abtmc_ledger_live();
                abtmc_check(abtmc_ledger_live() == live_ref, "stack_leak",
                            "user stack size %zu: %ld live allocations after "
                            "the ULTs were freed, %ld before", C->base + d,
                            abtmc_ledger_live(), live_ref);
            }
        }
        h_finalize();
        abtmc_check(abtmc_ledger_live() == 0, "stack_leak",
                    "%ld allocation(s) still live after ABT_finalize",
                    abtmc_ledger_live());
    }
    abtmc_stat("cases", n_cases);
    abtmc_stat("ops", n_ults);
    abtmc_stat("pairs_suspended_deep_together", n_deep_pairs);
    abtmc_observe("shard %d.%d ok", shard, sub);
}

static const char *cfg_name(int i) { return cfgs[i].name; }
static int cfg_quick(int i) { return cfgs[i].quick; }

int main(int argc, char **argv)
{
    static abtmc_driver d = { "c15_stacks", "C15", ARRAY_LEN(cfgs), cfg_name,
                              scenario, cfg_quick };
    return abtmc_main(argc, argv, &d);
}
