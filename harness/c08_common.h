/* c08_common.h -- stamped arrival/departure bookkeeping and the barrier
 * oracle shared by c08_barrier.c (ABT_barrier) and c08_xbarrier.c
 * (ABT_xstream_barrier).
 *
 * A participant of round k takes the stamp enter[i][k] = abtmc_step() (a
 * hooked fetch-and-add on one global counter: this IS its "arrive[k]++")
 * immediately before calling the wait and leave[i][k] = abtmc_step()
 * immediately after it returned.  The barrier property for round k with
 * participant set S_k is
 *
 *      for all i, j in S_k :  enter[j][k] < leave[i][k]
 *
 * i.e. when somebody is out, everybody is in.  It is checked twice: right
 * after the return (number of arrivals of round k stamped so far must be
 * |S_k| -- the plain reads are ordered by the stamps' hooked RMWs) and again
 * at quiescence over all pairs.  A waiter left behind after the last arrival,
 * or a lapping waiter of round k+1 swallowed by round k, ends as a deadlock
 * (reported by the engine) or as an early release of round k+1. */
#ifndef C08_COMMON_H
#define C08_COMMON_H
#include "common.h"

#define B_MAXA 4
#define B_MAXR 3
static long b_enter[B_MAXA][B_MAXR], b_leave[B_MAXA][B_MAXR];
static int b_part[B_MAXR]; /* bit mask of the participants of round k */

static inline void b_arrive(int i, int k)
{
    b_enter[i][k] = abtmc_step() + 1; /* stamps start at 0; 0 = not yet */
}

static inline void b_depart(int i, int k, const char *what)
{
    long l = abtmc_step() + 1;
    b_leave[i][k] = l;
    int want = __builtin_popcount((unsigned)b_part[k]), have = 0;
    for (int j = 0; j < B_MAXA; j++)
        if ((b_part[k] >> j & 1) && b_enter[j][k] != 0 && b_enter[j][k] < l)
            have++;
    abtmc_check(have == want, "barrier_early_release",
                "%s: participant %d returned from round %d when only %d of %d "
                "waiters had arrived", what, i, k, have, want);
}

/* quiescence: all pairs, and everybody completed every round it is in */
static inline void b_check_all(int rounds, const char *what)
{
    for (int k = 0; k < rounds; k++)
        for (int i = 0; i < B_MAXA; i++) {
            if (!(b_part[k] >> i & 1))
                continue;
            abtmc_check(b_enter[i][k] != 0 && b_leave[i][k] != 0,
                        "barrier_lost_waiter",
                        "%s: participant %d did not complete round %d", what, i,
                        k);
            for (int j = 0; j < B_MAXA; j++)
                if (b_part[k] >> j & 1)
                    abtmc_check(b_enter[j][k] < b_leave[i][k],
                                "barrier_early_release",
                                "%s: participant %d left round %d (stamp %ld) "
                                "before participant %d entered it (stamp %ld)",
                                what, i, k, b_leave[i][k], j, b_enter[j][k]);
        }
}

/* outcome tag: who arrived last in each round, and whether somebody entered
 * round k+1 while somebody else had not yet left round k (lapping) */
static inline void b_observe(int rounds)
{
    char last[B_MAXR + 1], lap[B_MAXR + 1];
    for (int k = 0; k < rounds; k++) {
        int who = -1;
        for (int i = 0; i < B_MAXA; i++)
            if ((b_part[k] >> i & 1) &&
                (who < 0 || b_enter[i][k] > b_enter[who][k]))
                who = i;
        last[k] = (char)('0' + who);
        int l = 0;
        if (k + 1 < rounds)
            for (int i = 0; i < B_MAXA; i++)
                for (int j = 0; j < B_MAXA; j++)
                    if ((b_part[k + 1] >> i & 1) && (b_part[k] >> j & 1) &&
                        b_enter[i][k + 1] < b_leave[j][k])
                        l = 1;
        lap[k] = (char)('0' + l);
    }
    last[rounds] = lap[rounds > 0 ? rounds - 1 : 0] = 0;
    abtmc_observe("last=%s lap=%s", last, lap);
}

#endif
