/* c20_env.c -- C20d: numeric ABT_* / ABT_ENV_* environment variables.
 *
 * kind S (sequential).  Config 0/2 (white box): for every numeric variable
 * and every string of a boundary corpus (values around the variable's
 * [min,max], around powers of two and around every integer type limit, with
 * signs, leading zeros, blanks and junk suffixes, plus non-numbers) and every
 * prefix mode (ABT_, ABT_ENV_, both with ABT_ taking priority)
 * ABTD_env_init() fills a scratch ABTI_global and ALL numeric fields are
 * compared with a reference: parse (c20_ref.h: saturating, error -> default),
 * clamp to [min,max], round (power of two / cache line / bucket multiple).
 * Config 1 (black box): combinations of sane magnitude go through a real
 * ABT_init, the ABTD_env_get_*() getters, ABT_info_query_config, a smoke workload
 * on 1-2 execution streams and ABT_finalize with ledger balance 0.
 *
 * The ranges are the ones written next to each load_env_*() call in
 * src/arch/abtd_env.c (there is no other documentation of them).
 */
#include <unistd.h>
#include "abti.h"
#include "common.h"
#include "c20_ref.h"

typedef struct {
    const char *name;
    int quick;
    int kind; /* 0 white-box corpus, 1 real init */
    int rich; /* corpus size */
} cfg_t;
static const cfg_t cfgs[] = {
    { "ABTD_env_init: boundary corpus x 14 variables x 3 prefix modes", 1, 0, 0 },
    { "ABT_init + query + smoke workload for sane settings", 1, 1, 0 },
    { "ABTD_env_init: extended corpus", 0, 0, 1 },
};

enum { TY_INT, TY_U32, TY_U64, TY_SZ };
enum { V_MAX_XSTREAMS, V_KEY_TABLE, V_THREAD_STACK, V_SCHED_STACK, V_EVENT_FREQ,
       V_SLEEP_NSEC, V_HANDOVERS, V_WAKEUPS, V_HUGE_PAGE, V_MEM_PAGE,
       V_MEM_SP, V_MEM_STACKS, V_MEM_DESCS, V_SYS_PAGE, NVARS };
static const struct {
    const char *suffix;
    int type;
} VARS[NVARS] = {
    { "MAX_NUM_XSTREAMS", TY_INT },   { "KEY_TABLE_SIZE", TY_U32 },
    { "THREAD_STACKSIZE", TY_SZ },    { "SCHED_STACKSIZE", TY_SZ },
    { "SCHED_EVENT_FREQ", TY_U32 },   { "SCHED_SLEEP_NSEC", TY_U64 },
    { "MUTEX_MAX_HANDOVERS", TY_U32 },{ "MUTEX_MAX_WAKEUPS", TY_U32 },
    { "HUGE_PAGE_SIZE", TY_SZ },      { "MEM_PAGE_SIZE", TY_SZ },
    { "MEM_STACK_PAGE_SIZE", TY_SZ }, { "MEM_MAX_NUM_STACKS", TY_U32 },
    { "MEM_MAX_NUM_DESCS", TY_U32 },  { "SYS_PAGE_SIZE", TY_SZ },
};

/* ------------------------------------------------------------ reference */

static const char *ref_getenv(const char *suffix)
{
    char n[96];
    snprintf(n, sizeof(n), "ABT_%s", suffix);
    const char *e = getenv(n);
    if (e)
        return e;
    snprintf(n, sizeof(n), "ABT_ENV_%s", suffix);
    return getenv(n);
}

typedef unsigned __int128 u128;

/* parse as the variable's type (saturating), fall back to the default when
 * unset or not a number, clamp to [lo, hi] (lo wins when lo > hi) */
static u128 ref_load(int var, u128 dflt, u128 lo, u128 hi)
{
    const char *e = ref_getenv(VARS[var].suffix);
    u128 v = dflt;
    if (e) {
        int ovf;
        if (VARS[var].type == TY_INT) {
            int iv;
            if (c20_ref_atoi(e, &iv, &ovf) == 0) {
                /* signed clamp, done here */
                long long sv = iv;
                if (sv > (long long)hi)
                    sv = (long long)hi;
                if (sv < (long long)lo)
                    sv = (long long)lo;
                return (u128)sv;
            }
        } else {
            uint64_t uv;
            int r = VARS[var].type == TY_U32 ? c20_ref_atoui32(e, &uv, &ovf)
                                             : c20_ref_atoui64(e, &uv, &ovf);
            if (r == 0)
                v = uv;
        }
    }
    if (v > hi)
        v = hi;
    if (v < lo)
        v = lo;
    return v;
}

static u128 ref_pow2(u128 v)
{
    u128 p = 1;
    if (v == 0)
        return 0;
    while (p < v)
        p <<= 1;
    return p;
}
static u128 ref_roundup(u128 v, u128 m) { return (v + m - 1) / m * m; }

typedef struct {
    u128 v[NVARS];
    int sane[NVARS]; /* 0: derived bound overflowed size_t, not compared */
} refcfg_t;

static void ref_compute(refcfg_t *r)
{
    const u128 I_MAX = INT_MAX / 2, U32_MAX_ = UINT32_MAX / 2,
               U64_MAX_ = UINT64_MAX / 2, SZ_MAX = SIZE_MAX / 2;
    const u128 CL = ABT_CONFIG_STATIC_CACHELINE_SIZE;
    for (int i = 0; i < NVARS; i++)
        r->sane[i] = 1;
    r->v[V_MAX_XSTREAMS] =
        ref_load(V_MAX_XSTREAMS, (u128)sysconf(_SC_NPROCESSORS_ONLN), 1, I_MAX);
    r->v[V_KEY_TABLE] = ref_pow2(ref_load(V_KEY_TABLE, 4, 1, U32_MAX_));
    r->v[V_SYS_PAGE] =
        ref_pow2(ref_load(V_SYS_PAGE, (u128)getpagesize(), 64, SZ_MAX));
    r->v[V_THREAD_STACK] = ref_roundup(
        ref_load(V_THREAD_STACK, ABT_CONFIG_DEFAULT_THREAD_STACKSIZE, 512,
                 SZ_MAX), CL);
    r->v[V_SCHED_STACK] =
        ref_roundup(ref_load(V_SCHED_STACK, 4 * 1024 * 1024, 512, SZ_MAX), CL);
    r->v[V_EVENT_FREQ] = ref_load(V_EVENT_FREQ, 50, 1, U32_MAX_);
    r->v[V_SLEEP_NSEC] = ref_load(V_SLEEP_NSEC, 100, 0, U64_MAX_);
    r->v[V_HANDOVERS] = ref_load(V_HANDOVERS, 64, 1, U32_MAX_);
    r->v[V_WAKEUPS] = ref_load(V_WAKEUPS, 1, 1, U32_MAX_);
    r->v[V_HUGE_PAGE] = ref_load(V_HUGE_PAGE,
                                 ABT_CONFIG_SYS_HUGE_PAGE_SIZE != 0
                                     ? ABT_CONFIG_SYS_HUGE_PAGE_SIZE
                                     : 2 * 1024 * 1024,
                                 4096, SZ_MAX);
    r->v[V_MEM_PAGE] = ref_pow2(
        ref_roundup(ref_load(V_MEM_PAGE, 2 * 1024 * 1024, 4096, SZ_MAX), CL));
    u128 ts = r->v[V_THREAD_STACK];
    u128 sp_min = ts * 4;
    if (sp_min > SZ_MAX) {
        /* 4 * stack size is not a sane size_t (stacks of >= 2^61 bytes):
         * the derived lower bound is not compared */
        r->sane[V_MEM_SP] = 0;
        r->v[V_MEM_SP] = 0;
    } else {
        r->v[V_MEM_SP] = ref_roundup(
            ref_load(V_MEM_SP, 8 * 1024 * 1024, sp_min, SZ_MAX), CL);
    }
    u128 dflt_stacks = (u128)(64 * 1024 * 1024) / ts;
    if (dflt_stacks > 1024)
        dflt_stacks = 1024;
    const u128 B = ABT_MEM_POOL_MAX_LOCAL_BUCKETS;
    r->v[V_MEM_STACKS] =
        ref_roundup(ref_load(V_MEM_STACKS, dflt_stacks, B, U32_MAX_), B);
    r->v[V_MEM_DESCS] = ref_roundup(ref_load(V_MEM_DESCS, 4096, B, U32_MAX_), B);
}

static u128 field(const ABTI_global *g, int var)
{
    switch (var) {
        case V_MAX_XSTREAMS: return (u128)(long long)g->max_xstreams;
        case V_KEY_TABLE: return g->key_table_size;
        case V_THREAD_STACK: return g->thread_stacksize;
        case V_SCHED_STACK: return g->sched_stacksize;
        case V_EVENT_FREQ: return g->sched_event_freq;
        case V_SLEEP_NSEC: return g->sched_sleep_nsec;
        case V_HANDOVERS: return g->mutex_max_handovers;
        case V_WAKEUPS: return g->mutex_max_wakeups;
        case V_HUGE_PAGE: return g->huge_page_size;
        case V_MEM_PAGE: return g->mem_page_size;
        case V_MEM_SP: return g->mem_sp_size;
        case V_MEM_STACKS: return g->mem_max_stacks;
        case V_MEM_DESCS: return g->mem_max_descs;
        default: return g->sys_page_size;
    }
}

/* ------------------------------------------------------------- helpers */

static void clear_env(void)
{
    char n[96];
    for (int i = 0; i < NVARS; i++) {
        snprintf(n, sizeof(n), "ABT_%s", VARS[i].suffix);
        unsetenv(n);
        snprintf(n, sizeof(n), "ABT_ENV_%s", VARS[i].suffix);
        unsetenv(n);
    }
    unsetenv("ABT_STACK_OVERFLOW_CHECK");
    unsetenv("ABT_ENV_STACK_OVERFLOW_CHECK");
    setenv("ABT_SET_AFFINITY", "no", 1);
    setenv("ABT_MEM_LP_ALLOC", "malloc", 1);
}
static void set_var(int var, int env_prefix, const char *val)
{
    char n[96];
    snprintf(n, sizeof(n), "%s%s", env_prefix ? "ABT_ENV_" : "ABT_",
             VARS[var].suffix);
    setenv(n, val, 1);
}

static long long n_cases, n_calls, n_fields, n_nondefault, n_clamped_lo,
    n_clamped_hi, n_unparsable;
static ABTI_global scratch;
static unsigned seen_classes;

static const char *describe_env(void)
{
    static char buf[600];
    int n = 0;
    buf[0] = 0;
    for (int i = 0; i < NVARS; i++)
        for (int p = 0; p < 2; p++) {
            char nm[96];
            snprintf(nm, sizeof(nm), "%s%s", p ? "ABT_ENV_" : "ABT_",
                     VARS[i].suffix);
            const char *e = getenv(nm);
            if (e && n < 500)
                n += snprintf(buf + n, sizeof(buf) - (size_t)n, "%s=\"%.40s\" ",
                              nm, e);
        }
    return buf;
}

/* run ABTD_env_init under the current environment and compare every field */
static void check_env_init(void)
{
    refcfg_t ref;
    ref_compute(&ref);
    long live0 = abtmc_ledger_live();
    memset(&scratch, 0x5A, sizeof(scratch));
    ABTD_env_init(&scratch);
    n_calls++;
    n_cases++;
    for (int v = 0; v < NVARS; v++) {
        if (!ref.sane[v])
            continue;
        u128 got = field(&scratch, v);
        n_fields++;
        if (got != ref.v[v])
            abtmc_check_fail("env_value",
                             "%s: ABTD_env_init produced %lld (0x%llx), "
                             "reference %lld (0x%llx) under %s",
                             VARS[v].suffix, (long long)got,
                             (unsigned long long)got, (long long)ref.v[v],
                             (unsigned long long)ref.v[v], describe_env());
    }
    abtmc_check(scratch.set_affinity == ABT_FALSE, "env_value",
                "ABT_SET_AFFINITY=no but set_affinity=%d", scratch.set_affinity);
    abtmc_check(abtmc_ledger_live() == live0, "env_leak",
                "ABTD_env_init left %ld allocations under %s",
                abtmc_ledger_live() - live0, describe_env());
}

/* ---- corpus ---- */
static void dec_of(u128 v, char *out)
{
    char t[48];
    int n = 0;
    if (v == 0)
        t[n++] = '0';
    while (v) {
        t[n++] = (char)('0' + (int)(v % 10));
        v /= 10;
    }
    for (int i = 0; i < n; i++)
        out[i] = t[n - 1 - i];
    out[n] = 0;
}

static const char *const NON_NUMBERS[] = { "", " ", "x", "-", "+", "abc", "- 1",
                                           "+ 1", "+-", ".5", "\t\n" };
static const char *const FORMS[] = { "%s",   "+%s",  "-%s",   " %s",   "000%s",
                                     "%sx",  "%s 5", "%s.9",  "-+%s",  "--%s",
                                     "\t%s\n", "%s-1", "%s+" };
static const char *const ODD_NUMBERS[] = { "0x10", "1e3", "4 096", "1,000",
                                           "12abc", "007", "-0", "+0", "--0" };

static void corpus_for(int var, int rich)
{
    /* numbers: small, around powers of two / cache line, around the
     * variable's bounds, around the type limits */
    u128 nums[160];
    int nn = 0;
    static const unsigned long long SMALL[] = {
        0, 1, 2, 3, 4, 5, 7, 8, 9, 49, 50, 51, 63, 64, 65, 100, 127, 128, 129,
        511, 512, 513, 575, 576, 577, 1023, 1024, 1025, 4095, 4096, 4097, 4159,
        4160, 4161, 16383, 16384, 16385, 65535, 65536, 65537, 1048575, 1048576,
        1048577, 2097151, 2097152, 2097153, 4194303, 4194304, 4194305, 8388607,
        8388608, 8388609, 67108863, 67108864, 67108865
    };
    for (int i = 0; i < ARRAY_LEN(SMALL); i++)
        if (rich || i % 2 == 0 || SMALL[i] < 10)
            nums[nn++] = SMALL[i];
    static const int EXPS[] = { 30, 31, 32, 33, 61, 62, 63, 64 };
    for (int i = 0; i < ARRAY_LEN(EXPS); i++) {
        u128 p = (u128)1 << EXPS[i];
        nums[nn++] = p - 1;
        nums[nn++] = p;
        nums[nn++] = p + 1;
        if (rich) {
            nums[nn++] = p - 2;
            nums[nn++] = p + 2;
            nums[nn++] = p - 63;
            nums[nn++] = p - 64;
            nums[nn++] = p - 65;
        }
    }
    /* halves of the type limits are the documented maxima */
    nums[nn++] = INT_MAX / 2 - 1;
    nums[nn++] = INT_MAX / 2;
    nums[nn++] = INT_MAX / 2 + 1;
    nums[nn++] = UINT32_MAX / 2 + 2;
    nums[nn++] = (u128)UINT64_MAX * 10;
    nums[nn++] = (u128)UINT64_MAX * 10 + 9;
    nums[nn++] = ((u128)1 << 100) + 12345;

    char num[64], val[128];
    for (int mode = 0; mode < 3; mode++) {
        for (int i = 0; i < nn; i++) {
            dec_of(nums[i], num);
            for (int f = 0; f < ARRAY_LEN(FORMS); f++) {
                if (!rich && f >= 6 && (i + f) % 3)
                    continue; /* thin out the junk forms in the quick tier */
                snprintf(val, sizeof(val), FORMS[f], num);
                clear_env();
                if (mode == 2) {
                    set_var(var, 0, val);
                    set_var(var, 1, "77777"); /* must be ignored */
                } else {
                    set_var(var, mode, val);
                }
                check_env_init();
            }
        }
        for (int i = 0; i < ARRAY_LEN(NON_NUMBERS) + ARRAY_LEN(ODD_NUMBERS);
             i++) {
            const char *s = i < ARRAY_LEN(NON_NUMBERS)
                                ? NON_NUMBERS[i]
                                : ODD_NUMBERS[i - ARRAY_LEN(NON_NUMBERS)];
            clear_env();
            if (mode == 2) {
                set_var(var, 0, s);
                set_var(var, 1, "77777");
            } else {
                set_var(var, mode, s);
            }
            check_env_init();
            if (i < ARRAY_LEN(NON_NUMBERS))
                n_unparsable++;
        }
    }
}

/* interplay of the stack size with the derived bounds/defaults */
static void interplay(void)
{
    static const char *const TS[] = { NULL, "512", "16384", "1048576", "67108864",
                                      "134217728", "1099511627776", "100000" };
    static const char *const NS[] = { NULL, "1", "3", "5000", "-1", "x" };
    static const char *const SP[] = { NULL, "1", "100000", "4611686018427387904",
                                      "99999999999999999999", "zz" };
    for (int a = 0; a < ARRAY_LEN(TS); a++)
        for (int b = 0; b < ARRAY_LEN(NS); b++)
            for (int c = 0; c < ARRAY_LEN(SP); c++) {
                clear_env();
                if (TS[a])
                    set_var(V_THREAD_STACK, a & 1, TS[a]);
                if (NS[b])
                    set_var(V_MEM_STACKS, 0, NS[b]);
                if (SP[c])
                    set_var(V_MEM_SP, b & 1, SP[c]);
                check_env_init();
            }
    /* nothing set at all: the defaults */
    clear_env();
    check_env_init();
}

/* ------------------------------------------------------ real init part */

typedef struct {
    const char *name, *val; /* full variable name */
} kv_t;
typedef struct {
    kv_t kv[3];
    int smoke; /* run the workload (values of sane magnitude) */
} combo_t;
static const combo_t COMBOS[] = {
    { { { NULL, NULL } }, 1 },
    { { { "ABT_KEY_TABLE_SIZE", "0" } }, 1 },
    { { { "ABT_KEY_TABLE_SIZE", "3" } }, 1 },
    { { { "ABT_KEY_TABLE_SIZE", "5" } }, 1 },
    { { { "ABT_KEY_TABLE_SIZE", "-1" } }, 1 },
    { { { "ABT_KEY_TABLE_SIZE", "x" } }, 1 },
    { { { "ABT_ENV_KEY_TABLE_SIZE", "9" } }, 1 },
    { { { "ABT_KEY_TABLE_SIZE", "2" }, { "ABT_ENV_KEY_TABLE_SIZE", "64" } }, 1 },
    { { { "ABT_THREAD_STACKSIZE", "16385" } }, 1 },
    { { { "ABT_THREAD_STACKSIZE", "65536x" } }, 1 },
    { { { "ABT_THREAD_STACKSIZE", "  +32768" } }, 1 },
    { { { "ABT_THREAD_STACKSIZE", "0" } }, 0 },
    { { { "ABT_THREAD_STACKSIZE", "-16384" } }, 0 },
    { { { "ABT_ENV_THREAD_STACKSIZE", "24000" }, { "ABT_MEM_STACK_PAGE_SIZE", "1" } }, 1 },
    { { { "ABT_SCHED_STACKSIZE", "70000" } }, 1 },
    { { { "ABT_SCHED_STACKSIZE", "junk" } }, 1 },
    { { { "ABT_SCHED_EVENT_FREQ", "0" } }, 1 },
    { { { "ABT_SCHED_EVENT_FREQ", "7" } }, 1 },
    { { { "ABT_SCHED_EVENT_FREQ", "-3" } }, 1 },
    /* 2^31-1 scheduler iterations between event checks: not a sane smoke */
    { { { "ABT_SCHED_EVENT_FREQ", "99999999999" } }, 0 },
    { { { "ABT_SCHED_SLEEP_NSEC", "0" } }, 1 },
    { { { "ABT_SCHED_SLEEP_NSEC", "-1" } }, 1 },
    { { { "ABT_SCHED_SLEEP_NSEC", "18446744073709551616" } }, 1 },
    { { { "ABT_MUTEX_MAX_HANDOVERS", "0" }, { "ABT_MUTEX_MAX_WAKEUPS", "0" } }, 1 },
    { { { "ABT_MUTEX_MAX_HANDOVERS", "4294967296" }, { "ABT_MUTEX_MAX_WAKEUPS", "3" } }, 1 },
    { { { "ABT_MEM_MAX_NUM_STACKS", "0" }, { "ABT_MEM_MAX_NUM_DESCS", "1" } }, 1 },
    { { { "ABT_MEM_MAX_NUM_STACKS", "3" }, { "ABT_MEM_MAX_NUM_DESCS", "7" } }, 1 },
    { { { "ABT_MEM_MAX_NUM_STACKS", "-9" }, { "ABT_MEM_MAX_NUM_DESCS", "q" } }, 1 },
    { { { "ABT_MEM_PAGE_SIZE", "4097" } }, 1 },
    { { { "ABT_MEM_PAGE_SIZE", "70000" } }, 1 },
    { { { "ABT_MEM_PAGE_SIZE", "1" } }, 1 },
    { { { "ABT_MEM_STACK_PAGE_SIZE", "1" } }, 1 },
    { { { "ABT_MEM_STACK_PAGE_SIZE", "200001" } }, 1 },
    { { { "ABT_SYS_PAGE_SIZE", "100" } }, 1 },
    { { { "ABT_SYS_PAGE_SIZE", "5000" } }, 1 },
    { { { "ABT_HUGE_PAGE_SIZE", "1" } }, 1 },
    { { { "ABT_MAX_NUM_XSTREAMS", "0" } }, 1 },
    { { { "ABT_MAX_NUM_XSTREAMS", "-7" } }, 1 },
    { { { "ABT_MAX_NUM_XSTREAMS", "2" } }, 1 },
    { { { "ABT_MAX_NUM_XSTREAMS", "3abc" } }, 1 },
    { { { "ABT_MAX_NUM_XSTREAMS", "x" } }, 1 },
    { { { "ABT_MAX_NUM_XSTREAMS", "99999999999" } }, 0 },
};
#define NCOMBO_A 6
#define NCOMBO_B 7 /* 6 x 7 = 42 = ARRAY_LEN(COMBOS) */
typedef char combos_size_check[(sizeof(COMBOS) / sizeof(COMBOS[0]) ==
                                NCOMBO_A * NCOMBO_B) ? 1 : -1];

static ABT_key skey;
static ABT_mutex smtx;
static int scount;
static void smoke_ult(void *arg)
{
    OK(ABT_key_set(skey, arg));
    OK(ABT_mutex_lock(smtx));
    scount++;
    OK(ABT_mutex_unlock(smtx));
    OK(ABT_thread_yield());
    void *v = NULL;
    OK(ABT_key_get(skey, &v));
    abtmc_check(v == arg, "env_smoke", "ULT-local value lost");
}

static void query_and_compare(const refcfg_t *ref, const char *when)
{
    unsigned int mx = 0;
    size_t ts = 0, ss = 0;
    uint64_t ef = 0, sn = 0;
    OK(ABT_info_query_config(ABT_INFO_QUERY_KIND_MAX_NUM_XSTREAMS, &mx));
    OK(ABT_info_query_config(ABT_INFO_QUERY_KIND_DEFAULT_THREAD_STACKSIZE, &ts));
    OK(ABT_info_query_config(ABT_INFO_QUERY_KIND_DEFAULT_SCHED_STACKSIZE, &ss));
    OK(ABT_info_query_config(ABT_INFO_QUERY_KIND_DEFAULT_SCHED_EVENT_FREQ, &ef));
    OK(ABT_info_query_config(ABT_INFO_QUERY_KIND_DEFAULT_SCHED_SLEEP_NSEC, &sn));
    n_calls += 5;
    abtmc_check(mx == (unsigned)ref->v[V_MAX_XSTREAMS] &&
                    ts == (size_t)ref->v[V_THREAD_STACK] &&
                    ss == (size_t)ref->v[V_SCHED_STACK] &&
                    ef == (uint64_t)ref->v[V_EVENT_FREQ] &&
                    sn == (uint64_t)ref->v[V_SLEEP_NSEC],
                "env_query",
                "ABT_info_query_config %s: max_xstreams %u/%llu stack %zu/%llu "
                "sched stack %zu/%llu event freq %llu/%llu sleep %llu/%llu "
                "(got/reference) under %s", when, mx,
                (unsigned long long)ref->v[V_MAX_XSTREAMS], ts,
                (unsigned long long)ref->v[V_THREAD_STACK], ss,
                (unsigned long long)ref->v[V_SCHED_STACK],
                (unsigned long long)ef,
                (unsigned long long)ref->v[V_EVENT_FREQ],
                (unsigned long long)sn,
                (unsigned long long)ref->v[V_SLEEP_NSEC], describe_env());
}

static void real_init(int ci)
{
    const combo_t *cb = &COMBOS[ci];
    abtmc_std_env();
    for (int i = 0; i < 3 && cb->kv[i].name; i++)
        setenv(cb->kv[i].name, cb->kv[i].val, 1);
    refcfg_t ref;
    ref_compute(&ref);
    n_cases++;
    /* the getters that ABT_info_query_config falls back to before ABT_init
     * (2.0 API) read the environment directly */
    {
        unsigned long long g[7] = {
            (unsigned long long)ABTD_env_get_max_xstreams(),
            ABTD_env_key_table_size(),
            ABTD_env_get_sys_pagesize(),
            ABTD_env_get_thread_stacksize(),
            ABTD_env_get_sched_stacksize(),
            ABTD_env_get_sched_event_freq(),
            ABTD_env_get_sched_sleep_nsec()
        };
        static const int W[7] = { V_MAX_XSTREAMS, V_KEY_TABLE, V_SYS_PAGE,
                                  V_THREAD_STACK, V_SCHED_STACK, V_EVENT_FREQ,
                                  V_SLEEP_NSEC };
        n_calls += 7;
        for (int i = 0; i < 7; i++)
            abtmc_check(g[i] == (unsigned long long)ref.v[W[i]], "env_value",
                        "ABTD_env getter for %s returned %llu, reference %llu "
                        "under %s", VARS[W[i]].suffix, g[i],
                        (unsigned long long)ref.v[W[i]], describe_env());
    }
    if (!cb->smoke) {
        abtmc_observe("query-only");
        return;
    }
    OK(ABT_init(0, NULL));
    query_and_compare(&ref, "after ABT_init");
    const ABTI_global *g = ABTI_global_get_global();
    for (int v = 0; v < NVARS; v++) {
        n_fields++;
        if (ref.sane[v] && field(g, v) != ref.v[v])
            abtmc_check_fail("env_value",
                             "%s: runtime uses %lld, reference %lld under %s",
                             VARS[v].suffix, (long long)field(g, v),
                             (long long)ref.v[v], describe_env());
    }
    /* smoke workload */
    int two = ref.v[V_MAX_XSTREAMS] >= 2;
    ABT_xstream es1 = ABT_XSTREAM_NULL;
    ABT_pool p[2];
    p[0] = h_main_pool(h_self_xstream());
    if (two) {
        OK(ABT_xstream_create(ABT_SCHED_NULL, &es1));
        p[1] = h_main_pool(es1);
    }
    OK(ABT_key_create(NULL, &skey));
    OK(ABT_mutex_create(&smtx));
    ABT_thread th[6];
    int nth = 0;
    for (int i = 0; i < 6; i++) {
        OK(ABT_thread_create(p[two ? i % 2 : 0], smoke_ult,
                             (void *)(intptr_t)(i + 1), ABT_THREAD_ATTR_NULL,
                             &th[nth++]));
    }
    for (int i = 0; i < nth; i++)
        OK(ABT_thread_free(&th[i]));
    abtmc_check(scount == 6, "env_smoke", "%d of 6 ULTs ran", scount);
    /* the default stack size is what a ULT gets */
    {
        ABT_thread_attr at;
        size_t sz = 0;
        OK(ABT_thread_attr_create(&at));
        OK(ABT_thread_attr_get_stacksize(at, &sz));
        abtmc_check(sz == (size_t)ref.v[V_THREAD_STACK], "env_query",
                    "default attribute stack size %zu, reference %llu", sz,
                    (unsigned long long)ref.v[V_THREAD_STACK]);
        OK(ABT_thread_attr_free(&at));
    }
    OK(ABT_mutex_free(&smtx));
    OK(ABT_key_free(&skey));
    if (two) {
        OK(ABT_xstream_join(es1));
        OK(ABT_xstream_free(&es1));
    }
    OK(ABT_finalize());
    abtmc_check(abtmc_ledger_live() == 0, "env_leak",
                "%ld allocations live after ABT_finalize under %s",
                abtmc_ledger_live(), describe_env());
    abtmc_observe("smoke-%s", two ? "2es" : "1es");
}

static void scenario(int cfg)
{
    const cfg_t *C = &cfgs[cfg];
    if (C->kind == 0) {
        abtmc_window_begin();
        int a = abtmc_choose(3, ABTMC_B_FREE);
        int b = abtmc_choose(5, ABTMC_B_FREE);
        abtmc_window_end();
        int shard = a * 5 + b; /* 0..14: 14 variables + interplay */
        if (shard < NVARS) {
            corpus_for(shard, C->rich);
            abtmc_observe("var=%s", VARS[shard].suffix);
        } else {
            interplay();
            abtmc_observe("interplay");
        }
    } else {
        abtmc_window_begin();
        int a = abtmc_choose(NCOMBO_A, ABTMC_B_FREE);
        int b = abtmc_choose(NCOMBO_B, ABTMC_B_FREE);
        abtmc_window_end();
        real_init(a * NCOMBO_B + b);
    }
    abtmc_stat("cases", n_cases);
    abtmc_stat("distinct", n_cases);
    abtmc_stat("ops", n_calls);
    abtmc_stat("nontrivial", n_cases - n_unparsable);
    abtmc_stat("env_settings", n_cases);
    abtmc_stat("env_fields_compared", n_fields);
}

static const char *cfg_name(int i) { return cfgs[i].name; }
static int cfg_quick(int i) { return cfgs[i].quick; }

int main(int argc, char **argv)
{
    static abtmc_driver d = { "c20_env", "C20", ARRAY_LEN(cfgs), cfg_name,
                              scenario, cfg_quick };
    return abtmc_main(argc, argv, &d);
}
