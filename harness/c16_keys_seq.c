/* c16_keys_seq.c -- C16 (kind S): work-unit-local storage as an independent
 * key->value map per work unit, destructors exactly once at free.
 *
 * One controlled thread.  Three work units are tracked: P (the primary ULT,
 * which also directs the history), F (the focus unit, kind given by the
 * config: named/unnamed ULT, named/unnamed tasklet, a ULT created with a
 * migration callback -- its key table already exists and holds an internal
 * key --, or P itself) and S (a second, plain named ULT).  F and S live in
 * private pools that no scheduler reads; the director runs them explicitly
 * with ABT_pool_pop_thread + ABT_self_schedule, so who runs when is fully
 * determined by the history.
 *
 * Keys: a0 (lowest id), N+1 "ballast" keys, a1 (highest id), N = key table
 * size: K = N+3 keys, more than the slot array and more than the element
 * storage inside the table's descriptor.  With `ballast` the ballast keys get
 * values on all three units before the history starts, so the chains are
 * already long and spill into extra memory blocks; without it the table is
 * created lazily by the history itself.
 *
 * History: depth D steps, each chosen with abtmc_choose(.., ABTMC_B_FREE)
 * among the operations of the config's alphabet that are enabled in the
 * current model state (see enum op).  After every step ALL (unit, live key)
 * pairs are read back with ABT_thread_get_specific and, for the running unit,
 * also ABT_key_get and ABT_self_get_specific, and compared with the reference
 * dict[unit][key]; an owner operation additionally does the same sweep from
 * inside the owner.  Every free of a unit (explicit, automatic for unnamed
 * units, ABT_finalize for P) must produce exactly the destructor calls
 * {(key, value) : key has a destructor, value != NULL}; no destructor may run
 * at any other time.  After ABT_finalize the allocation ledger must be empty.
 */
#include "c16_keys.h"

enum { U_ULT, U_ULT_UNNAMED, U_TASK, U_TASK_UNNAMED, U_PRIMARY, U_ULT_CB };
enum { API_KEY, API_SELF };
enum op {
    OP_OWN0,    /* owner F sets a fresh value for active key 0 (config API) */
    OP_OWN1,    /* ... active key 1 */
    OP_OTH0,    /* another unit: ABT_thread_set_specific(F, a0, fresh) */
    OP_OTH1,
    OP_NUL0,    /* set a0 of F to NULL (owner if the last set was by another
                   unit and F can run, else another unit) */
    OP_NUL1,
    OP_TERMREV, /* F not terminated: let its function return (unnamed: this
                   frees it -> destructors -> a fresh F is created);
                   F terminated: revive it */
    OP_FREE,    /* named F: (finish,) free -> destructors -> fresh F */
    OP_KTOG0,   /* a0 live: ABT_key_free; else ABT_key_create into slot 0 */
    OP_KTOG1,
    OP_SOWN,    /* S sets a live active key on itself (the other owner API) */
    NOPS
};
#define M(x) (1u << (x))
#define A_VALUES (M(OP_OWN0) | M(OP_OWN1) | M(OP_OTH0) | M(OP_OTH1) | M(OP_NUL0) | M(OP_TERMREV) | M(OP_FREE))
#define A_KEYS (M(OP_OWN0) | M(OP_OTH1) | M(OP_NUL0) | M(OP_KTOG0) | M(OP_KTOG1) | M(OP_FREE) | M(OP_SOWN))
#define A_NARROW (M(OP_OWN0) | M(OP_OTH1) | M(OP_NUL0) | M(OP_TERMREV) | M(OP_FREE))
#define A_LIFE (M(OP_OTH0) | M(OP_OWN1) | M(OP_KTOG0) | M(OP_TERMREV) | M(OP_FREE))
#define A_PRIM (M(OP_OWN0) | M(OP_OWN1) | M(OP_OTH0) | M(OP_OTH1) | M(OP_NUL0) | M(OP_NUL1) | M(OP_KTOG0) | M(OP_SOWN))
static const char *const op_names[NOPS] = { "OWN0", "OWN1", "OTH0", "OTH1",
                                            "NUL0", "NUL1", "TERMREV", "FREE",
                                            "KTOG0", "KTOG1", "SOWN" };

typedef struct {
    const char *name;
    int quick;
    int tsize;      /* ABT_KEY_TABLE_SIZE; 0 = leave unset (default 4) */
    int ukind;      /* kind of the focus unit */
    int api;        /* owner API of F (S uses the other one) */
    int ballast;    /* 1: ballast keys pre-set on all units */
    unsigned ops;   /* alphabet */
    int depth;
    int keys_first; /* tear-down: free the keys before the units */
} cfg_t;

static const cfg_t cfgs[] = {
    /* quick */
    { "N1 ult key_set ballast narrow D6", 1, 1, U_ULT, API_KEY, 1, A_NARROW, 6, 0 },
    { "N2 task self_set ballast keys D5", 1, 2, U_TASK, API_SELF, 1, A_KEYS, 5, 1 },
    { "N4 unnamed-ult key_set lazy values D5", 1, 4, U_ULT_UNNAMED, API_KEY, 0, A_VALUES, 5, 0 },
    { "N1 primary self_set lazy D4", 1, 1, U_PRIMARY, API_SELF, 0, A_PRIM, 4, 1 },
    { "N2 cb-ult key_set lazy keys D5", 1, 2, U_ULT_CB, API_KEY, 0, A_KEYS, 5, 0 },
    { "N4 unnamed-task self_set ballast narrow D6", 1, 4, U_TASK_UNNAMED, API_SELF, 1, A_NARROW, 6, 1 },
    { "N2 ult self_set ballast life D6", 1, 2, U_ULT, API_SELF, 1, A_LIFE, 6, 0 },
    { "N1 ult self_set ballast values D5", 1, 1, U_ULT, API_SELF, 1, A_VALUES, 5, 1 },
    /* thorough */
    { "N1 ult key_set ballast values D7", 0, 1, U_ULT, API_KEY, 1, A_VALUES, 7, 1 },
    { "N2 ult self_set lazy narrow D8", 0, 2, U_ULT, API_SELF, 0, A_NARROW, 8, 0 },
    { "N4 task key_set ballast values D7", 0, 4, U_TASK, API_KEY, 1, A_VALUES, 7, 0 },
    { "N8 ult key_set ballast keys D6", 0, 8, U_ULT, API_KEY, 1, A_KEYS, 6, 1 },
    { "default cb-ult self_set ballast life D8", 0, 0, U_ULT_CB, API_SELF, 1, A_LIFE, 8, 1 },
    { "N16 ult key_set ballast narrow D7", 0, 16, U_ULT, API_KEY, 1, A_NARROW, 7, 0 },
    { "N3(->4) unnamed-ult self_set ballast keys D6", 0, 3, U_ULT_UNNAMED, API_SELF, 1, A_KEYS, 6, 0 },
    { "N2 primary key_set ballast D6", 0, 2, U_PRIMARY, API_KEY, 1, A_PRIM, 6, 0 },
    { "N1 task self_set lazy life D8", 0, 1, U_TASK, API_SELF, 0, A_LIFE, 8, 1 },
    { "N8 unnamed-task key_set lazy values D6", 0, 8, U_TASK_UNNAMED, API_KEY, 0, A_VALUES, 6, 1 },
    { "N2 ult key_set ballast values D6", 0, 2, U_ULT, API_KEY, 1, A_VALUES, 6, 0 },
};

/* ---- reference model -------------------------------------------------- */
enum { ST_NONE, ST_READY, ST_PARKED, ST_RUNNING, ST_TERM, ST_FREED };
typedef struct {
    const char *nm;
    int idx, kind, named, state, finished;
    ABT_thread h;
    ABT_pool pool;
    void *val[C16_MAXK];   /* dict[unit][key index] */
    char lastby[C16_MAXK]; /* 'o' owner, 'x' other, 0 never */
} unit_t;
enum { C_NOP, C_SET, C_OSET, C_FINISH };
static struct {
    int what, key;
    unit_t *target;
    void *val;
} cmd;

static const cfg_t *C;
static unit_t U[3], *P = &U[0], *F, *S = &U[2], *cur;
static ABT_key key_h[C16_MAXK];
static int key_live[C16_MAXK], key_dtor[C16_MAXK], nkeys;
static int act[2], next_dtor;
static int dlog_seen;
static long n_sets, n_gets, n_frees;

static void unit_body(void *arg);
static void mig_cb(ABT_thread t, void *arg) { (void)t; (void)arg; }

static int new_key(int with_dtor)
{
    int k = nkeys++;
    abtmc_check(k < C16_MAXK, "harness_keys", "too many keys");
    key_h[k] = ABT_KEY_NULL;
    OK(ABT_key_create(with_dtor ? c16_dtors[k] : NULL, &key_h[k]));
    abtmc_check(key_h[k] != ABT_KEY_NULL, "key_create_null",
                "ABT_key_create returned ABT_KEY_NULL");
    key_live[k] = 1;
    key_dtor[k] = with_dtor;
    return k;
}

static void bad_get(const char *api, unit_t *u, int k, void *got)
{
    uintptr_t g = (uintptr_t)got;
    int gu = (int)((g >> 8) & 0xf), gk = (int)(g & 0xff);
    if (got == NULL)
        abtmc_check_fail("get_lost_value",
                         "%s(unit %s, key #%d) returned NULL, last value set "
                         "is %p", api, u->nm, k, u->val[k]);
    if ((g >> 28) == 1 && (gu != u->idx || gk != k))
        abtmc_check_fail("value_leak",
                         "%s(unit %s, key #%d) returned %p, a value that was "
                         "set on unit %s for key #%d (expected %p)", api,
                         u->nm, k, got, gu < 3 ? U[gu].nm : "?", gk,
                         u->val[k]);
    abtmc_check_fail("get_stale_value",
                     "%s(unit %s, key #%d) returned %p, expected %p", api,
                     u->nm, k, got, u->val[k]);
}

/* read back every (unit, live key) pair */
static void sweep(void)
{
    for (int i = 0; i < 3; i++) {
        unit_t *u = &U[i];
        if (u->state == ST_NONE || u->state == ST_FREED)
            continue;
        for (int k = 0; k < nkeys; k++) {
            if (!key_live[k])
                continue;
            void *g = (void *)(uintptr_t)1;
            OK(ABT_thread_get_specific(u->h, key_h[k], &g));
            n_gets++;
            if (g != u->val[k])
                bad_get("ABT_thread_get_specific", u, k, g);
            if (u == cur) {
                g = (void *)(uintptr_t)1;
                OK(ABT_key_get(key_h[k], &g));
                if (g != u->val[k])
                    bad_get("ABT_key_get", u, k, g);
                g = (void *)(uintptr_t)1;
                OK(ABT_self_get_specific(key_h[k], &g));
                if (g != u->val[k])
                    bad_get("ABT_self_get_specific", u, k, g);
                n_gets += 2;
            }
        }
    }
    abtmc_check(c16_ndlog == dlog_seen, "destructor_early",
                "a destructor (key #%d, value %p) ran although no work unit "
                "was being freed",
                c16_dlog[dlog_seen].key, c16_dlog[dlog_seen].val);
}

static void owner_set(unit_t *u, int k, void *v)
{
    int api = (u == S) ? !C->api : C->api;
    abtmc_check(cur == u, "harness_runner", "owner_set by a non-owner");
    if (api == API_KEY)
        OK(ABT_key_set(key_h[k], v));
    else
        OK(ABT_self_set_specific(key_h[k], v));
    u->val[k] = v;
    u->lastby[k] = 'o';
    n_sets++;
}

static void unit_body(void *arg)
{
    unit_t *u = (unit_t *)arg;
    for (;;) {
        cur = u;
        u->state = ST_RUNNING;
        ABT_thread me = ABT_THREAD_NULL;
        OK(ABT_self_get_thread(&me));
        abtmc_check(me == u->h, "harness_runner", "wrong unit is running");
        if (cmd.what == C_SET) {
            owner_set(u, cmd.key, cmd.val);
        } else if (cmd.what == C_OSET) {
            OK(ABT_thread_set_specific(cmd.target->h, key_h[cmd.key], cmd.val));
            cmd.target->val[cmd.key] = cmd.val;
            cmd.target->lastby[cmd.key] = 'x';
            n_sets++;
        }
        int fin = (cmd.what == C_FINISH) ||
                  (u->kind == U_TASK || u->kind == U_TASK_UNNAMED);
        cmd.what = C_NOP;
        sweep();
        cur = P;
        if (fin) {
            u->finished = 1;
            return;
        }
        u->state = ST_PARKED;
        OK(ABT_self_yield());
    }
}

static void create_unit(unit_t *u)
{
    memset(u->val, 0, sizeof(u->val));
    memset(u->lastby, 0, sizeof(u->lastby));
    u->finished = 0;
    u->h = ABT_THREAD_NULL;
    u->named = !(u->kind == U_ULT_UNNAMED || u->kind == U_TASK_UNNAMED);
    switch (u->kind) {
        case U_ULT:
            OK(ABT_thread_create(u->pool, unit_body, u, ABT_THREAD_ATTR_NULL,
                                 &u->h));
            break;
        case U_ULT_UNNAMED:
            OK(ABT_thread_create(u->pool, unit_body, u, ABT_THREAD_ATTR_NULL,
                                 NULL));
            break;
        case U_TASK: OK(ABT_task_create(u->pool, unit_body, u, &u->h)); break;
        case U_TASK_UNNAMED:
            OK(ABT_task_create(u->pool, unit_body, u, NULL));
            break;
        default: {
            ABT_thread_attr at;
            OK(ABT_thread_attr_create(&at));
            OK(ABT_thread_attr_set_callback(at, mig_cb, NULL));
            OK(ABT_thread_create(u->pool, unit_body, u, at, &u->h));
            OK(ABT_thread_attr_free(&at));
            break;
        }
    }
    if (!u->named) {
        /* learn the handle (valid until the unit terminates) */
        OK(ABT_pool_pop_thread(u->pool, &u->h));
        abtmc_check(u->h != ABT_THREAD_NULL, "harness_pop", "pool empty");
        OK(ABT_pool_push_thread(u->pool, u->h));
    }
    u->state = ST_READY;
}

static void unit_freed(unit_t *u, int mark, int recreate)
{
    c16_expect_dtors(u->nm, mark, nkeys, key_dtor, u->val);
    dlog_seen = c16_ndlog;
    u->state = ST_FREED;
    n_frees++;
    if (recreate)
        create_unit(u);
}

/* run u (READY or PARKED) until it yields or returns */
static void run_unit(unit_t *u, int recreate)
{
    ABT_thread t = ABT_THREAD_NULL;
    int mark = c16_ndlog;
    OK(ABT_pool_pop_thread(u->pool, &t));
    abtmc_check(t == u->h, "harness_pop", "popped %p, expected %p", (void *)t,
                (void *)u->h);
    OK(ABT_self_schedule(t, ABT_POOL_NULL));
    abtmc_check(cur == P && cmd.what == C_NOP, "harness_runner",
                "unit %s did not process its command", u->nm);
    if (u->finished) {
        if (u->named)
            u->state = ST_TERM;
        else
            unit_freed(u, mark, recreate); /* freed by the runtime */
    }
}

static void finish_unit(unit_t *u, int recreate)
{
    if (u->state == ST_READY || u->state == ST_PARKED) {
        cmd.what = C_FINISH;
        run_unit(u, recreate);
    }
}

static void free_unit(unit_t *u, int recreate)
{
    finish_unit(u, recreate);
    if (!u->named)
        return; /* finishing freed it */
    int mark = c16_ndlog;
    if (u->kind == U_TASK)
        OK(ABT_task_free(&u->h));
    else
        OK(ABT_thread_free(&u->h));
    abtmc_check(u->h == (u->kind == U_TASK ? ABT_TASK_NULL : ABT_THREAD_NULL),
                "free_handle", "handle not reset by free");
    unit_freed(u, mark, recreate);
}

static void other_set(unit_t *u, int k, void *v)
{
    if (u == P) { /* the "other" unit is S */
        cmd.what = C_OSET;
        cmd.target = u;
        cmd.key = k;
        cmd.val = v;
        run_unit(S, 1);
    } else {
        OK(ABT_thread_set_specific(u->h, key_h[k], v));
        u->val[k] = v;
        u->lastby[k] = 'x';
        n_sets++;
    }
}

static int runnable(unit_t *u)
{
    return u == P || u->state == ST_READY || u->state == ST_PARKED;
}

static void own_set(unit_t *u, int k, void *v)
{
    if (u == P) {
        owner_set(u, k, v);
    } else {
        cmd.what = C_SET;
        cmd.key = k;
        cmd.val = v;
        run_unit(u, 1);
    }
}

static int enabled(int op)
{
    int named = F->named;
    switch (op) {
        case OP_OWN0: return key_live[act[0]] && runnable(F);
        case OP_OWN1: return key_live[act[1]] && runnable(F);
        case OP_OTH0: case OP_NUL0: return key_live[act[0]];
        case OP_OTH1: case OP_NUL1: return key_live[act[1]];
        case OP_TERMREV: return F != P;
        case OP_FREE: return F != P && named;
        case OP_KTOG0: return key_live[act[0]] || nkeys < C16_MAXK;
        case OP_KTOG1: return key_live[act[1]] || nkeys < C16_MAXK;
        default: return key_live[act[0]] || key_live[act[1]];
    }
}

static void apply(int op)
{
    int i = (op == OP_OWN1 || op == OP_OTH1 || op == OP_NUL1 || op == OP_KTOG1);
    int k = act[i];
    switch (op) {
        case OP_OWN0: case OP_OWN1:
            own_set(F, k, c16_token(F->idx, k));
            break;
        case OP_OTH0: case OP_OTH1:
            other_set(F, k, c16_token(F->idx, k));
            break;
        case OP_NUL0: case OP_NUL1:
            if (F->lastby[k] != 'o' && runnable(F))
                own_set(F, k, NULL);
            else
                other_set(F, k, NULL);
            break;
        case OP_TERMREV:
            if (F->state == ST_TERM) {
                if (F->kind == U_TASK)
                    OK(ABT_task_revive(F->pool, unit_body, F, &F->h));
                else
                    OK(ABT_thread_revive(F->pool, unit_body, F, &F->h));
                F->finished = 0;
                F->state = ST_READY;
            } else {
                finish_unit(F, 1);
            }
            break;
        case OP_FREE: free_unit(F, 1); break;
        case OP_KTOG0: case OP_KTOG1:
            if (key_live[k]) {
                OK(ABT_key_free(&key_h[k]));
                abtmc_check(key_h[k] == ABT_KEY_NULL, "free_handle",
                            "key handle not reset by ABT_key_free");
                key_live[k] = 0;
            } else {
                act[i] = new_key(next_dtor);
                next_dtor = !next_dtor;
            }
            break;
        default: {
            int ks = key_live[act[0]] ? act[0] : act[1];
            cmd.what = C_SET;
            cmd.key = ks;
            cmd.val = c16_token(S->idx, ks);
            run_unit(S, 1);
            break;
        }
    }
}

static void scenario(int cfg)
{
    C = &cfgs[cfg];
    abtmc_std_env();
    if (C->tsize) {
        char b[16];
        snprintf(b, sizeof(b), "%d", C->tsize);
        setenv("ABT_KEY_TABLE_SIZE", b, 1);
    } else {
        unsetenv("ABT_KEY_TABLE_SIZE");
    }
    OK(ABT_init(0, NULL));
    int N = 1;
    while (N < (C->tsize ? C->tsize : 4))
        N *= 2;

    abtmc_window_begin();
    cur = P;
    for (int i = 0; i < 3; i++)
        U[i].idx = i;
    P->nm = "P(primary)";
    P->kind = U_PRIMARY;
    P->named = 1;
    P->state = ST_RUNNING;
    OK(ABT_self_get_thread(&P->h));
    S->nm = "S(second ULT)";
    S->kind = U_ULT;
    OK(ABT_pool_create_basic(ABT_POOL_FIFO, ABT_POOL_ACCESS_MPMC, ABT_FALSE,
                             &S->pool));
    create_unit(S);
    if (C->ukind == U_PRIMARY) {
        F = P;
    } else {
        F = &U[1];
        F->nm = "F(focus)";
        F->kind = C->ukind;
        OK(ABT_pool_create_basic(ABT_POOL_FIFO, ABT_POOL_ACCESS_MPMC,
                                 ABT_FALSE, &F->pool));
        create_unit(F);
    }

    /* keys: a0, N+1 ballast keys (every other one with a destructor), a1 */
    act[0] = new_key(1);
    int b0 = nkeys;
    for (int i = 0; i < N + 1; i++)
        new_key(i % 2 == 0);
    act[1] = new_key(0);
    next_dtor = 1;
    sweep(); /* all NULL */
    if (C->ballast) {
        for (int i = 0; i < N + 1; i++) {
            int k = b0 + i;
            owner_set(P, k, c16_token(P->idx, k));
            if (F != P)
                other_set(F, k, c16_token(F->idx, k));
            OK(ABT_thread_set_specific(S->h, key_h[k], S->val[k] = c16_token(S->idx, k)));
        }
        sweep();
    }

    int nops = 0;
    for (int d = 0; d < C->depth; d++) {
        int en[NOPS], n = 0;
        for (int op = 0; op < NOPS; op++)
            if ((C->ops & M(op)) && enabled(op))
                en[n++] = op;
        if (n == 0)
            break;
        int op = en[n == 1 ? 0 : abtmc_choose(n, ABTMC_B_FREE)];
        abtmc_tracef("step %d: %s (F state %d, a0=#%d%s a1=#%d%s)", d,
                     op_names[op], F->state, act[0],
                     key_live[act[0]] ? "" : "(freed)", act[1],
                     key_live[act[1]] ? "" : "(freed)");
        apply(op);
        sweep();
        nops++;
    }

    int f_values = 0; /* non-NULL values F holds at the end of the history */
    for (int k = 0; k < nkeys; k++)
        if (F->val[k])
            f_values++;

    /* tear-down: units and keys in either order */
    if (C->keys_first) {
        for (int k = 0; k < nkeys; k++)
            if (key_live[k]) {
                OK(ABT_key_free(&key_h[k]));
                key_live[k] = 0;
            }
    }
    if (F != P) {
        free_unit(F, 0);
        OK(ABT_pool_free(&F->pool));
    }
    sweep();
    free_unit(S, 0);
    OK(ABT_pool_free(&S->pool));
    sweep();
    for (int k = 0; k < nkeys; k++)
        if (key_live[k]) {
            OK(ABT_key_free(&key_h[k]));
            key_live[k] = 0;
        }
    abtmc_window_end();

    int mark = c16_ndlog;
    OK(ABT_finalize());
    c16_expect_dtors(P->nm, mark, nkeys, key_dtor, P->val);
    n_frees++;
    abtmc_check(abtmc_ledger_live() == 0, "ledger_leak",
                "%ld allocations (%ld bytes) of libabt still live after "
                "ABT_finalize",
                abtmc_ledger_live(), abtmc_ledger_live_bytes());
    abtmc_stat("ops", nops);
    abtmc_stat("sets", n_sets);
    abtmc_stat("gets", n_gets);
    abtmc_stat("unit_frees", n_frees);
    abtmc_stat("destructor_calls", c16_ndlog);
    abtmc_observe("unit_frees=%ld final_values_on_F=%d", n_frees, f_values);
}

static const char *cfg_name(int i) { return cfgs[i].name; }
static int cfg_quick(int i) { return cfgs[i].quick; }

int main(int argc, char **argv)
{
    static abtmc_driver d = { "c16_keys_seq", "C16", ARRAY_LEN(cfgs), cfg_name,
                              scenario, cfg_quick };
    return abtmc_main(argc, argv, &d);
}
