/* c07_pool.c -- C07: built-in pools are linearizable queues.
 * The pool API is driven directly on a pool that no scheduler serves, by 1-3
 * external threads (and the primary ULT for private pools).  Every call/return
 * is stamped; the recorded history is checked by brute force against the
 * sequential specification (FIFO queue; RANDWS: deque whose ends are selected
 * by the context flags).
 * Calls covered: ABT_pool_push_thread[_ex], push_threads[_ex], pop_thread[_ex],
 * pop_threads[_ex], pop_wait_thread[_ex], the ABT_unit based ABT_pool_push,
 * ABT_pool_pop, ABT_pool_pop_wait, ABT_pool_pop_timedwait, ABT_pool_remove,
 * ABT_pool_get_size, ABT_pool_is_empty. */
#include "common.h"

enum { O_END = 0, O_PUSH, O_PUSH_HEADCTX, O_PUSH2, O_POP, O_POP_TAILCTX, O_POP2,
       O_POPWAIT, O_POPTIMED, O_REMOVE, O_SIZE,
       /* legacy ABT_unit based calls (context is always OP_POOL_OTHER) */
       O_PUSHU, O_POPU, O_POPWAITU,
       /* *_ex calls with an explicit context CTX[x] */
       O_PUSHX, O_PUSH2X, O_POPX, O_POP2X, O_POPWAITX, O_NOPS };

typedef struct {
    int op, a, b; /* a,b: unit indices */
    int x;        /* index into CTX[] for the *X operations */
} opspec;

/* Pool contexts handed to the *_ex calls.  RANDWS looks at exactly two groups
 * of bits (src/pool/randws.c): a push goes to the head iff one of the four
 * create/revive operation bits is set (POOL_CONTEXT_PUSH_HEAD), single and
 * many alike; a pop / pop_many / pop_wait takes from the tail iff
 * OWNER_SECONDARY is set (POOL_CONTEXT_POP_TAIL).  Everything else -- priority
 * bits, OWNER_PRIMARY, the other operation bits, OWNER_SECONDARY on a push, a
 * create bit on a pop -- must not change the end.  FIFO and FIFO_WAIT ignore
 * the context altogether.  The reference model below restates this rule from
 * the public flag names, not from the implementation's masks. */
enum { X_OTHER = 0, X_CREATE, X_CREATE_TO, X_REVIVE, X_REVIVE_TO, X_SEC,
       X_PRIM_YIELD, X_SEC_CREATE, X_RESUME_HI, X_SEC_YLOOP_LO, X_NCTX };
static const ABT_pool_context CTX[X_NCTX] = {
    ABT_POOL_CONTEXT_OP_POOL_OTHER,
    ABT_POOL_CONTEXT_OP_THREAD_CREATE,
    ABT_POOL_CONTEXT_OP_THREAD_CREATE_TO,
    ABT_POOL_CONTEXT_OP_THREAD_REVIVE,
    ABT_POOL_CONTEXT_OP_THREAD_REVIVE_TO,
    ABT_POOL_CONTEXT_OWNER_SECONDARY,
    ABT_POOL_CONTEXT_OWNER_PRIMARY | ABT_POOL_CONTEXT_OP_THREAD_YIELD,
    /* both groups at once: head for a push, tail for a pop */
    ABT_POOL_CONTEXT_OWNER_SECONDARY | ABT_POOL_CONTEXT_OP_THREAD_CREATE,
    ABT_POOL_CONTEXT_OP_THREAD_RESUME | ABT_POOL_CONTEXT_PRIO_HIGH_PRIO,
    ABT_POOL_CONTEXT_OWNER_SECONDARY | ABT_POOL_CONTEXT_OP_THREAD_YIELD_LOOP |
        ABT_POOL_CONTEXT_PRIO_LOW_PRIO,
};
static const char *const CTXN[X_NCTX] = { "other", "create", "create_to",
                                          "revive", "revive_to", "sec",
                                          "prim+yield", "sec+create",
                                          "resume+hi", "sec+yloop+lo" };

#define MAXACT 3
#define MAXOPS 3
typedef struct {
    const char *name;
    int quick;
    ABT_pool_kind kind;
    ABT_pool_access access;
    int ninit;            /* units 0..ninit-1 pushed before the window */
    int nact;
    opspec s[MAXACT][MAXOPS];
    int seq_depth;        /* >0: private pool, sequential enumeration */
    int seq_alpha;        /* alphabet of the enumeration: A_BASIC / A_EX / A_UNIT */
} cfg_t;
enum { A_BASIC = 0, A_EX, A_UNIT };

#define NUNITS 4
#define WAIT_SECS 0.05

/* --- config table --------------------------------------------------------*/
#define P(u) { O_PUSH, u, 0 }
#define PH(u) { O_PUSH_HEADCTX, u, 0 }
#define P2(u, v) { O_PUSH2, u, v }
#define POP { O_POP, 0, 0 }
#define POPT { O_POP_TAILCTX, 0, 0 }
#define POP2 { O_POP2, 0, 0 }
#define PW { O_POPWAIT, 0, 0 }
#define PT { O_POPTIMED, 0, 0 }
#define RM(u) { O_REMOVE, u, 0 }
#define SZ { O_SIZE, 0, 0 }
#define E { O_END, 0, 0 }
/* legacy unit API and *_ex calls (x = context index) */
#define PU(u) { O_PUSHU, u, 0, 0 }
#define POPU { O_POPU, 0, 0, 0 }
#define PWU { O_POPWAITU, 0, 0, 0 }
#define PX(u, x) { O_PUSHX, u, 0, x }
#define P2X(u, v, x) { O_PUSH2X, u, v, x }
#define POPX(x) { O_POPX, 0, 0, x }
#define POP2X(x) { O_POP2X, 0, 0, x }
#define PWX(x) { O_POPWAITX, 0, 0, x }

#define MIXES(K, KN, Q)                                                              \
    { KN " MPMC 2P+1C push|push|pop,pop", Q, K, ABT_POOL_ACCESS_MPMC, 0, 3,          \
      { { P(0), E }, { P(1), E }, { POP, POP, E } }, 0 },                             \
    { KN " SPMC 1P+2C push,push|pop|pop", Q, K, ABT_POOL_ACCESS_SPMC, 0, 3,          \
      { { P(0), P(1), E }, { POP, E }, { POP, E } }, 0 },                             \
    { KN " MPSC 2P+1C push2|push|pop2", Q, K, ABT_POOL_ACCESS_MPSC, 0, 3,            \
      { { P2(0, 1), E }, { P(2), E }, { POP2, POP, E } }, 0 },                        \
    { KN " MPMC init1 push|pop|popwait", Q, K, ABT_POOL_ACCESS_MPMC, 1, 3,           \
      { { P(1), E }, { POP, E }, { PW, E } }, 0 },                                    \
    { KN " SPSC push|poptimed,pop", 0, K, ABT_POOL_ACCESS_SPSC, 0, 2,                \
      { { P(0), P(1), E }, { PT, POP, E } }, 0 },                                     \
    { KN " SPSC init1 push,push2|pop,pop2,pop", Q, K, ABT_POOL_ACCESS_SPSC, 1, 2,    \
      { { P(1), P2(2, 3), E }, { POP, POP2, POP } }, 0 },                             \
    { KN " MPMC init2 remove(last)|pop|push", 0, K, ABT_POOL_ACCESS_MPMC, 2, 3,      \
      { { RM(1), E }, { POP, E }, { P(2), E } }, 0 },                                 \
    { KN " MPMC init1 pop2|pop|push2,size", 0, K, ABT_POOL_ACCESS_MPMC, 1, 3,        \
      { { POP2, E }, { POP, E }, { P2(1, 2), SZ, E } }, 0 },                          \
    { KN " SPMC popwait|popwait|push (one stays empty)", 0, K, ABT_POOL_ACCESS_SPMC, \
      0, 3, { { PW, E }, { PW, E }, { P(0), E } }, 0 },                               \
    { KN " MPMC init2 remove(head)|pop|pop (same unit contended)", Q, K,          \
      ABT_POOL_ACCESS_MPMC, 2, 3, { { RM(0), E }, { POP, E }, { POP, E } }, 0 },     \
    { KN " MPMC init3 remove(mid)|remove(mid)|pop2", 0, K, ABT_POOL_ACCESS_MPMC,  \
      3, 3, { { RM(1), E }, { RM(1), E }, { POP2, E } }, 0 },                         \
    { KN " PRIV sequential depth5", Q, K, ABT_POOL_ACCESS_PRIV, 0, 0, { { E } }, 5 }

/* mixes of the unit API and the *_ex calls, per kind (QA..QD: quick flags) */
#define XMIXES(K, KN, QA, QB, QC, QD)                                                \
    { KN " MPMC unit-API pushU|pushU|popU,popU", QA, K, ABT_POOL_ACCESS_MPMC, 0, 3,  \
      { { PU(0), E }, { PU(1), E }, { POPU, POPU, E } }, 0 },                         \
    { KN " MPMC init1 unit-API pushU|popU|popwaitU", QB, K, ABT_POOL_ACCESS_MPMC, 1, \
      3, { { PU(1), E }, { POPU, E }, { PWU, E } }, 0 },                              \
    { KN " MPMC init1 push2X(create)|pop2X(sec)|pop", QC, K, ABT_POOL_ACCESS_MPMC,   \
      1, 3, { { P2X(1, 2, X_CREATE), E }, { POP2X(X_SEC), E }, { POP, E } }, 0 },     \
    { KN " MPSC init1 push2X(sec+create)|pushX(revive)|pop2X(sec+create),popX(prim+yield)", \
      QD, K, ABT_POOL_ACCESS_MPSC, 1, 3,                                              \
      { { P2X(1, 2, X_SEC_CREATE), E }, { PX(3, X_REVIVE), E },                       \
        { POP2X(X_SEC_CREATE), POPX(X_PRIM_YIELD), E } }, 0 },                        \
    { KN " SPSC popwaitX(sec),popX(sec)|push2X(create),pushU", 0, K,                 \
      ABT_POOL_ACCESS_SPSC, 0, 2,                                                     \
      { { PWX(X_SEC), POPX(X_SEC), E }, { P2X(0, 1, X_CREATE), PU(2), E } }, 0 }

static const cfg_t cfgs[] = {
    MIXES(ABT_POOL_FIFO, "FIFO", 1),
    MIXES(ABT_POOL_FIFO_WAIT, "FIFO_WAIT", 1),
    MIXES(ABT_POOL_RANDWS, "RANDWS", 0),
    { "RANDWS MPMC pushhead|push|poptail,pop", 1, ABT_POOL_RANDWS,
      ABT_POOL_ACCESS_MPMC, 1, 3,
      { { PH(1), E }, { P(2), E }, { POPT, POP, E } }, 0 },
    { "RANDWS MPMC init2 poptail|pop|pushhead", 1, ABT_POOL_RANDWS,
      ABT_POOL_ACCESS_MPMC, 2, 3,
      { { POPT, E }, { POP, E }, { PH(2), E } }, 0 },
    { "RANDWS SPMC pushhead,push|poptail|pop2", 0, ABT_POOL_RANDWS,
      ABT_POOL_ACCESS_SPMC, 0, 3,
      { { PH(0), P(1), E }, { POPT, E }, { POP2, E } }, 0 },
    /* ---- appended: operations the first table never called (indices above
     * are unchanged).  ABT_pool_push/pop/pop_wait (ABT_unit based),
     * ABT_pool_push_threads_ex / pop_threads_ex / pop_wait_thread_ex ---- */
    XMIXES(ABT_POOL_FIFO, "FIFO", 1, 0, 1, 0),
    XMIXES(ABT_POOL_FIFO_WAIT, "FIFO_WAIT", 0, 1, 0, 0),
    XMIXES(ABT_POOL_RANDWS, "RANDWS", 0, 0, 0, 1),
    /* FIFO_WAIT push_many broadcasts when it adds more than one unit: two
     * sleeping waiters, both must get a unit or justify an empty hand */
    { "FIFO_WAIT SPMC popwaitU|popwaitX(sec)|push2X(create) (broadcast)", 1,
      ABT_POOL_FIFO_WAIT, ABT_POOL_ACCESS_SPMC, 0, 3,
      { { PWU, E }, { PWX(X_SEC), E }, { P2X(0, 1, X_CREATE), E } }, 0 },
    { "FIFO_WAIT SPMC popwaitX(other)|popwaitU|push2X(sec),pushU", 0,
      ABT_POOL_FIFO_WAIT, ABT_POOL_ACCESS_SPMC, 0, 3,
      { { PWX(X_OTHER), E }, { PWU, E }, { P2X(0, 1, X_SEC), PU(2), E } }, 0 },
    /* RANDWS: the flag picks the end, for the many- and wait- variants too */
    { "RANDWS MPMC init2 pop2X(sec)|pop2X(create)|push2X(revive_to)", 1,
      ABT_POOL_RANDWS, ABT_POOL_ACCESS_MPMC, 2, 3,
      { { POP2X(X_SEC), E }, { POP2X(X_CREATE), E }, { P2X(2, 3, X_REVIVE_TO), E } },
      0 },
    { "RANDWS MPMC init1 popwaitX(sec)|push2X(create_to)|popX(other)", 1,
      ABT_POOL_RANDWS, ABT_POOL_ACCESS_MPMC, 1, 3,
      { { PWX(X_SEC), E }, { P2X(1, 2, X_CREATE_TO), E }, { POPX(X_OTHER), E } }, 0 },
    { "RANDWS SPSC popwaitX(sec),popwaitU|push2X(revive),pushX(sec)", 0,
      ABT_POOL_RANDWS, ABT_POOL_ACCESS_SPSC, 0, 2,
      { { PWX(X_SEC), PWU, E }, { P2X(0, 1, X_REVIVE), PX(2, X_SEC), E } }, 0 },
    { "RANDWS MPMC init2 pop2X(sec+yloop+lo)|popwaitX(sec+create)|push2X(sec)", 0,
      ABT_POOL_RANDWS, ABT_POOL_ACCESS_MPMC, 2, 3,
      { { POP2X(X_SEC_YLOOP_LO), E }, { PWX(X_SEC_CREATE), E },
        { P2X(2, 3, X_SEC), E } }, 0 },
    /* private pools, sequential: every sequence over the *_ex alphabet (10
     * operations; the context of each step rotates through the head / non-head
     * / tail / non-tail flag lists) and over the unit-API alphabet (7) */
    { "RANDWS PRIV sequential ex-alphabet depth4", 1, ABT_POOL_RANDWS,
      ABT_POOL_ACCESS_PRIV, 0, 0, { { E } }, 4, A_EX },
    { "FIFO_WAIT PRIV sequential unit-API alphabet depth4", 1, ABT_POOL_FIFO_WAIT,
      ABT_POOL_ACCESS_PRIV, 0, 0, { { E } }, 4, A_UNIT },
    { "RANDWS PRIV sequential ex-alphabet depth5", 0, ABT_POOL_RANDWS,
      ABT_POOL_ACCESS_PRIV, 0, 0, { { E } }, 5, A_EX },
    { "FIFO PRIV sequential ex-alphabet depth4", 0, ABT_POOL_FIFO,
      ABT_POOL_ACCESS_PRIV, 0, 0, { { E } }, 4, A_EX },
    { "FIFO_WAIT PRIV sequential ex-alphabet depth4", 0, ABT_POOL_FIFO_WAIT,
      ABT_POOL_ACCESS_PRIV, 0, 0, { { E } }, 4, A_EX },
    { "FIFO PRIV sequential unit-API alphabet depth5", 0, ABT_POOL_FIFO,
      ABT_POOL_ACCESS_PRIV, 0, 0, { { E } }, 5, A_UNIT },
    { "FIFO_WAIT PRIV sequential unit-API alphabet depth5", 0, ABT_POOL_FIFO_WAIT,
      ABT_POOL_ACCESS_PRIV, 0, 0, { { E } }, 5, A_UNIT },
    { "RANDWS PRIV sequential unit-API alphabet depth5", 0, ABT_POOL_RANDWS,
      ABT_POOL_ACCESS_PRIV, 0, 0, { { E } }, 5, A_UNIT },
};

/* --- history -------------------------------------------------------------*/
typedef struct {
    int op, a, b, x;
    long call, ret;
    int r1, r2, n; /* results: unit indices (-1 none); n = count / size / rc */
    int actor;
} hrec;
#define MAXH 24
static hrec H[MAXH];
static int nH; /* appended under abtmc_step ordering (single running thread) */

static const cfg_t *C;
static ABT_pool Q;
static ABT_thread U[NUNITS];
static int ran[NUNITS];
static double t_deadline;

static int unit_index(ABT_thread t)
{
    if (t == ABT_THREAD_NULL)
        return -1;
    for (int i = 0; i < NUNITS; i++)
        if (U[i] == t)
            return i;
    abtmc_check_fail("alien_unit", "pool returned a handle that was never pushed");
    return -2;
}

/* ABT_unit returned by the legacy calls -> unit index (-1: ABT_UNIT_NULL) */
static int unit_to_index(ABT_unit u)
{
    if (u == ABT_UNIT_NULL)
        return -1;
    ABT_thread t = ABT_THREAD_NULL;
    OK(ABT_unit_get_thread(u, &t));
    abtmc_check(t != ABT_THREAD_NULL, "alien_unit",
                "ABT_unit_get_thread of a popped unit gave ABT_THREAD_NULL");
    return unit_index(t);
}

static void unit_fn(void *arg) { ran[(int)(intptr_t)arg]++; }

static void do_op(int actor, const opspec *o)
{
    hrec r;
    memset(&r, 0, sizeof(r));
    r.op = o->op;
    r.a = o->a;
    r.b = o->b;
    r.x = o->x;
    r.actor = actor;
    r.r1 = r.r2 = -1;
    r.call = abtmc_step();
    switch (o->op) {
        case O_PUSH:
            OK(ABT_pool_push_thread(Q, U[o->a]));
            break;
        case O_PUSH_HEADCTX:
            OK(ABT_pool_push_thread_ex(Q, U[o->a],
                                       ABT_POOL_CONTEXT_OP_THREAD_CREATE));
            break;
        case O_PUSH2: {
            ABT_thread two[2] = { U[o->a], U[o->b] };
            OK(ABT_pool_push_threads(Q, two, 2));
            break;
        }
        case O_POP: {
            ABT_thread t;
            OK(ABT_pool_pop_thread(Q, &t));
            r.r1 = unit_index(t);
            break;
        }
        case O_POP_TAILCTX: {
            ABT_thread t;
            OK(ABT_pool_pop_thread_ex(Q, &t, ABT_POOL_CONTEXT_OWNER_SECONDARY));
            r.r1 = unit_index(t);
            break;
        }
        case O_POP2: {
            ABT_thread t[2] = { ABT_THREAD_NULL, ABT_THREAD_NULL };
            size_t n = 99;
            OK(ABT_pool_pop_threads(Q, t, 2, &n));
            abtmc_check(n <= 2, "pop_many_count", "pop_threads returned %zu", n);
            r.n = (int)n;
            r.r1 = n > 0 ? unit_index(t[0]) : -1;
            r.r2 = n > 1 ? unit_index(t[1]) : -1;
            break;
        }
        case O_POPWAIT: {
            ABT_thread t;
            OK(ABT_pool_pop_wait_thread(Q, &t, WAIT_SECS));
            r.r1 = unit_index(t);
            break;
        }
        case O_POPTIMED: {
            ABT_unit u;
            OK(ABT_pool_pop_timedwait(Q, &u, t_deadline));
            ABT_thread t = ABT_THREAD_NULL;
            if (u != ABT_UNIT_NULL)
                OK(ABT_unit_get_thread(u, &t));
            r.r1 = unit_index(t);
            break;
        }
        case O_REMOVE: {
            ABT_unit u;
            OK(ABT_thread_get_unit(U[o->a], &u));
            r.n = ABT_pool_remove(Q, u);
            break;
        }
        case O_SIZE: {
            size_t n;
            OK(ABT_pool_get_size(Q, &n));
            r.n = (int)n; /* racy by design: only checked when quiescent */
            break;
        }
        case O_PUSHU: {
            ABT_unit u;
            OK(ABT_thread_get_unit(U[o->a], &u));
            OK(ABT_pool_push(Q, u));
            break;
        }
        case O_POPU: {
            ABT_unit u = (ABT_unit)&r; /* must be overwritten */
            OK(ABT_pool_pop(Q, &u));
            r.r1 = unit_to_index(u);
            break;
        }
        case O_POPWAITU: {
            ABT_unit u = (ABT_unit)&r;
            OK(ABT_pool_pop_wait(Q, &u, WAIT_SECS));
            r.r1 = unit_to_index(u);
            break;
        }
        case O_PUSHX:
            OK(ABT_pool_push_thread_ex(Q, U[o->a], CTX[o->x]));
            break;
        case O_PUSH2X: {
            ABT_thread two[2] = { U[o->a], U[o->b] };
            OK(ABT_pool_push_threads_ex(Q, two, 2, CTX[o->x]));
            break;
        }
        case O_POPX: {
            ABT_thread t;
            OK(ABT_pool_pop_thread_ex(Q, &t, CTX[o->x]));
            r.r1 = unit_index(t);
            break;
        }
        case O_POP2X: {
            ABT_thread t[2] = { ABT_THREAD_NULL, ABT_THREAD_NULL };
            size_t n = 99;
            OK(ABT_pool_pop_threads_ex(Q, t, 2, &n, CTX[o->x]));
            abtmc_check(n <= 2, "pop_many_count", "pop_threads_ex returned %zu", n);
            r.n = (int)n;
            r.r1 = n > 0 ? unit_index(t[0]) : -1;
            r.r2 = n > 1 ? unit_index(t[1]) : -1;
            break;
        }
        case O_POPWAITX: {
            ABT_thread t;
            OK(ABT_pool_pop_wait_thread_ex(Q, &t, WAIT_SECS, CTX[o->x]));
            r.r1 = unit_index(t);
            break;
        }
    }
    r.ret = abtmc_step();
    abtmc_check(nH < MAXH, "harness", "history overflow");
    H[nH++] = r;
}

/* --- sequential specification + linearizability search --------------------*/
typedef struct {
    int q[NUNITS + 2], n;
} dq;

static int is_randws;

/* the end rule, from the public flag names (see the comment at CTX[]) */
static int ctx_push_head(int x)
{
    return is_randws &&
           (CTX[x] & (ABT_POOL_CONTEXT_OP_THREAD_CREATE |
                      ABT_POOL_CONTEXT_OP_THREAD_CREATE_TO |
                      ABT_POOL_CONTEXT_OP_THREAD_REVIVE |
                      ABT_POOL_CONTEXT_OP_THREAD_REVIVE_TO)) != 0;
}
static int ctx_pop_tail(int x)
{
    return is_randws && (CTX[x] & ABT_POOL_CONTEXT_OWNER_SECONDARY) != 0;
}
static void m_push(dq *d, int u, int head)
{
    if (head) {
        memmove(&d->q[1], &d->q[0], sizeof(int) * d->n);
        d->q[0] = u;
    } else {
        d->q[d->n] = u;
    }
    d->n++;
}
static int m_pop(dq *d, int tail)
{
    if (d->n == 0)
        return -1;
    int u;
    if (tail) {
        u = d->q[d->n - 1];
    } else {
        u = d->q[0];
        memmove(&d->q[0], &d->q[1], sizeof(int) * (d->n - 1));
    }
    d->n--;
    return u;
}

static int apply(dq *d, const hrec *r)
{
    switch (r->op) {
        case O_PUSHU: /* ABT_pool_push: context OP_POOL_OTHER */
            m_push(d, r->a, 0);
            return 1;
        case O_PUSHX:
            m_push(d, r->a, ctx_push_head(r->x));
            return 1;
        case O_PUSH2X:
            /* one atomic step; the units enter one after the other at the
             * selected end (so a head push leaves them in reverse order) */
            m_push(d, r->a, ctx_push_head(r->x));
            m_push(d, r->b, ctx_push_head(r->x));
            return 1;
        case O_POPU:
        case O_POPWAITU:
            return r->r1 == m_pop(d, 0);
        case O_POPX:
        case O_POPWAITX:
            return r->r1 == m_pop(d, ctx_pop_tail(r->x));
        case O_POP2X: {
            int k = d->n < 2 ? d->n : 2;
            if (r->n != k)
                return 0;
            if (k > 0 && r->r1 != m_pop(d, ctx_pop_tail(r->x)))
                return 0;
            if (k > 1 && r->r2 != m_pop(d, ctx_pop_tail(r->x)))
                return 0;
            return 1;
        }
        case O_PUSH_HEADCTX:
            if (is_randws) {
                memmove(&d->q[1], &d->q[0], sizeof(int) * d->n);
                d->q[0] = r->a;
                d->n++;
                return 1;
            }
            /* fall through: FIFO ignores the context */
        case O_PUSH:
            d->q[d->n++] = r->a;
            return 1;
        case O_PUSH2:
            d->q[d->n++] = r->a;
            d->q[d->n++] = r->b;
            return 1;
        case O_POP_TAILCTX:
            if (is_randws) {
                if (d->n == 0)
                    return r->r1 == -1;
                if (r->r1 != d->q[d->n - 1])
                    return 0;
                d->n--;
                return 1;
            }
            /* fall through */
        case O_POP:
        case O_POPWAIT:
        case O_POPTIMED:
            if (d->n == 0)
                return r->r1 == -1;
            if (r->r1 != d->q[0])
                return 0;
            memmove(&d->q[0], &d->q[1], sizeof(int) * (d->n - 1));
            d->n--;
            return 1;
        case O_POP2: {
            int k = d->n < 2 ? d->n : 2;
            if (r->n != k)
                return 0;
            if (k > 0 && r->r1 != d->q[0])
                return 0;
            if (k > 1 && r->r2 != d->q[1])
                return 0;
            memmove(&d->q[0], &d->q[k], sizeof(int) * (d->n - k));
            d->n -= k;
            return 1;
        }
        case O_REMOVE: {
            int pos = -1;
            for (int i = 0; i < d->n; i++)
                if (d->q[i] == r->a)
                    pos = i;
            if (pos < 0)
                return r->n != ABT_SUCCESS; /* somebody else took it first */
            if (r->n != ABT_SUCCESS)
                return 0;
            memmove(&d->q[pos], &d->q[pos + 1], sizeof(int) * (d->n - pos - 1));
            d->n--;
            return 1;
        }
        case O_SIZE:
            return 1; /* a concurrent size query is only advisory */
    }
    return 0;
}

static int lin_search(unsigned done, dq d)
{
    if (done == (1u << nH) - 1)
        return 1;
    for (int i = 0; i < nH; i++) {
        if (done & (1u << i))
            continue;
        /* i may go next only if no other pending op returned before i was called */
        int ok = 1;
        for (int j = 0; j < nH; j++)
            if (j != i && !(done & (1u << j)) && H[j].ret < H[i].call)
                ok = 0;
        if (!ok)
            continue;
        dq d2 = d;
        if (apply(&d2, &H[i]) && lin_search(done | (1u << i), d2))
            return 1;
    }
    return 0;
}

static void describe_history(char *buf, size_t n)
{
    static const char *on[O_NOPS] = { "end", "push", "pushH", "push2", "pop",
                                      "popT", "pop2", "popwait", "poptimed",
                                      "remove", "size", "pushU", "popU",
                                      "popwaitU", "pushX", "push2X", "popX",
                                      "pop2X", "popwaitX" };
    size_t o = 0;
    for (int i = 0; i < nH && o < n; i++) {
        o += snprintf(buf + o, n - o, "[a%d %s", H[i].actor, on[H[i].op]);
        if (H[i].op >= O_PUSHX && o < n)
            o += snprintf(buf + o, n - o, "<%s>", CTXN[H[i].x]);
        if (o < n)
            o += snprintf(buf + o, n - o, "(%d,%d)->%d,%d,n=%d @%ld-%ld] ",
                          H[i].a, H[i].b, H[i].r1, H[i].r2, H[i].n, H[i].call,
                          H[i].ret);
    }
}

static int is_push1(int op)
{
    return op == O_PUSH || op == O_PUSH_HEADCTX || op == O_PUSHU || op == O_PUSHX;
}
static int is_push2(int op) { return op == O_PUSH2 || op == O_PUSH2X; }
static int is_pop2(int op) { return op == O_POP2 || op == O_POP2X; }
static int is_pop(int op)
{
    return (op >= O_POP && op <= O_POPTIMED) || op == O_POPU ||
           op == O_POPWAITU || op == O_POPX || op == O_POP2X || op == O_POPWAITX;
}

/* sequential enumeration: the c-th operation of alphabet alpha, given which
 * units are outside (freeu) / inside (inu) the pool; O_END = not applicable.
 * For the *_ex alphabet the context rotates (rot) through the list of flags
 * that must select the head / must not / the tail / must not. */
static const int SEQ_NOPS[3] = { 7, 10, 7 };
static opspec seq_pick(int alpha, int c, int rot, const int *freeu, int nf,
                       const int *inu, int ni)
{
    static const int HL[5] = { X_CREATE, X_CREATE_TO, X_REVIVE, X_REVIVE_TO,
                               X_SEC_CREATE };
    static const int NHL[5] = { X_OTHER, X_SEC, X_PRIM_YIELD, X_RESUME_HI,
                                X_SEC_YLOOP_LO };
    static const int TL[3] = { X_SEC, X_SEC_CREATE, X_SEC_YLOOP_LO };
    static const int NTL[5] = { X_OTHER, X_CREATE, X_PRIM_YIELD, X_REVIVE_TO,
                                X_RESUME_HI };
    opspec o = { O_END, 0, 0, 0 };
    if (alpha == A_BASIC) {
        switch (c) {
            case 0: if (nf >= 1) { o.op = O_PUSH; o.a = freeu[0]; } break;
            case 1: if (nf >= 1) { o.op = O_PUSH_HEADCTX; o.a = freeu[nf - 1]; } break;
            case 2: if (nf >= 2) { o.op = O_PUSH2; o.a = freeu[0]; o.b = freeu[1]; } break;
            case 3: o.op = O_POP; break;
            case 4: o.op = O_POP_TAILCTX; break;
            case 5: o.op = O_POP2; break;
            case 6: if (ni >= 1) { o.op = O_REMOVE; o.a = inu[ni / 2]; } break;
        }
    } else if (alpha == A_EX) {
        switch (c) {
            case 0: if (nf >= 1) { o.op = O_PUSHX; o.a = freeu[0]; o.x = HL[rot % 5]; } break;
            case 1: if (nf >= 1) { o.op = O_PUSHX; o.a = freeu[nf - 1]; o.x = NHL[rot % 5]; } break;
            case 2: if (nf >= 2) { o.op = O_PUSH2X; o.a = freeu[0]; o.b = freeu[1]; o.x = HL[rot % 5]; } break;
            case 3: if (nf >= 2) { o.op = O_PUSH2X; o.a = freeu[nf - 1]; o.b = freeu[0]; o.x = NHL[rot % 5]; } break;
            case 4: o.op = O_POPX; o.x = TL[rot % 3]; break;
            case 5: o.op = O_POPX; o.x = NTL[rot % 5]; break;
            case 6: o.op = O_POP2X; o.x = TL[rot % 3]; break;
            case 7: o.op = O_POP2X; o.x = NTL[rot % 5]; break;
            case 8: o.op = O_POPWAITX; o.x = TL[rot % 3]; break;
            case 9: o.op = O_POPWAITX; o.x = NTL[rot % 5]; break;
        }
    } else {
        switch (c) {
            case 0: if (nf >= 1) { o.op = O_PUSHU; o.a = freeu[0]; } break;
            case 1: if (nf >= 2) { o.op = O_PUSH2; o.a = freeu[nf - 1]; o.b = freeu[0]; } break;
            case 2: o.op = O_POPU; break;
            case 3: o.op = O_POPWAITU; break;
            case 4: o.op = O_POPTIMED; break;
            case 5: o.op = O_POP2; break;
            case 6: if (ni >= 1) { o.op = O_REMOVE; o.a = inu[ni / 2]; } break;
        }
    }
    return o;
}

static void actor_fn(void *arg)
{
    int a = (int)(intptr_t)arg;
    for (int k = 0; k < MAXOPS && C->s[a][k].op != O_END; k++)
        do_op(a, &C->s[a][k]);
}

static void scenario(int cfg)
{
    C = &cfgs[cfg];
    is_randws = C->kind == ABT_POOL_RANDWS;
    h_init();
    ABT_pool scratch;
    OK(ABT_pool_create_basic(ABT_POOL_FIFO, ABT_POOL_ACCESS_MPMC, ABT_FALSE,
                             &scratch));
    OK(ABT_pool_create_basic(C->kind, C->access, ABT_FALSE, &Q));
    for (int i = 0; i < NUNITS; i++) {
        OK(ABT_thread_create(scratch, unit_fn, (void *)(intptr_t)i,
                             ABT_THREAD_ATTR_NULL, &U[i]));
    }
    for (int i = 0; i < NUNITS; i++) {
        ABT_thread t;
        OK(ABT_pool_pop_thread(scratch, &t));
    }
    t_deadline = abtmc_now() + WAIT_SECS;
    double cand[2] = { abtmc_now() + WAIT_SECS, abtmc_now() + 2 * WAIT_SECS };
    abtmc_clock_candidates(cand, 2);
    opspec init = { O_PUSH, 0, 0, 0 };
    for (int i = 0; i < C->ninit; i++) {
        init.a = i;
        do_op(9, &init);
    }

    abtmc_window_begin();
    if (C->seq_depth > 0) {
        /* private pool: every operation sequence of the given depth, issued by
         * the primary ULT; units are pushed only while outside the pool */
        int in_pool[NUNITS] = { 0 };
        int rot = 0;
        for (int d = 0; d < C->seq_depth; d++) {
            int c = abtmc_choose(SEQ_NOPS[C->seq_alpha], ABTMC_B_FREE);
            int freeu[NUNITS], nf = 0, inu[NUNITS], ni = 0;
            for (int i = 0; i < NUNITS; i++) {
                if (in_pool[i])
                    inu[ni++] = i;
                else
                    freeu[nf++] = i;
            }
            rot += c + 1; /* a different flag of the list at (almost) every step */
            opspec o = seq_pick(C->seq_alpha, c, rot + d, freeu, nf, inu, ni);
            if (o.op == O_END)
                continue;
            do_op(0, &o);
            hrec *r = &H[nH - 1];
            if (is_push1(o.op))
                in_pool[o.a] = 1;
            if (is_push2(o.op))
                in_pool[o.a] = in_pool[o.b] = 1;
            if (r->r1 >= 0)
                in_pool[r->r1] = 0;
            if (r->r2 >= 0)
                in_pool[r->r2] = 0;
            if (o.op == O_REMOVE && r->n == ABT_SUCCESS)
                in_pool[o.a] = 0;
            /* exact size/emptiness after every step (quiescent) */
            size_t sz;
            ABT_bool emp;
            int cnt = 0;
            for (int i = 0; i < NUNITS; i++)
                cnt += in_pool[i];
            OK(ABT_pool_get_size(Q, &sz));
            OK(ABT_pool_is_empty(Q, &emp));
            abtmc_check((int)sz == cnt && (emp == ABT_TRUE) == (cnt == 0),
                        "size_query", "size=%zu empty=%d but %d units inside",
                        sz, (int)emp, cnt);
        }
    } else {
        int tid[MAXACT];
        for (int a = 0; a < C->nact; a++)
            tid[a] = abtmc_thread_create(actor_fn, (void *)(intptr_t)a);
        for (int a = 0; a < C->nact; a++)
            abtmc_thread_join(tid[a]);
    }
    abtmc_window_end();

    /* quiescent: exact size, then drain (part of the checked history) */
    size_t sz;
    ABT_bool emp;
    OK(ABT_pool_get_size(Q, &sz));
    OK(ABT_pool_is_empty(Q, &emp));
    if (C->seq_depth > 0 && C->seq_alpha == A_EX) {
        /* a pop_many with room for no unit pops nothing and says so: "the
         * number of popped work units is set to num" (ABT_pool_pop_threads_ex) */
        ABT_thread none[1] = { ABT_THREAD_NULL };
        size_t n0 = 99, sz0 = 99;
        OK(ABT_pool_pop_threads_ex(Q, none, 0, &n0, CTX[X_SEC]));
        abtmc_check(n0 == 0, "pop_many_len0_count",
                    "ABT_pool_pop_threads_ex(len=0) left num=%zu", n0);
        n0 = 99;
        OK(ABT_pool_pop_threads(Q, none, 0, &n0));
        abtmc_check(n0 == 0, "pop_many_len0_count",
                    "ABT_pool_pop_threads(len=0) left num=%zu", n0);
        OK(ABT_pool_get_size(Q, &sz0));
        abtmc_check(sz0 == sz && none[0] == ABT_THREAD_NULL, "pop_many_count",
                    "pop_threads(len=0) changed the pool: size %zu -> %zu", sz,
                    sz0);
    }
    int drained = 0;
    opspec pop = { O_POP, 0, 0, 0 };
    for (;;) {
        do_op(9, &pop);
        if (H[nH - 1].r1 < 0)
            break;
        drained++;
        abtmc_check(drained <= NUNITS, "duplicate_unit",
                    "drained more units than exist");
    }
    abtmc_check((int)sz == drained && (emp == ABT_TRUE) == (drained == 0),
                "size_query",
                "quiescent size=%zu is_empty=%d but %d units were inside", sz,
                (int)emp, drained);
    /* each pushed unit returned exactly once */
    int pushed[NUNITS] = { 0 }, got[NUNITS] = { 0 };
    for (int i = 0; i < nH; i++) {
        if (is_push1(H[i].op))
            pushed[H[i].a]++;
        if (is_push2(H[i].op)) {
            pushed[H[i].a]++;
            pushed[H[i].b]++;
        }
        if (H[i].r1 >= 0)
            got[H[i].r1]++;
        if (H[i].r2 >= 0)
            got[H[i].r2]++;
        if (H[i].op == O_REMOVE && H[i].n == ABT_SUCCESS)
            got[H[i].a]++;
    }
    for (int i = 0; i < NUNITS; i++)
        abtmc_check(pushed[i] == got[i], "lost_or_duplicated_unit",
                    "unit %d pushed %d times but returned %d times", i,
                    pushed[i], got[i]);
    {
        dq d;
        d.n = 0;
        if (!lin_search(0, d)) {
            char buf[900];
            describe_history(buf, sizeof(buf));
            abtmc_check_fail("not_linearizable",
                             "history has no linearization: %s", buf);
        }
    }
    /* outcome tag: results of the window's pops in actor order */
    {
        char buf[128];
        int o = 0;
        for (int i = 0; i < nH && o < 100; i++)
            if (H[i].actor != 9 && is_pop(H[i].op))
                o += snprintf(buf + o, sizeof(buf) - o, "a%d:%d%s ", H[i].actor,
                              H[i].r1, is_pop2(H[i].op)
                                           ? (H[i].r2 >= 0 ? "+" : "")
                                           : "");
        buf[o] = 0;
        abtmc_observe("%sleft=%d", buf, drained);
    }
    /* tear down: let the units run once and free them */
    ABT_pool p0 = h_main_pool(h_self_xstream());
    for (int i = 0; i < NUNITS; i++)
        OK(ABT_pool_push_thread(p0, U[i]));
    for (int i = 0; i < NUNITS; i++)
        OK(ABT_thread_free(&U[i]));
    for (int i = 0; i < NUNITS; i++)
        abtmc_check(ran[i] == 1, "unit_run_count", "unit %d ran %d times", i,
                    ran[i]);
    OK(ABT_pool_free(&Q));
    OK(ABT_pool_free(&scratch));
    h_finalize();
    abtmc_check(abtmc_ledger_live() == 0, "leak",
                "%ld live allocations after ABT_finalize", abtmc_ledger_live());
}

static const char *cfg_name(int i) { return cfgs[i].name; }
static int cfg_quick(int i) { return cfgs[i].quick; }

int main(int argc, char **argv)
{
    static abtmc_driver d = { "c07_pool", "C07", ARRAY_LEN(cfgs), cfg_name,
                              scenario, cfg_quick };
    return abtmc_main(argc, argv, &d);
}
