/* c15_memcfg.c -- C15d: creations and frees of work units on two execution
 * streams and an external thread, each freeing what another one created (so
 * that stacks and descriptors travel between the local memory pools, the
 * locked "external" pools and malloc), under different memory-pool
 * configurations (bucket sizes 1/2 via ABT_MEM_MAX_NUM_STACKS/DESCS, page
 * allocation modes, mprotect stack guards).
 *
 * Actors: M = primary ULT on ES0, B = a ULT on ES1, X = external thread.
 *   M creates a ULT on ES1's pool and one on its own pool, B frees them;
 *   B creates a ULT on ES0's pool and a tasklet on its own, X frees them;
 *   X creates a ULT on ES1's pool and a tasklet on ES0's pool, M frees them.
 * Oracle: while live, the stack regions (ABT_thread_get_attr) and descriptors
 * of all work units are pairwise disjoint and inside blocks obtained from the
 * allocator; every unit ran exactly once before it was freed and its stack
 * content survived a yield; no bad free / sanitizer report; ledger empty
 * after ABT_finalize. */
#include "abti.h"
#include "common.h"

typedef struct {
    const char *name;
    int quick;
    const char *stacks, *descs, *lp, *guard, *page;
} cfg_t;

static const cfg_t cfgs[] = {
    { "stacks2 descs2 malloc", 1, "2", "2", "malloc", NULL, NULL },
    { "stacks4 descs4 mmap_rp", 1, "4", "4", "mmap_rp", NULL, NULL },
    { "stacks2 descs4 thp", 1, "2", "4", "thp", NULL, NULL },
    { "stacks2 descs2 malloc guard=mprotect", 1, "2", "2", "malloc", "mprotect",
      NULL },
    { "stacks4 descs2 mmap_rp guard=mprotect_strict", 0, "4", "2", "mmap_rp",
      "mprotect_strict", NULL },
    { "stacks2 descs2 mmap_hp_rp (falls back)", 0, "2", "2", "mmap_hp_rp",
      NULL, NULL },
    { "stacks2 descs2 mmap_hp_thp page4096", 0, "2", "2", "mmap_hp_thp", NULL,
      "4096" },
    { "stacks4 descs4 malloc guard=none page4096", 0, "4", "4", "malloc",
      "none", "4096" },
};

enum { A_M, A_B, A_X, NACT };
#define NUNIT 6 /* unit 2*a and 2*a+1 are created by actor a */

typedef struct {
    ABT_thread h;
    int is_task;
    int ran;
    int live;
    uintptr_t stk_lo, stk_hi, d_lo, d_hi;
} unit_t;

static const cfg_t *C;
static unit_t U[NUNIT];
static int ready[NACT]; /* hooked flags: actor a has created its units */
static int x_done;      /* hooked flag: the external thread is finished */
static ABT_pool pool[2];
static char order[32];
static int norder;

static void unit_body(void *arg)
{
    unit_t *u = (unit_t *)arg;
    volatile unsigned char buf[512];
    for (int k = 0; k < 512; k++)
        buf[k] = (unsigned char)(k * 3 + (int)(u - U));
    if (!u->is_task) {
        abtmc_progress();
        OK(ABT_thread_yield());
    }
    int bad = 0;
    for (int k = 0; k < 512; k++)
        if (buf[k] != (unsigned char)(k * 3 + (int)(u - U)))
            bad++;
    abtmc_check(bad == 0, "stack_clobbered",
                "unit %d: %d bytes of its stack changed across a yield",
                (int)(u - U), bad);
    u->ran++;
}

static void in_ledger(uintptr_t lo, uintptr_t hi, int idx, const char *what)
{
    void *base = NULL;
    size_t sz = 0;
    int f = abtmc_ledger_find((void *)lo, &base, &sz);
    abtmc_check(f && hi <= (uintptr_t)base + sz, "stack_outside_allocation",
                "%s of unit %d [%#lx,%#lx) is not inside a block libabt "
                "obtained from the allocator", what, idx, (unsigned long)lo,
                (unsigned long)hi);
}

static void overlap_check(uintptr_t lo, uintptr_t hi, int idx, const char *what)
{
    for (int j = 0; j < NUNIT; j++) {
        if (j == idx || !U[j].live)
            continue;
        abtmc_check(hi <= U[j].d_lo || U[j].d_hi <= lo, "stack_overlap",
                    "%s of unit %d [%#lx,%#lx) overlaps the descriptor of "
                    "live unit %d [%#lx,%#lx)", what, idx, (unsigned long)lo,
                    (unsigned long)hi, j, (unsigned long)U[j].d_lo,
                    (unsigned long)U[j].d_hi);
        if (U[j].stk_hi)
            abtmc_check(hi <= U[j].stk_lo || U[j].stk_hi <= lo,
                        "stack_overlap",
                        "%s of unit %d [%#lx,%#lx) overlaps the stack of "
                        "live unit %d [%#lx,%#lx)", what, idx,
                        (unsigned long)lo, (unsigned long)hi, j,
                        (unsigned long)U[j].stk_lo,
                        (unsigned long)U[j].stk_hi);
    }
}

static void create_unit(int idx, ABT_pool p, int is_task)
{
    unit_t *u = &U[idx];
    u->is_task = is_task;
    if (is_task)
        OK(ABT_task_create(p, unit_body, u, &u->h));
    else
        OK(ABT_thread_create(p, unit_body, u, ABT_THREAD_ATTR_NULL, &u->h));
    /* the unit may already be running or even finished on another stream; it
     * cannot be freed before `ready` is published, so its memory is live */
    u->d_lo = (uintptr_t)ABTI_thread_get_ptr(u->h);
    u->d_hi = u->d_lo + (is_task ? sizeof(ABTI_thread) : sizeof(ABTI_ythread));
    u->stk_lo = u->stk_hi = 0;
    if (!is_task) {
        ABT_thread_attr at;
        void *sa;
        size_t ss;
        OK(ABT_thread_get_attr(u->h, &at));
        OK(ABT_thread_attr_get_stack(at, &sa, &ss));
        OK(ABT_thread_attr_free(&at));
        abtmc_check(sa != NULL && ss >= 4096, "stack_too_small",
                    "unit %d: stack %p size %zu", idx, sa, ss);
        u->stk_lo = (uintptr_t)sa;
        u->stk_hi = u->stk_lo + ss;
    }
    /* registration + checks are atomic for the controlled scheduler (no
     * hooked operation below) */
    in_ledger(u->d_lo, u->d_hi, idx, "descriptor");
    overlap_check(u->d_lo, u->d_hi, idx, "descriptor");
    if (!is_task) {
        in_ledger(u->stk_lo, u->stk_hi, idx, "stack");
        overlap_check(u->stk_lo, u->stk_hi, idx, "stack");
        abtmc_check(u->stk_hi <= u->d_lo || u->d_hi <= u->stk_lo,
                    "stack_overlap", "unit %d: stack overlaps own descriptor",
                    idx);
    }
    u->live = 1;
}

static void free_unit(int idx, int by)
{
    unit_t *u = &U[idx];
    /* ABT_thread_free joins first; the memory is released at its end */
    if (norder < (int)sizeof(order) - 1)
        order[norder++] = (char)('0' + idx);
    ABT_thread h = u->h;
    u->live = 0; /* from here on the regions may be reused */
    OK(ABT_thread_free(&h));
    abtmc_check(u->ran == 1, "unit_not_run_once",
                "unit %d ran %d times before actor %d freed it", idx, u->ran,
                by);
}

static void wait_ready(int a, int external)
{
    if (external) {
        abtmc_wait_until_ne(&ready[a], 0);
    } else {
        while (abtmc_load(&ready[a]) == 0)
            OK(ABT_thread_yield());
    }
}

static void actor_B(void *arg)
{
    (void)arg;
    create_unit(2, pool[0], 0);
    create_unit(3, pool[1], 1);
    abtmc_store(&ready[A_B], 1);
    wait_ready(A_M, 0);
    free_unit(0, A_B);
    free_unit(1, A_B);
}

static void actor_X(void *arg)
{
    (void)arg;
    create_unit(4, pool[1], 0);
    create_unit(5, pool[0], 1);
    abtmc_store(&ready[A_X], 1);
    wait_ready(A_B, 1);
    free_unit(2, A_X);
    free_unit(3, A_X);
    abtmc_store(&x_done, 1);
}

static void scenario(int cfg)
{
    C = &cfgs[cfg];
    abtmc_std_env();
    setenv("ABT_MEM_MAX_NUM_STACKS", C->stacks, 1);
    setenv("ABT_MEM_MAX_NUM_DESCS", C->descs, 1);
    setenv("ABT_MEM_LP_ALLOC", C->lp, 1);
    if (C->guard)
        setenv("ABT_STACK_OVERFLOW_CHECK", C->guard, 1);
    else
        unsetenv("ABT_STACK_OVERFLOW_CHECK");
    if (C->page)
        setenv("ABT_MEM_PAGE_SIZE", C->page, 1);
    OK(ABT_init(0, NULL));
    ABT_xstream es1;
    OK(ABT_xstream_create(ABT_SCHED_NULL, &es1));
    pool[0] = h_main_pool(h_self_xstream());
    pool[1] = h_main_pool(es1);

    abtmc_window_begin();
    ABT_thread tb;
    OK(ABT_thread_create(pool[1], actor_B, NULL, ABT_THREAD_ATTR_NULL, &tb));
    int tx = abtmc_thread_create(actor_X, NULL);
    create_unit(0, pool[1], 0);
    create_unit(1, pool[0], 0);
    abtmc_store(&ready[A_M], 1);
    wait_ready(A_X, 0);
    free_unit(4, A_M);
    free_unit(5, A_M);
    OK(ABT_thread_free(&tb));
    /* keep ES0 scheduling (unit 2 lives in its pool) until X is through;
     * only then block in the thread-level join */
    while (abtmc_load(&x_done) == 0)
        OK(ABT_thread_yield());
    abtmc_thread_join(tx);
    abtmc_window_end();

    for (int i = 0; i < NUNIT; i++)
        abtmc_check(U[i].ran == 1 && !U[i].live, "unit_not_run_once",
                    "unit %d: ran=%d live=%d at the end", i, U[i].ran,
                    U[i].live);
    order[norder] = 0;
    abtmc_observe("free-order=%s", order);
    OK(ABT_xstream_join(es1));
    OK(ABT_xstream_free(&es1));
    OK(ABT_finalize());
    abtmc_check(abtmc_ledger_live() == 0, "stack_leak",
                "%ld allocation(s) still live after ABT_finalize (%ld bytes)",
                abtmc_ledger_live(), abtmc_ledger_live_bytes());
}

static const char *cfg_name(int i) { return cfgs[i].name; }
static int cfg_quick(int i) { return cfgs[i].quick; }

int main(int argc, char **argv)
{
    static abtmc_driver d = { "c15_memcfg", "C15", ARRAY_LEN(cfgs), cfg_name,
                              scenario, cfg_quick };
    return abtmc_main(argc, argv, &d);
}
