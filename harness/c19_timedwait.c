/* c19_timedwait.c -- C19 (first half): ABT_cond_timedwait respects its
 * deadline, a timed-out waiter never swallows a signal nor damages the wait
 * queue, wherever it stood.  Virtual time; waiters wait ONCE without a
 * predicate loop so that every wake-up is accounted for.
 *
 * All bookkeeping events (REG, SIG, BCAST, RET) are appended while holding the
 * user mutex M, which totally orders them.  At the end a brute-force search
 * looks for an assignment "which signal woke which waiter" that explains the
 * observed return codes (see explain()). */
#include "common.h"
#include <time.h>

enum { K_U0, K_U1, K_X, K_US };         /* waiter / signaller kinds; K_US: a ULT in
                                         * a pool shared by two extra streams */
enum { D_NONE, D_1, D_2, D_PAST };      /* deadline selector */
enum { A_END = 0, A_SIG, A_BCAST };

typedef struct {
    int kind, dl, gate; /* gate: register only after waiter `gate` returned */
} wspec;
typedef struct {
    int act, gate; /* gate: act only after waiter `gate` returned; -1 none */
} aspec;
typedef struct {
    const char *name;
    int quick;
    int nw;
    wspec w[4];
    int skind;
    aspec a[3];
} cfg_t;

static const cfg_t cfgs[] = {
    { "X:D1 + X:none | X: sig", 1, 2,
      { { K_X, D_1, -1 }, { K_X, D_NONE, -1 } }, K_X, { { A_SIG, -1 } } },
    { "U0:D1 + U1:none | X: sig", 1, 2,
      { { K_U0, D_1, -1 }, { K_U1, D_NONE, -1 } }, K_X, { { A_SIG, -1 } } },
    { "X:none + X:D1 + X:none(after w1) | X: sig(after w1), sig", 1, 3,
      { { K_X, D_NONE, -1 }, { K_X, D_1, -1 }, { K_X, D_NONE, 1 } }, K_X,
      { { A_SIG, 1 }, { A_SIG, -1 } } },
    { "U1:D1 + U1:D2 + X:none | U0: sig", 1, 3,
      { { K_U1, D_1, -1 }, { K_U1, D_2, -1 }, { K_X, D_NONE, -1 } }, K_U0,
      { { A_SIG, -1 } } },
    { "X:past + U1:none | X: sig", 1, 2,
      { { K_X, D_PAST, -1 }, { K_U1, D_NONE, -1 } }, K_X, { { A_SIG, -1 } } },
    { "X:D1 + U1:D1 | X: bcast", 1, 2,
      { { K_X, D_1, -1 }, { K_U1, D_1, -1 } }, K_X, { { A_BCAST, -1 } } },
    { "U0:D1 + U0:D2 | U1: sig", 1, 2,
      { { K_U0, D_1, -1 }, { K_U0, D_2, -1 } }, K_U1, { { A_SIG, -1 } } },
    { "X:D2 + X:D1 + U1:none | X: sig, sig", 0, 3,
      { { K_X, D_2, -1 }, { K_X, D_1, -1 }, { K_U1, D_NONE, -1 } }, K_X,
      { { A_SIG, -1 }, { A_SIG, -1 } } },
    { "4w U1:none + U1:D1 + U1:D2 + U1:none(after w2) | X: -", 1, 4,
      { { K_U1, D_NONE, -1 }, { K_U1, D_1, -1 }, { K_U1, D_2, -1 },
        { K_U1, D_NONE, 2 } }, K_X, { { A_END, -1 } } },
    { "U0:none + X:D1 + U1:none | X: - (timed waiter between two untimed ULTs)", 1,
      3, { { K_U0, D_NONE, -1 }, { K_X, D_1, -1 }, { K_U1, D_NONE, -1 } }, K_X,
      { { A_END, -1 } } },
    { "U1:none + U1:D1 + U1:none + U1:none(after w1) | X: sig(after w3 reg)", 1, 4,
      { { K_U1, D_NONE, -1 }, { K_U1, D_1, -1 }, { K_U1, D_NONE, -1 },
        { K_U1, D_NONE, 1 } }, K_X, { { A_END, -1 } } },
    { "4w X:D2 + X:D1 + X:D1 + X:none(after w2) | U0: sig(after w2)", 0, 4,
      { { K_X, D_2, -1 }, { K_X, D_1, -1 }, { K_X, D_1, -1 }, { K_X, D_NONE, 2 } },
      K_U0, { { A_SIG, 2 } } },
    /* thorough */
    { "4w U0:none + U1:D1 + X:D2 + U1:D2(after w1) | X: sig(after w2), sig", 0, 4,
      { { K_U0, D_NONE, -1 }, { K_U1, D_1, -1 }, { K_X, D_2, -1 },
        { K_U1, D_2, 1 } }, K_X, { { A_SIG, 2 }, { A_SIG, -1 } } },
    { "U1:none + U1:D1 + U1:D2 | X: sig(after w1)", 0, 3,
      { { K_U1, D_NONE, -1 }, { K_U1, D_1, -1 }, { K_U1, D_2, -1 } }, K_X,
      { { A_SIG, 1 } } },
    { "X:D1 + X:D2 + X:none(after w0) | U0: sig(after w0), bcast", 0, 3,
      { { K_X, D_1, -1 }, { K_X, D_2, -1 }, { K_X, D_NONE, 0 } }, K_U0,
      { { A_SIG, 0 }, { A_BCAST, -1 } } },
    { "U0:D1 + X:D1 + U1:D1 | X: sig", 0, 3,
      { { K_U0, D_1, -1 }, { K_X, D_1, -1 }, { K_U1, D_1, -1 } }, K_X,
      { { A_SIG, -1 } } },
    { "X:none + U1:past + X:D1 | X: sig", 0, 3,
      { { K_X, D_NONE, -1 }, { K_U1, D_PAST, -1 }, { K_X, D_1, -1 } }, K_X,
      { { A_SIG, -1 } } },
    { "U1:D1 + X:none + U0:D2(after w0) | X: sig(after w0), sig", 0, 3,
      { { K_U1, D_1, -1 }, { K_X, D_NONE, -1 }, { K_U0, D_2, 0 } }, K_X,
      { { A_SIG, 0 }, { A_SIG, -1 } } },
    { "X:D1 + X:D1 | X: none (both time out)", 0, 2,
      { { K_X, D_1, -1 }, { K_X, D_1, -1 } }, K_X, { { A_END, -1 } } },
    { "U0:D1 + U1:D2 + X:D2 | U1: bcast(after w0)", 0, 3,
      { { K_U0, D_1, -1 }, { K_U1, D_2, -1 }, { K_X, D_2, -1 } }, K_U1,
      { { A_BCAST, 0 } } },
    { "X:D1 + U1:none + X:none | X: sig, sig(after w0)", 0, 3,
      { { K_X, D_1, -1 }, { K_U1, D_NONE, -1 }, { K_X, D_NONE, -1 } }, K_X,
      { { A_SIG, -1 }, { A_SIG, 0 } } },
    /* ULT waiters in a pool served by two streams: the yield-polling timed
     * waiter is resumed on another stream than the one it started to wait on */
    { "US:D1 | X: sig (pool shared by 2 streams)", 1, 1,
      { { K_US, D_1, -1 } }, K_X, { { A_SIG, -1 } } },
    { "US:D1 + US:none | X: sig (pool shared by 2 streams)", 0, 2,
      { { K_US, D_1, -1 }, { K_US, D_NONE, -1 } }, K_X, { { A_SIG, -1 } } },
    { "US:D1 + US:D2 | US: - (pool shared by 2 streams)", 0, 2,
      { { K_US, D_1, -1 }, { K_US, D_2, -1 } }, K_US, { { A_END, -1 } } },
    { "US:none + US:none | X: bcast (pool shared by 2 streams; both re-lock at once)",
      0, 2, { { K_US, D_NONE, -1 }, { K_US, D_NONE, -1 } }, K_X,
      { { A_BCAST, -1 } } },
};

/* ---- event log (appended under M) */
enum { E_REG, E_SIG, E_BCAST, E_RET };
typedef struct {
    int type, w, rc;
    double now, now_after; /* now_after: clock when the signalling call returned */
} ev_t;
static ev_t EV[32];
static int nEV;

static const cfg_t *C;
static ABT_mutex M;
static ABT_cond CV;
static double T0, DL[4];
static int nreg;        /* hooked: number of REG events so far */
static int returned[4]; /* hooked flags */
static int holder = -1;
static int finished[5]; /* hooked: actor i is done */

static void add_ev(int type, int w, int rc)
{
    abtmc_check(nEV < 32, "harness", "event log overflow");
    EV[nEV].type = type;
    EV[nEV].w = w;
    EV[nEV].rc = rc;
    EV[nEV].now = EV[nEV].now_after = abtmc_now();
    nEV++;
}

/* wait for a hooked flag: a ULT must keep its stream available to the other
 * ULTs, so it polls with a yield; an external thread blocks in the engine */
static void wait_flag(int kind, const int *flag, int v)
{
    if (kind == K_X) {
        abtmc_wait_until_eq(flag, v);
    } else {
        while (abtmc_load(flag) != v)
            OK(ABT_thread_yield());
    }
}

static void waiter_fn(void *arg)
{
    int w = (int)(intptr_t)arg;
    const wspec *s = &C->w[w];
    if (s->gate >= 0)
        wait_flag(s->kind, &returned[s->gate], 1);
    OK(ABT_mutex_lock(M));
    add_ev(E_REG, w, 0);
    abtmc_fetch_add(&nreg, 1);
    int rc;
    if (s->dl == D_NONE) {
        rc = ABT_cond_wait(CV, M);
        abtmc_check(rc == ABT_SUCCESS, "cond_wait_rc", "ABT_cond_wait -> %d", rc);
    } else {
        struct timespec ts;
        double d = DL[s->dl];
        ts.tv_sec = (time_t)d;
        ts.tv_nsec = (long)((d - (double)ts.tv_sec) * 1e9);
        rc = ABT_cond_timedwait(CV, M, &ts);
        abtmc_check(rc == ABT_SUCCESS || rc == ABT_ERR_COND_TIMEDOUT,
                    "timedwait_rc", "ABT_cond_timedwait -> %d", rc);
    }
    /* must hold M again */
    holder = w;
    abtmc_progress();
    abtmc_check(holder == w, "not_holding_mutex",
                "waiter %d returned from the wait without holding the mutex", w);
    holder = -1;
    add_ev(E_RET, w, rc);
    OK(ABT_mutex_unlock(M));
    abtmc_store(&returned[w], 1);
    abtmc_store(&finished[w], 1);
}

static void signaller_fn(void *arg)
{
    (void)arg;
    for (int i = 0; i < 3 && C->a[i].act != A_END; i++) {
        if (C->a[i].gate >= 0)
            wait_flag(C->skind, &returned[C->a[i].gate], 1);
        OK(ABT_mutex_lock(M));
        if (C->a[i].act == A_SIG) {
            add_ev(E_SIG, -1, 0);
            OK(ABT_cond_signal(CV));
        } else {
            add_ev(E_BCAST, -1, 0);
            OK(ABT_cond_broadcast(CV));
        }
        EV[nEV - 1].now_after = abtmc_now();
        OK(ABT_mutex_unlock(M));
    }
    /* clean-up: once everybody has registered, release whoever is left */
    wait_flag(C->skind, &nreg, C->nw);
    OK(ABT_mutex_lock(M));
    add_ev(E_BCAST, -1, 0);
    OK(ABT_cond_broadcast(CV));
    EV[nEV - 1].now_after = abtmc_now();
    OK(ABT_mutex_unlock(M));
    abtmc_store(&finished[C->nw], 1);
}

/* ---- oracle: is there an assignment of wake-ups explaining the returns? */
static int regpos[4], retpos[4], retrc[4];
static double retnow[4];
static int sigpos[8], sigtype[8], nsig;

static int possibly_gone(int w, int p)
{
    /* waiter w may have left the queue on its own before the signal p took
     * effect, which happens somewhere between its call and its return */
    return retrc[w] == ABT_ERR_COND_TIMEDOUT && C->w[w].dl != D_NONE &&
           DL[C->w[w].dl] <= EV[p].now_after;
}

static int explain(int si, int *assigned /* per waiter: sig index or -1 */)
{
    if (si == nsig) {
        for (int w = 0; w < C->nw; w++) {
            if (retrc[w] == ABT_SUCCESS && assigned[w] < 0)
                return 0; /* spurious wake-up */
            if (retrc[w] != ABT_SUCCESS && assigned[w] >= 0)
                return 0;
        }
        return 1;
    }
    int p = sigpos[si];
    /* candidates: registered before p, not returned before p, unassigned */
    int cand[4], nc = 0;
    for (int w = 0; w < C->nw; w++)
        if (regpos[w] < p && p < retpos[w] && assigned[w] < 0)
            cand[nc++] = w;
    if (sigtype[si] == E_BCAST) {
        /* wakes every candidate that is still queued */
        int asg2[4];
        memcpy(asg2, assigned, sizeof(asg2));
        for (int i = 0; i < nc; i++) {
            int w = cand[i];
            if (retrc[w] == ABT_SUCCESS)
                asg2[w] = si;
            else if (!possibly_gone(w, p))
                return 0; /* was queued for sure, yet not woken */
        }
        return explain(si + 1, asg2);
    }
    /* signal: exactly one queued waiter, or nobody if all may be gone */
    for (int i = 0; i < nc; i++) {
        int w = cand[i];
        if (retrc[w] != ABT_SUCCESS)
            continue;
        assigned[w] = si;
        if (explain(si + 1, assigned)) {
            assigned[w] = -1;
            return 1;
        }
        assigned[w] = -1;
    }
    int all_gone = 1;
    for (int i = 0; i < nc; i++)
        if (!possibly_gone(cand[i], p))
            all_gone = 0;
    if (all_gone)
        return explain(si + 1, assigned);
    return 0;
}

static void describe(char *buf, size_t n)
{
    static const char *tn[] = { "REG", "SIG", "BCAST", "RET" };
    size_t o = 0;
    for (int i = 0; i < nEV && o < n; i++)
        o += snprintf(buf + o, n - o, "%s(w%d,rc=%d,t=+%.2f) ", tn[EV[i].type],
                      EV[i].w, EV[i].rc, EV[i].now - T0);
}

static void scenario(int cfg)
{
    C = &cfgs[cfg];
    h_init();
    T0 = abtmc_now();
    DL[D_1] = T0 + 1.0;
    DL[D_2] = T0 + 2.0;
    DL[D_PAST] = T0 - 1.0;
    double cand[2] = { DL[D_1], DL[D_2] };
    abtmc_clock_candidates(cand, 2);
    OK(ABT_mutex_create(&M));
    OK(ABT_cond_create(&CV));
    int need_es1 = C->skind == K_U1;
    for (int w = 0; w < C->nw; w++)
        if (C->w[w].kind == K_U1)
            need_es1 = 1;
    ABT_xstream es1 = ABT_XSTREAM_NULL;
    if (need_es1)
        OK(ABT_xstream_create(ABT_SCHED_NULL, &es1));
    ABT_pool p0 = h_main_pool(h_self_xstream());
    ABT_pool p1 = need_es1 ? h_main_pool(es1) : ABT_POOL_NULL;
    int need_shared = C->skind == K_US;
    for (int w = 0; w < C->nw; w++)
        if (C->w[w].kind == K_US)
            need_shared = 1;
    ABT_pool ps = ABT_POOL_NULL;
    ABT_xstream esa = ABT_XSTREAM_NULL, esb = ABT_XSTREAM_NULL;
    if (need_shared) {
        ABT_sched sa, sb;
        OK(ABT_pool_create_basic(ABT_POOL_FIFO, ABT_POOL_ACCESS_MPMC, ABT_TRUE, &ps));
        OK(ABT_sched_create_basic(ABT_SCHED_BASIC, 1, &ps, ABT_SCHED_CONFIG_NULL, &sa));
        OK(ABT_sched_create_basic(ABT_SCHED_BASIC, 1, &ps, ABT_SCHED_CONFIG_NULL, &sb));
        OK(ABT_xstream_create(sa, &esa));
        OK(ABT_xstream_create(sb, &esb));
    }

    abtmc_window_begin();
    ABT_thread th[5] = { ABT_THREAD_NULL, ABT_THREAD_NULL, ABT_THREAD_NULL,
                         ABT_THREAD_NULL, ABT_THREAD_NULL };
    int xt[5] = { -1, -1, -1, -1, -1 };
    for (int i = 0; i <= C->nw; i++) {
        int kind = i < C->nw ? C->w[i].kind : C->skind;
        void (*fn)(void *) = i < C->nw ? waiter_fn : signaller_fn;
        void *arg = (void *)(intptr_t)i;
        if (kind == K_X)
            xt[i] = abtmc_thread_create(fn, arg);
        else
            OK(ABT_thread_create(kind == K_U0 ? p0 : kind == K_U1 ? p1 : ps, fn,
                                 arg, ABT_THREAD_ATTR_NULL, &th[i]));
    }
    /* the primary ULT must not block its OS thread while ULT actors on its
     * own stream still have work to do: poll with a yield */
    for (int i = 0; i <= C->nw; i++)
        while (abtmc_load(&finished[i]) == 0)
            OK(ABT_thread_yield());
    for (int i = 0; i <= C->nw; i++) {
        if (th[i] != ABT_THREAD_NULL)
            OK(ABT_thread_free(&th[i]));
        if (xt[i] >= 0)
            abtmc_thread_join(xt[i]);
    }
    abtmc_window_end();

    /* collect */
    nsig = 0;
    for (int w = 0; w < 4; w++)
        regpos[w] = retpos[w] = -1;
    for (int i = 0; i < nEV; i++) {
        if (EV[i].type == E_REG)
            regpos[EV[i].w] = i;
        else if (EV[i].type == E_RET) {
            retpos[EV[i].w] = i;
            retrc[EV[i].w] = EV[i].rc;
            retnow[EV[i].w] = EV[i].now;
        } else {
            sigpos[nsig] = i;
            sigtype[nsig] = EV[i].type;
            nsig++;
        }
    }
    char buf[900];
    for (int w = 0; w < C->nw; w++) {
        abtmc_check(regpos[w] >= 0 && retpos[w] > regpos[w], "lost_waiter",
                    "waiter %d did not return", w);
        if (retrc[w] == ABT_ERR_COND_TIMEDOUT) {
            abtmc_check(C->w[w].dl != D_NONE, "timedout_untimed",
                        "untimed wait returned TIMEDOUT");
            if (retnow[w] < DL[C->w[w].dl]) {
                describe(buf, sizeof(buf));
                abtmc_check_fail("early_timeout",
                                 "waiter %d returned ABT_ERR_COND_TIMEDOUT at "
                                 "t=+%.3f before its deadline +%.3f: %s",
                                 w, retnow[w] - T0, DL[C->w[w].dl] - T0, buf);
            }
        }
    }
    int asg[4] = { -1, -1, -1, -1 };
    if (!explain(0, asg)) {
        describe(buf, sizeof(buf));
        abtmc_check_fail("wakeup_accounting",
                         "no assignment of signals to waiters explains the "
                         "return codes (lost/duplicated/spurious wake-up or a "
                         "timed-out waiter swallowed a signal): %s", buf);
    }
    {
        char o[96];
        int k = 0;
        for (int w = 0; w < C->nw; w++)
            k += snprintf(o + k, sizeof(o) - k, "w%d:%s@%d ", w,
                          retrc[w] == ABT_SUCCESS ? "S" : "T", retpos[w]);
        abtmc_observe("%s", o);
    }
    /* the queue must be empty and intact: free succeeds, fresh round works */
    OK(ABT_cond_free(&CV));
    OK(ABT_mutex_free(&M));
    if (need_es1) {
        OK(ABT_xstream_join(es1));
        OK(ABT_xstream_free(&es1));
    }
    if (need_shared) {
        OK(ABT_xstream_join(esa));
        OK(ABT_xstream_join(esb));
        OK(ABT_xstream_free(&esa));
        OK(ABT_xstream_free(&esb));
    }
    h_finalize();
    abtmc_check(abtmc_ledger_live() == 0, "leak",
                "%ld live allocations after ABT_finalize", abtmc_ledger_live());
}

static const char *cfg_name(int i) { return cfgs[i].name; }
static int cfg_quick(int i) { return cfgs[i].quick; }

int main(int argc, char **argv)
{
    static abtmc_driver d = { "c19_timedwait", "C19", ARRAY_LEN(cfgs), cfg_name,
                              scenario, cfg_quick };
    return abtmc_main(argc, argv, &d);
}
