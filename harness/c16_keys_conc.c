/* c16_keys_conc.c -- C16 (kind I): concurrent use of one work unit's key
 * table.  ABT_thread_set_specific / ABT_thread_get_specific / ABT_key_set are
 * documented to work from any execution context (ULT, tasklet, external
 * thread) and "work-unit-specific values associated with a key are read and
 * updated atomically", so several threads may set and get values of the same
 * target unit at the same time.  (Freeing the unit concurrently is undefined;
 * the driver frees only at quiescence.)
 *
 * 2-3 actors on different controlled threads -- the target itself ("owner",
 * primary ULT or a ULT on ES0), a ULT or tasklet on ES1, an external thread, the
 * primary ULT acting on a parked (never yet run) unit -- run short programs of
 * set / set-NULL / get on keys k0,k1,k2 (ids 2,3,4: with ABT_KEY_TABLE_SIZE=1
 * all collide, with 2 k0 and k2 collide) of a target that has no table yet
 * (lazy creation guarded by the CAS lock ABTI_KTABLE_LOCKED) or has one
 * (locked append + re-scan vs. lock-free traversal).
 *
 * Oracle: per key, the history of calls (abtmc_step() stamps at call and
 * return, the value written / returned), including the pre-set and the final
 * reads at quiescence, must be linearizable as an atomic register that starts
 * NULL (hence no lost update, no value of another key/unit, nothing from a
 * second, overwritten table); the table holds exactly one element per key
 * ever set (white-box walk); a parked target sees the final values when it
 * finally runs; freeing the target calls exactly the destructors of keys with
 * a destructor and a non-NULL final value, with that value; empty ledger after
 * ABT_finalize (a table or element block allocated by the external thread
 * comes from malloc and would show up as a leak if it were dropped).
 */
#include "abti.h"
#include "c16_keys.h"

enum { A_OWNER, A_U1, A_X, A_T1, A_P, NACTORS };
enum { T_PRIMARY, T_ULT0, T_PARKED_ULT, T_PARKED_TASK, T_PARKED_CB };
static const char actor_letter[NACTORS + 1] = "OUXTP";
#define NKEYS 3

typedef struct {
    int actor, n;
    const char *ops; /* pairs: S0 = set k0, N1 = set k1 to NULL, G2 = get k2 */
} prog_t;

typedef struct {
    const char *name;
    int quick, tsize, target;
    const char *preset; /* keys given a value before the race, e.g. "0" */
    int owner_api;      /* 0: ABT_key_set/get, 1: ABT_self_set/get_specific */
    int nprogs;
    prog_t p[3];
} cfg_t;

static const cfg_t cfgs[] = {
    /* quick */
    { "append race on one chain (N=1, table exists): U1 set k1 | X set k2, owner gets", 1, 1,
      T_PRIMARY, "0", 0, 3, { { A_U1, 1, "S1" }, { A_X, 1, "S2" }, { A_OWNER, 3, "G2G1G0" } } },
    { "create race, colliding keys (N=1): U1 set k0 | X set k1, owner gets", 1, 1,
      T_PRIMARY, "", 1, 3, { { A_U1, 1, "S0" }, { A_X, 1, "S1" }, { A_OWNER, 2, "G0G1" } } },
    { "create race, same key: U1|X set k0, primary(owner) gets", 1, 4,
      T_PRIMARY, "", 0, 3, { { A_U1, 1, "S0" }, { A_X, 1, "S0" }, { A_OWNER, 2, "G0G0" } } },
    { "same new key, table exists (N=2): U1|X set k0, owner gets", 0, 2,
      T_PRIMARY, "1", 1, 3, { { A_U1, 2, "S0G0" }, { A_X, 1, "S0" }, { A_OWNER, 2, "G0G0" } } },
    { "owner ULT key_set vs U1 thread_set, create race (N=1)", 1, 1,
      T_ULT0, "", 0, 2, { { A_OWNER, 2, "S0G1" }, { A_U1, 2, "S1G0" } } },
    { "parked tasklet target: U1 set k0,k1 | primary set k1, get k0 (N=1)", 1, 1,
      T_PARKED_TASK, "", 0, 2, { { A_U1, 2, "S0S1" }, { A_P, 2, "S1G0" } } },
    { "NULL vs value on an existing key: U1 NULL k0 | X set k0, owner ULT gets (N=4)", 0, 4,
      T_ULT0, "0", 1, 3, { { A_U1, 1, "N0" }, { A_X, 1, "S0" }, { A_OWNER, 2, "G0G0" } } },
    { "create race U1 | X on a parked ULT, colliding (N=2: k0,k2), primary gets", 1, 2,
      T_PARKED_ULT, "", 0, 3, { { A_U1, 1, "S0" }, { A_X, 1, "S2" }, { A_P, 2, "G2G0" } } },
    /* thorough */
    { "three setters (N=1): U1 k0,k1 | X k1,k0 | owner set k0, get k1", 0, 1,
      T_PRIMARY, "", 0, 3, { { A_U1, 2, "S0S1" }, { A_X, 2, "S1S0" }, { A_OWNER, 2, "S0G1" } } },
    { "colliding ids (N=2): U1 k0,k2 | X k2,k0 | owner gets", 0, 2,
      T_PRIMARY, "", 1, 3, { { A_U1, 2, "S0S2" }, { A_X, 2, "S2S0" }, { A_OWNER, 3, "G0G2G0" } } },
    { "tasklet on ES1 | X | owner ULT (N=1)", 0, 1,
      T_ULT0, "", 1, 3, { { A_T1, 1, "S0" }, { A_X, 1, "S1" }, { A_OWNER, 3, "S2G0G1" } } },
    { "parked ULT with migration callback (table exists, internal key): U1 k0,k1 | X k0 | primary gets (N=2)", 0, 2,
      T_PARKED_CB, "", 0, 3, { { A_U1, 2, "S0S1" }, { A_X, 1, "S0" }, { A_P, 2, "G0G1" } } },
    { "append race then overwrite (N=1): U1 k1,k2 | X k2,k1, owner gets", 0, 1,
      T_PRIMARY, "0", 0, 3, { { A_U1, 2, "S1S2" }, { A_X, 2, "S2S1" }, { A_OWNER, 2, "G1G2" } } },
    { "X creates the table, fills a malloc'ed block (N=1): X k0,k1,k2 | U1 k2 | owner gets", 0, 1,
      T_PRIMARY, "", 1, 3, { { A_X, 3, "S0S1S2" }, { A_U1, 1, "S2" }, { A_OWNER, 2, "G2G0" } } },
    { "set NULL races (N=2): U1 N0,S2 | X S0,N2 | owner ULT gets", 0, 2,
      T_ULT0, "02", 0, 3, { { A_U1, 2, "N0S2" }, { A_X, 2, "S0N2" }, { A_OWNER, 2, "G0G2" } } },
    { "default table size: U1 k0,k1 | X k1,k2 | parked tasklet, primary gets", 0, 0,
      T_PARKED_TASK, "", 0, 3, { { A_U1, 2, "S0S1" }, { A_X, 2, "S1S2" }, { A_P, 2, "G1G0" } } },
};

/* ---- call history ------------------------------------------------------ */
typedef struct {
    int key, is_write, actor;
    void *val;
    long call, ret;
} hop_t;
#define MAXH 40
static hop_t hist[MAXH];
static int nhist;

static const cfg_t *C;
static ABT_thread target;
static ABT_key key_h[NKEYS];
static int key_dtor[NKEYS] = { 1, 0, 1 };
static int ever_set[NKEYS];
static char reads[3][8]; /* per program: origin of each value it read */
static int nreads[3];

static char origin(void *v)
{
    if (!v)
        return '-';
    uintptr_t g = (uintptr_t)v;
    int a = (int)((g >> 8) & 0xf);
    if ((g >> 28) != 1)
        return '?';
    return a < NACTORS ? actor_letter[a] : (a == 15 ? 'i' : '?');
}

static void *token(int actor, int serial, int key)
{
    return (void *)(uintptr_t)(0x10000000u + ((unsigned)serial << 12) +
                               ((unsigned)actor << 8) + (unsigned)key);
}

static void run_prog(const prog_t *p)
{
    int owner = (p->actor == A_OWNER);
    int pi = (int)(p - C->p);
    for (int i = 0; i < p->n; i++) {
        char op = p->ops[2 * i];
        int k = p->ops[2 * i + 1] - '0';
        abtmc_check(nhist < MAXH, "harness_hist", "history overflow");
        hop_t *h = &hist[nhist++];
        h->key = k;
        h->actor = p->actor;
        if (op == 'G') {
            void *g = (void *)(uintptr_t)1;
            h->is_write = 0;
            h->call = abtmc_step();
            if (!owner)
                OK(ABT_thread_get_specific(target, key_h[k], &g));
            else if (C->owner_api == 0)
                OK(ABT_key_get(key_h[k], &g));
            else
                OK(ABT_self_get_specific(key_h[k], &g));
            h->val = g;
            h->ret = abtmc_step();
            reads[pi][nreads[pi]++] = origin(g);
        } else {
            void *v = (op == 'S') ? token(p->actor, i + 1, k) : NULL;
            h->is_write = 1;
            h->val = v;
            ever_set[k] = 1; /* only read at quiescence */
            h->call = abtmc_step();
            if (!owner)
                OK(ABT_thread_set_specific(target, key_h[k], v));
            else if (C->owner_api == 0)
                OK(ABT_key_set(key_h[k], v));
            else
                OK(ABT_self_set_specific(key_h[k], v));
            h->ret = abtmc_step();
        }
    }
}

static void actor_body(void *arg) { run_prog((const prog_t *)arg); }

/* ---- per-key linearizability as an atomic register --------------------- */
static hop_t *lk[MAXH];
static int nlk;
static int lin_search(unsigned done, void *cur)
{
    if (done == (1u << nlk) - 1)
        return 1;
    for (int i = 0; i < nlk; i++) {
        if (done & (1u << i))
            continue;
        /* i may go next iff no other pending op returned before i was called */
        int minimal = 1;
        for (int j = 0; j < nlk && minimal; j++)
            if (j != i && !(done & (1u << j)) && lk[j]->ret < lk[i]->call)
                minimal = 0;
        if (!minimal)
            continue;
        if (lk[i]->is_write) {
            if (lin_search(done | (1u << i), lk[i]->val))
                return 1;
        } else if (lk[i]->val == cur) {
            if (lin_search(done | (1u << i), cur))
                return 1;
        }
    }
    return 0;
}

static void check_linearizable(int k)
{
    nlk = 0;
    for (int i = 0; i < nhist; i++)
        if (hist[i].key == k)
            lk[nlk++] = &hist[i];
    if (lin_search(0, NULL))
        return;
    /* classify for a stable key */
    char buf[600];
    int n = 0;
    for (int i = 0; i < nlk && n < 520; i++)
        n += snprintf(buf + n, sizeof(buf) - n, " %c:%s(%p)@[%ld,%ld]",
                      actor_letter[lk[i]->actor % NACTORS],
                      lk[i]->is_write ? "set" : "get", lk[i]->val, lk[i]->call,
                      lk[i]->ret);
    for (int i = 0; i < nlk; i++) {
        if (lk[i]->is_write)
            continue;
        void *g = lk[i]->val;
        int written = (g == NULL);
        for (int j = 0; j < nlk; j++)
            if (lk[j]->is_write && lk[j]->val == g)
                written = 1;
        if (!written)
            abtmc_check_fail("value_leak",
                             "get of key k%d returned %p which was never "
                             "written for this key on this unit:%s", k, g, buf);
    }
    abtmc_check_fail("not_linearizable",
                     "the calls on key k%d are not linearizable as an atomic "
                     "register (lost or stale value):%s", k, buf);
}

/* ---- target units ------------------------------------------------------ */
static void *final_val[NKEYS];
static int parked_ran;
static void parked_body(void *arg)
{
    (void)arg;
    /* the unit finally runs: it must see the final values itself */
    for (int k = 0; k < NKEYS; k++) {
        void *g = (void *)(uintptr_t)1;
        OK(ABT_key_get(key_h[k], &g));
        abtmc_check(g == final_val[k], "get_mismatch_owner",
                    "the target's own ABT_key_get(k%d) returned %p, "
                    "ABT_thread_get_specific had returned %p", k, g,
                    final_val[k]);
        OK(ABT_self_get_specific(key_h[k], &g));
        abtmc_check(g == final_val[k], "get_mismatch_owner",
                    "the target's own ABT_self_get_specific(k%d) returned %p, "
                    "expected %p", k, g, final_val[k]);
    }
    parked_ran = 1;
}
static void mig_cb(ABT_thread t, void *arg) { (void)t; (void)arg; }

static void walk_table(int internal_keys)
{
    ABTI_thread *p = ABTI_thread_get_ptr(target);
    ABTI_ktable *t = (ABTI_ktable *)ABTD_atomic_relaxed_load_ptr(&p->p_keytable);
    int expected = internal_keys, any = internal_keys;
    for (int k = 0; k < NKEYS; k++)
        if (ever_set[k])
            expected++, any = 1;
    if (!any) {
        abtmc_check(t == NULL, "table_unexpected", "table without any set");
        return;
    }
    abtmc_check(ABTI_ktable_is_valid(t), "table_missing",
                "key table pointer is %p after the sets completed", (void *)t);
    int n = 0;
    uint32_t seen[16];
    for (int i = 0; i < t->size; i++) {
        ABTI_ktelem *e =
            (ABTI_ktelem *)ABTD_atomic_relaxed_load_ptr(&t->p_elems[i]);
        for (; e; e = (ABTI_ktelem *)ABTD_atomic_relaxed_load_ptr(&e->p_next)) {
            for (int j = 0; j < n && j < 16; j++)
                abtmc_check(seen[j] != e->key_id, "duplicate_element",
                            "two elements for key id %u in the table",
                            e->key_id);
            if (n < 16)
                seen[n] = e->key_id;
            n++;
            abtmc_check((e->key_id & (uint32_t)(t->size - 1)) == (uint32_t)i,
                        "element_wrong_slot", "key id %u in slot %d",
                        e->key_id, i);
        }
    }
    abtmc_check(n == expected, "element_count",
                "%d elements in the table, %d distinct keys were set", n,
                expected);
}

static void scenario(int cfg)
{
    C = &cfgs[cfg];
    abtmc_std_env();
    if (C->tsize) {
        char b[16];
        snprintf(b, sizeof(b), "%d", C->tsize);
        setenv("ABT_KEY_TABLE_SIZE", b, 1);
    } else {
        unsetenv("ABT_KEY_TABLE_SIZE");
    }
    OK(ABT_init(0, NULL));
    for (int k = 0; k < NKEYS; k++)
        OK(ABT_key_create(key_dtor[k] ? c16_dtors[k] : NULL, &key_h[k]));

    int need_es1 = 0;
    for (int i = 0; i < C->nprogs; i++)
        if (C->p[i].actor == A_U1 || C->p[i].actor == A_T1)
            need_es1 = 1;
    ABT_xstream es1 = ABT_XSTREAM_NULL;
    if (need_es1)
        OK(ABT_xstream_create(ABT_SCHED_NULL, &es1));
    ABT_pool p0 = h_main_pool(h_self_xstream());
    ABT_pool p1 = need_es1 ? h_main_pool(es1) : ABT_POOL_NULL;
    ABT_pool ppark = ABT_POOL_NULL;
    const prog_t *owner_prog = NULL;
    for (int i = 0; i < C->nprogs; i++)
        if (C->p[i].actor == A_OWNER)
            owner_prog = &C->p[i];

    /* the target unit */
    int internal_keys = 0;
    switch (C->target) {
        case T_PRIMARY: OK(ABT_self_get_thread(&target)); break;
        case T_ULT0: break; /* created inside the window */
        default:
            OK(ABT_pool_create_basic(ABT_POOL_FIFO, ABT_POOL_ACCESS_MPMC,
                                     ABT_FALSE, &ppark));
            if (C->target == T_PARKED_TASK) {
                OK(ABT_task_create(ppark, parked_body, NULL, &target));
            } else if (C->target == T_PARKED_ULT) {
                OK(ABT_thread_create(ppark, parked_body, NULL,
                                     ABT_THREAD_ATTR_NULL, &target));
            } else {
                ABT_thread_attr at;
                OK(ABT_thread_attr_create(&at));
                OK(ABT_thread_attr_set_callback(at, mig_cb, NULL));
                OK(ABT_thread_create(ppark, parked_body, NULL, at, &target));
                OK(ABT_thread_attr_free(&at));
                internal_keys = 1;
            }
            break;
    }

    abtmc_window_begin();
    if (C->target == T_ULT0) {
        abtmc_check(owner_prog != NULL, "harness_cfg", "T_ULT0 needs an owner");
        OK(ABT_thread_create(p0, actor_body, (void *)owner_prog,
                             ABT_THREAD_ATTR_NULL, &target));
    }
    /* pre-set values: history entries that precede everything else */
    for (const char *s = C->preset; *s; s++) {
        int k = *s - '0';
        hop_t *h = &hist[nhist++];
        h->key = k;
        h->actor = A_P;
        h->is_write = 1;
        h->val = token(15, 0, k);
        ever_set[k] = 1;
        h->call = abtmc_step();
        OK(ABT_thread_set_specific(target, key_h[k], h->val));
        h->ret = abtmc_step();
    }

    ABT_thread th[3] = { ABT_THREAD_NULL, ABT_THREAD_NULL, ABT_THREAD_NULL };
    int xt[3] = { -1, -1, -1 };
    const prog_t *inline_prog = NULL;
    for (int i = 0; i < C->nprogs; i++) {
        const prog_t *p = &C->p[i];
        switch (p->actor) {
            case A_U1:
                OK(ABT_thread_create(p1, actor_body, (void *)p,
                                     ABT_THREAD_ATTR_NULL, &th[i]));
                break;
            case A_T1:
                OK(ABT_task_create(p1, actor_body, (void *)p, &th[i]));
                break;
            case A_X: xt[i] = abtmc_thread_create(actor_body, (void *)p); break;
            case A_OWNER:
                if (C->target == T_PRIMARY)
                    inline_prog = p;
                break;
            default: inline_prog = p; break; /* A_P */
        }
    }
    if (inline_prog)
        run_prog(inline_prog);
    if (C->target == T_ULT0)
        OK(ABT_thread_join(target));
    for (int i = 0; i < C->nprogs; i++) {
        if (th[i] != ABT_THREAD_NULL)
            OK(ABT_thread_free(&th[i]));
        if (xt[i] >= 0)
            abtmc_thread_join(xt[i]);
    }
    abtmc_window_end();

    /* quiescence: final reads, part of the history */
    for (int k = 0; k < NKEYS; k++) {
        hop_t *h = &hist[nhist++];
        h->key = k;
        h->actor = A_P;
        h->is_write = 0;
        h->call = abtmc_step();
        final_val[k] = (void *)(uintptr_t)1;
        OK(ABT_thread_get_specific(target, key_h[k], &final_val[k]));
        h->val = final_val[k];
        h->ret = abtmc_step();
    }
    for (int k = 0; k < NKEYS; k++)
        check_linearizable(k);
    walk_table(internal_keys);
    abtmc_check(c16_ndlog == 0, "destructor_early",
                "a destructor ran before any unit was freed");
    abtmc_observe("reads=%s/%s/%s final=%c%c%c", reads[0], reads[1], reads[2],
                  origin(final_val[0]), origin(final_val[1]),
                  origin(final_val[2]));

    int has_dtor[NKEYS];
    for (int k = 0; k < NKEYS; k++)
        has_dtor[k] = key_dtor[k];
    if (C->target != T_PRIMARY) {
        if (C->target != T_ULT0) {
            ABT_thread t = ABT_THREAD_NULL;
            OK(ABT_pool_pop_thread(ppark, &t));
            abtmc_check(t == target, "harness_pop", "unexpected unit popped");
            OK(ABT_self_schedule(t, ABT_POOL_NULL));
            abtmc_check(parked_ran, "harness_parked", "parked unit did not run");
        }
        int mark = c16_ndlog;
        OK(ABT_thread_free(&target));
        c16_expect_dtors("target", mark, NKEYS, has_dtor, final_val);
        if (ppark != ABT_POOL_NULL)
            OK(ABT_pool_free(&ppark));
    }
    for (int k = 0; k < NKEYS; k++)
        OK(ABT_key_free(&key_h[k]));
    if (need_es1) {
        OK(ABT_xstream_join(es1));
        OK(ABT_xstream_free(&es1));
    }
    int mark = c16_ndlog;
    OK(ABT_finalize());
    if (C->target == T_PRIMARY)
        c16_expect_dtors("primary ULT", mark, NKEYS, has_dtor, final_val);
    else
        abtmc_check(c16_ndlog == mark, "destructor_spurious",
                    "destructor calls during ABT_finalize although the "
                    "primary ULT has no values");
    abtmc_check(abtmc_ledger_live() == 0, "ledger_leak",
                "%ld allocations (%ld bytes) of libabt still live after "
                "ABT_finalize",
                abtmc_ledger_live(), abtmc_ledger_live_bytes());
}

static const char *cfg_name(int i) { return cfgs[i].name; }
static int cfg_quick(int i) { return cfgs[i].quick; }

int main(int argc, char **argv)
{
    static abtmc_driver d = { "c16_keys_conc", "C16", ARRAY_LEN(cfgs), cfg_name,
                              scenario, cfg_quick };
    return abtmc_main(argc, argv, &d);
}
