/* c12_asan.h -- C12 drivers re-use ULT stacks (revive, pooled stacks of
 * terminated units).  A ULT that terminates never unwinds the frames below
 * ABTD_ythread_func_wrapper, so AddressSanitizer keeps their red zones
 * poisoned and reports a bogus stack-buffer-overflow when the stack is used
 * again (sanitizers issue 189; libabt has no fiber annotations).  The unit
 * functions therefore enter through a non-instrumented trampoline that
 * unpoisons the dead part of the calling ULT's stack (everything below the
 * wrapper's frame) on entry and on return. */
#ifndef C12_ASAN_H
#define C12_ASAN_H
#if defined(__SANITIZE_ADDRESS__)
#include <sanitizer/asan_interface.h>
__attribute__((no_sanitize_address, noinline)) static void
c12_unpoison_dead_stack(void *upto)
{
    ABT_thread me;
    ABT_thread_attr a;
    void *addr = NULL;
    size_t size = 0;
    ABT_unit_type ty;
    /* the locals of this very function may sit on stale red zones: clear a
     * window first (unit functions start near the top of a >= 32 KB stack,
     * tasklets deep inside the scheduler's stack) */
    __asan_unpoison_memory_region((char *)upto - 4096, 4096);
    if (ABT_self_get_type(&ty) != ABT_SUCCESS || ty != ABT_UNIT_TYPE_THREAD)
        return; /* tasklets run on the scheduler's stack */
    if (ABT_self_get_thread(&me) != ABT_SUCCESS ||
        ABT_thread_get_attr(me, &a) != ABT_SUCCESS)
        return;
    ABT_thread_attr_get_stack(a, &addr, &size);
    ABT_thread_attr_free(&a);
    if (addr && (char *)upto > (char *)addr &&
        (char *)upto <= (char *)addr + size)
        __asan_unpoison_memory_region(addr, (size_t)((char *)upto - (char *)addr));
}
#define C12_UNIT_ENTRY(name, real)                                             \
    __attribute__((no_sanitize_address, noinline)) static void name(void *arg) \
    {                                                                          \
        c12_unpoison_dead_stack((char *)__builtin_frame_address(0) + 16);      \
        real(arg);                                                             \
        c12_unpoison_dead_stack((char *)__builtin_frame_address(0) + 16);      \
    }
#else
#define C12_UNIT_ENTRY(name, real)                                             \
    static void name(void *arg) { real(arg); }
#endif
#endif
