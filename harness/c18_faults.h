/* c18_faults.h -- infrastructure of the C18 fault-enumeration driver:
 * the pre-existing "world", the getter snapshot, the ledger / memory-pool
 * accounting and the per-execution protocol.  The API scenario table lives in
 * c18_faults.c. */
#ifndef C18_FAULTS_H
#define C18_FAULTS_H
#include "abti.h"
#include "common.h"
#include <stdarg.h>

#ifdef __SANITIZE_ADDRESS__
/* ASan + user-level context switching: when a ULT exits, libabt jumps away
 * from ABTD_ythread_func_wrapper and that frame's redzones stay poisoned on
 * the ULT stack for ever.  If the stack is used again with a slightly
 * different start layout (revived ULT / stream, reused mmap'ed page), ASan's
 * own __asan_handle_no_return -> sigaltstack() interceptor trips over the
 * stale redzone ("stack-buffer-underflow in __interceptor_sigaltstack") - a
 * tool artefact, not a libabt access.  Resolving sigaltstack to this plain
 * system call wrapper (the executable's definition precedes libasan's
 * interceptor) removes exactly that check and nothing else. */
#include <signal.h>
#include <unistd.h>
#include <sys/syscall.h>
int sigaltstack(const stack_t *ss, stack_t *oss)
{
    return (int)syscall(SYS_sigaltstack, ss, oss);
}
#endif

/* ABT_info_print_thread_stacks_in_pool() calls fflush(0).  An execution is a
 * forked child of the explorer, and the explorer's result file (--out) still
 * holds its unflushed JSON header in the stdio buffer the child inherited: a
 * flush of *all* streams in the child writes that header a second time and
 * corrupts the result file (see notes/C18-engine.md #5).  The executable's
 * definition of fflush() takes precedence over libc's: flushing one stream
 * works as usual, "flush everything" is a no-op in this driver. */
int fflush(FILE *f)
{
    return f ? fflush_unlocked(f) : 0;
}

#define SENT(type) ((type)(uintptr_t)0x5e5e5e5e5e5e0ull) /* untouched marker */

/* ---------------------------------------------------------------- world */

#define UPOOL_CAP 128
typedef struct {
    int n, head;
    ABT_unit q[UPOOL_CAP];
} upool_t;
typedef struct {
    ABT_thread thread;
    int magic;
} uunit_t;

enum { RAN_UB = 1, RAN_U1 = 2, RAN_T1 = 4, RAN_W1 = 8, RAN_W2 = 16,
       RAN_UTERM = 32, RAN_TTERM = 64 };

typedef struct {
    ABT_xstream es0, es1;
    ABT_pool p0, p1;      /* main pools of ES0 / ES1 */
    ABT_pool pq;          /* parked FIFO pool holding u1 (ULT) and t1 (tasklet) */
    ABT_pool pu;          /* parked user-defined pool holding w1, w2 */
    ABT_pool pspare;      /* the only pool of sched_spare */
    ABT_sched sched_spare;/* unused BASIC scheduler (not automatic) */
    ABT_thread main_ult;
    ABT_thread ub;        /* blocked on ev, lives on ES1 */
    ABT_thread u1, t1;    /* queued in pq */
    ABT_thread w1, w2;    /* queued in pu (user-defined units, mapped) */
    ABT_thread uterm;     /* terminated, not freed ULT */
    ABT_thread tterm;     /* terminated, not freed tasklet */
    ABT_eventual ev;
    ABT_key key1, key2;
    ABT_sched_config scfg;
    ABT_pool_config pcfg;
    ABT_thread_attr attr;
    ABT_mutex_attr mattr;
    ABT_mutex mtx;
    ABT_timer timer;
    ABT_pool_user_def udef;
    int ub_flag;          /* hooked: set by ub just before it blocks */
    int ran;              /* bit set of bodies that ran */
    int dtor_calls;       /* key1 destructor invocations */
    int upool_live_units; /* user units currently allocated by the driver */
    int fail_unit;        /* user create_unit returns ABT_UNIT_NULL */
    int unit_failed;      /* ... and it did so */
    int unit_next;        /* bump index into unit_arena */
    /* white-box drain of the memory pools of ES0 */
    void *drained_desc[4096];
    int ndrained_desc;
    void *drained_stack[256];
    int ndrained_stack;
} world_t;
static world_t W;

static void key1_dtor(void *v)
{
    (void)v;
    W.dtor_calls++;
}

/* user-defined pool: array FIFO.  Units come from a static arena of the
 * driver (not in the ledger: the ledger only sees libabt's own acquisitions):
 * libabt hashes unit addresses for its unit-to-thread map, so the addresses
 * must be the same in the counting run and in the faulted run. */
static uunit_t unit_arena[1024];
static ABT_unit up_create_unit(ABT_pool pool, ABT_thread thread)
{
    (void)pool;
    if (W.fail_unit) {
        W.unit_failed = 1;
        return ABT_UNIT_NULL;
    }
    abtmc_check(W.unit_next < ARRAY_LEN(unit_arena), "api_error",
                "unit arena exhausted");
    uunit_t *u = &unit_arena[W.unit_next++];
    u->thread = thread;
    u->magic = 0x1234;
    W.upool_live_units++;
    return (ABT_unit)u;
}
static void up_free_unit(ABT_pool pool, ABT_unit unit)
{
    (void)pool;
    uunit_t *u = (uunit_t *)unit;
    abtmc_check(u->magic == 0x1234, "user_unit_corrupt",
                "free_unit called with a unit that is not live");
    u->magic = 0;
    W.upool_live_units--;
}
static upool_t *up_data(ABT_pool pool)
{
    void *d;
    OK(ABT_pool_get_data(pool, &d));
    return (upool_t *)d;
}
static ABT_bool up_is_empty(ABT_pool pool)
{
    return up_data(pool)->n == 0 ? ABT_TRUE : ABT_FALSE;
}
static ABT_thread up_pop(ABT_pool pool, ABT_pool_context c)
{
    (void)c;
    upool_t *d = up_data(pool);
    if (d->n == 0)
        return ABT_THREAD_NULL;
    ABT_unit u = d->q[d->head];
    d->head = (d->head + 1) % UPOOL_CAP;
    d->n--;
    abtmc_check(((uunit_t *)u)->magic == 0x1234, "user_unit_corrupt",
                "popped a dead unit");
    return ((uunit_t *)u)->thread;
}
static void up_push(ABT_pool pool, ABT_unit unit, ABT_pool_context c)
{
    (void)c;
    upool_t *d = up_data(pool);
    abtmc_check(d->n < UPOOL_CAP, "api_error", "user pool overflow");
    abtmc_check(((uunit_t *)unit)->magic == 0x1234, "user_unit_corrupt",
                "pushed a dead unit");
    d->q[(d->head + d->n) % UPOOL_CAP] = unit;
    d->n++;
}
static void up_push_many(ABT_pool pool, const ABT_unit *units, size_t n,
                         ABT_pool_context c)
{
    for (size_t i = 0; i < n; i++)
        up_push(pool, units[i], c);
}
static int up_init(ABT_pool pool, ABT_pool_config cfg)
{
    (void)cfg;
    upool_t *d = (upool_t *)calloc(1, sizeof(upool_t));
    OK(ABT_pool_set_data(pool, d));
    return ABT_SUCCESS;
}
static void up_free(ABT_pool pool)
{
    free(up_data(pool));
}
static size_t up_get_size(ABT_pool pool)
{
    return (size_t)up_data(pool)->n;
}
static void up_print_all(ABT_pool pool, void *arg,
                         void (*fn)(void *, ABT_thread))
{
    upool_t *d = up_data(pool);
    for (int i = 0; i < d->n; i++)
        fn(arg, ((uunit_t *)d->q[(d->head + i) % UPOOL_CAP])->thread);
}
static ABT_pool_user_def make_udef(void)
{
    ABT_pool_user_def def;
    OK(ABT_pool_user_def_create(up_create_unit, up_free_unit, up_is_empty,
                                up_pop, up_push, &def));
    OK(ABT_pool_user_def_set_init(def, up_init));
    OK(ABT_pool_user_def_set_free(def, up_free));
    OK(ABT_pool_user_def_set_get_size(def, up_get_size));
    OK(ABT_pool_user_def_set_print_all(def, up_print_all));
    return def;
}

/* old-style ABT_pool_def pool (deprecated interface, still documented) */
static ABT_unit old_create_from_thread(ABT_thread t)
{
    return up_create_unit(ABT_POOL_NULL, t);
}
static void old_unit_free(ABT_unit *u)
{
    up_free_unit(ABT_POOL_NULL, *u);
}
static void old_push(ABT_pool pool, ABT_unit u)
{
    up_push(pool, u, 0);
}
static ABT_unit old_pop(ABT_pool pool)
{
    upool_t *d = up_data(pool);
    if (d->n == 0)
        return ABT_UNIT_NULL;
    ABT_unit u = d->q[d->head];
    d->head = (d->head + 1) % UPOOL_CAP;
    d->n--;
    return u;
}
static int old_free(ABT_pool pool)
{
    up_free(pool);
    return ABT_SUCCESS;
}
static void fill_old_def(ABT_pool_def *def)
{
    memset(def, 0, sizeof(*def));
    def->access = ABT_POOL_ACCESS_MPMC;
    def->u_create_from_thread = old_create_from_thread;
    def->u_free = old_unit_free;
    def->p_init = up_init;
    def->p_get_size = up_get_size;
    def->p_push = old_push;
    def->p_pop = old_pop;
    def->p_free = old_free;
}

/* bodies */
static void body_flag(void *arg)
{
    W.ran |= (int)(intptr_t)arg;
}
static void body_blocked(void *arg)
{
    (void)arg;
    abtmc_store(&W.ub_flag, 1);
    OK(ABT_eventual_wait(W.ev, NULL));
    W.ran |= RAN_UB;
}

/* ------------------------------------------------- white-box accounting */

static ABTI_sync_lifo_element *lifo_top(ABTI_sync_lifo *l)
{
#if ABTD_ATOMIC_SUPPORT_TAGGED_PTR
    void *p;
    size_t tag;
    ABTD_atomic_relaxed_load_non_atomic_tagged_ptr(&l->p_top, &p, &tag);
    return (ABTI_sync_lifo_element *)p;
#else
    return (ABTI_sync_lifo_element *)ABTD_atomic_relaxed_load_ptr(&l->p_top);
#endif
}
/* free headers reachable from the global pool */
static long gpool_free(ABTI_mem_pool_global_pool *g)
{
    long n = 0;
    for (ABTI_sync_lifo_element *e = lifo_top(&g->bucket_lifo); e; e = e->p_next)
        n += (long)g->num_headers_per_bucket;
    if (g->partial_bucket)
        n += (long)g->partial_bucket->bucket_info.num_headers;
    for (ABTI_sync_lifo_element *e = lifo_top(&g->mem_page_lifo); e;
         e = e->p_next) {
        ABTI_mem_pool_page *pg = (ABTI_mem_pool_page *)e; /* first member */
        n += (long)(pg->mem_extra_size / g->header_size);
    }
    return n;
}
static long gpool_capacity(ABTI_mem_pool_global_pool *g)
{
    long n = 0;
    for (ABTI_sync_lifo_element *e = lifo_top(&g->mem_page_lifo); e;
         e = e->p_next) {
        ABTI_mem_pool_page *pg = (ABTI_mem_pool_page *)e;
        n += (long)((pg->page_size - sizeof(ABTI_mem_pool_page)) /
                    g->header_size);
    }
    for (ABTI_mem_pool_page *pg = (ABTI_mem_pool_page *)
             ABTD_atomic_relaxed_load_ptr(&g->p_mem_page_empty);
         pg; pg = pg->p_next_empty_page)
        n += (long)((pg->page_size - sizeof(ABTI_mem_pool_page)) /
                    g->header_size);
    return n;
}
static long lpool_free(ABTI_mem_pool_local_pool *l)
{
    return (long)(l->bucket_index * l->num_headers_per_bucket +
                  l->buckets[l->bucket_index]->bucket_info.num_headers);
}
/* headers currently handed out (stack pool: which=0, descriptor pool: 1) */
static long mempool_in_use(int which)
{
    ABTI_global *g = ABTI_global_get_global();
    ABTI_mem_pool_global_pool *gp = which ? &g->mem_pool_desc : &g->mem_pool_stack;
    long fr = gpool_free(gp);
    fr += lpool_free(which ? &g->mem_pool_desc_ext : &g->mem_pool_stack_ext);
    for (ABTI_xstream *x = g->p_xstream_head; x; x = x->p_next)
        fr += lpool_free(which ? &x->mem_pool_desc : &x->mem_pool_stack);
    return gpool_capacity(gp) - fr;
}
/* headers the calling ES can still get without a new page */
static long mempool_avail(int which)
{
    ABTI_global *g = ABTI_global_get_global();
    ABTI_xstream *x = ABTI_local_get_xstream(ABTI_local_get_local());
    return gpool_free(which ? &g->mem_pool_desc : &g->mem_pool_stack) +
           lpool_free(which ? &x->mem_pool_desc : &x->mem_pool_stack);
}
/* Take headers out of ES0's pools until exactly `left` allocations can still
 * be served without a fresh page (the pool always keeps one header in
 * reserve, so the (left+1)-th allocation from now asks the system for a page).
 * This is the state a program with many live work units is in. */
static void drain_pools(int left)
{
    ABTI_xstream *x = ABTI_local_get_xstream(ABTI_local_get_local());
    while (mempool_avail(1) > 1 + left) {
        abtmc_check(W.ndrained_desc < ARRAY_LEN(W.drained_desc), "api_error",
                    "drain array too small");
        int r = ABTI_mem_pool_alloc(&x->mem_pool_desc,
                                    &W.drained_desc[W.ndrained_desc]);
        abtmc_check(r == ABT_SUCCESS, "api_error", "drain failed");
        W.ndrained_desc++;
    }
    while (mempool_avail(0) > 1 + left) {
        abtmc_check(W.ndrained_stack < ARRAY_LEN(W.drained_stack), "api_error",
                    "drain array too small");
        int r = ABTI_mem_pool_alloc(&x->mem_pool_stack,
                                    &W.drained_stack[W.ndrained_stack]);
        abtmc_check(r == ABT_SUCCESS, "api_error", "drain failed");
        W.ndrained_stack++;
    }
}
static void undrain_pools(void)
{
    ABTI_xstream *x = ABTI_local_get_xstream(ABTI_local_get_local());
    while (W.ndrained_desc > 0)
        ABTI_mem_pool_free(&x->mem_pool_desc, W.drained_desc[--W.ndrained_desc]);
    while (W.ndrained_stack > 0)
        ABTI_mem_pool_free(&x->mem_pool_stack,
                           W.drained_stack[--W.ndrained_stack]);
}

/* ledger block sets */
#define BLK_MAX 8192
typedef struct {
    int n;
    void *p[BLK_MAX];
    size_t sz[BLK_MAX];
} blkset_t;
static void blk_take(blkset_t *b)
{
    b->n = abtmc_ledger_blocks(b->p, b->sz, BLK_MAX);
    abtmc_check(b->n <= BLK_MAX, "api_error", "too many live blocks (%d)", b->n);
}
static int blk_has(const blkset_t *b, void *p, size_t sz)
{
    for (int i = 0; i < b->n; i++)
        if (b->p[i] == p && b->sz[i] == sz)
            return 1;
    return 0;
}

/* ------------------------------------------------------------- snapshot */

typedef struct {
    const char *name;
    int idx;
    uint64_t v;
} sent_t;
typedef struct {
    int n;
    sent_t e[400];
} snap_t;
static void S_add(snap_t *s, const char *name, int idx, uint64_t v)
{
    abtmc_check(s->n < ARRAY_LEN(s->e), "api_error", "snapshot too small");
    s->e[s->n].name = name;
    s->e[s->n].idx = idx;
    s->e[s->n].v = v;
    s->n++;
}
#define SP(x) ((uint64_t)(uintptr_t)(x))

static void snap_pool(snap_t *s, int idx, ABT_pool p, int contents)
{
    size_t sz, tot;
    ABT_pool_access acc;
    int id;
    ABT_bool empty;
    OK(ABT_pool_get_size(p, &sz));
    OK(ABT_pool_get_total_size(p, &tot));
    OK(ABT_pool_get_access(p, &acc));
    OK(ABT_pool_get_id(p, &id));
    OK(ABT_pool_is_empty(p, &empty));
    S_add(s, "pool.size", idx, sz);
    S_add(s, "pool.total_size", idx, tot);
    S_add(s, "pool.access", idx, acc);
    S_add(s, "pool.id", idx, (uint64_t)id);
    S_add(s, "pool.is_empty", idx, empty);
    S_add(s, "pool.num_scheds(wb)", idx,
          (uint64_t)ABTD_atomic_relaxed_load_int32(
              &ABTI_pool_get_ptr(p)->num_scheds));
    if (contents) {
        /* contents by pop-all and re-push in the same order */
        ABT_thread th[UPOOL_CAP];
        int n = 0;
        for (;;) {
            ABT_thread t;
            OK(ABT_pool_pop_thread(p, &t));
            if (t == ABT_THREAD_NULL)
                break;
            th[n++] = t;
        }
        S_add(s, "pool.content.n", idx, n);
        for (int i = 0; i < n; i++) {
            S_add(s, "pool.content", idx * 100 + i, SP(th[i]));
            OK(ABT_pool_push_thread(p, th[i]));
        }
    }
}
static void snap_thread(snap_t *s, int idx, ABT_thread t, int is_ult)
{
    ABT_thread_state st;
    ABT_pool lp;
    int lpid;
    ABT_unit_id id;
    void *arg, *v1, *v2;
    ABT_bool mig, unnamed, prim;
    ABT_unit unit;
    void (*fn)(void *);
    OK(ABT_thread_get_state(t, &st));
    OK(ABT_thread_get_last_pool(t, &lp));
    OK(ABT_thread_get_last_pool_id(t, &lpid));
    OK(ABT_thread_get_id(t, &id));
    OK(ABT_thread_get_arg(t, &arg));
    OK(ABT_thread_is_migratable(t, &mig));
    OK(ABT_thread_is_unnamed(t, &unnamed));
    OK(ABT_thread_is_primary(t, &prim));
    OK(ABT_thread_get_unit(t, &unit));
    OK(ABT_thread_get_thread_func(t, &fn));
    OK(ABT_thread_get_specific(t, W.key1, &v1));
    OK(ABT_thread_get_specific(t, W.key2, &v2));
    S_add(s, "thread.state", idx, st);
    S_add(s, "thread.last_pool", idx, SP(lp));
    S_add(s, "thread.last_pool_id", idx, (uint64_t)lpid);
    S_add(s, "thread.id", idx, id);
    S_add(s, "thread.arg", idx, SP(arg));
    S_add(s, "thread.migratable", idx, mig);
    S_add(s, "thread.unnamed", idx, unnamed);
    S_add(s, "thread.primary", idx, prim);
    S_add(s, "thread.unit", idx, SP(unit));
    S_add(s, "thread.func", idx, SP(fn));
    S_add(s, "thread.key1", idx, SP(v1));
    S_add(s, "thread.key2", idx, SP(v2));
    if (is_ult) {
        size_t ss;
        OK(ABT_thread_get_stacksize(t, &ss));
        S_add(s, "thread.stacksize", idx, ss);
    }
    S_add(s, "thread.request(wb)", idx,
          ABTD_atomic_relaxed_load_uint32(&ABTI_thread_get_ptr(t)->request));
}
static void snap_xstream(snap_t *s, int idx, ABT_xstream xs)
{
    int rank, np;
    ABT_xstream_state st;
    ABT_bool prim;
    ABT_sched sc;
    ABT_pool mp;
    size_t ssz, stot;
    OK(ABT_xstream_get_rank(xs, &rank));
    OK(ABT_xstream_get_state(xs, &st));
    OK(ABT_xstream_is_primary(xs, &prim));
    OK(ABT_xstream_get_main_sched(xs, &sc));
    OK(ABT_sched_get_num_pools(sc, &np));
    OK(ABT_xstream_get_main_pools(xs, 1, &mp));
    OK(ABT_sched_get_size(sc, &ssz));
    OK(ABT_sched_get_total_size(sc, &stot));
    S_add(s, "xstream.rank", idx, (uint64_t)rank);
    S_add(s, "xstream.state", idx, st);
    S_add(s, "xstream.primary", idx, prim);
    S_add(s, "xstream.main_sched", idx, SP(sc));
    S_add(s, "xstream.sched.num_pools", idx, (uint64_t)np);
    S_add(s, "xstream.main_pool", idx, SP(mp));
    S_add(s, "xstream.sched.size", idx, ssz);
    S_add(s, "xstream.sched.total_size", idx, stot);
    S_add(s, "xstream.sched.used(wb)", idx, ABTI_sched_get_ptr(sc)->used);
}

static void take_snapshot(snap_t *s)
{
    s->n = 0;
    int n;
    OK(ABT_xstream_get_num(&n));
    S_add(s, "xstream_num", 0, (uint64_t)n);
    snap_xstream(s, 0, W.es0);
    snap_xstream(s, 1, W.es1);
    int rank;
    ABT_thread self;
    OK(ABT_self_get_xstream_rank(&rank));
    OK(ABT_self_get_thread(&self));
    S_add(s, "self.rank", 0, (uint64_t)rank);
    S_add(s, "self.thread", 0, SP(self));
    snap_pool(s, 0, W.p0, 0);
    snap_pool(s, 1, W.p1, 0);
    snap_pool(s, 2, W.pq, 1);
    snap_pool(s, 3, W.pu, 1);
    snap_pool(s, 4, W.pspare, 0);
    snap_thread(s, 0, W.main_ult, 1);
    snap_thread(s, 1, W.ub, 1);
    snap_thread(s, 2, W.u1, 1);
    snap_thread(s, 3, W.t1, 0);
    snap_thread(s, 4, W.w1, 1);
    snap_thread(s, 5, W.w2, 1);
    snap_thread(s, 6, W.uterm, 1);
    snap_thread(s, 7, W.tterm, 0);
    {
        int np;
        ABT_pool sp;
        size_t ssz;
        OK(ABT_sched_get_num_pools(W.sched_spare, &np));
        OK(ABT_sched_get_pools(W.sched_spare, 1, 0, &sp));
        OK(ABT_sched_get_size(W.sched_spare, &ssz));
        S_add(s, "sched_spare.num_pools", 0, (uint64_t)np);
        S_add(s, "sched_spare.pool", 0, SP(sp));
        S_add(s, "sched_spare.size", 0, ssz);
        S_add(s, "sched_spare.used(wb)", 0,
              ABTI_sched_get_ptr(W.sched_spare)->used);
        S_add(s, "sched_spare.ythread(wb)", 0,
              SP(ABTI_sched_get_ptr(W.sched_spare)->p_ythread));
    }
    {
        int freq = -1, uv = -1;
        ABT_sched_config_type ty;
        OK(ABT_sched_config_get(W.scfg, 1, &ty, &uv));
        S_add(s, "scfg.var1", 0, (uint64_t)uv);
        S_add(s, "scfg.var1.type", 0, ty);
        int r = ABT_sched_config_get(W.scfg, 7, &ty, &uv);
        S_add(s, "scfg.var7.ret", 0, (uint64_t)r);
        OK(ABT_sched_config_read(W.scfg, 1, &freq));
        S_add(s, "scfg.read0", 0, (uint64_t)freq);
    }
    {
        int v = -1;
        ABT_pool_config_type ty;
        OK(ABT_pool_config_get(W.pcfg, 3, &ty, &v));
        S_add(s, "pcfg.key3", 0, (uint64_t)v);
        S_add(s, "pcfg.key3.type", 0, ty);
        int r = ABT_pool_config_get(W.pcfg, 9, &ty, &v);
        S_add(s, "pcfg.key9.ret", 0, (uint64_t)r);
    }
    {
        size_t ss;
        ABT_bool rec;
        OK(ABT_thread_attr_get_stacksize(W.attr, &ss));
        OK(ABT_mutex_attr_get_recursive(W.mattr, &rec));
        S_add(s, "attr.stacksize", 0, ss);
        S_add(s, "mattr.recursive", 0, rec);
    }
    {
        ABT_bool ready;
        void *v1, *v2;
        OK(ABT_eventual_test(W.ev, NULL, &ready));
        S_add(s, "ev.ready", 0, ready);
        OK(ABT_key_get(W.key1, &v1));
        OK(ABT_key_get(W.key2, &v2));
        S_add(s, "self.key1", 0, SP(v1));
        S_add(s, "self.key2", 0, SP(v2));
        int r = ABT_mutex_trylock(W.mtx);
        S_add(s, "mtx.trylock", 0, (uint64_t)r);
        if (r == ABT_SUCCESS)
            OK(ABT_mutex_unlock(W.mtx));
    }
    S_add(s, "ran", 0, (uint64_t)W.ran);
    S_add(s, "dtor_calls", 0, (uint64_t)W.dtor_calls);
    S_add(s, "user_units_live", 0, (uint64_t)W.upool_live_units);
    S_add(s, "global.num_xstreams(wb)", 0,
          (uint64_t)ABTI_global_get_global()->num_xstreams);
}

/* --------------------------------------------------------- build / tear */

#define VAL(n) ((void *)(uintptr_t)(0xA000 + (n)))

static void c18_env(int envkind);

static void build_world(void)
{
    W.es0 = h_self_xstream();
    W.p0 = h_main_pool(W.es0);
    OK(ABT_self_get_thread(&W.main_ult));
    OK(ABT_xstream_create(ABT_SCHED_NULL, &W.es1));
    W.p1 = h_main_pool(W.es1);
    OK(ABT_eventual_create(sizeof(int), &W.ev));
    OK(ABT_key_create(key1_dtor, &W.key1));
    OK(ABT_key_create(NULL, &W.key2));
    OK(ABT_mutex_create(&W.mtx));
    OK(ABT_timer_create(&W.timer));

    /* a unit blocked on an eventual on the second stream */
    OK(ABT_thread_create(W.p1, body_blocked, NULL, ABT_THREAD_ATTR_NULL, &W.ub));
    abtmc_wait_until_eq(&W.ub_flag, 1);
    for (;;) {
        ABT_thread_state st;
        OK(ABT_thread_get_state(W.ub, &st));
        if (st == ABT_THREAD_STATE_BLOCKED)
            break;
        OK(ABT_thread_yield());
    }

    /* parked pool with two queued units */
    OK(ABT_pool_create_basic(ABT_POOL_FIFO, ABT_POOL_ACCESS_MPMC, ABT_FALSE,
                             &W.pq));
    OK(ABT_thread_create(W.pq, body_flag, (void *)(intptr_t)RAN_U1,
                         ABT_THREAD_ATTR_NULL, &W.u1));
    OK(ABT_task_create(W.pq, body_flag, (void *)(intptr_t)RAN_T1, &W.t1));

    /* user-defined pool with two mapped units */
    W.udef = make_udef();
    OK(ABT_pool_create(W.udef, ABT_POOL_CONFIG_NULL, &W.pu));
    OK(ABT_thread_create(W.pu, body_flag, (void *)(intptr_t)RAN_W1,
                         ABT_THREAD_ATTR_NULL, &W.w1));
    OK(ABT_thread_create(W.pu, body_flag, (void *)(intptr_t)RAN_W2,
                         ABT_THREAD_ATTR_NULL, &W.w2));

    /* terminated, unfreed units */
    OK(ABT_thread_create(W.p0, body_flag, (void *)(intptr_t)RAN_UTERM,
                         ABT_THREAD_ATTR_NULL, &W.uterm));
    OK(ABT_task_create(W.p0, body_flag, (void *)(intptr_t)RAN_TTERM, &W.tterm));
    OK(ABT_thread_join(W.uterm));
    OK(ABT_task_join(W.tterm));

    /* key values on live units */
    OK(ABT_key_set(W.key1, VAL(1)));
    OK(ABT_key_set(W.key2, VAL(2)));
    OK(ABT_thread_set_specific(W.u1, W.key1, VAL(3)));
    OK(ABT_thread_set_specific(W.w1, W.key2, VAL(4)));

    /* configuration objects */
    {
        ABT_sched_config_var v1 = { 1, ABT_SCHED_CONFIG_INT };
        OK(ABT_sched_config_create(&W.scfg, ABT_sched_basic_freq, 7, v1, 11,
                                   ABT_sched_config_automatic, 0,
                                   ABT_sched_config_var_end));
        int v = 33;
        OK(ABT_pool_config_create(&W.pcfg));
        OK(ABT_pool_config_set(W.pcfg, 3, ABT_POOL_CONFIG_INT, &v));
        OK(ABT_thread_attr_create(&W.attr));
        OK(ABT_thread_attr_set_stacksize(W.attr, 8192));
        OK(ABT_mutex_attr_create(&W.mattr));
        OK(ABT_mutex_attr_set_recursive(W.mattr, ABT_TRUE));
    }
    /* an unused scheduler that must be freed by the user */
    OK(ABT_pool_create_basic(ABT_POOL_FIFO, ABT_POOL_ACCESS_MPMC, ABT_FALSE,
                             &W.pspare));
    OK(ABT_sched_create_basic(ABT_SCHED_BASIC, 1, &W.pspare, W.scfg,
                              &W.sched_spare));
}

/* follow-up workload: everything that existed before the call is used and
 * released; a damaged object shows up as a hang, a crash, a wrong flag or a
 * non-empty ledger after ABT_finalize */
static void run_and_free(ABT_thread *t, ABT_pool from)
{
    /* the unit is queued in a parked pool: take it out and run it on ES0 */
    (void)from;
    OK(ABT_pool_push_thread(W.p0, *t));
    OK(ABT_thread_free(t));
}
static void teardown_world(const char *api)
{
    char key[96];
    snprintf(key, sizeof key, "followup:%s", api);
    undrain_pools();
    int v = 1;
    OK(ABT_eventual_set(W.ev, &v, sizeof v));
    OK(ABT_thread_free(&W.ub));
    if (W.pq != ABT_POOL_NULL) {
        ABT_thread t;
        for (int i = 0; i < 2; i++) {
            OK(ABT_pool_pop_thread(W.pq, &t));
            abtmc_check(t == (i == 0 ? W.u1 : W.t1), key,
                        "parked pool returned an unexpected unit");
            if (i == 0) {
                OK(ABT_self_schedule(t, ABT_POOL_NULL));
                OK(ABT_thread_free(&t));
            } else {
                run_and_free(&t, W.pq);
            }
        }
        OK(ABT_pool_pop_thread(W.pq, &t));
        abtmc_check(t == ABT_THREAD_NULL, key, "parked pool not empty");
    }
    if (W.pu != ABT_POOL_NULL) {
        ABT_thread t;
        for (int i = 0; i < 2; i++) {
            OK(ABT_pool_pop_thread(W.pu, &t));
            abtmc_check(t == (i == 0 ? W.w1 : W.w2), key,
                        "user pool returned an unexpected unit");
            run_and_free(&t, W.pu);
        }
        OK(ABT_pool_pop_thread(W.pu, &t));
        abtmc_check(t == ABT_THREAD_NULL, key, "user pool not empty");
    }
    if (W.uterm != ABT_THREAD_NULL)
        OK(ABT_thread_free(&W.uterm));
    if (W.tterm != ABT_THREAD_NULL)
        OK(ABT_thread_free(&W.tterm));
    /* no unit is associated with the parked pools any more */
    OK(ABT_pool_free(&W.pq));
    OK(ABT_pool_free(&W.pu));
    int expect = RAN_UB | RAN_U1 | RAN_T1 | RAN_W1 | RAN_W2 | RAN_UTERM |
                 RAN_TTERM;
    abtmc_check((W.ran & expect) == expect, key,
                "not every pre-existing unit ran (mask 0x%x of 0x%x)", W.ran,
                expect);
    if (W.sched_spare != ABT_SCHED_NULL)
        OK(ABT_sched_free(&W.sched_spare));
    if (W.pspare != ABT_POOL_NULL)
        OK(ABT_pool_free(&W.pspare));
    OK(ABT_pool_user_def_free(&W.udef));
    OK(ABT_sched_config_free(&W.scfg));
    OK(ABT_pool_config_free(&W.pcfg));
    OK(ABT_thread_attr_free(&W.attr));
    OK(ABT_mutex_attr_free(&W.mattr));
    OK(ABT_mutex_lock(W.mtx));
    OK(ABT_mutex_unlock(W.mtx));
    OK(ABT_mutex_free(&W.mtx));
    OK(ABT_timer_free(&W.timer));
    OK(ABT_eventual_free(&W.ev));
    void *v1;
    OK(ABT_key_get(W.key1, &v1));
    abtmc_check(v1 == VAL(1), key, "key value of the primary ULT changed");
    OK(ABT_key_free(&W.key1));
    OK(ABT_key_free(&W.key2));
    OK(ABT_xstream_join(W.es1));
    OK(ABT_xstream_free(&W.es1));
}

#endif
