/* c08_xbarrier.c -- C08 (ABT_xstream_barrier half).  2-3 callers, one per
 * execution stream (the primary ULT on ES0, a ULT or tasklet on ES1, a ULT on
 * ES2) or an external thread, run 2-3 consecutive rounds of
 * ABT_xstream_barrier_wait with only the stamps in between.
 *
 * Build flavour "mc": HAVE_PTHREAD_BARRIER_INIT, the wait is glibc's
 * pthread_barrier_wait, which the engine MODELS -- these runs only check the
 * wrapper (num_waiters>1 gate, create/free, error codes).
 * Build flavour "mc-nobar": Argobots' own lock + counter + tag (sense
 * reversal) implementation in src/stream_barrier.c is compiled and explored.
 * Oracle: see c08_common.h. */
#include "c08_common.h"

enum { K_M, K_E1, K_E2, K_T1, K_X };

typedef struct {
    const char *name;
    int quick;
    int n;      /* num_waiters of the barrier */
    int nact;   /* callers; == n except for n == 1 */
    int kind[B_MAXA];
    int rounds;
} cfg_t;

static const cfg_t cfgs[] = {
    { "xbar n=2 r=2: M@ES0 + U@ES1", 1, 2, 2, { K_M, K_E1 }, 2 },
    { "xbar n=1 r=2: M@ES0, U@ES1 (no waiting)", 1, 1, 2, { K_M, K_E1 }, 2 },
    { "xbar n=2 r=3: U@ES1 + X", 1, 2, 2, { K_E1, K_X }, 3 },
    { "xbar n=3 r=2: M@ES0 + U@ES1 + U@ES2", 0, 3, 3, { K_M, K_E1, K_E2 }, 2 },
    { "xbar n=2 r=2: tasklet@ES1 + M@ES0", 0, 2, 2, { K_T1, K_M }, 2 },
    { "xbar n=2 r=3: M@ES0 + U@ES1", 0, 2, 2, { K_M, K_E1 }, 3 },
    { "xbar n=2 r=3: X + X", 0, 2, 2, { K_X, K_X }, 3 },
};

static const cfg_t *C;
static ABT_xstream_barrier XB;

static void caller(int i)
{
    for (int k = 0; k < C->rounds; k++) {
        b_arrive(i, k);
        int rc = ABT_xstream_barrier_wait(XB);
        abtmc_check(rc == ABT_SUCCESS, "xbarrier_wait_rc",
                    "ABT_xstream_barrier_wait returned %d", rc);
        if (C->n > 1)
            b_depart(i, k, "ABT_xstream_barrier");
        else
            b_leave[i][k] = abtmc_step() + 1;
    }
}

static void caller_body(void *arg)
{
    caller((int)(intptr_t)arg);
}

static void scenario(int cfg)
{
    C = &cfgs[cfg];
    h_init();
    for (int k = 0; k < C->rounds; k++)
        b_part[k] = (1 << C->nact) - 1;
    ABT_xstream es[3] = { ABT_XSTREAM_NULL, ABT_XSTREAM_NULL, ABT_XSTREAM_NULL };
    ABT_pool pool[3];
    for (int i = 0; i < C->nact; i++) {
        int e = C->kind[i] == K_E2 ? 2
                                   : (C->kind[i] == K_E1 || C->kind[i] == K_T1)
                                         ? 1
                                         : 0;
        if (e && es[e] == ABT_XSTREAM_NULL) {
            OK(ABT_xstream_create(ABT_SCHED_NULL, &es[e]));
            pool[e] = h_main_pool(es[e]);
        }
    }
    {
        /* num_waiters == 0 is rejected, the handle is set to NULL (1.x) */
        ABT_xstream_barrier z = (ABT_xstream_barrier)(intptr_t)0x1;
        int rc = ABT_xstream_barrier_create(0, &z);
        abtmc_check(rc == ABT_ERR_INV_ARG && z == ABT_XSTREAM_BARRIER_NULL,
                    "xbarrier_create_zero",
                    "ABT_xstream_barrier_create(0) returned %d", rc);
    }
    OK(ABT_xstream_barrier_create((uint32_t)C->n, &XB));

    abtmc_window_begin();
    ABT_thread th[B_MAXA];
    int xt[B_MAXA];
    for (int i = 0; i < C->nact; i++) {
        void *arg = (void *)(intptr_t)i;
        th[i] = ABT_THREAD_NULL;
        xt[i] = -1;
        switch (C->kind[i]) {
            case K_E1:
                OK(ABT_thread_create(pool[1], caller_body, arg,
                                     ABT_THREAD_ATTR_NULL, &th[i]));
                break;
            case K_E2:
                OK(ABT_thread_create(pool[2], caller_body, arg,
                                     ABT_THREAD_ATTR_NULL, &th[i]));
                break;
            case K_T1: OK(ABT_task_create(pool[1], caller_body, arg, &th[i])); break;
            case K_X: xt[i] = abtmc_thread_create(caller_body, arg); break;
            default: break;
        }
    }
    for (int i = 0; i < C->nact; i++)
        if (C->kind[i] == K_M)
            caller(i);
    for (int i = 0; i < C->nact; i++)
        if (th[i] != ABT_THREAD_NULL)
            OK(ABT_thread_free(&th[i]));
    for (int i = 0; i < C->nact; i++)
        if (xt[i] >= 0)
            abtmc_thread_join(xt[i]);
    abtmc_window_end();

    if (C->n > 1) {
        b_check_all(C->rounds, "ABT_xstream_barrier");
        b_observe(C->rounds);
    } else {
        /* every call returns at once; show the calls did interleave */
        int before = 0;
        for (int k = 0; k < C->rounds; k++) {
            abtmc_check(b_leave[0][k] && b_leave[1][k], "barrier_lost_waiter",
                        "a call on a 1-waiter barrier did not return");
            for (int m = 0; m < C->rounds; m++)
                before += b_enter[0][k] < b_enter[1][m];
        }
        abtmc_observe("n=1 order=%d", before);
    }

    OK(ABT_xstream_barrier_free(&XB));
    abtmc_check(XB == ABT_XSTREAM_BARRIER_NULL, "xbarrier_free",
                "handle not reset by ABT_xstream_barrier_free");
    for (int e = 1; e < 3; e++)
        if (es[e] != ABT_XSTREAM_NULL) {
            OK(ABT_xstream_join(es[e]));
            OK(ABT_xstream_free(&es[e]));
        }
    h_finalize();
    abtmc_check(abtmc_ledger_live() == 0, "leak",
                "%ld allocations of libabt still live after ABT_finalize",
                abtmc_ledger_live());
}

static const char *cfg_name(int i) { return cfgs[i].name; }
static int cfg_quick(int i) { return cfgs[i].quick; }

int main(int argc, char **argv)
{
    static abtmc_driver d = { "c08_xbarrier", "C08", ARRAY_LEN(cfgs), cfg_name,
                              scenario, cfg_quick };
    return abtmc_main(argc, argv, &d);
}
