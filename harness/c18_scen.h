/* c18_scen.h -- the API scenario table of c18_faults.c (included there).
 * Every scenario has: prep(v) (extra pre-existing objects, built before the
 * snapshot), call(v) (the routine under test, out-handles registered with
 * ARM_OUT), use(v) (use and release what a successful call produced). */

#define CHECKK(cond, ...) abtmc_check(cond, K("followup"), __VA_ARGS__)

/* run a ULT on a pool of ES0 and wait for it */
static void run_on(ABT_pool p, int add)
{
    ABT_thread t;
    OK(ABT_thread_create(p, body_rflag, (void *)(intptr_t)add,
                         ABT_THREAD_ATTR_NULL, &t));
    OK(ABT_thread_free(&t));
}

/* ---------------------------------------------------------- streams */

static int c_xstream_create(int v)
{
    ARM_OUT(R.xs, ABT_XSTREAM_NULL);
    switch (v) {
        case 0: return ABT_xstream_create(ABT_SCHED_NULL, &R.xs);
        case 1: return ABT_xstream_create(W.sched_spare, &R.xs);
        default: return ABT_xstream_create_with_rank(ABT_SCHED_NULL, 5, &R.xs);
    }
}
static void u_xstream(int v)
{
    ABT_pool p = h_main_pool(R.xs);
    int rank;
    OK(ABT_xstream_get_rank(R.xs, &rank));
    CHECKK(rank == (v == 2 ? 5 : 2), "new stream has rank %d", rank);
    if (v == 1)
        CHECKK(p == W.pspare, "new stream does not use the given scheduler");
    R.flag = 0;
    run_on(p, 1);
    OK(ABT_xstream_join(R.xs));
    OK(ABT_xstream_free(&R.xs));
    CHECKK(R.flag == 1, "unit on the new stream did not run");
}
static int c_xstream_create_basic(int v)
{
    static const ABT_sched_predef kinds[] = { ABT_SCHED_BASIC, ABT_SCHED_PRIO,
                                              ABT_SCHED_RANDWS,
                                              ABT_SCHED_BASIC_WAIT };
    ARM_OUT(R.xs, ABT_XSTREAM_NULL);
    if (v < 4) /* pools created by the routine (NULL needs num_pools == 0) */
        return ABT_xstream_create_basic(kinds[v], 0, NULL, W.scfg, &R.xs);
    /* user-given pools: one existing, one to be created */
    ABT_pool pools[2] = { R.ppool, ABT_POOL_NULL };
    return ABT_xstream_create_basic(ABT_SCHED_BASIC, 2, pools,
                                    ABT_SCHED_CONFIG_NULL, &R.xs);
}
static void p_one_pool(int v)
{
    (void)v;
    OK(ABT_pool_create_basic(ABT_POOL_FIFO, ABT_POOL_ACCESS_MPMC, ABT_TRUE,
                             &R.ppool));
}
static void af_one_pool(int v)
{
    /* the given (automatic) pool must still exist and be unused */
    (void)v;
    size_t sz;
    OK(ABT_pool_get_size(R.ppool, &sz));
    abtmc_check(sz == 0 && ABTD_atomic_relaxed_load_int32(
                               &ABTI_pool_get_ptr(R.ppool)->num_scheds) == 0,
                K("state_changed"), "user-given pool still referenced");
}
static void u_xstream_basic(int v)
{
    ABT_pool p = h_main_pool(R.xs);
    if (v == 4)
        CHECKK(p == R.ppool, "first pool is not the given one");
    ABT_sched sc;
    OK(ABT_xstream_get_main_sched(R.xs, &sc));
    R.flag = 0;
    run_on(p, 1);
    OK(ABT_xstream_join(R.xs));
    OK(ABT_xstream_free(&R.xs)); /* frees an automatic scheduler and pools */
    if (v < 4) {
        OK(ABT_sched_free(&sc)); /* W.scfg says automatic = 0 */
        OK(ABT_pool_free(&R.ppool)); /* never given to a scheduler */
    }
    CHECKK(R.flag == 1, "unit on the new stream did not run");
}
static void p_joined_xs(int v)
{
    (void)v;
    OK(ABT_xstream_create(ABT_SCHED_NULL, &R.pxs));
    OK(ABT_xstream_join(R.pxs));
}
static int c_xstream_revive(int v)
{
    (void)v;
    return ABT_xstream_revive(R.pxs);
}
static void af_joined_xs(int v)
{
    (void)v;
    ABT_xstream_state st;
    OK(ABT_xstream_get_state(R.pxs, &st));
    abtmc_check(st == ABT_XSTREAM_STATE_TERMINATED, K("state_changed"),
                "stream state is %d after a failed revive", st);
}
static void u_xstream_revive(int v)
{
    (void)v;
    R.flag = 0;
    run_on(h_main_pool(R.pxs), 1);
    OK(ABT_xstream_join(R.pxs));
    OK(ABT_xstream_free(&R.pxs));
    CHECKK(R.flag == 1, "unit on the revived stream did not run");
}
/* main scheduler of the calling (primary) stream */
static void p_user_pool(int v)
{
    (void)v;
    OK(ABT_pool_create(W.udef, ABT_POOL_CONFIG_NULL, &R.ppool));
}
static void p_set_main_sched(int v)
{
    if (v == 2) {
        /* scheduler whose first pool is user-defined: the caller must be
         * re-associated, which needs a unit and a map entry */
        p_user_pool(v);
        ABT_sched_config_var dummy = { 5, ABT_SCHED_CONFIG_INT };
        (void)dummy;
        OK(ABT_sched_create_basic(ABT_SCHED_BASIC, 1, &R.ppool, W.scfg,
                                  &R.psched));
    }
}
static int c_set_main_sched(int v)
{
    switch (v) {
        case 0: return ABT_xstream_set_main_sched(W.es0, ABT_SCHED_NULL);
        case 1: return ABT_xstream_set_main_sched(W.es0, W.sched_spare);
        default: return ABT_xstream_set_main_sched(W.es0, R.psched);
    }
}
static void u_set_main_sched(int v)
{
    ABT_sched sc;
    OK(ABT_xstream_get_main_sched(W.es0, &sc));
    W.p0 = h_main_pool(W.es0); /* the old automatic scheduler + pool are gone */
    if (v == 1)
        CHECKK(sc == W.sched_spare && W.p0 == W.pspare, "wrong main scheduler");
    if (v == 2)
        CHECKK(sc == R.psched && W.p0 == R.ppool, "wrong main scheduler");
    R.flag = 0;
    run_on(W.p0, 1);
    CHECKK(R.flag == 1, "unit under the new main scheduler did not run");
    /* schedulers of the primary stream are released by ABT_finalize */
    if (v == 1) {
        W.sched_spare = ABT_SCHED_NULL;
        W.pspare = ABT_POOL_NULL;
    }
}
static void p_set_main_sched_basic(int v)
{
    if (v == 1)
        p_user_pool(v);
    if (v == 2)
        p_one_pool(v);
}
static int c_set_main_sched_basic(int v)
{
    ABT_pool pools[2] = { ABT_POOL_NULL, ABT_POOL_NULL };
    if (v == 0)
        return ABT_xstream_set_main_sched_basic(W.es0, ABT_SCHED_PRIO, 2, pools);
    pools[0] = R.ppool;
    return ABT_xstream_set_main_sched_basic(W.es0, ABT_SCHED_BASIC, 2, pools);
}
static void af_set_main_sched_basic(int v)
{
    if (v >= 1)
        af_one_pool(v);
}
static void u_set_main_sched_basic(int v)
{
    W.p0 = h_main_pool(W.es0);
    if (v >= 1)
        CHECKK(W.p0 == R.ppool, "wrong first pool");
    R.flag = 0;
    run_on(W.p0, 1);
    CHECKK(R.flag == 1, "unit under the new main scheduler did not run");
}
/* main scheduler of a terminated stream */
static int c_set_main_sched_term(int v)
{
    if (v == 0)
        return ABT_xstream_set_main_sched(R.pxs, ABT_SCHED_NULL);
    ABT_pool pools[1] = { ABT_POOL_NULL };
    return ABT_xstream_set_main_sched_basic(R.pxs, ABT_SCHED_RANDWS, 1, pools);
}
static void u_set_main_sched_term(int v)
{
    (void)v;
    OK(ABT_xstream_revive(R.pxs));
    u_xstream_revive(v);
}

/* ------------------------------------------------------- schedulers */

static int my_sched_init(ABT_sched s, ABT_sched_config c)
{
    int v = -1;
    if (c != ABT_SCHED_CONFIG_NULL)
        OK(ABT_sched_config_read(c, 2, NULL, &v));
    OK(ABT_sched_set_data(s, (void *)(intptr_t)(v + 100)));
    return ABT_SUCCESS;
}
static void my_sched_run(ABT_sched s)
{
    ABT_pool p;
    OK(ABT_sched_get_pools(s, 1, 0, &p));
    for (;;) {
        ABT_thread t;
        OK(ABT_pool_pop_thread(p, &t));
        if (t != ABT_THREAD_NULL)
            OK(ABT_self_schedule(t, ABT_POOL_NULL));
        ABT_bool stop;
        OK(ABT_sched_has_to_stop(s, &stop));
        if (stop)
            break;
        OK(ABT_xstream_check_events(s));
    }
}
static int my_sched_free(ABT_sched s)
{
    (void)s;
    R.flag += 1000;
    return ABT_SUCCESS;
}
static ABT_sched_def my_sched_def = { ABT_SCHED_TYPE_ULT, my_sched_init,
                                      my_sched_run, my_sched_free, NULL };

static int c_sched_create(int v)
{
    ARM_OUT(R.sched, ABT_SCHED_NULL);
    ABT_pool pools[3] = { R.ppool, ABT_POOL_NULL, W.pq };
    if (v == 0)
        return ABT_sched_create(&my_sched_def, 3, pools, W.scfg, &R.sched);
    static const ABT_sched_predef kinds[] = { ABT_SCHED_BASIC, ABT_SCHED_PRIO,
                                              ABT_SCHED_RANDWS,
                                              ABT_SCHED_BASIC_WAIT };
    if (v <= 4)
        return ABT_sched_create_basic(kinds[v - 1], 3, pools, W.scfg, &R.sched);
    return ABT_sched_create_basic(ABT_SCHED_BASIC, 0, NULL,
                                  ABT_SCHED_CONFIG_NULL, &R.sched);
}
static void af_sched_create(int v)
{
    af_one_pool(v);
}
static void u_sched_create(int v)
{
    int np;
    OK(ABT_sched_get_num_pools(R.sched, &np));
    if (v <= 4) {
        CHECKK(np == 3, "scheduler has %d pools", np);
        ABT_pool pools[3];
        OK(ABT_sched_get_pools(R.sched, 3, 0, pools));
        CHECKK(pools[0] == R.ppool && pools[2] == W.pq &&
                   pools[1] != ABT_POOL_NULL,
               "scheduler pools wrong");
    }
    R.flag = 0;
    /* W.scfg says automatic=0 for v<=4; v==5 is automatic but never used:
     * either way the user frees it */
    OK(ABT_sched_free(&R.sched));
    if (v == 0)
        CHECKK(R.flag == 1000, "user free() of the scheduler not called");
    /* R.ppool was automatic and its only scheduler is gone: it has been freed
     * together with the scheduler */
    if (v == 5)
        OK(ABT_pool_free(&R.ppool)); /* never given to a scheduler */
}
static int c_sched_config_create(int v)
{
    ABT_sched_config_var a = { 2, ABT_SCHED_CONFIG_INT };
    ABT_sched_config_var b = { 9, ABT_SCHED_CONFIG_DOUBLE };
    ABT_sched_config_var c = { 4, ABT_SCHED_CONFIG_PTR };
    ARM_OUT(R.scfg, ABT_SCHED_CONFIG_NULL);
    if (v == 0)
        return ABT_sched_config_create(&R.scfg, ABT_sched_config_var_end);
    return ABT_sched_config_create(&R.scfg, a, 5, b, 2.5, c, (void *)&R,
                                   ABT_sched_basic_freq, 3,
                                   ABT_sched_config_var_end);
}
static void u_sched_config(int v)
{
    if (v == 1) {
        int i = 0;
        double dd = 0;
        void *p = NULL;
        ABT_sched_config_type ty;
        OK(ABT_sched_config_get(R.scfg, 2, &ty, &i));
        OK(ABT_sched_config_get(R.scfg, 9, &ty, &dd));
        OK(ABT_sched_config_get(R.scfg, 4, &ty, &p));
        CHECKK(i == 5 && dd == 2.5 && p == (void *)&R, "config values wrong");
    }
    OK(ABT_sched_config_free(&R.scfg));
}
static int c_sched_config_set(int v)
{
    int val = 77;
    /* v=0: new index in an existing config; v=1: overwrite */
    return ABT_sched_config_set(W.scfg, v == 0 ? 12 : 1, ABT_SCHED_CONFIG_INT,
                                &val);
}
static void u_sched_config_set(int v)
{
    int val = 0;
    ABT_sched_config_type ty;
    OK(ABT_sched_config_get(W.scfg, v == 0 ? 12 : 1, &ty, &val));
    CHECKK(val == 77, "config value not stored");
}

/* ------------------------------------------------------------ pools */

static int c_pool_create_basic(int v)
{
    static const ABT_pool_kind kinds[] = { ABT_POOL_FIFO, ABT_POOL_FIFO_WAIT,
                                           ABT_POOL_RANDWS };
    static const ABT_pool_access acc[] = { ABT_POOL_ACCESS_MPMC,
                                           ABT_POOL_ACCESS_PRIV,
                                           ABT_POOL_ACCESS_SPSC };
    ARM_OUT(R.pool, ABT_POOL_NULL);
    return ABT_pool_create_basic(kinds[v], acc[v], ABT_FALSE, &R.pool);
}
static void u_pool(int v)
{
    (void)v;
    /* push a unit through the new pool, then run it on ES0 */
    ABT_thread t, t2;
    R.flag = 0;
    OK(ABT_thread_create(R.pool, body_rflag, (void *)1, ABT_THREAD_ATTR_NULL,
                         &t));
    size_t sz;
    OK(ABT_pool_get_size(R.pool, &sz));
    CHECKK(sz == 1, "new pool has size %zu after one push", sz);
    OK(ABT_pool_pop_thread(R.pool, &t2));
    CHECKK(t2 == t, "new pool returned another unit");
    OK(ABT_pool_push_thread(W.p0, t));
    OK(ABT_thread_free(&t));
    CHECKK(R.flag == 1, "unit did not run");
    OK(ABT_pool_free(&R.pool));
}
static int c_pool_create(int v)
{
    ARM_OUT(R.pool, ABT_POOL_NULL);
    if (v == 0)
        return ABT_pool_create(W.udef, ABT_POOL_CONFIG_NULL, &R.pool);
    if (v == 1)
        return ABT_pool_create(W.udef, W.pcfg, &R.pool);
    ABT_pool_def od;
    fill_old_def(&od);
    return ABT_pool_create(&od, W.pcfg, &R.pool);
}
static int c_pool_config_create(int v)
{
    (void)v;
    ARM_OUT(R.pcfg, ABT_POOL_CONFIG_NULL);
    return ABT_pool_config_create(&R.pcfg);
}
static void u_pool_config(int v)
{
    (void)v;
    int val = 5;
    OK(ABT_pool_config_set(R.pcfg, 1, ABT_POOL_CONFIG_INT, &val));
    OK(ABT_pool_config_free(&R.pcfg));
}
static int c_pool_config_set(int v)
{
    int val = 88;
    /* key 11 shares the bucket of key 3 (table of 8): chain growth */
    return ABT_pool_config_set(W.pcfg, v == 0 ? 11 : 3, ABT_POOL_CONFIG_INT,
                               &val);
}
static void u_pool_config_set(int v)
{
    int val = 0;
    ABT_pool_config_type ty;
    OK(ABT_pool_config_get(W.pcfg, v == 0 ? 11 : 3, &ty, &val));
    CHECKK(val == 88, "pool config value not stored");
}
static int c_pool_user_def_create(int v)
{
    (void)v;
    ARM_OUT(R.udef, ABT_POOL_USER_DEF_NULL);
    return ABT_pool_user_def_create(up_create_unit, up_free_unit, up_is_empty,
                                    up_pop, up_push, &R.udef);
}
static void u_pool_user_def(int v)
{
    (void)v;
    OK(ABT_pool_user_def_set_init(R.udef, up_init));
    OK(ABT_pool_user_def_set_free(R.udef, up_free));
    OK(ABT_pool_user_def_set_get_size(R.udef, up_get_size));
    OK(ABT_pool_create(R.udef, ABT_POOL_CONFIG_NULL, &R.pool));
    OK(ABT_pool_user_def_free(&R.udef));
    u_pool(0);
}
/* stackable scheduler pushed to a pool */
static void p_add_sched(int v)
{
    p_one_pool(v);
    ABT_sched_config c;
    OK(ABT_sched_config_create(&c, ABT_sched_config_automatic, v >= 2 ? 1 : 0,
                               ABT_sched_config_var_end));
    OK(ABT_sched_create_basic(ABT_SCHED_BASIC, 1, &R.ppool, c, &R.psched));
    OK(ABT_sched_config_free(&c));
}
static int c_pool_add_sched(int v)
{
    /* v=0: ES0's main pool; v=1: the user-defined pool; v=2: ES0's pool,
     * automatic scheduler; v=3: user-defined pool, automatic scheduler */
    return ABT_pool_add_sched((v & 1) ? W.pu : W.p0, R.psched);
}
static void af_add_sched(int v)
{
    (void)v;
    abtmc_check(abtmc_ledger_find(ABTI_sched_get_ptr(R.psched), NULL, NULL),
                K("freed_preexisting"),
                "the scheduler passed to the failed ABT_pool_add_sched has "
                "been freed; the caller still owns its handle");
    abtmc_check(ABTI_sched_get_ptr(R.psched)->used == ABTI_SCHED_NOT_USED &&
                    ABTI_sched_get_ptr(R.psched)->p_ythread == NULL,
                K("state_changed"),
                "scheduler marked used / has a ULT after a failed add_sched");
}
static void u_pool_add_sched(int v)
{
    /* give the stacked scheduler a unit, let it run, finish it */
    ABT_thread t;
    R.flag = 0;
    OK(ABT_thread_create(R.ppool, body_rflag, (void *)1, ABT_THREAD_ATTR_NULL,
                         &t));
    if (v & 1) {
        /* the scheduler's ULT sits in the parked user pool behind w1, w2: take
         * all three out and put the scheduler's ULT into ES0's pool */
        ABT_thread a, b, c;
        OK(ABT_pool_pop_thread(W.pu, &a));
        OK(ABT_pool_pop_thread(W.pu, &b));
        OK(ABT_pool_pop_thread(W.pu, &c));
        CHECKK(a == W.w1 && b == W.w2 && c != ABT_THREAD_NULL,
               "user pool contents after add_sched");
        OK(ABT_pool_push_thread(W.pu, a));
        OK(ABT_pool_push_thread(W.pu, b));
        OK(ABT_pool_push_thread(W.p0, c));
    }
    OK(ABT_sched_finish(R.psched));
    OK(ABT_thread_free(&t));
    CHECKK(R.flag == 1, "unit of the stacked scheduler did not run");
    if (v < 2) {
        /* wait until the scheduler's (unnamed) ULT is gone, then free it */
        while (ABTI_sched_get_ptr(R.psched)->used != ABTI_SCHED_NOT_USED)
            OK(ABT_thread_yield());
        OK(ABT_sched_free(&R.psched));
    } else {
        /* automatic: freed together with its ULT; let the ULT finish */
        while (abtmc_ledger_find(ABTI_sched_get_ptr(R.psched), NULL, NULL))
            OK(ABT_thread_yield());
    }
}

/* the automatic-scheduler-into-user-pool case as a scenario of its own (it
 * has its own config so that a finding there is told apart from the rest) */
static void p_add_sched3(int v)
{
    (void)v;
    p_add_sched(3);
}
static int c_pool_add_sched3(int v)
{
    (void)v;
    return c_pool_add_sched(3);
}
static void af_add_sched3(int v)
{
    (void)v;
    af_add_sched(3);
}
static void u_pool_add_sched3(int v)
{
    (void)v;
    u_pool_add_sched(3);
}

/* ---------------------------------------------------------- threads */

static void cb_mig(ABT_thread t, void *arg)
{
    (void)t;
    (void)arg;
    R.flag += 100;
}
static void p_thread_attr(int v)
{
    OK(ABT_thread_attr_create(&R.attr));
    switch (v) {
        case 1: OK(ABT_thread_attr_set_stacksize(R.attr, 32768)); break;
        case 2:
            R.stackmem = malloc(32768);
            OK(ABT_thread_attr_set_stack(R.attr, R.stackmem, 32768));
            break;
        case 3: OK(ABT_thread_attr_set_callback(R.attr, cb_mig, NULL)); break;
        case 4:
            OK(ABT_thread_attr_set_stacksize(R.attr, 32768));
            OK(ABT_thread_attr_set_callback(R.attr, cb_mig, NULL));
            OK(ABT_thread_attr_set_migratable(R.attr, ABT_FALSE));
            break;
        default: break;
    }
}
/* targets: 0 = ES0's pool, 1 = ES1's pool, 2 = user-defined parked pool */
static ABT_pool tgt_pool(int t)
{
    return t == 0 ? W.p0 : t == 1 ? W.p1 : W.pu;
}
static void finish_new_thread(int tgt, ABT_thread *t)
{
    if (tgt == 2) {
        /* parked user pool: w1 w2 are in front */
        ABT_thread a, b, c;
        OK(ABT_pool_pop_thread(W.pu, &a));
        OK(ABT_pool_pop_thread(W.pu, &b));
        OK(ABT_pool_pop_thread(W.pu, &c));
        CHECKK(a == W.w1 && b == W.w2 && c != ABT_THREAD_NULL &&
                   (*t == ABT_THREAD_NULL || c == *t),
               "user pool contents after the creation");
        OK(ABT_pool_push_thread(W.pu, a));
        OK(ABT_pool_push_thread(W.pu, b));
        OK(ABT_pool_push_thread(W.p0, c));
    }
    if (*t != ABT_THREAD_NULL)
        OK(ABT_thread_free(t));
    else
        for (int i = 0; i < 3; i++)
            OK(ABT_thread_yield());
}
/* ABT_thread_create, default attribute: v = target (0..2), 3 = unnamed to ES0 */
static int c_thread_create(int v)
{
    R.flag = 0;
    if (v == 3)
        return ABT_thread_create(W.p0, body_rflag, (void *)1,
                                 ABT_THREAD_ATTR_NULL, NULL);
    ARM_OUT(R.th, ABT_THREAD_NULL);
    return ABT_thread_create(tgt_pool(v), body_rflag, (void *)1,
                             ABT_THREAD_ATTR_NULL, &R.th);
}
static void u_thread_create(int v)
{
    if (v == 3)
        R.th = ABT_THREAD_NULL;
    finish_new_thread(v == 3 ? 0 : v, &R.th);
    CHECKK(R.flag == 1, "new ULT did not run (flag=%d)", R.flag);
}
/* ABT_thread_create with attributes (v = attribute kind 0..4) to ES0's pool */
static int c_thread_create_attr(int v)
{
    (void)v;
    R.flag = 0;
    ARM_OUT(R.th, ABT_THREAD_NULL);
    return ABT_thread_create(W.p0, body_rflag_yield, (void *)1, R.attr, &R.th);
}
static void u_thread_create_attr(int v)
{
    (void)v;
    OK(ABT_thread_free(&R.th));
    CHECKK(R.flag == 2, "new ULT did not run (flag=%d)", R.flag);
    OK(ABT_thread_attr_free(&R.attr));
    free(R.stackmem);
}
static void af_attr(int v)
{
    (void)v;
    size_t ss;
    OK(ABT_thread_attr_get_stacksize(R.attr, &ss));
    abtmc_check(ss == ((v == 1 || v == 2 || v == 4) ? 32768 : 16384),
                K("state_changed"), "attribute stack size changed to %zu", ss);
}
/* attribute + user-defined pool */
static int c_thread_create_attr_upool(int v)
{
    (void)v;
    R.flag = 0;
    ARM_OUT(R.th, ABT_THREAD_NULL);
    return ABT_thread_create(W.pu, body_rflag, (void *)1, R.attr, &R.th);
}
static void u_thread_create_attr_upool(int v)
{
    (void)v;
    finish_new_thread(2, &R.th);
    CHECKK(R.flag == 1, "new ULT did not run (flag=%d)", R.flag);
    OK(ABT_thread_attr_free(&R.attr));
    free(R.stackmem);
}
static int c_thread_create_to(int v)
{
    R.flag = 0;
    ARM_OUT(R.th, ABT_THREAD_NULL);
    if (v == 0)
        return ABT_thread_create_to(W.p0, body_rflag_yield, (void *)1,
                                    ABT_THREAD_ATTR_NULL, &R.th);
    return ABT_thread_create_to(W.p0, body_rflag_yield, (void *)1, R.attr,
                                &R.th);
}
static void p_create_to(int v)
{
    if (v == 1)
        p_thread_attr(4);
}
static void af_create_to(int v)
{
    (void)v;
    abtmc_check(R.flag == 0, K("state_changed"),
                "the new ULT ran although ABT_thread_create_to failed");
}
static void u_thread_create_to(int v)
{
    CHECKK(R.flag >= 1, "create_to returned before the new ULT ran");
    OK(ABT_thread_free(&R.th));
    CHECKK(R.flag == 2, "new ULT did not finish (flag=%d)", R.flag);
    if (v == 1)
        OK(ABT_thread_attr_free(&R.attr));
}
static int c_thread_create_on_xstream(int v)
{
    R.flag = 0;
    ARM_OUT(R.th, ABT_THREAD_NULL);
    return ABT_thread_create_on_xstream(v == 0 ? W.es1 : W.es0, body_rflag,
                                        (void *)1, ABT_THREAD_ATTR_NULL, &R.th);
}
static void u_thread_named(int v)
{
    (void)v;
    OK(ABT_thread_free(&R.th));
    CHECKK(R.flag == 1, "new unit did not run (flag=%d)", R.flag);
}
static int c_task_create(int v)
{
    R.flag = 0;
    if (v == 3)
        return ABT_task_create(W.p0, body_rflag, (void *)1, NULL);
    if (v == 4) {
        ARM_OUT(R.th, ABT_TASK_NULL);
        return ABT_task_create_on_xstream(W.es1, body_rflag, (void *)1, &R.th);
    }
    ARM_OUT(R.th, ABT_TASK_NULL);
    return ABT_task_create(tgt_pool(v), body_rflag, (void *)1, &R.th);
}
static void u_task_create(int v)
{
    if (v == 3)
        R.th = ABT_THREAD_NULL;
    finish_new_thread(v >= 3 ? 0 : v, &R.th);
    CHECKK(R.flag == 1, "new tasklet did not run (flag=%d)", R.flag);
}
/* revive a terminated unit into the user-defined pool (needs a fresh unit) */
static int c_revive(int v)
{
    R.flag = 0;
    switch (v) {
        case 0: return ABT_thread_revive(W.pu, body_rflag, (void *)1, &W.uterm);
        case 1: return ABT_task_revive(W.pu, body_rflag, (void *)1, &W.tterm);
        default:
            return ABT_thread_revive_to(W.pu, body_rflag, (void *)1, &W.uterm);
    }
}
static void u_revive(int v)
{
    ABT_thread *t = v == 1 ? &W.tterm : &W.uterm;
    if (v == 2) {
        /* revive_to runs it immediately */
        CHECKK(R.flag == 1, "revive_to returned before the unit ran");
        return;
    }
    ABT_thread h = ABT_THREAD_NULL;
    finish_new_thread(2, &h);
    OK(ABT_thread_join(*t));
    CHECKK(R.flag == 1, "revived unit did not run (flag=%d)", R.flag);
}
/* ---- migration data / callbacks / keys of existing units */
static int c_migrate(int v)
{
    switch (v) {
        case 0: return ABT_thread_migrate_to_pool(W.u1, W.pspare);
        case 1: return ABT_thread_migrate_to_sched(W.u1, W.sched_spare);
        case 2: return ABT_thread_migrate_to_xstream(W.u1, W.es1);
        case 3: return ABT_thread_migrate_to_pool(W.w1, W.pq);
        default: return ABT_thread_migrate_to_pool(W.ub, W.p0);
    }
}
static void u_migrate(int v)
{
    /* the request is pending; it is carried out when the unit is scheduled.
     * The blocked unit (v=4) migrates to ES0's pool when it is resumed by the
     * follow-up; the others are scheduled here and put back. */
    ABT_thread t = v == 3 ? W.w1 : v == 4 ? W.ub : W.u1;
    abtmc_check(ABTD_atomic_relaxed_load_uint32(
                    &ABTI_thread_get_ptr(t)->request) &
                    ABTI_THREAD_REQ_MIGRATE,
                K("followup"), "no migration request registered");
    ABT_thread a, b, c;
    size_t sz;
    if (v <= 2) {
        OK(ABT_pool_pop_thread(W.pq, &a));
        OK(ABT_pool_pop_thread(W.pq, &b));
        CHECKK(a == W.u1 && b == W.t1, "parked pool contents");
        OK(ABT_self_schedule(a, ABT_POOL_NULL)); /* migrates instead of running */
        if (v <= 1) {
            OK(ABT_pool_get_size(W.pspare, &sz));
            CHECKK(sz == 1 && !(W.ran & RAN_U1), "unit did not migrate");
            OK(ABT_pool_pop_thread(W.pspare, &c));
            CHECKK(c == W.u1, "migration target holds another unit");
            OK(ABT_pool_push_thread(W.pq, a));
        } else {
            /* ES1 runs it; bring a fresh incarnation back for the follow-up */
            OK(ABT_thread_join(W.u1));
            CHECKK(W.ran & RAN_U1, "migrated unit did not run on ES1");
            W.ran &= ~RAN_U1;
            OK(ABT_thread_revive(W.pq, body_flag, (void *)(intptr_t)RAN_U1,
                                 &W.u1));
        }
        OK(ABT_pool_push_thread(W.pq, b));
    } else if (v == 3) {
        OK(ABT_pool_pop_thread(W.pu, &a));
        OK(ABT_pool_pop_thread(W.pu, &b));
        CHECKK(a == W.w1 && b == W.w2, "user pool contents");
        OK(ABT_self_schedule(a, ABT_POOL_NULL));
        OK(ABT_pool_get_size(W.pq, &sz));
        CHECKK(sz == 3 && !(W.ran & RAN_W1), "unit did not migrate");
        ABT_thread x, y, z;
        OK(ABT_pool_pop_thread(W.pq, &x));
        OK(ABT_pool_pop_thread(W.pq, &y));
        OK(ABT_pool_pop_thread(W.pq, &z));
        CHECKK(x == W.u1 && y == W.t1 && z == W.w1, "migration target contents");
        OK(ABT_pool_push_thread(W.pq, x));
        OK(ABT_pool_push_thread(W.pq, y));
        OK(ABT_pool_push_thread(W.pu, a));
        OK(ABT_pool_push_thread(W.pu, b));
    }
}
static int c_set_callback(int v)
{
    return ABT_thread_set_callback(v == 0 ? W.u1 : v == 1 ? W.w2 : W.ub, cb_mig,
                                   NULL);
}
/* key tables: v=0 first key of a unit without table (t1); v=1 third key of a
 * unit with a table (u1): chain growth; v=2 the calling ULT (ABT_key_set);
 * v=3 many keys on w2 */
static void p_keys(int v)
{
    (void)v;
    for (int i = 0; i < 12; i++)
        OK(ABT_key_create(NULL, &R.pkeys[i]));
    /* fill u1's table so that the extra space of its first block is used up */
    for (int i = 0; i < 3; i++)
        OK(ABT_thread_set_specific(W.u1, R.pkeys[i], VAL(10 + i)));
    for (int i = 0; i < 3; i++)
        OK(ABT_key_set(R.pkeys[i], VAL(20 + i)));
}
static int c_set_specific(int v)
{
    switch (v) {
        case 0: return ABT_thread_set_specific(W.t1, W.key1, VAL(50));
        case 1: return ABT_thread_set_specific(W.u1, R.pkeys[5], VAL(51));
        case 2: return ABT_key_set(R.pkeys[6], VAL(52));
        case 3: return ABT_thread_set_specific(W.ub, R.pkeys[7], VAL(53));
        default: return ABT_self_set_specific(R.pkeys[8], VAL(54));
    }
}
static void af_keys(int v)
{
    (void)v;
    void *p;
    for (int i = 0; i < 3; i++) {
        OK(ABT_thread_get_specific(W.u1, R.pkeys[i], &p));
        abtmc_check(p == VAL(10 + i), K("state_changed"),
                    "key value %d of the queued unit changed", i);
        OK(ABT_key_get(R.pkeys[i], &p));
        abtmc_check(p == VAL(20 + i), K("state_changed"),
                    "key value %d of the caller changed", i);
    }
    static const int ks[] = { -1, 5, 6, 7, 8 };
    ABT_thread ts[] = { W.t1, W.u1, W.main_ult, W.ub, W.main_ult };
    if (v >= 1) {
        OK(ABT_thread_get_specific(ts[v], R.pkeys[ks[v]], &p));
        abtmc_check(p == NULL, K("state_changed"),
                    "failed set_specific left a value behind");
    }
}
static void u_set_specific(int v)
{
    void *p = NULL;
    switch (v) {
        case 0: OK(ABT_thread_get_specific(W.t1, W.key1, &p)); break;
        case 1: OK(ABT_thread_get_specific(W.u1, R.pkeys[5], &p)); break;
        case 2: OK(ABT_key_get(R.pkeys[6], &p)); break;
        case 3: OK(ABT_thread_get_specific(W.ub, R.pkeys[7], &p)); break;
        default: OK(ABT_self_get_specific(R.pkeys[8], &p)); break;
    }
    CHECKK(p == VAL(50 + v), "key value not stored");
    af_keys(-1);
    for (int i = 0; i < 12; i++)
        OK(ABT_key_free(&R.pkeys[i]));
}
/* re-association of an existing unit with the user-defined pool */
static void p_popped(int v)
{
    /* u1 and t1 are taken out of their pool (a scheduler would do that) */
    (void)v;
    OK(ABT_pool_pop_thread(W.pq, &R.pth[0]));
    OK(ABT_pool_pop_thread(W.pq, &R.pth[1]));
}
static int c_set_assoc(int v)
{
    switch (v) {
        case 0: return ABT_thread_set_associated_pool(R.pth[0], W.pu);
        case 1: return ABT_pool_push_thread(W.pu, R.pth[1]);
        case 2: {
            ABT_unit u;
            OK(ABT_thread_get_unit(R.pth[0], &u));
            return ABT_pool_push(W.pu, u);
        }
        default: return ABT_thread_set_associated_pool(W.uterm, W.pu);
    }
}
static void u_set_assoc(int v)
{
    /* bring everything back to the parked FIFO pool in the original order */
    if (v == 1) {
        ABT_thread a, b, c;
        OK(ABT_pool_pop_thread(W.pu, &a));
        OK(ABT_pool_pop_thread(W.pu, &b));
        OK(ABT_pool_pop_thread(W.pu, &c));
        CHECKK(a == W.w1 && b == W.w2 && c == W.t1, "user pool contents");
        OK(ABT_pool_push_thread(W.pu, a));
        OK(ABT_pool_push_thread(W.pu, b));
    }
    if (v == 2) {
        ABT_thread a, b, c;
        OK(ABT_pool_pop_thread(W.pu, &a));
        OK(ABT_pool_pop_thread(W.pu, &b));
        OK(ABT_pool_pop_thread(W.pu, &c));
        CHECKK(a == W.w1 && b == W.w2 && c == W.u1, "user pool contents");
        OK(ABT_pool_push_thread(W.pu, a));
        OK(ABT_pool_push_thread(W.pu, b));
    }
    if (v == 0 || v == 2) {
        ABT_pool p;
        OK(ABT_thread_get_last_pool(R.pth[0], &p));
        CHECKK(p == W.pu, "unit not associated with the new pool");
    }
    OK(ABT_pool_push_thread(W.pq, R.pth[0]));
    OK(ABT_pool_push_thread(W.pq, R.pth[1]));
}
static void af_popped(int v)
{
    (void)v;
    ABT_pool p;
    OK(ABT_thread_get_last_pool(R.pth[0], &p));
    abtmc_check(p == W.pq, K("state_changed"), "popped unit changed its pool");
    OK(ABT_thread_get_last_pool(R.pth[1], &p));
    abtmc_check(p == W.pq, K("state_changed"), "popped unit changed its pool");
}
/* several units at once into a user-defined pool with push_many:
 * v=0 two units with built-in units; v=1 {w1 (unit of another user pool), u1,
 * ABT_THREAD_NULL, t1}; v=2 66 tasklets (the unit array is allocated) */
static int user_unit_ok(ABT_thread t)
{
    ABT_unit u;
    OK(ABT_thread_get_unit(t, &u));
    return ((uunit_t *)u)->magic == 0x1234 && ((uunit_t *)u)->thread == t;
}
static void p_push_many(int v)
{
    p_popped(v);
    ABT_pool_user_def def = make_udef();
    OK(ABT_pool_user_def_set_push_many(def, up_push_many));
    OK(ABT_pool_create(def, ABT_POOL_CONFIG_NULL, &R.ppool));
    OK(ABT_pool_user_def_free(&def));
    if (v == 1) {
        OK(ABT_pool_pop_thread(W.pu, &R.pth[2]));
        OK(ABT_pool_pop_thread(W.pu, &R.pth[3]));
    }
    if (v == 2) {
        OK(ABT_pool_create_basic(ABT_POOL_FIFO, ABT_POOL_ACCESS_MPMC, ABT_FALSE,
                                 &R.ppool2));
        for (int i = 0; i < 66; i++)
            OK(ABT_task_create(R.ppool2, body_rflag, (void *)1, &R.many[i]));
        for (int i = 0; i < 66; i++) {
            ABT_thread t;
            OK(ABT_pool_pop_thread(R.ppool2, &t));
        }
    }
}
static int c_push_threads(int v)
{
    if (v == 0)
        return ABT_pool_push_threads(R.ppool, R.pth, 2);
    if (v == 1) {
        ABT_thread l[4] = { R.pth[2], R.pth[0], ABT_THREAD_NULL, R.pth[1] };
        return ABT_pool_push_threads(R.ppool, l, 4);
    }
    return ABT_pool_push_threads(R.ppool, R.many, 66);
}
static void u_push_threads(int v)
{
    ABT_thread a, b, c;
    if (v == 0) {
        OK(ABT_pool_pop_thread(R.ppool, &a));
        OK(ABT_pool_pop_thread(R.ppool, &b));
        CHECKK(a == W.u1 && b == W.t1, "pushed units not found in the pool");
    } else if (v == 1) {
        OK(ABT_pool_pop_thread(R.ppool, &c));
        OK(ABT_pool_pop_thread(R.ppool, &a));
        OK(ABT_pool_pop_thread(R.ppool, &b));
        CHECKK(c == W.w1 && a == W.u1 && b == W.t1,
               "pushed units not found in the pool");
        OK(ABT_pool_push_thread(W.pu, R.pth[2]));
        OK(ABT_pool_push_thread(W.pu, R.pth[3]));
    } else {
        R.flag = 0;
        for (int i = 0; i < 66; i++) {
            OK(ABT_pool_pop_thread(R.ppool, &c));
            CHECKK(c == R.many[i], "pushed tasklet %d not found", i);
            OK(ABT_pool_push_thread(W.p0, c));
        }
        for (int i = 0; i < 66; i++)
            OK(ABT_thread_free(&R.many[i]));
        CHECKK(R.flag == 66, "only %d of 66 tasklets ran", R.flag);
        OK(ABT_pool_free(&R.ppool2));
    }
    OK(ABT_pool_push_thread(W.pq, R.pth[0]));
    OK(ABT_pool_push_thread(W.pq, R.pth[1]));
    OK(ABT_pool_free(&R.ppool));
}
static void af_push_threads(int v)
{
    af_popped(v);
    size_t sz;
    OK(ABT_pool_get_size(R.ppool, &sz));
    abtmc_check(sz == 0, K("state_changed"),
                "%zu unit(s) were pushed although the call failed", sz);
    if (v == 1) {
        ABT_pool p;
        OK(ABT_thread_get_last_pool(R.pth[2], &p));
        abtmc_check(p == W.pu && user_unit_ok(R.pth[2]), K("state_changed"),
                    "popped unit lost its pool / unit although the call failed");
    }
    if (v == 2) {
        for (int i = 0; i < 66; i++) {
            ABT_pool p;
            OK(ABT_thread_get_last_pool(R.many[i], &p));
            abtmc_check(p == R.ppool2, K("state_changed"),
                        "tasklet %d of 66 was re-associated although the call "
                        "failed", i);
        }
    }
}
static int c_self_schedule(int v)
{
    (void)v;
    R.flag = 0;
    /* run the popped u1 as a child, associating it with the user pool */
    return ABT_self_schedule(R.pth[0], W.pu);
}
static void u_self_schedule(int v)
{
    (void)v;
    abtmc_check(W.ran & RAN_U1, K("followup"), "scheduled unit did not run");
    /* u1 has terminated: revive it into the parked pool for the follow-up */
    W.ran &= ~RAN_U1;
    OK(ABT_thread_revive(W.pq, body_flag, (void *)(intptr_t)RAN_U1, &W.u1));
    OK(ABT_pool_push_thread(W.pq, R.pth[1]));
    OK(ABT_thread_set_specific(W.u1, W.key1, VAL(3)));
}
static int c_get_attr(int v)
{
    ARM_OUT(R.attr, ABT_THREAD_ATTR_NULL);
    return ABT_thread_get_attr(v == 0 ? W.u1 : v == 1 ? W.main_ult : W.ub,
                               &R.attr);
}
static void u_get_attr(int v)
{
    size_t ss;
    OK(ABT_thread_attr_get_stacksize(R.attr, &ss));
    if (v == 0)
        CHECKK(ss == 16384, "attribute copy has stack size %zu", ss);
    OK(ABT_thread_attr_free(&R.attr));
}

/* ------------------------------------------------ sync objects etc. */

static void body_lock(void *arg)
{
    (void)arg;
    OK(ABT_mutex_lock(R.mtx));
    R.flag++;
    OK(ABT_mutex_unlock(R.mtx));
}
static int c_mutex_create(int v)
{
    ARM_OUT(R.mtx, ABT_MUTEX_NULL);
    if (v == 0)
        return ABT_mutex_create(&R.mtx);
    return ABT_mutex_create_with_attr(W.mattr, &R.mtx);
}
static void u_mutex(int v)
{
    R.flag = 0;
    OK(ABT_mutex_lock(R.mtx));
    if (v == 1)
        OK(ABT_mutex_lock(R.mtx));
    ABT_thread t;
    OK(ABT_thread_create(W.p0, body_lock, NULL, ABT_THREAD_ATTR_NULL, &t));
    OK(ABT_thread_yield());
    CHECKK(R.flag == 0, "mutual exclusion");
    if (v == 1)
        OK(ABT_mutex_unlock(R.mtx));
    OK(ABT_mutex_unlock(R.mtx));
    OK(ABT_thread_free(&t));
    CHECKK(R.flag == 1, "locker did not get the mutex");
    OK(ABT_mutex_free(&R.mtx));
}
static int c_mutex_attr_create(int v)
{
    ARM_OUT(R.mattr, ABT_MUTEX_ATTR_NULL);
    if (v == 0)
        return ABT_mutex_attr_create(&R.mattr);
    return ABT_mutex_get_attr(W.mtx, &R.mattr);
}
static void u_mutex_attr(int v)
{
    (void)v;
    ABT_bool rec;
    OK(ABT_mutex_attr_get_recursive(R.mattr, &rec));
    CHECKK(rec == ABT_FALSE, "fresh mutex attribute is recursive");
    OK(ABT_mutex_attr_free(&R.mattr));
}
static void body_cond(void *arg)
{
    (void)arg;
    OK(ABT_mutex_lock(W.mtx));
    R.flag = 1;
    OK(ABT_cond_signal(R.cond));
    OK(ABT_mutex_unlock(W.mtx));
}
static int c_cond_create(int v)
{
    (void)v;
    ARM_OUT(R.cond, ABT_COND_NULL);
    return ABT_cond_create(&R.cond);
}
static void u_cond(int v)
{
    (void)v;
    ABT_thread t;
    R.flag = 0;
    OK(ABT_mutex_lock(W.mtx));
    OK(ABT_thread_create(W.p0, body_cond, NULL, ABT_THREAD_ATTR_NULL, &t));
    while (R.flag == 0)
        OK(ABT_cond_wait(R.cond, W.mtx));
    OK(ABT_mutex_unlock(W.mtx));
    OK(ABT_thread_free(&t));
    OK(ABT_cond_free(&R.cond));
}
static int c_rwlock_create(int v)
{
    (void)v;
    ARM_OUT(R.rw, ABT_RWLOCK_NULL);
    return ABT_rwlock_create(&R.rw);
}
static void u_rwlock(int v)
{
    (void)v;
    OK(ABT_rwlock_rdlock(R.rw));
    OK(ABT_rwlock_rdlock(R.rw));
    OK(ABT_rwlock_unlock(R.rw));
    OK(ABT_rwlock_unlock(R.rw));
    OK(ABT_rwlock_wrlock(R.rw));
    OK(ABT_rwlock_unlock(R.rw));
    OK(ABT_rwlock_free(&R.rw));
}
static int c_eventual_create(int v)
{
    ARM_OUT(R.ev, ABT_EVENTUAL_NULL);
    return ABT_eventual_create(v == 0 ? 0 : 24, &R.ev);
}
static void u_eventual(int v)
{
    char buf[24] = "hello";
    void *p = NULL;
    OK(ABT_eventual_set(R.ev, v ? buf : NULL, v ? 24 : 0));
    OK(ABT_eventual_wait(R.ev, &p));
    if (v)
        CHECKK(p && memcmp(p, buf, 24) == 0, "eventual value");
    OK(ABT_eventual_free(&R.ev));
}
static void fut_cb(void **args)
{
    R.flag = (args[0] == VAL(1) && args[1] == VAL(2)) ? 7 : -1;
}
static int c_future_create(int v)
{
    ARM_OUT(R.fut, ABT_FUTURE_NULL);
    return ABT_future_create(2, v == 0 ? NULL : fut_cb, &R.fut);
}
static void u_future(int v)
{
    R.flag = 0;
    OK(ABT_future_set(R.fut, VAL(1)));
    OK(ABT_future_set(R.fut, VAL(2)));
    OK(ABT_future_wait(R.fut));
    if (v)
        CHECKK(R.flag == 7, "future callback");
    OK(ABT_future_free(&R.fut));
}
static void body_barrier(void *arg)
{
    (void)arg;
    R.flag++;
    OK(ABT_barrier_wait(R.bar));
}
static int c_barrier_create(int v)
{
    (void)v;
    ARM_OUT(R.bar, ABT_BARRIER_NULL);
    return ABT_barrier_create(2, &R.bar);
}
static void u_barrier(int v)
{
    (void)v;
    ABT_thread t;
    R.flag = 0;
    OK(ABT_thread_create(W.p0, body_barrier, NULL, ABT_THREAD_ATTR_NULL, &t));
    OK(ABT_barrier_wait(R.bar));
    CHECKK(R.flag == 1, "barrier released early");
    OK(ABT_thread_free(&t));
    OK(ABT_barrier_free(&R.bar));
}
static void body_xbarrier(void *arg)
{
    (void)arg;
    R.flag++;
    OK(ABT_xstream_barrier_wait(R.xbar));
}
static int c_xstream_barrier_create(int v)
{
    (void)v;
    ARM_OUT(R.xbar, ABT_XSTREAM_BARRIER_NULL);
    return ABT_xstream_barrier_create(2, &R.xbar);
}
static void u_xstream_barrier(int v)
{
    (void)v;
    ABT_thread t;
    R.flag = 0;
    /* the other waiter runs on ES1 */
    OK(ABT_thread_create(W.p1, body_xbarrier, NULL, ABT_THREAD_ATTR_NULL, &t));
    OK(ABT_xstream_barrier_wait(R.xbar));
    CHECKK(R.flag == 1, "xstream barrier released early");
    OK(ABT_thread_free(&t));
    OK(ABT_xstream_barrier_free(&R.xbar));
}
static int c_timer_create(int v)
{
    ARM_OUT(R.timer, ABT_TIMER_NULL);
    if (v == 0)
        return ABT_timer_create(&R.timer);
    return ABT_timer_dup(W.timer, &R.timer);
}
static void u_timer(int v)
{
    (void)v;
    double s;
    OK(ABT_timer_start(R.timer));
    OK(ABT_timer_stop(R.timer));
    OK(ABT_timer_read(R.timer, &s));
    OK(ABT_timer_free(&R.timer));
}
static int c_key_create(int v)
{
    ARM_OUT(R.key, ABT_KEY_NULL);
    return ABT_key_create(v == 0 ? NULL : key1_dtor, &R.key);
}
static void u_key(int v)
{
    void *p;
    OK(ABT_key_set(R.key, VAL(9)));
    OK(ABT_key_get(R.key, &p));
    CHECKK(p == VAL(9), "new key does not hold its value");
    if (v == 1)
        OK(ABT_key_set(R.key, NULL)); /* no destructor call at finalize */
    OK(ABT_key_free(&R.key));
}
static int c_thread_attr_create(int v)
{
    (void)v;
    ARM_OUT(R.attr, ABT_THREAD_ATTR_NULL);
    return ABT_thread_attr_create(&R.attr);
}
static void u_thread_attr(int v)
{
    (void)v;
    OK(ABT_thread_attr_set_stacksize(R.attr, 20480));
    R.flag = 0;
    ABT_thread t;
    OK(ABT_thread_create(W.p0, body_rflag, (void *)1, R.attr, &t));
    OK(ABT_thread_free(&t));
    CHECKK(R.flag == 1, "ULT with the new attribute did not run");
    OK(ABT_thread_attr_free(&R.attr));
}

/* ------------------------------------------------------- info */

static FILE *nullfp;
static int c_info_stacks(int v)
{
    if (!nullfp)
        nullfp = fopen("/dev/null", "w");
    switch (v) {
        case 0: return ABT_info_print_thread_stacks_in_pool(nullfp, W.pq);
        case 1: return ABT_info_print_thread_stacks_in_pool(nullfp, W.pu);
        case 2: return ABT_info_print_all_xstreams(nullfp);
        case 3: return ABT_info_print_config(nullfp);
        default: return ABT_info_print_pool(nullfp, W.pu);
    }
}

static void print_cb(ABT_bool timeout, void *arg)
{
    (void)timeout;
    (void)arg;
    R.flag += 1;
}
static int c_info_trigger(int v)
{
    (void)v;
    if (!nullfp)
        nullfp = fopen("/dev/null", "w");
    R.flag = 0;
    /* time-out 0: the first stream that checks events prints at once */
    int r = ABT_info_trigger_print_all_thread_stacks(nullfp, 0.0, print_cb,
                                                     NULL);
    if (r != ABT_SUCCESS)
        return r;
    OK(ABT_thread_yield()); /* ES0's scheduler checks events and prints */
    return R.flag == 1 ? ABT_SUCCESS : ABT_ERR_OTHER;
}
/* a pending migration into the user-defined pool is carried out when the unit
 * is scheduled; that needs a unit + map entry */
static void p_pending_migration(int v)
{
    OK(ABT_thread_migrate_to_pool(W.u1, W.pu));
    p_popped(v);
}
static int c_schedule_migrating(int v)
{
    (void)v;
    return ABT_self_schedule(R.pth[0], ABT_POOL_NULL);
}
static void u_schedule_migrating(int v)
{
    (void)v;
    if (W.ran & RAN_U1) {
        /* the migration could not be done; the unit simply ran */
        W.ran &= ~RAN_U1;
        OK(ABT_thread_revive(W.pq, body_flag, (void *)(intptr_t)RAN_U1, &W.u1));
    } else {
        ABT_thread a, b, c;
        OK(ABT_pool_pop_thread(W.pu, &a));
        OK(ABT_pool_pop_thread(W.pu, &b));
        OK(ABT_pool_pop_thread(W.pu, &c));
        CHECKK(a == W.w1 && b == W.w2 && c == W.u1,
               "unit neither ran nor migrated");
        OK(ABT_pool_push_thread(W.pu, a));
        OK(ABT_pool_push_thread(W.pu, b));
        OK(ABT_pool_push_thread(W.pq, c));
    }
    OK(ABT_pool_push_thread(W.pq, R.pth[1]));
}

/* ----------------------------------------------------------- the table */

#define Q 1
static const scen_t scens[] = {
    /* name, api, quick, flags, env, nvariants, maxdrain, prep, call, use,
     * after_fail */
    /* --- ABT_init */
    { "init+streams+scheds+pools", "init:std", "ABT_init", Q, F_INIT, ENV_STD, 1, 0, NULL, NULL, NULL, NULL },
    { "init+streams+scheds+pools", "init:mmap_pages", "ABT_init", Q, F_INIT | F_FALLBACK, ENV_MMAP, 1, 0,
      NULL, NULL, NULL, NULL },
    { "other-environments", "init:hugepage_thp", "ABT_init", 0, F_INIT | F_FALLBACK, ENV_HUGE, 1, 0,
      NULL, NULL, NULL, NULL },
    { "other-environments", "init:stack_guard", "ABT_init", 0, F_INIT, ENV_GUARD, 1, 0, NULL, NULL,
      NULL, NULL },
    { "other-environments", "init:keytable64", "ABT_init", 0, F_INIT, ENV_KT64, 1, 0, NULL, NULL,
      NULL, NULL },
    /* --- execution streams */
    { "init+streams+scheds+pools", "xstream_create{null,sched,with_rank}", "ABT_xstream_create", Q, 0,
      ENV_STD, 3, 2, NULL, c_xstream_create, u_xstream, NULL },
    { "other-environments", "xstream_create:mmap_pages", "ABT_xstream_create", 0, F_FALLBACK,
      ENV_MMAP, 1, 1, NULL, c_xstream_create, u_xstream, NULL },
    { "other-environments", "xstream_create:max_xstreams_warning", "ABT_xstream_create", 0,
      F_FALLBACK | F_NODRY, ENV_LOG, 1, 0, NULL, c_xstream_create, u_xstream, NULL },
    { "init+streams+scheds+pools", "xstream_create_basic{basic,prio,randws,wait,pools}",
      "ABT_xstream_create_basic", Q, 0, ENV_STD, 5, 1, p_one_pool,
      c_xstream_create_basic, u_xstream_basic, af_one_pool },
    { "init+streams+scheds+pools", "xstream_revive", "ABT_xstream_revive", Q, 0, ENV_STD, 1, 0, p_joined_xs,
      c_xstream_revive, u_xstream_revive, af_joined_xs },
    { "init+streams+scheds+pools", "set_main_sched:self{null,spare,upool}", "ABT_xstream_set_main_sched", Q,
      F_UNIT, ENV_STD, 3, 1, p_set_main_sched, c_set_main_sched, u_set_main_sched,
      NULL },
    { "init+streams+scheds+pools", "set_main_sched_basic:self{auto,upool,pool}",
      "ABT_xstream_set_main_sched_basic", Q, F_UNIT, ENV_STD, 3, 1,
      p_set_main_sched_basic, c_set_main_sched_basic, u_set_main_sched_basic,
      af_set_main_sched_basic },
    { "other-environments", "set_main_sched:terminated{null,basic}", "ABT_xstream_set_main_sched", 0,
      0, ENV_STD, 2, 0, p_joined_xs, c_set_main_sched_term,
      u_set_main_sched_term, af_joined_xs },
    /* --- schedulers */
    { "init+streams+scheds+pools", "sched_create{user,basic,prio,randws,wait,nopools}", "ABT_sched_create",
      Q, 0, ENV_STD, 6, 0, p_one_pool, c_sched_create, u_sched_create,
      af_sched_create },
    { "init+streams+scheds+pools", "sched_config_create{empty,4vars}", "ABT_sched_config_create", Q, 0,
      ENV_STD, 2, 0, NULL, c_sched_config_create, u_sched_config, NULL },
    { "init+streams+scheds+pools", "sched_config_set{new,overwrite}", "ABT_sched_config_set", Q, 0, ENV_STD,
      2, 0, NULL, c_sched_config_set, u_sched_config_set, NULL },
    /* --- pools */
    { "init+streams+scheds+pools", "pool_create_basic{fifo,fifo_wait,randws}", "ABT_pool_create_basic", Q, 0,
      ENV_STD, 3, 0, NULL, c_pool_create_basic, u_pool, NULL },
    { "init+streams+scheds+pools", "pool_create{user_def,config,old_def}", "ABT_pool_create", Q, 0, ENV_STD,
      3, 0, NULL, c_pool_create, u_pool, NULL },
    { "init+streams+scheds+pools", "pool_config_create", "ABT_pool_config_create", Q, 0, ENV_STD, 1, 0, NULL,
      c_pool_config_create, u_pool_config, NULL },
    { "init+streams+scheds+pools", "pool_config_set{new,overwrite}", "ABT_pool_config_set", Q, 0, ENV_STD, 2,
      0, NULL, c_pool_config_set, u_pool_config_set, NULL },
    { "init+streams+scheds+pools", "pool_user_def_create", "ABT_pool_user_def_create", Q, 0, ENV_STD, 1, 0,
      NULL, c_pool_user_def_create, u_pool_user_def, NULL },
    { "init+streams+scheds+pools", "pool_add_sched{p0,upool,auto+p0}", "ABT_pool_add_sched", Q,
      F_UNIT, ENV_STD, 3, 2, p_add_sched, c_pool_add_sched, u_pool_add_sched,
      af_add_sched },
    { "pool_add_sched:automatic->upool", "pool_add_sched{auto+upool}",
      "ABT_pool_add_sched", Q, F_UNIT, ENV_STD, 1, 2, p_add_sched3,
      c_pool_add_sched3, u_pool_add_sched3, af_add_sched3 },
    /* --- work units */
    { "work-units", "thread_create{p0,p1,upool,unnamed}", "ABT_thread_create", Q, F_UNIT, ENV_STD,
      4, 2, NULL, c_thread_create, u_thread_create, NULL },
    { "work-units", "thread_create:attr{dflt,size,stack,cb,size+cb}", "ABT_thread_create", Q,
      0, ENV_STD, 5, 3, p_thread_attr, c_thread_create_attr,
      u_thread_create_attr, af_attr },
    { "other-environments", "thread_create:attr+upool{dflt,size,stack,cb,size+cb}",
      "ABT_thread_create", 0, F_UNIT, ENV_STD, 5, 3, p_thread_attr,
      c_thread_create_attr_upool, u_thread_create_attr_upool, af_attr },
    { "other-environments", "thread_create:attr:keytable64{..}", "ABT_thread_create", 0, 0, ENV_KT64,
      5, 1, p_thread_attr, c_thread_create_attr, u_thread_create_attr, af_attr },
    { "other-environments", "thread_create:stack_guard{p0,p1,upool,unnamed}", "ABT_thread_create", 0,
      0, ENV_GUARD, 4, 1, NULL, c_thread_create, u_thread_create, NULL },
    { "other-environments", "thread_create:mmap_pages{p0,p1,upool,unnamed}", "ABT_thread_create", 0,
      F_FALLBACK, ENV_MMAP, 4, 1, NULL, c_thread_create, u_thread_create, NULL },
    { "work-units", "thread_create:external{p0,p1,upool,unnamed}", "ABT_thread_create", Q,
      F_EXT, ENV_STD, 4, 0, NULL, c_thread_create, u_thread_create, NULL },
    { "other-environments", "thread_create:attr:external{..}", "ABT_thread_create", 0, F_EXT, ENV_STD,
      5, 0, p_thread_attr, c_thread_create_attr, u_thread_create_attr, af_attr },
    { "work-units", "thread_create_to{dflt,attr}", "ABT_thread_create_to", Q, 0, ENV_STD, 2, 2,
      p_create_to, c_thread_create_to, u_thread_create_to, af_create_to },
    { "work-units", "thread_create_on_xstream{es1,es0}", "ABT_thread_create_on_xstream", Q, 0,
      ENV_STD, 2, 1, NULL, c_thread_create_on_xstream, u_thread_named, NULL },
    { "work-units", "task_create{p0,p1,upool,unnamed,on_xstream}", "ABT_task_create", Q, F_UNIT,
      ENV_STD, 5, 2, NULL, c_task_create, u_task_create, NULL },
    { "other-environments", "task_create:external{..}", "ABT_task_create", 0, F_EXT, ENV_STD, 5, 0,
      NULL, c_task_create, u_task_create, NULL },
    { "work-units", "revive->upool{thread,task,revive_to}", "ABT_thread_revive", Q, F_UNIT,
      ENV_STD, 3, 0, NULL, c_revive, u_revive, NULL },
    { "work-units", "migrate{to_pool,to_sched,to_xstream,uunit,blocked}",
      "ABT_thread_migrate_to", Q, 0, ENV_STD, 5, 3, NULL, c_migrate, u_migrate,
      NULL },
    { "other-environments", "migrate:keytable64{..}", "ABT_thread_migrate_to", 0, 0, ENV_KT64, 5, 1,
      NULL, c_migrate, u_migrate, NULL },
    { "other-environments", "migrate:external{..}", "ABT_thread_migrate_to", 0, F_EXT, ENV_STD, 5, 0,
      NULL, c_migrate, u_migrate, NULL },
    { "work-units", "set_callback{queued,uunit,blocked}", "ABT_thread_set_callback", Q, 0,
      ENV_STD, 3, 3, NULL, c_set_callback, NULL, NULL },
    { "work-units", "set_specific{new_table,chain,key_set,blocked,self}",
      "ABT_thread_set_specific", Q, 0, ENV_STD, 5, 3, p_keys, c_set_specific,
      u_set_specific, af_keys },
    { "work-units", "set_specific:keytable64{..}", "ABT_thread_set_specific", Q, 0, ENV_KT64,
      5, 1, p_keys, c_set_specific, u_set_specific, af_keys },
    { "other-environments", "set_specific:external{new_table,chain}", "ABT_thread_set_specific", 0,
      F_EXT, ENV_STD, 2, 0, p_keys, c_set_specific, u_set_specific, af_keys },
    { "work-units", "set_associated_pool->upool{thread,push_thread,push_unit,terminated}",
      "ABT_thread_set_associated_pool", Q, F_UNIT, ENV_STD, 4, 0, p_popped,
      c_set_assoc, u_set_assoc, af_popped },
    { "work-units", "pool_push_threads->upool{2,mixed,66}", "ABT_pool_push_threads", Q, F_UNIT, ENV_STD, 3, 0,
      p_push_many, c_push_threads, u_push_threads, af_push_threads },
    { "work-units", "self_schedule->upool", "ABT_self_schedule", Q, F_UNIT, ENV_STD, 1, 0,
      p_popped, c_self_schedule, u_self_schedule, af_popped },
    { "work-units", "self_schedule:pending_migration->upool", "ABT_self_schedule", Q,
      F_FALLBACK | F_UNIT, ENV_STD, 1, 0, p_pending_migration,
      c_schedule_migrating, u_schedule_migrating, NULL },
    { "work-units", "thread_get_attr{ult,primary,blocked}", "ABT_thread_get_attr", Q, 0, ENV_STD,
      3, 0, NULL, c_get_attr, u_get_attr, NULL },
    /* --- synchronisation objects, keys, timers, attributes */
    { "sync-objects", "mutex_create{plain,attr}", "ABT_mutex_create", Q, 0, ENV_STD, 2, 0, NULL,
      c_mutex_create, u_mutex, NULL },
    { "sync-objects", "mutex_attr_create{create,get_attr}", "ABT_mutex_attr_create", Q, 0,
      ENV_STD, 2, 0, NULL, c_mutex_attr_create, u_mutex_attr, NULL },
    { "sync-objects", "cond_create", "ABT_cond_create", Q, 0, ENV_STD, 1, 0, NULL,
      c_cond_create, u_cond, NULL },
    { "sync-objects", "rwlock_create", "ABT_rwlock_create", Q, 0, ENV_STD, 1, 0, NULL,
      c_rwlock_create, u_rwlock, NULL },
    { "sync-objects", "eventual_create{0,24}", "ABT_eventual_create", Q, 0, ENV_STD, 2, 0, NULL,
      c_eventual_create, u_eventual, NULL },
    { "sync-objects", "future_create{plain,cb}", "ABT_future_create", Q, 0, ENV_STD, 2, 0, NULL,
      c_future_create, u_future, NULL },
    { "sync-objects", "barrier_create", "ABT_barrier_create", Q, 0, ENV_STD, 1, 0, NULL,
      c_barrier_create, u_barrier, NULL },
    { "sync-objects", "xstream_barrier_create", "ABT_xstream_barrier_create", Q, 0, ENV_STD, 1,
      0, NULL, c_xstream_barrier_create, u_xstream_barrier, NULL },
    { "sync-objects", "timer_create{create,dup}", "ABT_timer_create", Q, 0, ENV_STD, 2, 0, NULL,
      c_timer_create, u_timer, NULL },
    { "sync-objects", "key_create{plain,dtor}", "ABT_key_create", Q, 0, ENV_STD, 2, 0, NULL,
      c_key_create, u_key, NULL },
    { "init+streams+scheds+pools", "thread_attr_create", "ABT_thread_attr_create", Q, 0, ENV_STD, 1, 0, NULL,
      c_thread_attr_create, u_thread_attr, NULL },
    /* --- info */
    { "init+streams+scheds+pools", "info_print{stacks_in_pool,stacks_in_upool,xstreams,config,pool}",
      "ABT_info_print", Q, 0, ENV_STD, 5, 0, NULL, c_info_stacks, NULL, NULL },
    { "init+streams+scheds+pools", "info_trigger_print_all_thread_stacks+yield",
      "ABT_info_trigger_print_all_thread_stacks", Q, F_FALLBACK, ENV_STD, 1, 0,
      NULL, c_info_trigger, NULL, NULL },
};
