/* c17_joinrepl.c -- C17: "a joined stream ... and replacing a main scheduler
 * keeps the stream and the calling ULT running under the new scheduler", for
 * the order JOIN REQUEST FIRST, REPLACEMENT SECOND: ABT_xstream_join(ES1) has
 * issued its request (finish request on the then-current main scheduler, join
 * request on the main scheduler's ULT) and is waiting, when a ULT W running on
 * ES1 replaces ES1's main scheduler.  The scheduler ULT is carried over to the
 * new scheduler object, the old object (with its finish request) is dropped:
 * the new scheduler has to learn about the pending join, finish once its pools
 * are empty, and release the joiner.
 *
 * The documentation makes concurrent *accesses* to the stream by
 * ABT_xstream_set_main_sched undefined; here the join call has performed all
 * its accesses (W waits until the join request is visible on the scheduler
 * ULT) and only waits.  W then replaces the scheduler, yields once and
 * returns; one more unit sits in the new pool.  Afterwards the stream is
 * revived, runs a unit, is joined again and freed. */
#include "abti.h"
#include "common.h"

enum { J_PRIMARY, J_EXT };
enum { API_NULL, API_BASIC_AUTOPOOL, API_SCHED_AUTO };
typedef struct {
    const char *name;
    int quick, joiner, api, extra, use_free;
} cfg_t;
static const cfg_t cfgs[] = {
    { "primary joins ES1; W: set_main_sched(NULL)", 1, J_PRIMARY, API_NULL, 0 },
    { "X joins ES1; W: set_main_sched_basic(BASIC, auto pool)", 1, J_EXT,
      API_BASIC_AUTOPOOL, 0 },
    { "primary joins ES1; W: set_main_sched(auto sched, PB holding one unit)", 1,
      J_PRIMARY, API_SCHED_AUTO, 1 },
    { "X frees ES1 (join+free); W: set_main_sched(NULL)", 0, J_EXT, API_NULL, 0, 1 },
};

static const cfg_t *C;
static ABT_xstream es1;
static ABT_pool PB;
static int w_ran, w_after, extra_ran, unit2_ran, joined;
static int rank_before = -1, rank_after = -1;

static void extra_fn(void *arg)
{
    (void)arg;
    extra_ran++;
}
static void unit2_fn(void *arg)
{
    (void)arg;
    unit2_ran++;
}

static void w_fn(void *arg)
{
    (void)arg;
    w_ran++;
    ABT_xstream_self_rank(&rank_before);
    /* wait until the join request has reached the main scheduler's ULT */
    ABTI_xstream *p_es1 = ABTI_xstream_get_ptr(es1);
    for (;;) {
        const int *req = (const int *)&p_es1->p_main_sched->p_ythread->thread.request;
        if (abtmc_load(req) & (int)ABTI_THREAD_REQ_JOIN)
            break;
        OK(ABT_thread_yield());
    }
    ABT_sched ns = ABT_SCHED_NULL;
    if (C->api == API_NULL) {
        OK(ABT_xstream_set_main_sched(es1, ABT_SCHED_NULL));
    } else if (C->api == API_BASIC_AUTOPOOL) {
        OK(ABT_xstream_set_main_sched_basic(es1, ABT_SCHED_BASIC, 0, NULL));
    } else {
        OK(ABT_sched_create_basic(ABT_SCHED_BASIC, 1, &PB, ABT_SCHED_CONFIG_NULL, &ns));
        OK(ABT_xstream_set_main_sched(es1, ns));
    }
    ABT_xstream_self_rank(&rank_after);
    OK(ABT_thread_yield()); /* the new scheduler has to pick W up again */
    w_after++;
}

static void joiner_fn(void *arg)
{
    (void)arg;
    if (C->use_free) {
        OK(ABT_xstream_free(&es1));
    } else {
        OK(ABT_xstream_join(es1));
        ABT_xstream_state st;
        OK(ABT_xstream_get_state(es1, &st));
        abtmc_check(st == ABT_XSTREAM_STATE_TERMINATED, "not_terminated",
                    "state %d after ABT_xstream_join", (int)st);
    }
    abtmc_store(&joined, 1);
}

static void scenario(int cfg)
{
    C = &cfgs[cfg];
    h_init();
    OK(ABT_xstream_create(ABT_SCHED_NULL, &es1));
    ABT_pool p1 = h_main_pool(es1);
    if (C->api == API_SCHED_AUTO) {
        OK(ABT_pool_create_basic(ABT_POOL_FIFO, ABT_POOL_ACCESS_MPMC, ABT_TRUE, &PB));
        if (C->extra)
            OK(ABT_thread_create(PB, extra_fn, NULL, ABT_THREAD_ATTR_NULL, NULL));
    }
    abtmc_window_begin();
    OK(ABT_thread_create(p1, w_fn, NULL, ABT_THREAD_ATTR_NULL, NULL));
    int freed = C->use_free;
    if (C->joiner == J_EXT) {
        int x = abtmc_thread_create(joiner_fn, NULL);
        abtmc_thread_join(x);
    } else {
        joiner_fn(NULL);
    }
    abtmc_check(w_ran == 1 && w_after == 1, "caller_lost",
                "the join returned; W started %d times and continued %d times after "
                "replacing the main scheduler", w_ran, w_after);
    abtmc_check(rank_before == rank_after && rank_before >= 1, "caller_moved",
                "W ran on rank %d before and %d after the replacement", rank_before,
                rank_after);
    if (C->extra)
        abtmc_check(extra_ran == 1, "unit_not_run",
                    "the unit waiting in the new scheduler's pool ran %d times before "
                    "the join returned", extra_ran);
    if (!freed) {
        /* the lifecycle is repeatable under the new scheduler */
        OK(ABT_xstream_revive(es1));
        ABT_pool np = h_main_pool(es1);
        OK(ABT_thread_create(np, unit2_fn, NULL, ABT_THREAD_ATTR_NULL, NULL));
        OK(ABT_xstream_join(es1));
        abtmc_check(unit2_ran == 1, "unit_not_run",
                    "unit pushed to the revived stream ran %d times", unit2_ran);
        OK(ABT_xstream_free(&es1));
    }
    int n = -1;
    OK(ABT_xstream_get_num(&n));
    abtmc_check(n == 1, "num_xstreams", "%d streams after the free", n);
    abtmc_window_end();
    abtmc_observe("w%d%d x%d", w_ran, w_after, extra_ran);
    h_finalize();
    abtmc_check(abtmc_ledger_live() == 0, "leak", "%ld live allocations",
                abtmc_ledger_live());
}

static const char *cfg_name(int i) { return cfgs[i].name; }
static int cfg_quick(int i) { return cfgs[i].quick; }

int main(int argc, char **argv)
{
    static abtmc_driver d = { "c17_joinrepl", "C17", ARRAY_LEN(cfgs), cfg_name,
                              scenario, cfg_quick };
    return abtmc_main(argc, argv, &d);
}
