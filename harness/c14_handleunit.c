/* c14_handleunit.c -- C14 for user-defined pools whose create_unit returns the
 * ABT_thread HANDLE ITSELF as the unit (abt.h: "An ABT_thread handle also
 * satisfies these requirements").  When such a work unit moves from one user
 * pool to another, the new unit has the same value as the old one, so for a
 * moment the runtime's unit table holds two entries with that value: mapping
 * the new one and unmapping the old one must leave exactly one live mapping.
 *
 *   PA, PB: user pools (array FIFOs kept by the driver), unit = thread handle.
 *   ES1 serves PB and PA.  One history per execution (abtmc_choose FREE):
 *   how the unit is moved A -> B: ABT_pool_pop(PA) + ABT_pool_push(PB, unit) |
 *   ABT_thread_set_associated_pool + ABT_pool_push_thread | migration request |
 *   ABT_self_set_associated_pool by the unit itself; unit kind ULT / tasklet;
 *   optionally moved back B -> A -> B.
 * Oracle: create_unit / free_unit once per association, translation both ways
 * after every move, the unit runs exactly once, everything is freed. */
#include "common.h"

#define QCAP 8
typedef struct {
    ABT_thread q[QCAP];
    int n, created, freed;
} upool_t;
static upool_t UA, UB;
static ABT_pool PA, PB;

static upool_t *up_of(ABT_pool p) { return p == PA ? &UA : &UB; }

static ABT_unit up_create_unit(ABT_pool pool, ABT_thread thread)
{
    up_of(pool)->created++;
    return (ABT_unit)thread;
}
static void up_free_unit(ABT_pool pool, ABT_unit unit)
{
    (void)unit;
    up_of(pool)->freed++;
}
static ABT_bool up_is_empty(ABT_pool pool)
{
    return up_of(pool)->n == 0 ? ABT_TRUE : ABT_FALSE;
}
static ABT_thread up_pop(ABT_pool pool, ABT_pool_context ctx)
{
    (void)ctx;
    upool_t *u = up_of(pool);
    if (u->n == 0)
        return ABT_THREAD_NULL;
    ABT_thread t = u->q[0];
    for (int i = 1; i < u->n; i++)
        u->q[i - 1] = u->q[i];
    u->n--;
    return t;
}
static void up_push(ABT_pool pool, ABT_unit unit, ABT_pool_context ctx)
{
    (void)ctx;
    upool_t *u = up_of(pool);
    if (u->n < QCAP)
        u->q[u->n++] = (ABT_thread)unit;
}

enum { MV_POP_PUSH, MV_SET_ASSOC, MV_MIGRATE, MV_SELF, NMV };
static const char *mvname[] = { "pop+push(unit)", "set_associated_pool+push_thread",
                                "migrate_to_pool", "self_set_associated_pool" };
static int mv, is_task, round_trip;
static ABT_thread U;
static int ran, self_moved;

static void check_translation(const char *when)
{
    ABT_unit un;
    ABT_thread back = ABT_THREAD_NULL;
    OK(ABT_thread_get_unit(U, &un));
    abtmc_check(un == (ABT_unit)U, "translation",
                "%s: ABT_thread_get_unit returned %p, the pool's unit is the handle %p",
                when, (void *)un, (void *)U);
    OK(ABT_unit_get_thread(un, &back));
    abtmc_check(back == U, "translation",
                "%s: ABT_unit_get_thread(unit) returned %p instead of the work unit %p",
                when, (void *)back, (void *)U);
}

static void u_fn(void *arg)
{
    (void)arg;
    ran++;
    if (mv == MV_SELF && !is_task) {
        OK(ABT_self_set_associated_pool(PB));
        self_moved = 1;
        check_translation("inside the unit after ABT_self_set_associated_pool(PB)");
        OK(ABT_thread_yield()); /* continues through PB on ES1 */
        check_translation("after the yield through PB");
    }
}

static void move(ABT_pool from, ABT_pool to, const char *what)
{
    if (mv == MV_POP_PUSH) {
        ABT_unit un;
        OK(ABT_pool_pop(from, &un));
        abtmc_check(un == (ABT_unit)U, "harness", "popped something else");
        OK(ABT_pool_push(to, un));
    } else {
        ABT_thread t;
        OK(ABT_pool_pop_thread(from, &t));
        abtmc_check(t == U, "harness", "popped something else");
        OK(ABT_thread_set_associated_pool(U, to));
        check_translation("after ABT_thread_set_associated_pool, before the push");
        OK(ABT_pool_push_thread(to, U));
    }
    check_translation(what);
}

static void scenario(int cfg)
{
    (void)cfg;
    h_init();
    ABT_pool_user_def def;
    ABT_sched s1;
    ABT_xstream es1;
    OK(ABT_pool_user_def_create(up_create_unit, up_free_unit, up_is_empty, up_pop,
                                up_push, &def));
    OK(ABT_pool_create(def, ABT_POOL_CONFIG_NULL, &PA));
    OK(ABT_pool_create(def, ABT_POOL_CONFIG_NULL, &PB));
    OK(ABT_pool_user_def_free(&def));
    ABT_pool both[2];
    both[0] = PB;
    both[1] = PA;
    OK(ABT_sched_create_basic(ABT_SCHED_BASIC, 2, both, ABT_SCHED_CONFIG_NULL, &s1));

    abtmc_window_begin();
    mv = abtmc_choose(NMV, ABTMC_B_FREE);
    is_task = abtmc_choose(2, ABTMC_B_FREE);
    round_trip = abtmc_choose(2, ABTMC_B_FREE);
    if (mv == MV_SELF)
        is_task = 0;
    if (is_task)
        OK(ABT_task_create(PA, u_fn, NULL, &U));
    else
        OK(ABT_thread_create(PA, u_fn, NULL, ABT_THREAD_ATTR_NULL, &U));
    check_translation("after creation in PA");
    if (mv == MV_POP_PUSH || mv == MV_SET_ASSOC) {
        move(PA, PB, "after the move PA -> PB");
        if (round_trip) {
            move(PB, PA, "after the move PB -> PA");
            move(PA, PB, "after the second move PA -> PB");
        }
        OK(ABT_xstream_create(s1, &es1));
    } else if (mv == MV_MIGRATE) {
        /* ES1 serves PA as well: it performs the migration PA -> PB */
        OK(ABT_thread_migrate_to_pool(U, PB));
        OK(ABT_xstream_create(s1, &es1));
    } else {
        /* MV_SELF: the unit starts from PA on ES1 and moves itself to PB */
        OK(ABT_xstream_create(s1, &es1));
    }
    OK(ABT_thread_join(U));
    check_translation("after the unit terminated");
    abtmc_check(ran == 1, "run_count", "the unit ran %d times (%s)", ran, mvname[mv]);
    OK(ABT_thread_free(&U));
    abtmc_window_end();

    abtmc_check(UA.created == UA.freed && UB.created == UB.freed, "callback_count",
                "%s: pool A create_unit %d / free_unit %d, pool B %d / %d", mvname[mv],
                UA.created, UA.freed, UB.created, UB.freed);
    abtmc_check(UA.n == 0 && UB.n == 0, "unit_left", "units left: A %d B %d", UA.n, UB.n);
    abtmc_observe("%s task%d rt%d a%d b%d", mvname[mv], is_task, round_trip, UA.created,
                  UB.created);
    OK(ABT_xstream_join(es1));
    OK(ABT_xstream_free(&es1));
    OK(ABT_pool_free(&PA));
    OK(ABT_pool_free(&PB));
    h_finalize();
    abtmc_check(abtmc_ledger_live() == 0, "leak", "%ld live allocations",
                abtmc_ledger_live());
}

static const char *cfg_name(int i) { (void)i; return "unit = thread handle: move between two user pools"; }
static int cfg_quick(int i) { (void)i; return 1; }

int main(int argc, char **argv)
{
    static abtmc_driver d = { "c14_handleunit", "C14", 1, cfg_name, scenario, cfg_quick };
    return abtmc_main(argc, argv, &d);
}
