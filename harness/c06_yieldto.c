/* c06_yieldto.c -- C06: "the per-pool count of blocked units ... is never
 * negative and is zero whenever no unit is blocked", and join waits for blocked
 * units, for the CROSS-POOL ABT_thread_yield_to whose removal of the target
 * can lose against a pop by the target's own stream.
 *
 *   ES1 serves Q1: A calls ABT_thread_yield_to(T) (n times).
 *   ES2 serves Q2: T yields a few times (so it keeps going through Q2 and ES2's
 *                  pop races with A's readiness check + removal);
 *                  W waits on an eventual (a really blocked unit of Q2).
 * ABT_thread_yield_to counts the caller as blocked in the CALLER's pool before
 * the removal and must undo exactly that when the removal fails.  Oracles:
 *   - at every observation both counters are >= 0 (one atomic read each);
 *   - once A is done, Q1's counter is 0, and ABT_xstream_join(ES1) returns;
 *   - ABT_xstream_join(ES2) returns only after W finished (W is released by
 *     the external thread X at an arbitrary moment), and it does return;
 *   - every unit ran exactly once. */
#include "abti.h"
#include "common.h"

typedef struct {
    const char *name;
    int quick, ncalls, tyields, with_w;
} cfg_t;
static const cfg_t cfgs[] = {
    { "A@Q1(ES1) yield_to(T@Q2) x1, T yields x1, W@Q2 blocked on eventual set by X",
      1, 1, 1, 1 },
    { "A@Q1(ES1) yield_to(T@Q2) x2, T yields x2, W@Q2 blocked on eventual set by X",
      0, 2, 2, 1 },
    { "A@Q1(ES1) yield_to(T@Q2) x2, T yields x1, no W", 1, 2, 1, 0 },
};

static const cfg_t *C;
static ABT_pool Q1, Q2;
static ABT_xstream es1, es2;
static ABT_thread A, T, W;
static ABT_eventual EV;
static int a_done, t_done, w_done, a_runs, t_runs, w_runs, w_blocking;
static int a_ok, a_err;

static int nb(ABT_pool p)
{
    return (int)ABTD_atomic_acquire_load_int32(&ABTI_pool_get_ptr(p)->num_blocked);
}
static void check_nonneg(const char *where)
{
    int b1 = nb(Q1), b2 = nb(Q2);
    abtmc_check(b1 >= 0, "negative_blocked", "%s: Q1 blocked count %d", where, b1);
    abtmc_check(b2 >= 0, "negative_blocked", "%s: Q2 blocked count %d", where, b2);
}

static void inv_nonneg(void)
{
    check_nonneg("global invariant, state after a write");
}

static void t_fn(void *arg)
{
    (void)arg;
    t_runs++;
    for (int i = 0; i < C->tyields; i++) {
        OK(ABT_thread_yield());
        check_nonneg("T after yield");
    }
    abtmc_store(&t_done, 1);
}

static void w_fn(void *arg)
{
    (void)arg;
    w_runs++;
    abtmc_store(&w_blocking, 1);
    OK(ABT_eventual_wait(EV, NULL));
    abtmc_store(&w_done, 1);
}

static void a_fn(void *arg)
{
    (void)arg;
    a_runs++;
    for (int i = 0; i < C->ncalls; i++) {
        int r = ABT_thread_yield_to(T);
        if (r == ABT_SUCCESS)
            a_ok++;
        else {
            abtmc_check(r == ABT_ERR_POOL, "harness", "yield_to returned %d", r);
            a_err++;
        }
        check_nonneg("A after yield_to");
    }
    abtmc_store(&a_done, 1);
}

static void x_fn(void *arg)
{
    (void)arg;
    abtmc_wait_until_eq(&w_blocking, 1);
    check_nonneg("X before set");
    OK(ABT_eventual_set(EV, NULL, 0));
}

static void scenario(int cfg)
{
    C = &cfgs[cfg];
    h_init();
    ABT_sched s1, s2;
    OK(ABT_pool_create_basic(ABT_POOL_FIFO, ABT_POOL_ACCESS_MPMC, ABT_TRUE, &Q1));
    OK(ABT_pool_create_basic(ABT_POOL_FIFO, ABT_POOL_ACCESS_MPMC, ABT_TRUE, &Q2));
    OK(ABT_sched_create_basic(ABT_SCHED_BASIC, 1, &Q1, ABT_SCHED_CONFIG_NULL, &s1));
    OK(ABT_sched_create_basic(ABT_SCHED_BASIC, 1, &Q2, ABT_SCHED_CONFIG_NULL, &s2));
    OK(ABT_eventual_create(0, &EV));
    OK(ABT_thread_create(Q2, t_fn, NULL, ABT_THREAD_ATTR_NULL, &T));
    if (C->with_w)
        OK(ABT_thread_create(Q2, w_fn, NULL, ABT_THREAD_ATTR_NULL, &W));
    OK(ABT_thread_create(Q1, a_fn, NULL, ABT_THREAD_ATTR_NULL, &A));

    abtmc_set_invariant(inv_nonneg);
    abtmc_window_begin();
    OK(ABT_xstream_create(s1, &es1));
    OK(ABT_xstream_create(s2, &es2));
    int x = -1;
    if (C->with_w)
        x = abtmc_thread_create(x_fn, NULL);
    abtmc_wait_until_eq(&a_done, 1);
    /* A never blocks for real: whatever happened, nothing of Q1 is blocked now
     * (if A's last yield_to succeeded A is back from the target, if it failed
     * the provisional count was undone) */
    int b1 = nb(Q1);
    abtmc_check(b1 == 0, "blocked_count",
                "A finished its %d yield_to call(s) (%d ok, %d failed) but Q1 "
                "still counts %d blocked unit(s)", C->ncalls, a_ok, a_err, b1);
    check_nonneg("primary after A");
    OK(ABT_xstream_join(es1));
    ABT_xstream_state st;
    OK(ABT_xstream_get_state(es1, &st));
    abtmc_check(st == ABT_XSTREAM_STATE_TERMINATED, "not_terminated", "ES1 state %d",
                (int)st);
    OK(ABT_xstream_join(es2));
    int wd = abtmc_load(&w_done), td = abtmc_load(&t_done);
    abtmc_check(td == 1, "join_early",
                "ABT_xstream_join(ES2) returned before T (a unit of Q2) finished");
    if (C->with_w)
        abtmc_check(wd == 1, "join_early",
                    "ABT_xstream_join(ES2) returned while W, a unit of Q2 blocked "
                    "on an eventual, has not finished (yield_to: %d ok, %d failed)",
                    a_ok, a_err);
    if (x >= 0)
        abtmc_thread_join(x);
    abtmc_window_end();

    abtmc_check(a_runs == 1 && t_runs == 1 && w_runs == C->with_w, "run_count",
                "A %d T %d W %d", a_runs, t_runs, w_runs);
    abtmc_check(nb(Q1) == 0 && nb(Q2) == 0, "blocked_count",
                "at the end Q1 counts %d, Q2 counts %d blocked", nb(Q1), nb(Q2));
    abtmc_observe("ok%d err%d", a_ok, a_err);
    OK(ABT_thread_free(&A));
    OK(ABT_thread_free(&T));
    if (C->with_w)
        OK(ABT_thread_free(&W));
    OK(ABT_xstream_free(&es1));
    OK(ABT_xstream_free(&es2));
    OK(ABT_eventual_free(&EV));
    h_finalize();
    abtmc_check(abtmc_ledger_live() == 0, "leak", "%ld live allocations",
                abtmc_ledger_live());
}

static const char *cfg_name(int i) { return cfgs[i].name; }
static int cfg_quick(int i) { return cfgs[i].quick; }

int main(int argc, char **argv)
{
    static abtmc_driver d = { "c06_yieldto", "C06", ARRAY_LEN(cfgs), cfg_name,
                              scenario, cfg_quick };
    return abtmc_main(argc, argv, &d);
}
