/* c12_conc.c -- C12 (kind I): lifecycle requests racing with the unit.
 *
 * One work unit U (ULT with pooled or malloc'ed stack, or tasklet) lives on ES0
 * or ES1.  The primary ULT (ES0) and one or two external threads X, Y run short
 * scripts over {sample ABT_thread_get_state(U), ABT_thread_cancel, join, free,
 * revive, ABT_eventual_set, yield}.  Every sample is one hooked load, so every
 * placement of it between the state stores of libabt is explored.
 *
 * Oracle
 *  - each actor's sampled sequence is a subsequence of a word of the unit's
 *    lifecycle automaton (built from the unit's body and the number of
 *    incarnations; READY->TERMINATED only when a canceller exists);
 *  - the unit's samples of its own state are RUNNING;
 *  - once the unit has *seen* that ABT_thread_cancel returned and then reaches a
 *    scheduling point (yield), it never runs again;
 *  - ABT_self_exit/ABT_thread_exit do not return; every incarnation's function
 *    is entered at most once, exactly once when nobody cancels;
 *  - join/free return only when the state is TERMINATED; all joiners return
 *    (deadlock = engine verdict);
 *  - key destructor (= "unit freed") runs exactly once, at ABT_thread_free and
 *    not before; no allocation of libabt is live after ABT_finalize; the
 *    mc-asan flavour adds use-after-free detection on the malloc'ed kind. */
#include "common.h"
#include "c12_asan.h"

enum { K_ULT, K_ULTM, K_TASK };
enum { B_RET, B_EXIT, B_TEXIT, B_SPIN, B_EVWAIT, B_WAITREL };
enum {
    O_END, O_SAMPLE, O_CANCEL, O_JOIN, O_FREE, O_REVIVE0, O_REVIVE1, O_SETEV,
    O_YIELD, O_JOINX
};
#define NSCRIPT 8

typedef struct {
    const char *name;
    int quick;
    int kind, home, body;
    int p[NSCRIPT], x[NSCRIPT], y[NSCRIPT];
} cfg_t;

#define S3 O_SAMPLE, O_SAMPLE, O_SAMPLE
static const cfg_t cfgs[] = {
    /* ---- quick ---- */
    { "cancel||yield U@ES1 spin, X observes", 1, K_ULT, 1, B_SPIN,
      { O_CANCEL, O_JOIN, O_JOINX, O_FREE }, { S3 }, { 0 } },
    { "cancel(X)||join(P) U@ES1 spin", 1, K_ULT, 1, B_SPIN,
      { O_JOIN, O_JOINX, O_FREE }, { O_SAMPLE, O_CANCEL, O_SAMPLE }, { 0 } },
    { "cancel(X)||join(P) U@ES0 spin", 1, K_ULT, 0, B_SPIN,
      { O_JOIN, O_JOINX, O_FREE }, { O_CANCEL, O_SAMPLE, O_SAMPLE }, { 0 } },
    { "cancel||block U@ES1 eventual, X observes", 1, K_ULT, 1, B_EVWAIT,
      { O_CANCEL, O_SETEV, O_JOIN, O_JOINX, O_FREE }, { S3 }, { 0 } },
    { "join(P)||exit U@ES1, X observes", 1, K_ULT, 1, B_EXIT,
      { O_JOIN, O_JOINX, O_FREE }, { S3 }, { 0 } },
    { "join(X)||return U@ES1, P observes", 1, K_ULT, 1, B_RET,
      { O_SAMPLE, O_SAMPLE, O_JOINX, O_SAMPLE, O_FREE }, { O_JOIN }, { 0 } },
    { "revive after hand-off join U@ES0->ES1, X observes", 1, K_ULT, 0, B_RET,
      { O_JOIN, O_REVIVE1, O_JOIN, O_JOINX, O_FREE },
      { S3, O_SAMPLE }, { 0 } },
    { "tasklet cancel||run T@ES1, X observes", 1, K_TASK, 1, B_WAITREL,
      { O_CANCEL, O_JOIN, O_JOINX, O_FREE }, { S3 }, { 0 } },
    { "free(P)||exit U@ES1 malloc stack", 1, K_ULTM, 1,
      B_TEXIT, { O_SAMPLE, O_FREE }, { 0 }, { 0 } },
    { "cancel(P) between slices U@ES0 spin, X observes", 1, K_ULT, 0, B_SPIN,
      { O_YIELD, O_CANCEL, O_JOIN, O_JOINX, O_FREE }, { S3 }, { 0 } },
    /* ---- thorough ---- */
    { "cancel||yield U@ES1 spin, X+Y observe", 0, K_ULT, 1, B_SPIN,
      { O_CANCEL, O_JOIN, O_JOINX, O_FREE }, { O_SAMPLE }, { O_SAMPLE } },
    { "cancel(X) then free(P) U@ES1 spin malloc", 0, K_ULTM, 1, B_SPIN,
      { O_SAMPLE, O_JOINX, O_FREE }, { O_CANCEL }, { 0 } },
    { "cancel(X)||set(Y)||join(P) U@ES1 eventual", 0, K_ULT, 1, B_EVWAIT,
      { O_JOIN, O_JOINX, O_FREE }, { O_CANCEL }, { O_SETEV } },
    { "cancel(X)||block U@ES0 eventual, P sets+joins", 0, K_ULT, 0, B_EVWAIT,
      { O_YIELD, O_SETEV, O_JOIN, O_JOINX, O_FREE },
      { O_CANCEL, O_SAMPLE, O_SAMPLE }, { 0 } },
    { "join(X)||exit U@ES0, P yields+observes", 0, K_ULT, 0, B_EXIT,
      { O_SAMPLE, O_YIELD, O_SAMPLE, O_JOINX, O_FREE }, { O_SAMPLE, O_JOIN },
      { 0 } },
    { "join(X)||cancel(P) U@ES1 spin", 1, K_ULT, 1, B_SPIN,
      { O_SAMPLE, O_CANCEL, O_JOINX, O_SAMPLE, O_FREE }, { O_JOIN, O_SAMPLE },
      { 0 } },
    { "revive x2 U@ES1->ES1, X observes", 0, K_ULT, 1, B_RET,
      { O_JOIN, O_REVIVE1, O_JOIN, O_REVIVE1, O_JOIN, O_JOINX, O_FREE },
      { O_SAMPLE }, { 0 } },
    { "revive after hand-off join U@ES0->ES0 exit, X observes", 0, K_ULT, 0,
      B_EXIT, { O_JOIN, O_REVIVE0, O_JOIN, O_JOINX, O_FREE }, { S3, O_SAMPLE },
      { 0 } },
    { "revive by X after X's join U@ES1, P observes", 0, K_ULT, 1, B_RET,
      { S3, O_JOINX, O_JOIN, O_FREE }, { O_JOIN, O_REVIVE1 }, { 0 } },
    { "tasklet revive T@ES1, X observes", 0, K_TASK, 1, B_RET,
      { O_JOIN, O_REVIVE1, O_JOIN, O_JOINX, O_FREE }, { O_SAMPLE, O_SAMPLE },
      { 0 } },
    { "tasklet join(X)||run T@ES0", 0, K_TASK, 0, B_RET,
      { O_YIELD, O_SAMPLE, O_JOINX, O_FREE }, { O_SAMPLE, O_JOIN }, { 0 } },
    { "cancel before first run U@ES0, X joins", 0, K_ULTM, 0, B_RET,
      { O_CANCEL, O_SAMPLE, O_YIELD, O_SAMPLE, O_JOINX, O_FREE },
      { O_SAMPLE, O_JOIN }, { 0 } },
    { "cancel(P)||waitrel ULT U@ES1 no sched point", 0, K_ULT, 1, B_WAITREL,
      { O_CANCEL, O_JOIN, O_JOINX, O_FREE }, { S3 }, { 0 } },
};

#define MAXINC 4
#define MAXREC 8
static const cfg_t *C;
static ABT_thread uh;
static ABT_pool pools[2];
static ABT_eventual ev;
static ABT_key key;
static ABT_thread_attr attr_m;
static int released;            /* hooked: set after ABT_thread_cancel returned */
static int inc;                 /* current incarnation (written by the reviver) */
static int runs[MAXINC], fins[MAXINC];
static int nslices, keyset, dcount, freed;
static int rec[3][MAXREC], nrec[3];
static int xt[2] = { -1, -1 };
static int has_cancel, nrevive;
/* the canceller is the primary and the unit lives on the primary's stream: the
 * request is then issued while the unit is neither running nor being popped,
 * so a slice that starts with the request acknowledged is a violation */
static int strict;

/* ------------------------------------------------------------- automaton */
#define QMAX 48
static int qn;
static char qlab[QMAX];
static unsigned char reach[QMAX][QMAX];

static int q_add(char lab)
{
    qlab[qn] = lab;
    reach[qn][qn] = 1;
    return qn++;
}
static void q_edge(int a, int b) { reach[a][b] = 1; }

/* appends one incarnation, returns its TERMINATED state; *first = READY */
static int q_body(int body, int cancel, int *first)
{
    int r = q_add('R'), n = q_add('N');
    *first = r;
    q_edge(r, n);
    if (body == B_SPIN) {
        int t = q_add('T');
        q_edge(n, r);
        q_edge(n, t);
        if (cancel)
            q_edge(r, t);
        return t;
    }
    if (body == B_EVWAIT) {
        int b = q_add('B'), r3 = q_add('R'), n4 = q_add('N'), r5 = q_add('R'),
            n6 = q_add('N'), t = q_add('T');
        q_edge(n, b);
        q_edge(b, r3);
        q_edge(r3, n4);
        q_edge(n4, r5);
        q_edge(n, r5); /* eventual already set: no block */
        q_edge(r5, n6);
        q_edge(n6, t);
        if (cancel) {
            q_edge(r, t);
            q_edge(r3, t);
            q_edge(r5, t);
            q_edge(n4, t);
            q_edge(n, t);
        }
        return t;
    }
    int t = q_add('T');
    q_edge(n, t);
    if (cancel)
        q_edge(r, t);
    return t;
}

static void q_build(void)
{
    int prev_t = -1;
    for (int i = 0; i <= nrevive; i++) {
        int first;
        int t = q_body(C->body, has_cancel, &first);
        if (prev_t >= 0)
            q_edge(prev_t, first);
        prev_t = t;
    }
    for (int k = 0; k < qn; k++)
        for (int i = 0; i < qn; i++)
            if (reach[i][k])
                for (int j = 0; j < qn; j++)
                    if (reach[k][j])
                        reach[i][j] = 1;
}

static char slab(int s)
{
    switch (s) {
        case ABT_THREAD_STATE_READY: return 'R';
        case ABT_THREAD_STATE_RUNNING: return 'N';
        case ABT_THREAD_STATE_BLOCKED: return 'B';
        case ABT_THREAD_STATE_TERMINATED: return 'T';
        default: return '?';
    }
}

static void seq_string(int who, char *buf)
{
    int n = 0;
    for (int i = 0; i < nrec[who]; i++)
        buf[n++] = slab(rec[who][i]);
    buf[n] = 0;
}

static void check_sequence(int who)
{
    unsigned char set[QMAX];
    char buf[MAXREC + 1];
    seq_string(who, buf);
    for (int q = 0; q < qn; q++)
        set[q] = reach[0][q];
    for (int i = 0; i < nrec[who]; i++) {
        unsigned char nset[QMAX];
        int any = 0;
        char l = slab(rec[who][i]);
        for (int q = 0; q < qn; q++) {
            nset[q] = 0;
            if (qlab[q] != l)
                continue;
            for (int p = 0; p < qn; p++)
                if (set[p] && reach[p][q])
                    nset[q] = 1;
            any |= nset[q];
        }
        abtmc_check(any, "illegal_state_sequence",
                    "actor %c sampled the states %s of the unit: sample %d (%c) "
                    "cannot follow in the lifecycle READY->RUNNING->(BLOCKED->"
                    "READY->RUNNING)*->TERMINATED of this unit (%d incarnations)",
                    "PXY"[who], buf, i, l, nrevive + 1);
        memcpy(set, nset, sizeof set);
    }
}

/* ------------------------------------------------------------- unit side */

static void key_destructor(void *value)
{
    abtmc_check(value == (void *)&dcount, "destructor_bad_value",
                "destructor called with a foreign value");
    dcount++;
}

static void self_sample(const char *where)
{
    ABT_thread me;
    ABT_thread_state s;
    OK(ABT_self_get_thread(&me));
    OK(ABT_thread_get_state(me, &s));
    abtmc_check(s == ABT_THREAD_STATE_RUNNING, "self_state_not_running",
                "%s: the running unit reads its own state as %c", where,
                slab(s));
    nslices++;
}

static void unit_real(void *arg)
{
    int my = (int)(intptr_t)arg;
    abtmc_check(my >= 0 && my < MAXINC, "wrong_function", "bad arg %d", my);
    runs[my]++;
    abtmc_check(runs[my] == 1, "ran_twice",
                "incarnation %d: function entered %d times", my, runs[my]);
    if (strict)
        abtmc_check(!abtmc_load(&released), "slice_after_cancel",
                    "the unit was cancelled before its first run and runs");
    self_sample("start");
    if (!keyset) {
        OK(ABT_self_set_specific(key, &dcount));
        keyset = 1;
    }
    switch (C->body) {
        case B_RET: break;
        case B_EXIT:
        case B_TEXIT: {
            fins[my]++;
            int r = C->body == B_EXIT ? ABT_self_exit() : ABT_thread_exit();
            abtmc_check_fail("code_after_exit",
                             "exit call returned %d: code after it executes", r);
            break;
        }
        case B_SPIN:
            for (;;) {
                int rel = abtmc_load(&released);
                OK(ABT_thread_yield());
                abtmc_check(!rel, "slice_after_cancel",
                            "the unit saw that ABT_thread_cancel had returned, "
                            "yielded, and was scheduled again");
                if (strict)
                    abtmc_check(!abtmc_load(&released), "slice_after_cancel",
                                "the unit was READY in the pool when the "
                                "cancel request was made and got another "
                                "slice");
                self_sample("after yield");
            }
        case B_EVWAIT: {
            OK(ABT_eventual_wait(ev, NULL));
            self_sample("after eventual_wait");
            int rel = abtmc_load(&released);
            OK(ABT_thread_yield());
            abtmc_check(!rel, "slice_after_cancel",
                        "the unit saw that ABT_thread_cancel had returned, "
                        "yielded, and was scheduled again");
            self_sample("after yield");
            /* ABT_thread_cancel on a terminated unit is undefined: stay alive
             * until the canceller is done */
            if (has_cancel)
                abtmc_wait_until_eq(&released, 1);
            break;
        }
        default: /* B_WAITREL: no scheduling point at all */
            abtmc_wait_until_eq(&released, 1);
            break;
    }
    fins[my]++;
}

C12_UNIT_ENTRY(unit_fn, unit_real)

/* ------------------------------------------------------------ actor side */

static int sample(int who)
{
    ABT_thread_state s;
    OK(ABT_thread_get_state(uh, &s));
    abtmc_check(nrec[who] < MAXREC, "harness", "too many samples");
    rec[who][nrec[who]++] = (int)s;
    return (int)s;
}

static void run_script(int who, const int *ops)
{
    for (int i = 0; i < NSCRIPT && ops[i] != O_END; i++) {
        switch (ops[i]) {
            case O_SAMPLE: sample(who); break;
            case O_CANCEL:
                if (C->kind == K_TASK)
                    OK(ABT_task_cancel(uh));
                else
                    OK(ABT_thread_cancel(uh));
                abtmc_store(&released, 1);
                break;
            case O_JOIN: {
                if (C->kind == K_TASK)
                    OK(ABT_task_join(uh));
                else
                    OK(ABT_thread_join(uh));
                int s = sample(who);
                abtmc_check(s == ABT_THREAD_STATE_TERMINATED,
                            "join_returned_early",
                            "ABT_thread_join returned to %c while the unit is %c",
                            "PXY"[who], slab(s));
                break;
            }
            case O_FREE: {
                ABT_thread h = uh;
                abtmc_check(dcount == 0, "freed_early",
                            "key destructor ran %d times before "
                            "ABT_thread_free of the named unit",
                            dcount);
                if (C->kind == K_ULTM)
                    abtmc_check(abtmc_ledger_find((void *)h, NULL, NULL),
                                "freed_early",
                                "descriptor released before ABT_thread_free");
                if (C->kind == K_TASK)
                    OK(ABT_task_free(&uh));
                else
                    OK(ABT_thread_free(&uh));
                freed = 1;
                /* free = join + release */
                abtmc_check(runs[inc] == fins[inc] || has_cancel,
                            "free_returned_early",
                            "ABT_thread_free returned while the function of "
                            "incarnation %d is still running",
                            inc);
                abtmc_check(dcount == keyset, dcount > keyset ? "freed_twice"
                                                               : "not_freed",
                            "after ABT_thread_free the key destructor ran %d "
                            "times (value was set: %d)",
                            dcount, keyset);
                if (C->kind == K_ULTM)
                    abtmc_check(!abtmc_ledger_find((void *)h, NULL, NULL),
                                "not_freed",
                                "descriptor still allocated after "
                                "ABT_thread_free");
                break;
            }
            case O_REVIVE0:
            case O_REVIVE1: {
                ABT_thread h = uh;
                int s = sample(who);
                abtmc_check(s == ABT_THREAD_STATE_TERMINATED, "harness",
                            "revive of a unit that is not terminated");
                inc++;
                void *arg = (void *)(intptr_t)inc;
                ABT_pool p = pools[ops[i] == O_REVIVE1];
                if (C->kind == K_TASK)
                    OK(ABT_task_revive(p, unit_fn, arg, &h));
                else
                    OK(ABT_thread_revive(p, unit_fn, arg, &h));
                abtmc_check(h == uh, "handle_changed", "revive changed handle");
                break;
            }
            case O_SETEV: OK(ABT_eventual_set(ev, NULL, 0)); break;
            case O_YIELD: OK(ABT_thread_yield()); break;
            default: /* O_JOINX */
                for (int k = 0; k < 2; k++)
                    if (xt[k] >= 0) {
                        abtmc_thread_join(xt[k]);
                        xt[k] = -1;
                    }
                break;
        }
    }
}

static void x_main(void *arg) { run_script(1, C->x); }
static void y_main(void *arg) { run_script(2, C->y); }

static int script_has(const int *ops, int op)
{
    int n = 0;
    for (int i = 0; i < NSCRIPT && ops[i] != O_END; i++)
        n += ops[i] == op;
    return n;
}

static void scenario(int cfg)
{
    C = &cfgs[cfg];
    has_cancel = script_has(C->p, O_CANCEL) + script_has(C->x, O_CANCEL) +
                 script_has(C->y, O_CANCEL);
    nrevive = script_has(C->p, O_REVIVE0) + script_has(C->p, O_REVIVE1) +
              script_has(C->x, O_REVIVE0) + script_has(C->x, O_REVIVE1);
    strict = C->home == 0 && script_has(C->p, O_CANCEL) &&
             (C->body == B_SPIN || C->body == B_RET || C->body == B_EXIT);
    q_build();

    abtmc_std_env();
    setenv("ABT_THREAD_STACKSIZE", "65536", 1);
    OK(ABT_init(0, NULL));
    ABT_xstream es1;
    OK(ABT_xstream_create(ABT_SCHED_NULL, &es1));
    pools[0] = h_main_pool(h_self_xstream());
    pools[1] = h_main_pool(es1);
    OK(ABT_key_create(key_destructor, &key));
    OK(ABT_eventual_create(0, &ev));
    OK(ABT_thread_attr_create(&attr_m));
    OK(ABT_thread_attr_set_stacksize(attr_m, 32768));

    abtmc_window_begin();
    if (C->kind == K_TASK)
        OK(ABT_task_create(pools[C->home], unit_fn, (void *)0, &uh));
    else
        OK(ABT_thread_create(pools[C->home], unit_fn, (void *)0,
                             C->kind == K_ULTM ? attr_m : ABT_THREAD_ATTR_NULL,
                             &uh));
    if (C->x[0] != O_END)
        xt[0] = abtmc_thread_create(x_main, NULL);
    if (C->y[0] != O_END)
        xt[1] = abtmc_thread_create(y_main, NULL);
    run_script(0, C->p);
    for (int k = 0; k < 2; k++)
        if (xt[k] >= 0)
            abtmc_thread_join(xt[k]);
    abtmc_window_end();

    abtmc_check(freed, "harness", "script did not free the unit");
    for (int w = 0; w < 3; w++)
        check_sequence(w);
    int total_runs = 0;
    for (int i = 0; i <= nrevive; i++) {
        total_runs += runs[i];
        abtmc_check(runs[i] <= 1, "ran_twice", "incarnation %d ran %d times", i,
                    runs[i]);
        if (!has_cancel)
            abtmc_check(runs[i] == 1 && fins[i] == 1, "revive_run_count",
                        "incarnation %d: function entered %d times, finished "
                        "%d times (expected exactly once)",
                        i, runs[i], fins[i]);
    }
    abtmc_check(inc == nrevive, "harness", "revives %d of %d", inc, nrevive);
    {
        char a[MAXREC + 1], b[MAXREC + 1], c[MAXREC + 1];
        seq_string(0, a);
        seq_string(1, b);
        seq_string(2, c);
        abtmc_observe("P:%s X:%s Y:%s runs=%d fin=%d slices=%d", a, b, c,
                      total_runs, fins[0] + fins[1] + fins[2],
                      nslices > 3 ? 3 : nslices);
    }
    OK(ABT_thread_attr_free(&attr_m));
    OK(ABT_eventual_free(&ev));
    OK(ABT_key_free(&key));
    OK(ABT_xstream_join(es1));
    OK(ABT_xstream_free(&es1));
    h_finalize();
    abtmc_check(abtmc_ledger_live() == 0, "leak",
                "%ld allocations of libabt still live after ABT_finalize",
                abtmc_ledger_live());
}

static const char *cfg_name(int i) { return cfgs[i].name; }
static int cfg_quick(int i) { return cfgs[i].quick; }

int main(int argc, char **argv)
{
    static abtmc_driver d = { "c12_conc", "C12", ARRAY_LEN(cfgs), cfg_name,
                              scenario, cfg_quick };
    return abtmc_main(argc, argv, &d);
}
