/* c19_popwait.c -- C19 (second half): a blocking pool pop never loses a unit
 * pushed while it waits, and returns empty-handed in bounded (virtual) time
 * when the pool stays empty -- and not before the requested time has passed.
 * Also: a BASIC_WAIT scheduler sleeping in pop_wait on a FIFO_WAIT pool picks
 * up a unit pushed from another thread. */
#include "common.h"

enum { M_POPWAIT, M_POPTIMED, M_SCHED };
typedef struct {
    const char *name;
    int quick;
    ABT_pool_kind kind;
    int mode;
    int npush; /* 0 or 1 */
} cfg_t;

static const cfg_t cfgs[] = {
    { "FIFO pop_wait, 1 push", 1, ABT_POOL_FIFO, M_POPWAIT, 1 },
    { "FIFO pop_wait, no push", 1, ABT_POOL_FIFO, M_POPWAIT, 0 },
    { "FIFO_WAIT pop_wait, 1 push", 1, ABT_POOL_FIFO_WAIT, M_POPWAIT, 1 },
    { "FIFO_WAIT pop_wait, no push", 1, ABT_POOL_FIFO_WAIT, M_POPWAIT, 0 },
    { "FIFO_WAIT pop_timedwait, 1 push", 1, ABT_POOL_FIFO_WAIT, M_POPTIMED, 1 },
    { "RANDWS pop_wait, 1 push", 1, ABT_POOL_RANDWS, M_POPWAIT, 1 },
    { "BASIC_WAIT sched on FIFO_WAIT, 1 unit pushed by X", 1, ABT_POOL_FIFO_WAIT,
      M_SCHED, 1 },
    { "FIFO pop_timedwait, 1 push", 1, ABT_POOL_FIFO, M_POPTIMED, 1 },
    { "FIFO pop_timedwait, no push", 0, ABT_POOL_FIFO, M_POPTIMED, 0 },
    { "FIFO_WAIT pop_timedwait, no push", 0, ABT_POOL_FIFO_WAIT, M_POPTIMED, 0 },
    { "RANDWS pop_wait, no push", 0, ABT_POOL_RANDWS, M_POPWAIT, 0 },
    { "RANDWS pop_timedwait, 1 push", 1, ABT_POOL_RANDWS, M_POPTIMED, 1 },
    { "BASIC_WAIT sched on FIFO (polling pop_wait), 1 unit pushed by X", 0,
      ABT_POOL_FIFO, M_SCHED, 1 },
};

#define WAIT 0.5
static const cfg_t *C;
static ABT_pool Q;
static ABT_thread U;
static int ran, got_unit = -1;
static double t_call, t_ret, deadline;

static void unit_fn(void *arg) { (void)arg; ran++; }

static void consumer(void *arg)
{
    (void)arg;
    ABT_thread t = ABT_THREAD_NULL;
    t_call = abtmc_now();
    if (C->mode == M_POPWAIT) {
        OK(ABT_pool_pop_wait_thread(Q, &t, WAIT));
    } else {
        ABT_unit u;
        OK(ABT_pool_pop_timedwait(Q, &u, deadline));
        if (u != ABT_UNIT_NULL)
            OK(ABT_unit_get_thread(u, &t));
    }
    t_ret = abtmc_now();
    abtmc_check(t == ABT_THREAD_NULL || t == U, "alien_unit", "unknown handle");
    got_unit = (t == U);
}

static void producer(void *arg)
{
    (void)arg;
    OK(ABT_pool_push_thread(Q, U));
}

static void scenario(int cfg)
{
    C = &cfgs[cfg];
    h_init();
    double T0 = abtmc_now();
    deadline = T0 + WAIT;
    double cand[2] = { T0 + WAIT, T0 + 2 * WAIT };
    abtmc_clock_candidates(cand, 2);
    ABT_pool scratch;
    OK(ABT_pool_create_basic(ABT_POOL_FIFO, ABT_POOL_ACCESS_MPMC, ABT_FALSE,
                             &scratch));
    OK(ABT_pool_create_basic(C->kind, ABT_POOL_ACCESS_MPMC, ABT_FALSE, &Q));
    OK(ABT_thread_create(scratch, unit_fn, NULL, ABT_THREAD_ATTR_NULL, &U));
    ABT_thread tmp;
    OK(ABT_pool_pop_thread(scratch, &tmp));

    if (C->mode == M_SCHED) {
        /* a stream whose BASIC_WAIT scheduler serves only Q */
        ABT_sched sched;
        ABT_xstream es1;
        OK(ABT_sched_create_basic(ABT_SCHED_BASIC_WAIT, 1, &Q,
                                  ABT_SCHED_CONFIG_NULL, &sched));
        OK(ABT_xstream_create(sched, &es1));
        abtmc_window_begin();
        int p = abtmc_thread_create(producer, NULL);
        abtmc_thread_join(p);
        /* joining the unit returns only if the sleeping scheduler saw it */
        OK(ABT_thread_join(U));
        abtmc_window_end();
        abtmc_check(ran == 1, "unit_run_count", "unit ran %d times", ran);
        abtmc_observe("ran=%d t=+%.2f", ran, abtmc_now() - T0);
        OK(ABT_thread_free(&U));
        OK(ABT_xstream_join(es1));
        OK(ABT_xstream_free(&es1));
        OK(ABT_pool_free(&scratch));
        h_finalize();
        return;
    }

    abtmc_window_begin();
    int c = abtmc_thread_create(consumer, NULL);
    int p = C->npush ? abtmc_thread_create(producer, NULL) : -1;
    abtmc_thread_join(c);
    if (p >= 0)
        abtmc_thread_join(p);
    abtmc_window_end();

    size_t left;
    OK(ABT_pool_get_size(Q, &left));
    if (C->npush) {
        /* the pushed unit is either returned or still inside, never neither,
         * never both */
        abtmc_check((got_unit == 1) != (left == 1), "lost_unit",
                    "unit pushed during a blocking pop: returned=%d, left in "
                    "pool=%zu", got_unit, left);
    } else {
        abtmc_check(got_unit == 0 && left == 0, "phantom_unit",
                    "empty pool returned a unit");
    }
    /* "in bounded time": the call returned at all (a consumer asleep forever
     * is reported by the engine as a deadlock); the property sets no lower
     * bound on an empty-handed return, so none is checked. */
    abtmc_observe("got=%d left=%zu waited=%.1f", got_unit, left,
                  (t_ret - t_call) >= WAIT - 1e-6 ? WAIT : 0.0);
    if (left) {
        OK(ABT_pool_pop_thread(Q, &tmp));
    }
    ABT_pool p0 = h_main_pool(h_self_xstream());
    OK(ABT_pool_push_thread(p0, U));
    OK(ABT_thread_free(&U));
    abtmc_check(ran == 1, "unit_run_count", "unit ran %d times", ran);
    OK(ABT_pool_free(&Q));
    OK(ABT_pool_free(&scratch));
    h_finalize();
    abtmc_check(abtmc_ledger_live() == 0, "leak",
                "%ld live allocations after ABT_finalize", abtmc_ledger_live());
}

static const char *cfg_name(int i) { return cfgs[i].name; }
static int cfg_quick(int i) { return cfgs[i].quick; }

int main(int argc, char **argv)
{
    static abtmc_driver d = { "c19_popwait", "C19", ARRAY_LEN(cfgs), cfg_name,
                              scenario, cfg_quick };
    return abtmc_main(argc, argv, &d);
}
