/* c06_xjoin.c -- C06: ABT_xstream_join / ABT_xstream_free / ABT_finalize
 * return only after every work unit of the pools that only the joined stream
 * schedules has terminated -- including units that were blocked when the call
 * was made and are released later by somebody else --, they do return, the
 * stream ends TERMINATED, and the per-pool blocked count
 * (ABT_pool_get_total_size - ABT_pool_get_size) is never negative and is zero
 * when nothing is blocked.
 *
 * Scenario.  ES1 serves pool Q (and, where a unit migrates, a second pool R
 * of the same scheduler) through a predefined scheduler that is the stream's
 * main scheduler from the start (MAIN), was installed by a ULT of ES1 with
 * ABT_xstream_set_main_sched (REPLACED), or is a scheduler work unit pushed
 * to ES1's default main pool (STACKED).  In SHARED configs Q is the only pool
 * of the main schedulers of both ES1 and ES2.
 *   U1 blocks: eventual wait / ABT_self_suspend / mutex held by the resumer /
 *              join of U2 / self-requested migration to R followed by
 *              ABT_self_suspend.
 *   U2 yields / requests its own migration to R and yields / creates U3 and
 *      yield_to's it.
 * The primary ULT calls ABT_xstream_join(ES1) (or _free) while the resumer
 * (external thread X, a ULT on ES2, or -- shared pool -- a ULT in Q) releases
 * U1.  FINALIZE configs: no
 * secondary stream; the (unnamed) units sit in the primary stream's main pool
 * and the primary ULT calls ABT_finalize while X releases U1.
 * The exploration window stays open until the join/free/finalize returned. */
#include "abti.h"
#include "common.h"

enum { SM_MAIN, SM_REPLACED, SM_STACKED };
enum { PK_FIFO, PK_FIFO_WAIT, PK_RANDWS, PK_SHARED };
enum { B_NONE, B_EVENTUAL, B_SUSPEND, B_MUTEX, B_JOIN, B_MIGSUSPEND };
enum { U2_NONE, U2_YIELD, U2_MIGRATE, U2_YIELD_TO };
enum { R_NONE, R_EXT, R_ES2, R_Q /* a ULT living in Q itself */ };
enum { J_JOIN, J_FREE, J_FINALIZE };

typedef struct {
    const char *name;
    int quick;
    ABT_sched_predef sched;
    int pk, sm, block, u2, resumer, how;
} cfg_t;

#define S_B ABT_SCHED_BASIC
#define S_W ABT_SCHED_BASIC_WAIT
#define S_P ABT_SCHED_PRIO
#define S_R ABT_SCHED_RANDWS
static const cfg_t cfgs[] = {
    /* ---- quick ---- */
    { "BASIC/FIFO main: U1 suspend, U2 yield, X resumes; join", 1, S_B,
      PK_FIFO, SM_MAIN, B_SUSPEND, U2_YIELD, R_EXT, J_JOIN },
    { "BASIC/FIFO main: U1 eventual, ULT@ES2 sets; free", 1, S_B, PK_FIFO,
      SM_MAIN, B_EVENTUAL, U2_NONE, R_ES2, J_FREE },
    { "BASIC_WAIT/FIFO_WAIT main: U1 mutex held by X, U2 yield; join", 1, S_W,
      PK_FIFO_WAIT, SM_MAIN, B_MUTEX, U2_YIELD, R_EXT, J_JOIN },
    { "PRIO/FIFO(Q,R) main: U1 migrate-to-R + suspend, X resumes; join", 1,
      S_P, PK_FIFO, SM_MAIN, B_MIGSUSPEND, U2_NONE, R_EXT, J_JOIN },
    { "RANDWS/RANDWS main: U1 joins U2, U2 yield; join", 1, S_R, PK_RANDWS,
      SM_MAIN, B_JOIN, U2_YIELD, R_NONE, J_JOIN },
    { "BASIC/FIFO replaced main sched: U1 suspend, X resumes; join", 1, S_B,
      PK_FIFO, SM_REPLACED, B_SUSPEND, U2_NONE, R_EXT, J_JOIN },
    { "BASIC/FIFO stacked sched: U1 eventual, X sets; join", 1, S_B, PK_FIFO,
      SM_STACKED, B_EVENTUAL, U2_NONE, R_EXT, J_JOIN },
    { "finalize: U1 suspend, U2 yield in the primary pool, X resumes", 1, S_B,
      PK_FIFO, SM_MAIN, B_SUSPEND, U2_YIELD, R_EXT, J_FINALIZE },
    { "BASIC/FIFO(Q,R) main: U2 migrates itself to R, U1 eventual, X sets; "
      "join", 1, S_B, PK_FIFO, SM_MAIN, B_EVENTUAL, U2_MIGRATE, R_EXT, J_JOIN },
    { "BASIC_WAIT/FIFO_WAIT main: U1 suspend, X resumes; join", 1, S_W,
      PK_FIFO_WAIT, SM_MAIN, B_SUSPEND, U2_NONE, R_EXT, J_JOIN },
    { "BASIC/FIFO shared by ES1+ES2: U1 suspend, ULT in Q resumes; "
      "join,free,join", 1, S_B, PK_SHARED, SM_MAIN, B_SUSPEND, U2_NONE, R_Q,
      J_JOIN },
    /* ---- thorough ---- */
    { "BASIC/FIFO main: U1 suspend, U2 yield_to U3, X resumes; join", 0, S_B,
      PK_FIFO, SM_MAIN, B_SUSPEND, U2_YIELD_TO, R_EXT, J_JOIN },
    { "BASIC/FIFO main: U1 mutex held by ULT@ES2; free", 0, S_B, PK_FIFO,
      SM_MAIN, B_MUTEX, U2_NONE, R_ES2, J_FREE },
    { "BASIC/FIFO main: U1 migrate-to-R + suspend, ULT@ES2 resumes; free", 0,
      S_B, PK_FIFO, SM_MAIN, B_MIGSUSPEND, U2_YIELD, R_ES2, J_FREE },
    { "BASIC_WAIT/FIFO main: U1 eventual, U2 yield, X sets; free", 0, S_W,
      PK_FIFO, SM_MAIN, B_EVENTUAL, U2_YIELD, R_EXT, J_FREE },
    { "PRIO/FIFO_WAIT main: U1 suspend, U2 migrates to R, X resumes; join", 0,
      S_P, PK_FIFO_WAIT, SM_MAIN, B_SUSPEND, U2_MIGRATE, R_EXT, J_JOIN },
    { "PRIO/RANDWS main: U1 eventual, ULT@ES2 sets; join", 0, S_P, PK_RANDWS,
      SM_MAIN, B_EVENTUAL, U2_NONE, R_ES2, J_JOIN },
    { "RANDWS/FIFO main: U1 suspend, U2 yield, X resumes; free", 0, S_R,
      PK_FIFO, SM_MAIN, B_SUSPEND, U2_YIELD, R_EXT, J_FREE },
    { "RANDWS/RANDWS(Q,R) main: U1 migrate-to-R + suspend, X resumes; join", 0,
      S_R, PK_RANDWS, SM_MAIN, B_MIGSUSPEND, U2_NONE, R_EXT, J_JOIN },
    { "PRIO/FIFO replaced main sched: U1 mutex held by X, U2 yield; free", 0,
      S_P, PK_FIFO, SM_REPLACED, B_MUTEX, U2_YIELD, R_EXT, J_FREE },
    { "BASIC_WAIT/FIFO_WAIT replaced main sched: U1 eventual, X sets; join", 0,
      S_W, PK_FIFO_WAIT, SM_REPLACED, B_EVENTUAL, U2_NONE, R_EXT, J_JOIN },
    { "RANDWS/FIFO stacked sched: U1 suspend, U2 yield, X resumes; join", 0,
      S_R, PK_FIFO, SM_STACKED, B_SUSPEND, U2_YIELD, R_EXT, J_JOIN },
    { "PRIO/FIFO stacked sched: U1 joins U2, U2 yield; free", 0, S_P, PK_FIFO,
      SM_STACKED, B_JOIN, U2_YIELD, R_NONE, J_FREE },
    { "BASIC_WAIT/FIFO_WAIT stacked sched: U1 suspend, X resumes; join", 0, S_W,
      PK_FIFO_WAIT, SM_STACKED, B_SUSPEND, U2_NONE, R_EXT, J_JOIN },
    { "BASIC/FIFO shared by ES1+ES2: U1 eventual, U2 yield, ULT in Q sets; "
      "join,free,join", 0, S_B, PK_SHARED, SM_MAIN, B_EVENTUAL, U2_YIELD, R_Q,
      J_JOIN },
    { "RANDWS/FIFO shared by ES1+ES2: U1 mutex held by a ULT in Q; "
      "join,free,join", 0, S_R, PK_SHARED, SM_MAIN, B_MUTEX, U2_NONE, R_Q,
      J_JOIN },
    { "finalize: U1 blocked on a static mutex held by X", 0, S_B, PK_FIFO,
      SM_MAIN, B_MUTEX, U2_NONE, R_EXT, J_FINALIZE },
    { "finalize: U1 suspend, U2 creates U3 and yields, X resumes", 0, S_B, PK_FIFO,
      SM_MAIN, B_SUSPEND, U2_YIELD_TO, R_EXT, J_FINALIZE },
    { "BASIC/FIFO shared by ES1+ES2: U1 suspend, X resumes; join,free,join "
      "(4 threads)", 0, S_B, PK_SHARED, SM_MAIN, B_SUSPEND, U2_NONE, R_EXT,
      J_JOIN },
};

static const cfg_t *C;
static ABT_pool Q = ABT_POOL_NULL, R = ABT_POOL_NULL;
static ABT_xstream es1 = ABT_XSTREAM_NULL, es2 = ABT_XSTREAM_NULL;
static ABT_thread U1 = ABT_THREAD_NULL, U2 = ABT_THREAD_NULL,
                  U3 = ABT_THREAD_NULL;
static ABT_eventual EV;
static ABT_mutex MTX;
static ABT_mutex_memory static_mtx = ABT_MUTEX_INITIALIZER;
/* hooked flags (abtmc_load/store) */
static int done[4];   /* done[i] = unit Ui ran to its last statement */
static int held;      /* resumer holds the mutex */
static int released;  /* resumer finished its release call */
static int u1_pub;    /* U1 published its handle (finalize configs) */
static int runs[4];

/* The counter itself (one atomic read; valid at any instant).  The public
 * expression total_size - size reads the pool size twice and is exact only
 * while nothing is pushed or popped, so h_pool_blocked() is used at quiescent
 * points only. */
static int nb(ABT_pool p)
{
    if (p == ABT_POOL_NULL)
        return 0;
    return (int)ABTD_atomic_acquire_load_int32(
        &ABTI_pool_get_ptr(p)->num_blocked);
}

static void check_nonneg(const char *where)
{
    int bq = nb(Q), br = nb(R);
    abtmc_check(bq >= 0 && br >= 0, "blocked_negative",
                "%s: blocked count of Q is %d, of R %d (negative: "
                "ABT_pool_get_total_size would report size%+d)", where, bq, br,
                bq < 0 ? bq : br);
}

/* global invariant (engine: evaluated in the state after every hooked write) */
static void inv_nonneg(void)
{
    check_nonneg("global invariant, state after a write");
}

static void u3_fn(void *arg)
{
    (void)arg;
    runs[3]++;
    abtmc_store(&done[3], 1);
}

static void u2_fn(void *arg)
{
    (void)arg;
    runs[2]++;
    switch (C->u2) {
        case U2_YIELD:
            abtmc_progress(); /* progress the hooks cannot see otherwise */
            OK(ABT_thread_yield());
            abtmc_progress();
            OK(ABT_thread_yield());
            break;
        case U2_MIGRATE: {
            ABT_thread self;
            ABT_pool lp;
            OK(ABT_self_get_thread(&self));
            OK(ABT_thread_migrate_to_pool(self, R));
            OK(ABT_thread_yield());
            OK(ABT_self_get_last_pool(&lp));
            abtmc_check(lp == R, "migrate_wrong_pool",
                        "U2 requested its migration to R and yielded, but "
                        "runs from %s", lp == Q ? "Q" : "another pool");
            OK(ABT_thread_yield());
            break;
        }
        case U2_YIELD_TO: {
            ABT_pool mine;
            OK(ABT_self_get_last_pool(&mine));
            if (C->how == J_FINALIZE) {
                OK(ABT_thread_create(mine, u3_fn, NULL, ABT_THREAD_ATTR_NULL,
                                     NULL));
                /* the handle of an unnamed ULT is not available: plain yield */
                OK(ABT_thread_yield());
            } else {
                OK(ABT_thread_create(mine, u3_fn, NULL, ABT_THREAD_ATTR_NULL,
                                     &U3));
                /* U3 is READY and in the pool: only this stream pops from it
                 * and it is busy running U2 */
                OK(ABT_thread_yield_to(U3));
            }
            OK(ABT_thread_yield());
            break;
        }
        default: break;
    }
    abtmc_store(&done[2], 1);
}

static void u1_fn(void *arg)
{
    (void)arg;
    runs[1]++;
    if (C->how == J_FINALIZE) {
        OK(ABT_self_get_thread(&U1));
        abtmc_store(&u1_pub, 1);
    }
    switch (C->block) {
        case B_EVENTUAL: OK(ABT_eventual_wait(EV, NULL)); break;
        case B_SUSPEND: OK(ABT_self_suspend()); break;
        case B_MUTEX:
            OK(ABT_mutex_lock(MTX));
            OK(ABT_mutex_unlock(MTX));
            break;
        case B_JOIN:
            OK(ABT_thread_join(U2));
            abtmc_check(abtmc_load(&done[2]) == 1, "thread_join_early",
                        "U1's join of U2 returned before U2 finished");
            break;
        case B_MIGSUSPEND: {
            ABT_thread self;
            ABT_pool lp;
            OK(ABT_self_get_thread(&self));
            OK(ABT_thread_migrate_to_pool(self, R));
            OK(ABT_self_suspend());
            OK(ABT_self_get_last_pool(&lp));
            abtmc_check(lp == R, "migrate_wrong_pool",
                        "U1 requested its migration to R, suspended and was "
                        "resumed, but runs from %s",
                        lp == Q ? "Q" : "another pool");
            break;
        }
        default: break;
    }
    abtmc_store(&done[1], 1);
}

static void wait_blocked(int is_ult)
{
    for (;;) {
        ABT_thread_state st;
        OK(ABT_thread_get_state(U1, &st));
        if (st == ABT_THREAD_STATE_BLOCKED)
            break;
        if (is_ult)
            OK(ABT_thread_yield());
        else
            abtmc_spin_hint(1001, &U1);
    }
}

static void resumer_fn(void *arg)
{
    (void)arg;
    int is_ult = (C->resumer == R_ES2 || C->resumer == R_Q);
    switch (C->block) {
        case B_EVENTUAL: OK(ABT_eventual_set(EV, NULL, 0)); break;
        case B_SUSPEND:
        case B_MIGSUSPEND: {
            if (C->how == J_FINALIZE)
                abtmc_wait_until_ne(&u1_pub, 0);
            wait_blocked(is_ult);
            if (C->how != J_FINALIZE) {
                /* U1 is BLOCKED and stays so until we resume it: its pool(s)
                 * must account for it */
                int bq = nb(Q), br = nb(R);
                abtmc_check(bq >= 0 && br >= 0, "blocked_negative",
                            "blocked(Q)=%d blocked(R)=%d while U1 is suspended",
                            bq, br);
                abtmc_check(bq + br >= 1, "blocked_count",
                            "U1 is suspended but blocked(Q)+blocked(R)=%d",
                            bq + br);
                /* a yield_to in flight holds one more count for a moment */
                if (C->u2 != U2_YIELD_TO)
                    abtmc_check(bq + br == 1, "blocked_count",
                                "exactly U1 is suspended but "
                                "blocked(Q)+blocked(R)=%d", bq + br);
                if (C->u2 == U2_NONE) {
                    /* nothing else touches the pools: the public expression
                     * is exact */
                    int pq = h_pool_blocked(Q);
                    int pr = R != ABT_POOL_NULL ? h_pool_blocked(R) : 0;
                    abtmc_check(pq + pr == 1 && pq >= 0 && pr >= 0,
                                "blocked_count",
                                "exactly U1 is suspended but total_size-size "
                                "is %d for Q and %d for R", pq, pr);
                }
            }
            int rc = ABT_thread_resume(U1);
            abtmc_check(rc == ABT_SUCCESS, "resume_failed",
                        "ABT_thread_resume of a BLOCKED ULT returned %d", rc);
            if (C->how != J_FINALIZE)
                check_nonneg("after ABT_thread_resume(U1) returned");
            break;
        }
        case B_MUTEX:
            OK(ABT_mutex_lock(MTX));
            abtmc_store(&held, 1);
            abtmc_progress();
            OK(ABT_mutex_unlock(MTX));
            break;
        default: break;
    }
    abtmc_store(&released, 1);
}

static void replacer_fn(void *arg)
{
    ABT_sched s = (ABT_sched)arg;
    OK(ABT_xstream_set_main_sched(es1, s));
}

static char state_char(ABT_thread t)
{
    ABT_thread_state st;
    if (t == ABT_THREAD_NULL)
        return '-';
    OK(ABT_thread_get_state(t, &st));
    switch (st) {
        case ABT_THREAD_STATE_READY: return 'r';
        case ABT_THREAD_STATE_RUNNING: return 'R';
        case ABT_THREAD_STATE_BLOCKED: return 'B';
        default: return 'T';
    }
}

static void all_done(const char *what)
{
    for (int i = 1; i <= 3; i++) {
        int expected = (i == 1)   ? C->block != B_NONE
                       : (i == 2) ? C->u2 != U2_NONE
                                  : C->u2 == U2_YIELD_TO;
        int d = abtmc_load(&done[i]);
        if (expected)
            abtmc_check(d == 1 && runs[i] == 1, "returned_before_done",
                        "%s returned but unit U%d (on a pool only that stream "
                        "schedules) has not finished (done=%d, started %d "
                        "times)", what, i, d, runs[i]);
    }
}

static void scenario_finalize(void)
{
    h_init();
    ABT_pool p0 = h_main_pool(h_self_xstream());
    if (C->block == B_MUTEX)
        MTX = ABT_MUTEX_MEMORY_GET_HANDLE(&static_mtx);
    abtmc_window_begin();
    int xt = -1;
    if (C->block == B_MUTEX) {
        xt = abtmc_thread_create(resumer_fn, NULL);
        abtmc_wait_until_eq(&held, 1);
    }
    OK(ABT_thread_create(p0, u1_fn, NULL, ABT_THREAD_ATTR_NULL, NULL));
    if (C->u2 != U2_NONE)
        OK(ABT_thread_create(p0, u2_fn, NULL, ABT_THREAD_ATTR_NULL, NULL));
    if (xt < 0)
        xt = abtmc_thread_create(resumer_fn, NULL);
    int rel = abtmc_load(&released);
    int rc = ABT_finalize();
    abtmc_check(rc == ABT_SUCCESS, "finalize_rc", "ABT_finalize returned %d",
                rc);
    all_done("ABT_finalize");
    int rel2 = abtmc_load(&released);
    abtmc_thread_join(xt);
    abtmc_window_end();
    abtmc_check(abtmc_ledger_live() == 0, "leak_after_finalize",
                "%ld resources live after ABT_finalize", abtmc_ledger_live());
    abtmc_observe("rel_before_call=%d rel_at_return=%d", rel, rel2);
}

static void scenario(int cfg)
{
    C = &cfgs[cfg];
    if (C->how == J_FINALIZE) {
        scenario_finalize();
        return;
    }
    h_init();
    int need_r = (C->block == B_MIGSUSPEND || C->u2 == U2_MIGRATE);
    ABT_pool_kind kind = C->pk == PK_FIFO_WAIT ? ABT_POOL_FIFO_WAIT
                         : C->pk == PK_RANDWS  ? ABT_POOL_RANDWS
                                               : ABT_POOL_FIFO;
    ABT_pool pools[2];
    int npools = 1;
    OK(ABT_pool_create_basic(kind, ABT_POOL_ACCESS_MPMC, ABT_FALSE, &Q));
    pools[0] = Q;
    if (need_r) {
        OK(ABT_pool_create_basic(kind, ABT_POOL_ACCESS_MPMC, ABT_FALSE, &R));
        pools[npools++] = R;
    }
    ABT_sched s1, s2;
    ABT_pool p1main = ABT_POOL_NULL;
    OK(ABT_sched_create_basic(C->sched, npools, pools, ABT_SCHED_CONFIG_NULL,
                              &s1));
    if (C->pk == PK_SHARED) {
        OK(ABT_sched_create_basic(C->sched, npools, pools,
                                  ABT_SCHED_CONFIG_NULL, &s2));
        OK(ABT_xstream_create(s1, &es1));
        OK(ABT_xstream_create(s2, &es2));
    } else if (C->sm == SM_MAIN) {
        OK(ABT_xstream_create(s1, &es1));
    } else if (C->sm == SM_REPLACED) {
        ABT_thread rep;
        OK(ABT_xstream_create(ABT_SCHED_NULL, &es1));
        OK(ABT_thread_create(h_main_pool(es1), replacer_fn, (void *)s1,
                             ABT_THREAD_ATTR_NULL, &rep));
        OK(ABT_thread_free(&rep));
        ABT_sched cur;
        OK(ABT_xstream_get_main_sched(es1, &cur));
        abtmc_check(cur == s1, "api_error", "main scheduler not replaced");
    } else {
        OK(ABT_xstream_create(ABT_SCHED_NULL, &es1));
        p1main = h_main_pool(es1);
    }
    if (C->resumer == R_ES2)
        OK(ABT_xstream_create(ABT_SCHED_NULL, &es2));
    if (C->block == B_EVENTUAL)
        OK(ABT_eventual_create(0, &EV));
    if (C->block == B_MUTEX)
        OK(ABT_mutex_create(&MTX));

    abtmc_set_invariant(inv_nonneg);
    abtmc_window_begin();
    ABT_thread rt = ABT_THREAD_NULL;
    int xt = -1;
    if (C->block == B_MUTEX) {
        /* the third party takes the mutex first */
        if (C->resumer == R_EXT)
            xt = abtmc_thread_create(resumer_fn, NULL);
        else
            OK(ABT_thread_create(C->resumer == R_Q ? Q : h_main_pool(es2),
                                 resumer_fn, NULL, ABT_THREAD_ATTR_NULL, &rt));
        abtmc_wait_until_eq(&held, 1);
    }
    /* U2 first when U1 joins it (its handle must exist) */
    if (C->u2 != U2_NONE && C->block == B_JOIN)
        OK(ABT_thread_create(Q, u2_fn, NULL, ABT_THREAD_ATTR_NULL, &U2));
    if (C->block != B_NONE)
        OK(ABT_thread_create(Q, u1_fn, NULL, ABT_THREAD_ATTR_NULL, &U1));
    if (C->u2 != U2_NONE && C->block != B_JOIN)
        OK(ABT_thread_create(Q, u2_fn, NULL, ABT_THREAD_ATTR_NULL, &U2));
    if (C->sm == SM_STACKED && C->pk != PK_SHARED)
        OK(ABT_pool_add_sched(p1main, s1));
    if (C->block != B_MUTEX) {
        if (C->resumer == R_EXT)
            xt = abtmc_thread_create(resumer_fn, NULL);
        else if (C->resumer == R_ES2 || C->resumer == R_Q)
            OK(ABT_thread_create(C->resumer == R_Q ? Q : h_main_pool(es2),
                                 resumer_fn, NULL, ABT_THREAD_ATTR_NULL, &rt));
    }
    check_nonneg("before the join");
    char c1 = state_char(U1), c2 = state_char(U2);
    int rel = abtmc_load(&released);

    int rc;
    ABT_xstream_state xst;
    if (C->how == J_JOIN) {
        rc = ABT_xstream_join(es1);
        abtmc_check(rc == ABT_SUCCESS, "join_rc", "ABT_xstream_join: %d", rc);
        OK(ABT_xstream_get_state(es1, &xst));
        abtmc_check(xst == ABT_XSTREAM_STATE_TERMINATED, "not_terminated",
                    "ABT_xstream_join returned but the stream's state is %d",
                    (int)xst);
    } else {
        rc = ABT_xstream_free(&es1);
        abtmc_check(rc == ABT_SUCCESS && es1 == ABT_XSTREAM_NULL, "join_rc",
                    "ABT_xstream_free: %d", rc);
    }
    int rel2 = abtmc_load(&released);
    if (C->pk != PK_SHARED) {
        all_done(C->how == J_JOIN ? "ABT_xstream_join" : "ABT_xstream_free");
    } else {
        /* Q is also scheduled by ES2: only once ES1's scheduler is gone is
         * ES2 the only stream scheduling Q */
        if (es1 != ABT_XSTREAM_NULL)
            OK(ABT_xstream_free(&es1));
        rc = ABT_xstream_join(es2);
        abtmc_check(rc == ABT_SUCCESS, "join_rc", "ABT_xstream_join: %d", rc);
        OK(ABT_xstream_get_state(es2, &xst));
        abtmc_check(xst == ABT_XSTREAM_STATE_TERMINATED, "not_terminated",
                    "ABT_xstream_join returned but the stream's state is %d",
                    (int)xst);
        all_done("ABT_xstream_join of the last stream scheduling Q");
    }
    check_nonneg("after the join");
    if (xt >= 0)
        abtmc_thread_join(xt);
    if (rt != ABT_THREAD_NULL)
        OK(ABT_thread_free(&rt));
    abtmc_window_end();

    /* quiescence: nothing is blocked, nothing is queued */
    {
        int bq = h_pool_blocked(Q), br = need_r ? h_pool_blocked(R) : 0;
        size_t sq, sr = 0;
        OK(ABT_pool_get_size(Q, &sq));
        if (need_r)
            OK(ABT_pool_get_size(R, &sr));
        abtmc_check(bq == 0 && br == 0 && nb(Q) == 0 && nb(R) == 0,
                    "blocked_count",
                    "at the end total_size-size is %d for Q and %d for R "
                    "(counters %d, %d), expected 0", bq, br, nb(Q), nb(R));
        abtmc_check(sq == 0 && sr == 0, "unit_left_in_pool",
                    "at the end size(Q)=%zu size(R)=%zu", sq, sr);
    }
    abtmc_observe("at_call: u1=%c u2=%c released=%d; at_return: released=%d",
                  c1, c2, rel, rel2);

    if (U1 != ABT_THREAD_NULL)
        OK(ABT_thread_free(&U1));
    if (U2 != ABT_THREAD_NULL)
        OK(ABT_thread_free(&U2));
    if (U3 != ABT_THREAD_NULL)
        OK(ABT_thread_free(&U3));
    if (C->block == B_EVENTUAL)
        OK(ABT_eventual_free(&EV));
    if (C->block == B_MUTEX)
        OK(ABT_mutex_free(&MTX));
    if (es1 != ABT_XSTREAM_NULL)
        OK(ABT_xstream_free(&es1));
    if (es2 != ABT_XSTREAM_NULL) {
        OK(ABT_xstream_join(es2));
        OK(ABT_xstream_free(&es2));
    }
    OK(ABT_pool_free(&Q));
    if (need_r)
        OK(ABT_pool_free(&R));
    h_finalize();
    abtmc_check(abtmc_ledger_live() == 0, "leak_after_finalize",
                "%ld resources live after ABT_finalize", abtmc_ledger_live());
}

static const char *cfg_name(int i) { return cfgs[i].name; }
static int cfg_quick(int i) { return cfgs[i].quick; }

int main(int argc, char **argv)
{
    static abtmc_driver d = { "c06_xjoin", "C06", ARRAY_LEN(cfgs), cfg_name,
                              scenario, cfg_quick };
    return abtmc_main(argc, argv, &d);
}
