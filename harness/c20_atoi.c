/* c20_atoi.c -- C20b: ABTU_atoi / ABTU_atoui32 / ABTU_atoui64 / ABTU_atosz
 * against the reference of c20_ref.h.
 *
 * kind S (sequential, one controlled thread, no ABT_init needed).  One
 * execution = one shard: all strings over the alphabet that start with a
 * given triple of characters (1000 shards = three abtmc_choose(10)), looped inside
 * the execution.  Shards additionally carry a slice of the boundary-numeral
 * corpus (every decimal around every type limit with sign prefixes, leading
 * zeros and junk suffixes).
 */
#include "abti.h"
#include "common.h"
#include "c20_ref.h"

typedef struct {
    const char *name;
    int quick;
    int maxlen;
} cfg_t;

static const cfg_t cfgs[] = {
    { "all strings len<=6 + boundary numerals", 1, 6 },
    { "all strings len<=7 + boundary numerals", 0, 7 },
    { "all strings len<=8 + boundary numerals", 0, 8 },
};

/* 10 characters: digits incl. the extremes, both signs, three blanks that the
 * parser must skip only in front, and a junk character */
static const char ALPHA[] = "019+- \tx\n5";
#define NALPHA 10

static long long n_cases, n_calls, n_ok, n_err, n_ovf;
static unsigned classes;
static char *tailbuf; /* strings are placed so that the NUL is its last byte */
#define TAILSZ 96

static const char *place(const char *s)
{
    size_t l = strlen(s);
    char *p = tailbuf + TAILSZ - (l + 1);
    memcpy(p, s, l + 1);
    return p;
}

static void check_one(const char *s0)
{
    const char *s = place(s0);
    int rv, ro, re;
    uint64_t ru;
    n_cases++;

    /* --- int --- */
    re = c20_ref_atoi(s, &rv, &ro);
    {
        int v = 12345;
        ABT_bool o = 77;
        int e = ABTU_atoi(s, &v, &o);
        n_calls++;
        if (re < 0) {
            abtmc_check(e == ABT_ERR_INV_ARG, "atoi_accepts_non_number",
                        "ABTU_atoi(\"%s\") returned %d, expected "
                        "ABT_ERR_INV_ARG (no digit after blanks/signs)", s0, e);
        } else {
            abtmc_check(e == ABT_SUCCESS, "atoi_rejects_number",
                        "ABTU_atoi(\"%s\") returned %d, expected success", s0,
                        e);
            abtmc_check(v == rv, "atoi_value",
                        "ABTU_atoi(\"%s\") = %d, expected %d", s0, v, rv);
            abtmc_check((o == ABT_TRUE) == ro && (o == ABT_TRUE || o == ABT_FALSE),
                        "atoi_overflow_flag",
                        "ABTU_atoi(\"%s\") overflow flag %d, expected %d", s0,
                        (int)o, ro);
            /* NULL overflow pointer is what abtd_env.c passes */
            int v2 = 54321;
            e = ABTU_atoi(s, &v2, NULL);
            n_calls++;
            abtmc_check(e == ABT_SUCCESS && v2 == rv, "atoi_value",
                        "ABTU_atoi(\"%s\", NULL flag) = %d (ret %d), expected %d",
                        s0, v2, e, rv);
            if (ro)
                classes |= rv < 0 ? 1u : 2u;
        }
    }
    /* --- uint32 --- */
    re = c20_ref_atoui32(s, &ru, &ro);
    {
        uint32_t v = 12345;
        ABT_bool o = 77;
        int e = ABTU_atoui32(s, &v, &o);
        n_calls++;
        if (re < 0) {
            abtmc_check(e == ABT_ERR_INV_ARG, "atoi_accepts_non_number",
                        "ABTU_atoui32(\"%s\") returned %d, expected "
                        "ABT_ERR_INV_ARG", s0, e);
        } else {
            abtmc_check(e == ABT_SUCCESS, "atoi_rejects_number",
                        "ABTU_atoui32(\"%s\") returned %d, expected success",
                        s0, e);
            abtmc_check(v == (uint32_t)ru, "atoui32_value",
                        "ABTU_atoui32(\"%s\") = %u, expected %u", s0, v,
                        (uint32_t)ru);
            abtmc_check((o == ABT_TRUE) == ro && (o == ABT_TRUE || o == ABT_FALSE),
                        "atoui32_overflow_flag",
                        "ABTU_atoui32(\"%s\") overflow flag %d, expected %d",
                        s0, (int)o, ro);
            uint32_t v2 = 1;
            e = ABTU_atoui32(s, &v2, NULL);
            n_calls++;
            abtmc_check(e == ABT_SUCCESS && v2 == (uint32_t)ru, "atoui32_value",
                        "ABTU_atoui32(\"%s\", NULL flag) = %u", s0, v2);
            if (ro)
                classes |= ru ? 4u : 8u;
        }
    }
    /* --- uint64 and size_t --- */
    re = c20_ref_atoui64(s, &ru, &ro);
    {
        uint64_t v = 12345;
        ABT_bool o = 77;
        int e = ABTU_atoui64(s, &v, &o);
        size_t z = 999;
        ABT_bool oz = 77;
        int ez = ABTU_atosz(s, &z, &oz);
        n_calls += 2;
        if (re < 0) {
            n_err++;
            classes |= 64u;
            abtmc_check(e == ABT_ERR_INV_ARG && ez == ABT_ERR_INV_ARG,
                        "atoi_accepts_non_number",
                        "ABTU_atoui64/atosz(\"%s\") returned %d/%d, expected "
                        "ABT_ERR_INV_ARG", s0, e, ez);
        } else {
            n_ok++;
            abtmc_check(e == ABT_SUCCESS && ez == ABT_SUCCESS,
                        "atoi_rejects_number",
                        "ABTU_atoui64/atosz(\"%s\") returned %d/%d, expected "
                        "success", s0, e, ez);
            abtmc_check(v == ru, "atoui64_value",
                        "ABTU_atoui64(\"%s\") = %llu, expected %llu", s0,
                        (unsigned long long)v, (unsigned long long)ru);
            abtmc_check((o == ABT_TRUE) == ro && (o == ABT_TRUE || o == ABT_FALSE),
                        "atoui64_overflow_flag",
                        "ABTU_atoui64(\"%s\") overflow flag %d, expected %d",
                        s0, (int)o, ro);
            abtmc_check(z == (size_t)ru, "atosz_value",
                        "ABTU_atosz(\"%s\") = %zu, expected %llu", s0, z,
                        (unsigned long long)ru);
            abtmc_check((oz == ABT_TRUE) == ro, "atosz_overflow_flag",
                        "ABTU_atosz(\"%s\") overflow flag %d, expected %d", s0,
                        (int)oz, ro);
            uint64_t v2 = 1;
            size_t z2 = 1;
            e = ABTU_atoui64(s, &v2, NULL);
            ez = ABTU_atosz(s, &z2, NULL);
            n_calls += 2;
            abtmc_check(e == ABT_SUCCESS && v2 == ru && ez == ABT_SUCCESS &&
                            z2 == (size_t)ru,
                        "atoui64_value",
                        "ABTU_atoui64/atosz(\"%s\", NULL flag) = %llu/%zu", s0,
                        (unsigned long long)v2, z2);
            if (ro) {
                n_ovf++;
                classes |= ru ? 16u : 32u;
            } else {
                classes |= 128u;
            }
        }
    }
}

/* ---- boundary numerals ------------------------------------------------ */

/* decimal string arithmetic: out = in + delta (|delta| small), in >= 0 */
static void dec_add(const char *in, int delta, char *out)
{
    int d[64], n = (int)strlen(in);
    for (int i = 0; i < n; i++)
        d[i] = in[n - 1 - i] - '0';
    d[n] = 0;
    int m = n + 1;
    if (delta >= 0) {
        int c = delta;
        for (int i = 0; i < m && c; i++) {
            int t = d[i] + c;
            d[i] = t % 10;
            c = t / 10;
        }
    } else {
        int b = -delta;
        for (int i = 0; i < m && b; i++) {
            int t = d[i] - b % 10;
            b /= 10;
            if (t < 0) {
                t += 10;
                b += 1;
            }
            d[i] = t;
        }
    }
    while (m > 1 && d[m - 1] == 0)
        m--;
    for (int i = 0; i < m; i++)
        out[i] = (char)('0' + d[m - 1 - i]);
    out[m] = 0;
}

static const char *const LIMITS[] = {
    "2147483647",           /* INT_MAX */
    "2147483648",           /* -INT_MIN */
    "4294967295",           /* UINT32_MAX */
    "9223372036854775807",  /* INT64_MAX */
    "18446744073709551615", /* UINT64_MAX */
    "1844674407370955161",  /* UINT64_MAX / 10 */
    "0",
};
static const char *const PREFIX[] = { "",   "+",  "-",   "--",   "-+", "+-",
                                      " -", "\t+", "\n \r-", "---", "+ ",  "- " };
static const char *const ZEROS[] = { "", "0", "00", "000000000000000000000" };
static const char *const SUFFIX[] = { "", "x", " ", "-", "+1", "0", "9", ".5" };

static void boundary_numerals(int slice, int nslices)
{
    int k = 0;
    char num[80], buf[160];
    for (int l = 0; l < ARRAY_LEN(LIMITS); l++) {
        /* L-2 .. L+2, and the same around 10*L (one more digit) */
        for (int scale = 0; scale < 2; scale++) {
            for (int dlt = -2; dlt <= 2; dlt++) {
                char base[80];
                snprintf(base, sizeof(base), "%s%s", LIMITS[l],
                         scale ? "0" : "");
                if (strcmp(base, "0") == 0 || strcmp(base, "00") == 0) {
                    if (dlt < 0)
                        continue;
                    snprintf(base, sizeof(base), "0");
                }
                dec_add(base, dlt, num);
                for (int p = 0; p < ARRAY_LEN(PREFIX); p++)
                    for (int z = 0; z < ARRAY_LEN(ZEROS); z++)
                        for (int x = 0; x < ARRAY_LEN(SUFFIX); x++) {
                            if (k++ % nslices != slice)
                                continue;
                            snprintf(buf, sizeof(buf), "%s%s%s%s", PREFIX[p],
                                     ZEROS[z], num, SUFFIX[x]);
                            if (strlen(buf) < TAILSZ - 1)
                                check_one(buf);
                        }
            }
        }
    }
    /* very long numerals */
    static const char *const LONG[] = {
        "99999999999999999999",
        "100000000000000000000",
        "18446744073709551616000",
        "-18446744073709551616",
        "-99999999999999999999999999999999999999",
        "11112147483648",
        "-11112147483648",
        "111118446744073709551615",
        "340282366920938463463374607431768211456", /* 2^128 */
        "000000000000000000000000000000000000000000000000000000001",
    };
    for (int i = 0; i < ARRAY_LEN(LONG); i++)
        if (k++ % nslices == slice)
            check_one(LONG[i]);
}

static void scenario(int cfg)
{
    const cfg_t *C = &cfgs[cfg];
    tailbuf = (char *)malloc(TAILSZ);
    long live0 = abtmc_ledger_live();

    abtmc_window_begin();
    int a = abtmc_choose(NALPHA, ABTMC_B_FREE);
    int b = abtmc_choose(NALPHA, ABTMC_B_FREE);
    int c = abtmc_choose(NALPHA, ABTMC_B_FREE);
    abtmc_window_end();
    int shard = (a * NALPHA + b) * NALPHA + c;

    if (shard == 0) {
        /* the strings of length 0, 1 and 2 */
        check_one("");
        for (int i = 0; i < NALPHA; i++) {
            char s[3] = { ALPHA[i], 0, 0 };
            check_one(s);
            for (int j = 0; j < NALPHA; j++) {
                s[1] = ALPHA[j];
                check_one(s);
            }
        }
    }
    int fixed[3] = { a, b, c };
    for (int len = 3; len <= C->maxlen; len++) {
        c20_enum e;
        c20_enum_start(&e, ALPHA, len, fixed, 3);
        do {
            check_one(e.str);
        } while (c20_enum_next(&e, 3));
    }
    unsigned classes_enum = classes;
    boundary_numerals(shard, NALPHA * NALPHA * NALPHA);

    abtmc_check(abtmc_ledger_live() == live0, "atoi_allocates",
                "string-to-integer routines left %ld allocations",
                abtmc_ledger_live() - live0);
    abtmc_stat("cases", n_cases);
    abtmc_stat("distinct", n_cases);
    abtmc_stat("ops", n_calls);
    abtmc_stat("nontrivial", n_ok);
    abtmc_stat("atoi_strings", n_cases);
    abtmc_stat("atoi_not_a_number", n_err);
    abtmc_stat("atoi_saturated_u64", n_ovf);
    /* which result classes the enumerated strings of this shard / all its
     * strings produced: bit0 int underflow, bit1 int
     * overflow, bit2 u32 overflow, bit3 u32 negative, bit4 u64 overflow, bit5
     * u64 negative, bit6 not-a-number, bit7 exact value */
    abtmc_observe("enumerated=%02x corpus=%02x", classes_enum, classes);
    free(tailbuf);
}

static const char *cfg_name(int i) { return cfgs[i].name; }
static int cfg_quick(int i) { return cfgs[i].quick; }

int main(int argc, char **argv)
{
    static abtmc_driver d = { "c20_atoi", "C20", ARRAY_LEN(cfgs), cfg_name,
                              scenario, cfg_quick };
    return abtmc_main(argc, argv, &d);
}
