/* c15_xfree.c -- C15: blocks travel between owners in bulk.  Units created on
 * one execution stream are freed, many at a time, by somebody else (an external
 * thread, a ULT of another stream, or the creator itself), so that whole
 * buckets spill from a local/external pool into the global pools; then new
 * units are created and must get memory that no live unit uses.  A block that
 * is returned to the wrong pool (a descriptor into a stack pool, ...) shows up
 * only after more frees than one bucket holds and a later allocation wave.
 *
 * One history per execution (abtmc_choose FREE): kind of the first wave
 * (tasklets / ULTs), who frees it (X / ULT on ES1 / creator), how many (more
 * than 1, 2 and 4 buckets), all or every other one, kind of the second wave.
 * Oracle as in c15_memcfg: descriptors and stacks of live units pairwise
 * disjoint and inside allocator blocks, stack contents survive a yield, every
 * unit runs once, ledger empty after ABT_finalize. */
#include "abti.h"
#include "common.h"

typedef struct {
    const char *name;
    int quick;
    const char *stacks, *descs, *lp;
} cfg_t;
static const cfg_t cfgs[] = {
    { "stacks2 descs2 malloc", 1, "2", "2", "malloc" },
    { "stacks4 descs4 malloc", 1, "4", "4", "malloc" },
    { "stacks2 descs4 mmap_rp", 0, "2", "4", "mmap_rp" },
    { "stacks4 descs2 thp", 0, "4", "2", "thp" },
};

#define MAXU 40
typedef struct {
    ABT_thread h;
    int is_task, ran, live;
    uintptr_t stk_lo, stk_hi, d_lo, d_hi;
} unit_t;

static const cfg_t *C;
static unit_t U[MAXU];
static int nU;
static ABT_pool pool[2];
static int go_free, freed_done; /* hooked */
static int w1_kind, freer, n1, every_other, w2_kind, w1_on;
enum { F_EXT, F_ES1, F_SELF };

static void unit_body(void *arg)
{
    unit_t *u = (unit_t *)arg;
    volatile unsigned char buf[384];
    for (int k = 0; k < 384; k++)
        buf[k] = (unsigned char)(k * 5 + (int)(u - U));
    if (!u->is_task) {
        abtmc_progress();
        OK(ABT_thread_yield());
    }
    int bad = 0;
    for (int k = 0; k < 384; k++)
        if (buf[k] != (unsigned char)(k * 5 + (int)(u - U)))
            bad++;
    abtmc_check(bad == 0, "stack_clobbered",
                "unit %d: %d bytes of its stack changed across a yield",
                (int)(u - U), bad);
    u->ran++;
}

static void in_ledger(uintptr_t lo, uintptr_t hi, int idx, const char *what)
{
    void *base = NULL;
    size_t sz = 0;
    int f = abtmc_ledger_find((void *)lo, &base, &sz);
    abtmc_check(f && hi <= (uintptr_t)base + sz, "stack_outside_allocation",
                "%s of unit %d [%#lx,%#lx) is not inside a block libabt obtained "
                "from the allocator", what, idx, (unsigned long)lo,
                (unsigned long)hi);
}

static void overlap_check(uintptr_t lo, uintptr_t hi, int idx, const char *what)
{
    for (int j = 0; j < nU; j++) {
        if (j == idx || !U[j].live)
            continue;
        abtmc_check(hi <= U[j].d_lo || U[j].d_hi <= lo, "stack_overlap",
                    "%s of unit %d [%#lx,%#lx) overlaps the descriptor of live "
                    "unit %d [%#lx,%#lx)", what, idx, (unsigned long)lo,
                    (unsigned long)hi, j, (unsigned long)U[j].d_lo,
                    (unsigned long)U[j].d_hi);
        if (U[j].stk_hi)
            abtmc_check(hi <= U[j].stk_lo || U[j].stk_hi <= lo, "stack_overlap",
                        "%s of unit %d [%#lx,%#lx) overlaps the stack of live unit "
                        "%d [%#lx,%#lx)", what, idx, (unsigned long)lo,
                        (unsigned long)hi, j, (unsigned long)U[j].stk_lo,
                        (unsigned long)U[j].stk_hi);
    }
}

static int create_unit(ABT_pool p, int is_task)
{
    abtmc_check(nU < MAXU, "harness", "too many units");
    int idx = nU;
    unit_t *u = &U[idx];
    u->is_task = is_task;
    if (is_task)
        OK(ABT_task_create(p, unit_body, u, &u->h));
    else
        OK(ABT_thread_create(p, unit_body, u, ABT_THREAD_ATTR_NULL, &u->h));
    u->d_lo = (uintptr_t)ABTI_thread_get_ptr(u->h);
    u->d_hi = u->d_lo + (is_task ? sizeof(ABTI_thread) : sizeof(ABTI_ythread));
    u->stk_lo = u->stk_hi = 0;
    if (!is_task) {
        ABT_thread_attr at;
        void *sa;
        size_t ss;
        OK(ABT_thread_get_attr(u->h, &at));
        OK(ABT_thread_attr_get_stack(at, &sa, &ss));
        OK(ABT_thread_attr_free(&at));
        abtmc_check(sa != NULL && ss >= 4096, "stack_too_small",
                    "unit %d: stack %p size %zu", idx, sa, ss);
        u->stk_lo = (uintptr_t)sa;
        u->stk_hi = u->stk_lo + ss;
    }
    nU++;
    in_ledger(u->d_lo, u->d_hi, idx, "descriptor");
    overlap_check(u->d_lo, u->d_hi, idx, "descriptor");
    if (!is_task) {
        in_ledger(u->stk_lo, u->stk_hi, idx, "stack");
        overlap_check(u->stk_lo, u->stk_hi, idx, "stack");
        abtmc_check(u->stk_hi <= u->d_lo || u->d_hi <= u->stk_lo, "stack_overlap",
                    "unit %d: stack overlaps own descriptor", idx);
    }
    u->live = 1;
    return idx;
}

static void free_unit(int idx)
{
    unit_t *u = &U[idx];
    ABT_thread h = u->h;
    u->live = 0;
    OK(ABT_thread_free(&h));
    abtmc_check(u->ran == 1, "unit_not_run_once", "unit %d ran %d times", idx,
                u->ran);
}

static void free_wave1(void *arg)
{
    int external = (int)(intptr_t)arg;
    if (external)
        abtmc_wait_until_eq(&go_free, 1);
    for (int i = 0; i < n1; i++)
        if (!every_other || (i & 1) == 0)
            free_unit(i);
    abtmc_store(&freed_done, 1);
}

static void scenario(int cfg)
{
    C = &cfgs[cfg];
    abtmc_std_env();
    setenv("ABT_MEM_MAX_NUM_STACKS", C->stacks, 1);
    setenv("ABT_MEM_MAX_NUM_DESCS", C->descs, 1);
    setenv("ABT_MEM_LP_ALLOC", C->lp, 1);
    OK(ABT_init(0, NULL));
    ABT_xstream es1;
    OK(ABT_xstream_create(ABT_SCHED_NULL, &es1));
    pool[0] = h_main_pool(h_self_xstream());
    pool[1] = h_main_pool(es1);

    abtmc_window_begin();
    static const int counts[] = { 3, 5, 9, 17 };
    w1_kind = abtmc_choose(2, ABTMC_B_FREE);      /* 0 tasklets, 1 ULTs */
    w1_on = abtmc_choose(2, ABTMC_B_FREE);        /* pool the first wave runs in */
    freer = abtmc_choose(3, ABTMC_B_FREE);
    n1 = counts[abtmc_choose(4, ABTMC_B_FREE)];
    every_other = abtmc_choose(2, ABTMC_B_FREE);
    w2_kind = abtmc_choose(2, ABTMC_B_FREE);

    /* wave 1: created by the primary ULT (descriptors come from ES0's local
     * pool), run on ES0 or ES1 */
    for (int i = 0; i < n1; i++)
        create_unit(pool[w1_on], w1_kind == 0);
    for (int i = 0; i < n1; i++)
        OK(ABT_thread_join(U[i].h));
    /* bulk free by somebody */
    if (freer == F_EXT) {
        int x = abtmc_thread_create(free_wave1, (void *)(intptr_t)1);
        abtmc_store(&go_free, 1);
        abtmc_thread_join(x);
    } else if (freer == F_ES1) {
        ABT_thread f;
        OK(ABT_thread_create(pool[1], free_wave1, (void *)(intptr_t)0,
                             ABT_THREAD_ATTR_NULL, &f));
        OK(ABT_thread_free(&f));
    } else {
        free_wave1((void *)(intptr_t)0);
    }
    /* wave 2: enough new units to drain whatever was spilled to the global
     * pools; created alternately by the primary and (through ES1's pool) run
     * on both streams */
    int first2 = nU, n2 = n1 + 4;
    for (int i = 0; i < n2; i++)
        create_unit(pool[i & 1], w2_kind == 0 && (i % 3) == 2);
    for (int i = first2; i < nU; i++)
        OK(ABT_thread_join(U[i].h));
    for (int i = 0; i < nU; i++)
        if (U[i].live)
            free_unit(i);
    abtmc_window_end();

    for (int i = 0; i < nU; i++)
        abtmc_check(U[i].ran == 1 && !U[i].live, "unit_not_run_once",
                    "unit %d: ran=%d live=%d at the end", i, U[i].ran, U[i].live);
    abtmc_observe("w1=%s@%d freer=%d n=%d%s w2=%s", w1_kind ? "ult" : "task", w1_on,
                  freer, n1, every_other ? "/2" : "", w2_kind ? "ult" : "mixed");
    OK(ABT_xstream_join(es1));
    OK(ABT_xstream_free(&es1));
    OK(ABT_finalize());
    abtmc_check(abtmc_ledger_live() == 0, "stack_leak",
                "%ld allocation(s) still live after ABT_finalize (%ld bytes)",
                abtmc_ledger_live(), abtmc_ledger_live_bytes());
}

static const char *cfg_name(int i) { return cfgs[i].name; }
static int cfg_quick(int i) { return cfgs[i].quick; }

int main(int argc, char **argv)
{
    static abtmc_driver d = { "c15_xfree", "C15", ARRAY_LEN(cfgs), cfg_name, scenario,
                              cfg_quick };
    return abtmc_main(argc, argv, &d);
}
