/* c08_xrendezvous.c -- C08 (ABT_xstream_barrier / ABT_barrier used as a
 * rendezvous): MORE distinct callers than num_waiters share one barrier, the
 * way a pthread barrier may be used; the callers draw tickets for a total number
 * of calls that is a multiple of num_waiters, so every call pairs up in some
 * round (calls[] only gives the total).  A caller that lapped the
 * others can only be told apart from a late one of the previous round by the
 * round identity the barrier samples together with its arrival count.
 *
 * Oracle (counting, valid whatever the pairing): when a call returns, the number
 * of calls that have returned so far never exceeds num_waiters *
 * floor(entered / num_waiters), where `entered` counts the calls announced
 * before entering; and all calls return (a stuck caller is a deadlock). */
#include "common.h"

enum { K_M, K_U1, K_U2, K_X };
enum { B_XSTREAM, B_ABT };
typedef struct {
    const char *name;
    int quick, btype, n, ncallers;
    int kind[4], calls[4];
} cfg_t;
static const cfg_t cfgs[] = {
    { "xstream barrier n=2: M@ES0 x2 + U@ES1 x1 + U@ES2 x1", 1, B_XSTREAM, 2, 3,
      { K_M, K_U1, K_U2 }, { 2, 1, 1 } },
    { "xstream barrier n=2: U@ES1 x1 + U@ES2 x2 + M@ES0 x1", 1, B_XSTREAM, 2, 3,
      { K_U1, K_U2, K_M }, { 1, 2, 1 } },
    { "ABT_barrier n=2: M x1 + U@ES1 x2 + X x1", 1, B_ABT, 2, 3, { K_M, K_U1, K_X },
      { 1, 2, 1 } },
    /* (only call patterns that pair up whatever the order: one caller calls
     * twice, two call once, num_waiters = 2) */
    { "xstream barrier n=2: U@ES1 x2 + M@ES0 x1 + U@ES2 x1", 0, B_XSTREAM, 2, 3,
      { K_U1, K_M, K_U2 }, { 2, 1, 1 } },
    { "ABT_barrier n=2: X x2 + U@ES1 x1 + M x1", 0, B_ABT, 2, 3, { K_X, K_U1, K_M },
      { 2, 1, 1 } },
};

static const cfg_t *C;
static ABT_xstream_barrier XB;
static ABT_barrier AB;
static int entered, returned; /* hooked */

static int next_ticket, total_calls; /* hooked / constant */

static void caller(void *arg)
{
    int i = (int)(intptr_t)arg;
    /* tickets: whoever is free takes the next call, so that every call finds a
     * partner whatever the order (a fixed number of calls per caller could
     * leave one caller alone with two calls) */
    for (int k = 0;; k++) {
        if (abtmc_fetch_add(&next_ticket, 1) >= total_calls)
            break;
        abtmc_fetch_add(&entered, 1);
        if (C->btype == B_XSTREAM)
            OK(ABT_xstream_barrier_wait(XB));
        else
            OK(ABT_barrier_wait(AB));
        int r = abtmc_fetch_add(&returned, 1) + 1;
        int e = abtmc_load(&entered);
        abtmc_check(r <= C->n * (e / C->n), "early_release",
                    "caller %d returned from its call #%d as return number %d when "
                    "only %d calls had entered the barrier (num_waiters = %d)", i, k,
                    r, e, C->n);
    }
}

static void scenario(int cfg)
{
    C = &cfgs[cfg];
    h_init();
    ABT_xstream es1 = ABT_XSTREAM_NULL, es2 = ABT_XSTREAM_NULL;
    int total = 0;
    for (int i = 0; i < C->ncallers; i++) {
        total += C->calls[i];
        if (C->kind[i] == K_U1 && es1 == ABT_XSTREAM_NULL)
            OK(ABT_xstream_create(ABT_SCHED_NULL, &es1));
        if (C->kind[i] == K_U2 && es2 == ABT_XSTREAM_NULL)
            OK(ABT_xstream_create(ABT_SCHED_NULL, &es2));
    }
    abtmc_check(total % C->n == 0, "harness", "calls do not pair up");
    total_calls = total;
    if (C->btype == B_XSTREAM)
        OK(ABT_xstream_barrier_create((uint32_t)C->n, &XB));
    else
        OK(ABT_barrier_create((uint32_t)C->n, &AB));

    abtmc_window_begin();
    ABT_thread th[4] = { ABT_THREAD_NULL, ABT_THREAD_NULL, ABT_THREAD_NULL,
                         ABT_THREAD_NULL };
    int xt[4] = { -1, -1, -1, -1 };
    for (int i = 0; i < C->ncallers; i++) {
        void *arg = (void *)(intptr_t)i;
        if (C->kind[i] == K_U1)
            OK(ABT_thread_create(h_main_pool(es1), caller, arg, ABT_THREAD_ATTR_NULL,
                                 &th[i]));
        else if (C->kind[i] == K_U2)
            OK(ABT_thread_create(h_main_pool(es2), caller, arg, ABT_THREAD_ATTR_NULL,
                                 &th[i]));
        else if (C->kind[i] == K_X)
            xt[i] = abtmc_thread_create(caller, arg);
    }
    for (int i = 0; i < C->ncallers; i++)
        if (C->kind[i] == K_M)
            caller((void *)(intptr_t)i);
    for (int i = 0; i < C->ncallers; i++) {
        if (th[i] != ABT_THREAD_NULL)
            OK(ABT_thread_free(&th[i]));
        if (xt[i] >= 0)
            abtmc_thread_join(xt[i]);
    }
    abtmc_window_end();
    abtmc_check(returned == total, "lost_waiter", "%d of %d calls returned", returned,
                total);
    abtmc_observe("ok");
    if (C->btype == B_XSTREAM)
        OK(ABT_xstream_barrier_free(&XB));
    else
        OK(ABT_barrier_free(&AB));
    if (es1 != ABT_XSTREAM_NULL) {
        OK(ABT_xstream_join(es1));
        OK(ABT_xstream_free(&es1));
    }
    if (es2 != ABT_XSTREAM_NULL) {
        OK(ABT_xstream_join(es2));
        OK(ABT_xstream_free(&es2));
    }
    h_finalize();
    abtmc_check(abtmc_ledger_live() == 0, "leak", "%ld live allocations",
                abtmc_ledger_live());
}

static const char *cfg_name(int i) { return cfgs[i].name; }
static int cfg_quick(int i) { return cfgs[i].quick; }

int main(int argc, char **argv)
{
    static abtmc_driver d = { "c08_xrendezvous", "C08", ARRAY_LEN(cfgs), cfg_name,
                              scenario, cfg_quick };
    return abtmc_main(argc, argv, &d);
}
