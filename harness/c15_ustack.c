/* c15_ustack.c -- C15: "A ULT may be created with ... any 8-byte-aligned
 * user-supplied stack, gets at least that much usable stack, and can be freed
 * without corrupting the allocator", under every stack-guard mode and whoever
 * creates and frees the ULT: when ABT_thread_free returns, the user's buffer is
 * entirely the user's again (readable and writable over its whole length: a
 * guard page that libabt protected must have been unprotected), and can be
 * handed back to malloc.
 *
 * One history per execution (abtmc_choose FREE): creator in {primary ULT, ULT
 * on ES1, external thread}, freer in {primary ULT, ULT on ES1, external
 * thread}, offset of the stack inside the buffer in {0, 8, 24}, named ULT that
 * yields once.  Configs: ABT_STACK_OVERFLOW_CHECK in {unset, none, mprotect,
 * mprotect_strict} x page size. */
#include "common.h"

typedef struct {
    const char *name;
    int quick;
    const char *guard;
} cfg_t;
static const cfg_t cfgs[] = {
    { "guard=mprotect", 1, "mprotect" },
    { "guard=mprotect_strict", 1, "mprotect_strict" },
    { "guard unset", 0, NULL },
    { "guard=none", 0, "none" },
};

enum { W_PRIMARY, W_ES1, W_EXT };
#define BUFSZ (96 * 1024)
static const cfg_t *C;
static ABT_pool p0, p1;
static ABT_thread U;
static char *buf;
static size_t off, ssz;
static int creator, freer, ran, created, freed; /* created/freed: hooked flags */

static void u_fn(void *arg)
{
    (void)arg;
    volatile char pad[2048];
    for (int i = 0; i < 2048; i++)
        pad[i] = (char)(i * 7);
    abtmc_progress();
    OK(ABT_thread_yield());
    int bad = 0;
    for (int i = 0; i < 2048; i++)
        bad += pad[i] != (char)(i * 7);
    abtmc_check(bad == 0, "stack_clobbered", "%d bytes of the stack changed", bad);
    /* the ULT really runs on the supplied memory */
    abtmc_check((char *)pad >= buf + off && (char *)pad < buf + off + ssz,
                "stack_not_used", "the ULT's frame %p is outside the supplied stack",
                (void *)pad);
    ran++;
}

static void do_create(void *arg)
{
    (void)arg;
    ABT_thread_attr at;
    OK(ABT_thread_attr_create(&at));
    OK(ABT_thread_attr_set_stack(at, buf + off, ssz));
    OK(ABT_thread_create(p1, u_fn, NULL, at, &U));
    OK(ABT_thread_attr_free(&at));
    abtmc_store(&created, 1);
}

static void do_free(void *arg)
{
    (void)arg;
    OK(ABT_thread_free(&U));
    abtmc_store(&freed, 1);
}

static void run_as(int who, void (*fn)(void *), const int *done_flag)
{
    if (who == W_PRIMARY) {
        fn(NULL);
    } else if (who == W_ES1) {
        ABT_thread t;
        OK(ABT_thread_create(p1, fn, NULL, ABT_THREAD_ATTR_NULL, &t));
        OK(ABT_thread_free(&t));
    } else {
        int x = abtmc_thread_create(fn, NULL);
        abtmc_thread_join(x);
    }
    abtmc_check(abtmc_load(done_flag) == 1, "harness", "actor did not finish");
}

static void scenario(int cfg)
{
    C = &cfgs[cfg];
    abtmc_std_env();
    if (C->guard)
        setenv("ABT_STACK_OVERFLOW_CHECK", C->guard, 1);
    else
        unsetenv("ABT_STACK_OVERFLOW_CHECK");
    OK(ABT_init(0, NULL));
    ABT_xstream es1;
    OK(ABT_xstream_create(ABT_SCHED_NULL, &es1));
    p0 = h_main_pool(h_self_xstream());
    p1 = h_main_pool(es1);
    (void)p0;
    /* the user's buffer: page aligned so that whole pages lie inside it */
    abtmc_check(posix_memalign((void **)&buf, 4096, BUFSZ) == 0, "harness", "no memory");
    memset(buf, 0x5a, BUFSZ);

    abtmc_window_begin();
    static const size_t offs[] = { 0, 8, 24 };
    creator = abtmc_choose(3, ABTMC_B_FREE);
    freer = abtmc_choose(3, ABTMC_B_FREE);
    off = offs[abtmc_choose(3, ABTMC_B_FREE)];
    ssz = 65536 + (off ? 8 : 0);
    run_as(creator, do_create, &created);
    run_as(freer, do_free, &freed); /* ABT_thread_free joins first */
    abtmc_window_end();

    abtmc_check(ran == 1 && U == ABT_THREAD_NULL, "run_count",
                "the ULT ran %d times / handle not cleared", ran);
    /* the whole buffer is the user's again: every page readable and writable.
     * (A page left write-protected makes this memset fault: crash_segv.) */
    memset(buf, 0xa5, BUFSZ);
    for (size_t i = 0; i < BUFSZ; i += 1024)
        abtmc_check((unsigned char)buf[i] == 0xa5, "harness", "memset lost");
    free(buf);
    /* ... and the allocator is intact */
    void *again = calloc(1, BUFSZ);
    abtmc_check(again != NULL, "harness", "calloc failed");
    free(again);
    abtmc_observe("c%d f%d o%zu", creator, freer, off);
    OK(ABT_xstream_join(es1));
    OK(ABT_xstream_free(&es1));
    OK(ABT_finalize());
    abtmc_check(abtmc_ledger_live() == 0, "leak", "%ld live allocations",
                abtmc_ledger_live());
}

static const char *cfg_name(int i) { return cfgs[i].name; }
static int cfg_quick(int i) { return cfgs[i].quick; }

int main(int argc, char **argv)
{
    static abtmc_driver d = { "c15_ustack", "C15", ARRAY_LEN(cfgs), cfg_name, scenario,
                              cfg_quick };
    return abtmc_main(argc, argv, &d);
}
