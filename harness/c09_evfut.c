/* c09_evfut.c -- C09: eventuals and futures become ready exactly once and wake
 * every waiter.
 *
 * 2-4 actors drawn from {ULT on ES0, ULT on ES1, tasklet on ES1, external
 * thread, the primary ULT} run short scripts of set / wait / test / reset on
 * ONE eventual (nbytes 0 or 8) or ONE future (0..3 compartments, with or
 * without callback).  Every call is bracketed by abtmc_step() stamps and
 * logged; a value obtained from wait/test is read right away and logged as a
 * READ with its own stamp; the future's callback logs itself (two stamps and a
 * copy of the array).  After all actors finished the primary ULT tests the
 * object once more and then searches (brute force, memoised) for a
 * linearization of the stamped history w.r.t. the sequential specification
 *
 *   eventual: state (ready, value)
 *     set(v)  -> SUCCESS and (ready,value):=(1,v) if !ready,
 *                else ABT_ERR_EVENTUAL and nothing changes
 *     reset   -> ready:=0, value becomes undefined
 *     test    -> reports `ready`
 *     wait    -> returns at an instant where ready==1
 *     read(v) -> v == value (anything if value is undefined)
 *   future with n compartments: state (k, cbdone)
 *     set     -> SUCCESS and k++ if k<n (the n-th one requires that the
 *                callback has been invoked), else ABT_ERR_FUTURE
 *     callback-> invoked while k==n-1, at most once per epoch
 *     wait    -> returns at an instant where k==n;  test -> reports k==n
 *     reset   -> k:=0
 *
 * A waiter that is never woken is a deadlock reported by the engine.  When no
 * linearization exists the search is repeated with one class of constraints
 * dropped at a time to name the violated clause (stable keys). */
#include "common.h"
#include <limits.h>

enum { K_U0, K_U1, K_T1, K_X, K_M };              /* actor kinds */
enum { O_END = 0, O_SET, O_WAIT, O_TEST, O_RESET, /* script steps */
       O_GATE,  /* wait until driver flag[arg] is set */
       O_FLAG,  /* set driver flag[arg] */
       O_TWAIT  /* wait called by a tasklet: must fail without blocking */ };
enum { EVENTUAL, FUTURE };

#define MAXSTEPS 6
#define MAXA 4
typedef struct {
    int op, arg;
} step_t;
typedef struct {
    int kind;
    step_t s[MAXSTEPS];
} actor_t;
typedef struct {
    const char *name;
    int quick;
    int obj;
    int n;  /* eventual: nbytes (0 or 8); future: number of compartments */
    int cb; /* future: register a callback */
    int nactors;
    actor_t a[MAXA];
} cfg_t;

#define SET(v) { O_SET, v }
#define WAIT { O_WAIT, 0 }
#define TEST { O_TEST, 0 }
#define RESET { O_RESET, 0 }
#define GATE(f) { O_GATE, f }
#define FLAG(f) { O_FLAG, f }
#define TWAIT { O_TWAIT, 0 }
#define A(kind, ...) { kind, { __VA_ARGS__ } }

/* NOTE: registry/C09.json names configs 0-3 by index for its P=3 runs; keep
 * them first.  Quick configs are ordered cheap first. */
static const cfg_t cfgs[] = {
    /* ------------------------------------------------------------ quick */
    { "ev8 set||wait||wait: X.set | U0.wait | U1.wait", 1, EVENTUAL, 8, 0, 3,
      { A(K_X, SET(1)), A(K_U0, WAIT), A(K_U1, WAIT) } },
    { "fut2+cb: U0.set | U1.set | X.set | M.wait", 1, FUTURE, 2, 1, 4,
      { A(K_U0, SET(1)), A(K_U1, SET(2)), A(K_X, SET(3)), A(K_M, WAIT) } },
    { "ev8 wait||set||set: U0.wait | U1.set | X.set", 1, EVENTUAL, 8, 0, 3,
      { A(K_U0, WAIT), A(K_U1, SET(1)), A(K_X, SET(2)) } },
    { "fut1+cb: X.set | U0.wait | U1.test,test", 1, FUTURE, 1, 1, 3,
      { A(K_X, SET(1)), A(K_U0, WAIT), A(K_U1, TEST, TEST) } },
    { "ev8 test||set: X.wait | T1.set | M.test,test", 1, EVENTUAL, 8, 0, 3,
      { A(K_X, WAIT), A(K_T1, SET(1)), A(K_M, TEST, TEST) } },
    { "fut3+cb: U1.set,set | X.set,set | U0.wait,test", 1, FUTURE, 3, 1, 3,
      { A(K_U1, SET(1), SET(2)), A(K_X, SET(3), SET(4)),
        A(K_U0, WAIT, TEST) } },
    { "ev0 M.wait | X.set | T1.set", 1, EVENTUAL, 0, 0, 3,
      { A(K_X, SET(1)), A(K_T1, SET(2)), A(K_M, WAIT) } },
    { "fut0+cb: X.set(fails) | U1.wait,test", 1, FUTURE, 0, 1, 2,
      { A(K_X, SET(1)), A(K_U1, WAIT, TEST) } },
    { "ev8 epochs: U1.wait,reset,wait | X.set,(gate)set | U0.wait", 1,
      EVENTUAL, 8, 0, 3,
      { A(K_U1, WAIT, RESET, FLAG(0), WAIT), A(K_X, SET(1), GATE(0), SET(2)),
        A(K_U0, WAIT) } },
    /* --------------------------------------------------------- thorough */
    { "ev8 setter resets: X.set,reset,set | U0.wait | U1.test", 0, EVENTUAL, 8,
      0, 3,
      { A(K_X, SET(1), RESET, SET(2)), A(K_U0, WAIT), A(K_U1, TEST) } },
    { "ev8 U0.wait + U0.wait | U1.set", 0, EVENTUAL, 8, 0, 3,
      { A(K_U0, WAIT), A(K_U0, WAIT), A(K_U1, SET(1)) } },
    { "ev8 X.wait + X.wait | X.set", 0, EVENTUAL, 8, 0, 3,
      { A(K_X, WAIT), A(K_X, WAIT), A(K_X, SET(1)) } },
    { "ev8 X.wait | U0.set | U0.set", 0, EVENTUAL, 8, 0, 3,
      { A(K_X, WAIT), A(K_U0, SET(1)), A(K_U0, SET(2)) } },
    { "ev0 U1.wait | X.set | M.test", 0, EVENTUAL, 0, 0, 3,
      { A(K_U1, WAIT), A(K_X, SET(1)), A(K_M, TEST) } },
    { "ev8 T1.wait(fails),set | X.wait | U0.wait", 0, EVENTUAL, 8, 0, 3,
      { A(K_T1, TWAIT, SET(1)), A(K_X, WAIT), A(K_U0, WAIT) } },
    { "ev8 epochs: X.wait,reset,wait | U1.set,(gate)set | U1.wait", 0, EVENTUAL,
      8, 0, 3,
      { A(K_X, WAIT, RESET, FLAG(0), WAIT), A(K_U1, SET(1), GATE(0), SET(2)),
        A(K_U1, WAIT) } },
    { "ev8 U1.wait | X.set | X.set", 0, EVENTUAL, 8, 0, 3,
      { A(K_U1, WAIT), A(K_X, SET(1)), A(K_X, SET(2)) } },
    { "fut2 (no cb): X.set | U1.set | U0.wait | M.test", 0, FUTURE, 2, 0, 4,
      { A(K_X, SET(1)), A(K_U1, SET(2)), A(K_U0, WAIT), A(K_M, TEST) } },
    { "fut2+cb epochs: U1.wait,reset,wait | X.set,(gate)set | U0.set,(gate)set",
      0, FUTURE, 2, 1, 3,
      { A(K_U1, WAIT, RESET, FLAG(0), WAIT), A(K_X, SET(1), GATE(0), SET(3)),
        A(K_U0, SET(2), GATE(0), SET(4)) } },
    { "fut1+cb: T1.set | X.wait | X.set", 0, FUTURE, 1, 1, 3,
      { A(K_T1, SET(1)), A(K_X, WAIT), A(K_X, SET(2)) } },
    { "fut2+cb: X.wait | X.wait | U1.set,set", 0, FUTURE, 2, 1, 3,
      { A(K_X, WAIT), A(K_X, WAIT), A(K_U1, SET(1), SET(2)) } },
    { "fut3+cb: U0.set | U1.set | X.set | M.wait,test", 0, FUTURE, 3, 1, 4,
      { A(K_U0, SET(1)), A(K_U1, SET(2)), A(K_X, SET(3)),
        A(K_M, WAIT, TEST) } },
    { "fut0 (no cb): X.set(fails) | T1.test | M.wait,test", 0, FUTURE, 0, 0, 3,
      { A(K_X, SET(1)), A(K_T1, TEST), A(K_M, WAIT, TEST) } },
    { "fut2+cb: T1.wait(fails),set | X.set | U0.wait", 0, FUTURE, 2, 1, 3,
      { A(K_T1, TWAIT, SET(1)), A(K_X, SET(2)), A(K_U0, WAIT) } },
    { "fut1+cb: U1.wait | X.test,set | M.test", 0, FUTURE, 1, 1, 3,
      { A(K_U1, WAIT), A(K_X, TEST, SET(1)), A(K_M, TEST) } },
    /* reset of a PARTIALLY set future: readiness needs num_compartments sets
     * again, counted from the reset */
    { "fut3+cb partial reset: X.set,reset,(flag)set,set | U1.(gate)set | "
      "U0.(gate)wait,test", 1, FUTURE, 3, 1, 3,
      { A(K_X, SET(1), RESET, FLAG(0), SET(2), SET(3)), A(K_U1, GATE(0), SET(4)),
        A(K_U0, GATE(0), WAIT, TEST) } },
    { "fut2+cb partial reset twice: M.set,reset,set,reset,(flag)set | X.(gate)set | "
      "U1.(gate)wait", 0, FUTURE, 2, 1, 3,
      { A(K_M, SET(1), RESET, SET(2), RESET, FLAG(0), SET(3)), A(K_X, GATE(0), SET(4)),
        A(K_U1, GATE(0), WAIT) } },
};

/* ---------------------------------------------------------------- history */
enum { H_SET, H_WAIT, H_TEST, H_RESET, H_READ, H_CB };
typedef struct {
    int type, actor;
    int val; /* SET: value index; READ: value index read */
    int ok;  /* SET: rc == ABT_SUCCESS; TEST: reported ready */
    long call, ret;
} hop_t;
#define MAXLOG 12
/* one log per actor (index MAXA: the final test by the primary ULT,
 * index MAXA+1: the callback, which runs under the future's lock) */
static hop_t LOG[MAXA + 2][MAXLOG];
static int nLOG[MAXA + 2];
static int cb_val[4][4]; /* value indices seen by the k-th callback */

static const cfg_t *C;
static ABT_eventual EV;
static ABT_future FUT;
static void *ev_buf; /* the eventual's buffer pointer as first reported */
static int flags[2]; /* hooked driver flags */

static hop_t *new_op(int who, int type)
{
    abtmc_check(nLOG[who] < MAXLOG, "harness", "history log overflow");
    hop_t *h = &LOG[who][nLOG[who]++];
    h->type = type;
    h->actor = who;
    h->val = 0;
    h->ok = 0;
    return h;
}

#define EVAL(i) (0x0101010101010101L * (long)(i))
#define FVAL(i) ((void *)(uintptr_t)(0x100 + (i)))

static int ev_decode(long v)
{
    for (int i = 1; i <= 4; i++)
        if (v == EVAL(i))
            return i;
    return -1;
}
static int fut_decode(void *p)
{
    for (int i = 1; i <= 4; i++)
        if (p == FVAL(i))
            return i;
    return -1;
}

/* the buffer handed out by wait/test: constant pointer, NULL iff nbytes==0;
 * read it right away and log the READ */
static void read_value(int who, void *p, long after)
{
    if (C->n == 0) {
        abtmc_check(p == NULL, "ev_value_ptr",
                    "nbytes==0 but wait/test returned buffer %p", p);
        return;
    }
    abtmc_check(p != NULL && p != (void *)0x1, "ev_value_ptr",
                "ready eventual but wait/test returned no buffer (%p)", p);
    if (!ev_buf)
        ev_buf = p; /* ordered by the stamps around it */
    abtmc_check(p == ev_buf, "ev_value_ptr",
                "buffer pointer changed: %p vs %p", p, ev_buf);
    hop_t *h = new_op(who, H_READ);
    h->call = after;
    long v = *(volatile long *)p;
    h->ret = abtmc_step();
    h->val = ev_decode(v);
    abtmc_check(h->val > 0, "ev_value",
                "actor %d read 0x%lx, which no setter ever wrote", who, v);
}

static void cb_fn(void **arg)
{
    int k = nLOG[MAXA + 1];
    hop_t *h = new_op(MAXA + 1, H_CB);
    h->call = abtmc_step();
    for (int i = 0; i < C->n && i < 4; i++)
        cb_val[k & 3][i] = fut_decode(arg[i]);
    h->ret = abtmc_step();
}

static void do_set(int who, int v)
{
    hop_t *h = new_op(who, H_SET);
    int rc;
    h->val = v;
    if (C->obj == EVENTUAL) {
        long val = EVAL(v);
        h->call = abtmc_step();
        rc = C->n ? ABT_eventual_set(EV, &val, 8) : ABT_eventual_set(EV, NULL, 0);
        h->ret = abtmc_step();
        abtmc_check(rc == ABT_SUCCESS || rc == ABT_ERR_EVENTUAL, "ev_set_code",
                    "ABT_eventual_set returned %d", rc);
    } else {
        h->call = abtmc_step();
        rc = ABT_future_set(FUT, FVAL(v));
        h->ret = abtmc_step();
        abtmc_check(rc == ABT_SUCCESS || rc == ABT_ERR_FUTURE, "fut_set_code",
                    "ABT_future_set returned %d", rc);
    }
    h->ok = (rc == ABT_SUCCESS);
}

static void do_wait(int who)
{
    hop_t *h = new_op(who, H_WAIT);
    if (C->obj == EVENTUAL) {
        void *p = (void *)0x1;
        h->call = abtmc_step();
        OK(ABT_eventual_wait(EV, &p));
        h->ret = abtmc_step();
        read_value(who, p, h->ret);
    } else {
        h->call = abtmc_step();
        OK(ABT_future_wait(FUT));
        h->ret = abtmc_step();
    }
}

static void do_test(int who)
{
    hop_t *h = new_op(who, H_TEST);
    ABT_bool f = 2;
    if (C->obj == EVENTUAL) {
        void *p = (void *)0x1;
        h->call = abtmc_step();
        OK(ABT_eventual_test(EV, &p, &f));
        h->ret = abtmc_step();
        abtmc_check(f == ABT_TRUE || f == ABT_FALSE, "ev_test_flag",
                    "is_ready=%d", (int)f);
        h->ok = (f == ABT_TRUE);
        if (h->ok)
            read_value(who, p, h->ret);
        else
            abtmc_check(p == (void *)0x1, "ev_value_ptr",
                        "test reported not ready but changed *value");
    } else {
        h->call = abtmc_step();
        OK(ABT_future_test(FUT, &f));
        h->ret = abtmc_step();
        abtmc_check(f == ABT_TRUE || f == ABT_FALSE, "fut_test_flag",
                    "is_ready=%d", (int)f);
        h->ok = (f == ABT_TRUE);
    }
}

static void do_reset(int who)
{
    hop_t *h = new_op(who, H_RESET);
    h->call = abtmc_step();
    if (C->obj == EVENTUAL)
        OK(ABT_eventual_reset(EV));
    else
        OK(ABT_future_reset(FUT));
    h->ret = abtmc_step();
}

static void run_script(int who)
{
    const actor_t *a = &C->a[who];
    for (int i = 0; i < MAXSTEPS && a->s[i].op != O_END; i++) {
        int arg = a->s[i].arg;
        switch (a->s[i].op) {
            case O_SET: do_set(who, arg); break;
            case O_WAIT: do_wait(who); break;
            case O_TEST: do_test(who); break;
            case O_RESET: do_reset(who); break;
            case O_FLAG: abtmc_store(&flags[arg], 1); break;
            case O_GATE:
                if (a->kind == K_X || a->kind == K_T1) {
                    abtmc_wait_until_eq(&flags[arg], 1);
                } else {
                    while (abtmc_load(&flags[arg]) != 1)
                        OK(ABT_thread_yield());
                }
                break;
            case O_TWAIT: {
                /* Argobots 1.x: a tasklet may not wait */
                int rc;
                if (C->obj == EVENTUAL) {
                    void *p = (void *)0x1;
                    rc = ABT_eventual_wait(EV, &p);
                    abtmc_check(rc == ABT_ERR_EVENTUAL, "ev_tasklet_wait",
                                "ABT_eventual_wait on a tasklet returned %d",
                                rc);
                } else {
                    rc = ABT_future_wait(FUT);
                    abtmc_check(rc == ABT_ERR_FUTURE, "fut_tasklet_wait",
                                "ABT_future_wait on a tasklet returned %d", rc);
                }
                break;
            }
        }
    }
}

static void actor_body(void *arg)
{
    run_script((int)(intptr_t)arg);
}

/* ------------------------------------------------- linearizability search */
enum { IGN_READ = 1, IGN_WAIT = 2, IGN_TEST = 4, IGN_SETRC = 8, IGN_CB = 16 };
#define MAXOPS 20
static hop_t *L[MAXOPS];
static int NL;
static unsigned char *memo;
static int ign;
#define SA 5 /* eventual: ready 0..1; future: k 0..4 */
#define SB 5 /* eventual: value index 0..4; future: cbdone 0..1 */

/* apply op to state (a,b); returns 0 if not allowed */
static int apply(const hop_t *h, int *pa, int *pb)
{
    int a = *pa, b = *pb, n = C->n;
    if (C->obj == EVENTUAL) {
        switch (h->type) {
            case H_SET:
                if (ign & IGN_SETRC) {
                    if (!a) { a = 1; b = h->val; }
                } else if (h->ok) {
                    if (a) return 0;
                    a = 1; b = h->val;
                } else if (!a) {
                    return 0;
                }
                break;
            case H_RESET: a = 0; b = 0; break;
            case H_WAIT: if (!a && !(ign & IGN_WAIT)) return 0; break;
            case H_TEST: if (a != h->ok && !(ign & IGN_TEST)) return 0; break;
            case H_READ:
                if (b != 0 && b != h->val && !(ign & IGN_READ)) return 0;
                break;
            default: return 0;
        }
    } else {
        switch (h->type) {
            case H_SET:
                if (ign & IGN_SETRC) {
                    if (a < n) a++;
                } else if (h->ok) {
                    if (a >= n) return 0;
                    if (a == n - 1 && C->cb && !b && !(ign & IGN_CB)) return 0;
                    a++;
                } else if (a < n) {
                    return 0;
                }
                break;
            case H_CB:
                if (ign & IGN_CB) break;
                if (a != n - 1 || b) return 0;
                b = 1;
                break;
            case H_RESET: a = 0; b = 0; break;
            case H_WAIT: if (a != n && !(ign & IGN_WAIT)) return 0; break;
            case H_TEST:
                if ((a == n) != h->ok && !(ign & IGN_TEST)) return 0;
                break;
            default: return 0;
        }
    }
    *pa = a;
    *pb = b;
    return 1;
}

static int dfs(unsigned mask, int a, int b)
{
    if (mask == (1u << NL) - 1)
        return 1;
    size_t idx = ((size_t)mask * SA + (size_t)a) * SB + (size_t)b;
    if (memo[idx])
        return 0;
    memo[idx] = 1;
    /* an op may go next iff no other pending op returned before it was
     * called (stamps are unique except READ.call == WAIT/TEST.ret) */
    long minret = LONG_MAX;
    for (int i = 0; i < NL; i++)
        if (!(mask & (1u << i)) && L[i]->ret < minret)
            minret = L[i]->ret;
    for (int i = 0; i < NL; i++) {
        if (mask & (1u << i))
            continue;
        if (L[i]->ret != minret && L[i]->call >= minret)
            continue;
        int na = a, nb = b;
        if (!apply(L[i], &na, &nb))
            continue;
        if (dfs(mask | (1u << i), na, nb))
            return 1;
    }
    return 0;
}

static int linearizable(int ignore)
{
    ign = ignore;
    memset(memo, 0, ((size_t)1 << NL) * SA * SB);
    return dfs(0, 0, 0);
}

static void dump_history(char *buf, size_t sz)
{
    static const char *tn[] = { "set", "wait", "test", "reset", "read", "cb" };
    size_t o = 0;
    for (int i = 0; i < NL && o + 48 < sz; i++)
        o += (size_t)snprintf(buf + o, sz - o, " a%d.%s(v%d,%d)[%ld,%ld]",
                              L[i]->actor, tn[L[i]->type], L[i]->val, L[i]->ok,
                              L[i]->call, L[i]->ret);
}

static void check_history(void)
{
    NL = 0;
    for (int w = 0; w < MAXA + 2; w++)
        for (int i = 0; i < nLOG[w]; i++) {
            abtmc_check(NL < MAXOPS, "harness", "too many operations");
            L[NL++] = &LOG[w][i];
        }
    memo = calloc(((size_t)1 << NL) * SA * SB, 1);
    abtmc_check(memo != NULL, "harness", "out of memory");
    const int ev = (C->obj == EVENTUAL);
    if (!linearizable(0)) {
        char hist[1024];
        dump_history(hist, sizeof(hist));
        if (!ev && linearizable(IGN_CB))
            abtmc_check_fail("fut_callback_order",
                             "the callback did not run exactly once, while "
                             "the future was one set short of ready and "
                             "before anybody saw it ready:%s", hist);
        if (linearizable(IGN_READ))
            abtmc_check_fail(ev ? "ev_value" : "fut_value",
                             "a waiter/tester read a value that is not the "
                             "one set by the winning set of its epoch:%s", hist);
        if (linearizable(IGN_WAIT))
            abtmc_check_fail(ev ? "ev_wait_early" : "fut_wait_early",
                             "a wait returned although the object could not "
                             "have been ready during the call:%s", hist);
        if (linearizable(IGN_TEST))
            abtmc_check_fail(ev ? "ev_test_wrong" : "fut_test_wrong",
                             "a test result contradicts the sets/resets that "
                             "completed before / started after it:%s", hist);
        if (linearizable(IGN_SETRC))
            abtmc_check_fail(ev ? "ev_set_rc" : "fut_set_rc",
                             "return codes of the sets are impossible (not "
                             "exactly one winner per epoch / wrong number of "
                             "accepted compartments):%s", hist);
        abtmc_check_fail(ev ? "ev_not_linearizable" : "fut_not_linearizable",
                         "no sequential order explains the history:%s", hist);
    }
    free(memo);
}

/* future: number of callback runs and what each one saw.  Successful sets and
 * resets are ordered by their call stamps (the configs that reset separate
 * epochs by gates, so this order is the real one); a reset discards the sets
 * of an incomplete epoch. */
static void check_callbacks(void)
{
    int n = C->n, nev = 0, nok = 0;
    struct { long call; int val; } ev[24];
    for (int w = 0; w <= MAXA; w++)
        for (int i = 0; i < nLOG[w]; i++) {
            const hop_t *h = &LOG[w][i];
            int is_set = h->type == H_SET && h->ok;
            if (!is_set && h->type != H_RESET)
                continue;
            nok += is_set;
            int k = nev++;
            abtmc_check(nev <= 24, "harness", "too many events");
            while (k > 0 && ev[k - 1].call > h->call) {
                ev[k] = ev[k - 1];
                k--;
            }
            ev[k].call = h->call;
            ev[k].val = is_set ? h->val : -1;
        }
    int want[4], nep = 0, cur = 0, cnt = 0;
    for (int i = 0; i < nev; i++) {
        if (ev[i].val < 0) { /* reset */
            cur = 0;
            cnt = 0;
            continue;
        }
        cur |= 1 << ev[i].val;
        if (n > 0 && ++cnt == n) {
            if (nep < 4)
                want[nep] = cur;
            nep++;
            cur = 0;
            cnt = 0;
        }
    }
    int ncb = nLOG[MAXA + 1];
    int expect = (C->cb && n > 0) ? nep : 0;
    abtmc_check(ncb == expect, "fut_callback_count",
                "callback ran %d times, expected %d (%d compartments, %d "
                "successful sets, %d completed epochs)", ncb, expect, n, nok, nep);
    for (int e = 0; e < ncb && e < 4; e++) {
        int seen = 0;
        for (int i = 0; i < n; i++) {
            abtmc_check(cb_val[e][i] > 0, "fut_callback_args",
                        "callback %d: compartment %d holds a value nobody set",
                        e, i);
            seen |= 1 << cb_val[e][i];
        }
        abtmc_check(seen == want[e], "fut_callback_args",
                    "callback %d saw value set 0x%x, the successful sets of "
                    "that epoch were 0x%x", e, seen, want[e]);
    }
}

static void observe(void)
{
    /* first successful set: waits called before it may have blocked */
    long first = LONG_MAX;
    for (int w = 0; w <= MAXA; w++)
        for (int i = 0; i < nLOG[w]; i++)
            if (LOG[w][i].type == H_SET && LOG[w][i].ok &&
                LOG[w][i].call < first)
                first = LOG[w][i].call;
    char tag[96];
    int o = 0;
    for (int w = 0; w < MAXA; w++) {
        if (!nLOG[w])
            continue;
        tag[o++] = (char)('a' + w);
        for (int i = 0; i < nLOG[w] && o < 90; i++) {
            const hop_t *h = &LOG[w][i];
            switch (h->type) {
                case H_SET: tag[o++] = h->ok ? 'S' : 'f'; break;
                case H_WAIT: tag[o++] = h->call < first ? 'W' : 'w'; break;
                case H_TEST: tag[o++] = h->ok ? 'R' : 'n'; break;
                case H_RESET: tag[o++] = 'z'; break;
                case H_READ: tag[o++] = (char)('0' + h->val); break;
                default: break;
            }
        }
        tag[o++] = ' ';
    }
    if (C->obj == FUTURE && C->n == 0) {
        /* results are fixed for n==0 (always ready); show that the calls
         * did overlap in different orders: actors sorted by call stamp */
        long last = -1;
        tag[o++] = '<';
        for (;;) {
            const hop_t *best = NULL;
            for (int w = 0; w < MAXA; w++)
                for (int i = 0; i < nLOG[w]; i++)
                    if (LOG[w][i].call > last &&
                        (!best || LOG[w][i].call < best->call))
                        best = &LOG[w][i];
            if (!best || o > 90)
                break;
            tag[o++] = (char)('a' + best->actor);
            last = best->call;
        }
        tag[o++] = ' ';
    }
    tag[o] = 0;
    abtmc_observe("%scb=%d", tag, nLOG[MAXA + 1]);
}

static void scenario(int cfg)
{
    C = &cfgs[cfg];
    h_init();
    ABT_xstream es1 = ABT_XSTREAM_NULL;
    int need_es1 = 0;
    for (int i = 0; i < C->nactors; i++)
        if (C->a[i].kind == K_U1 || C->a[i].kind == K_T1)
            need_es1 = 1;
    if (C->obj == EVENTUAL)
        OK(ABT_eventual_create(C->n, &EV));
    else
        OK(ABT_future_create((uint32_t)C->n, C->cb ? cb_fn : NULL, &FUT));
    if (need_es1)
        OK(ABT_xstream_create(ABT_SCHED_NULL, &es1));
    ABT_pool p0 = h_main_pool(h_self_xstream());
    ABT_pool p1 = need_es1 ? h_main_pool(es1) : ABT_POOL_NULL;

    abtmc_window_begin();
    ABT_thread th[MAXA];
    int xt[MAXA];
    for (int i = 0; i < C->nactors; i++) {
        void *arg = (void *)(intptr_t)i;
        th[i] = ABT_THREAD_NULL;
        xt[i] = -1;
        switch (C->a[i].kind) {
            case K_U0:
                OK(ABT_thread_create(p0, actor_body, arg, ABT_THREAD_ATTR_NULL,
                                     &th[i]));
                break;
            case K_U1:
                OK(ABT_thread_create(p1, actor_body, arg, ABT_THREAD_ATTR_NULL,
                                     &th[i]));
                break;
            case K_T1: OK(ABT_task_create(p1, actor_body, arg, &th[i])); break;
            case K_X: xt[i] = abtmc_thread_create(actor_body, arg); break;
            default: break; /* K_M: below */
        }
    }
    for (int i = 0; i < C->nactors; i++)
        if (C->a[i].kind == K_M)
            run_script(i);
    /* work units first (the primary ES keeps scheduling while the primary ULT
     * is blocked in the join), then the external threads */
    for (int i = 0; i < C->nactors; i++)
        if (th[i] != ABT_THREAD_NULL)
            OK(ABT_thread_free(&th[i]));
    for (int i = 0; i < C->nactors; i++)
        if (xt[i] >= 0)
            abtmc_thread_join(xt[i]);
    abtmc_window_end();

    /* quiescence: one more test (and read) by the primary ULT, then the
     * history must be explainable */
    do_test(MAXA);
    check_history();
    if (C->obj == FUTURE)
        check_callbacks();
    observe();

    if (C->obj == EVENTUAL)
        OK(ABT_eventual_free(&EV));
    else
        OK(ABT_future_free(&FUT));
    if (need_es1) {
        OK(ABT_xstream_join(es1));
        OK(ABT_xstream_free(&es1));
    }
    h_finalize();
    abtmc_check(abtmc_ledger_live() == 0, "leak",
                "%ld allocations of libabt still live after ABT_finalize",
                abtmc_ledger_live());
}

static const char *cfg_name(int i) { return cfgs[i].name; }
static int cfg_quick(int i) { return cfgs[i].quick; }

int main(int argc, char **argv)
{
    static abtmc_driver d = { "c09_evfut", "C09", ARRAY_LEN(cfgs), cfg_name,
                              scenario, cfg_quick };
    return abtmc_main(argc, argv, &d);
}
