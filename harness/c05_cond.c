/* c05_cond.c -- C05: ABT_cond: atomic release-and-wait, exact wake-ups, no
 * spurious wake-up, wait returns holding the mutex.
 *
 * Mutex M, condition variable CV, 2-3 waiters drawn from {ULT on ES0, ULT on
 * ES1, external thread}, one signaller S drawn from {ULT on ES0, ULT on ES1,
 * external thread, the primary ULT}.  Every waiter calls ABT_cond_wait exactly
 * once and WITHOUT a predicate loop, so a spurious or duplicated wake-up is
 * visible.  (Timed waits belong to C19.)
 *
 * Bookkeeping, all under M (monitor discipline):
 *   waiter:    nwaiting++ ; wait ; on return: take one credit (none => the
 *              wake-up was spurious or one signal woke two waiters)
 *   signaller: k = min(nwaiting, signal ? 1 : nwaiting); credits += k;
 *              nwaiting -= k; then signal/broadcast.
 * A waiter that is counted in nwaiting has released M inside ABT_cond_wait, so
 * if release-and-wait is atomic it is on the wait list when S, holding M,
 * signals: each credit must be consumed.  After S has finished, the primary
 * ULT waits until all granted credits have been consumed *before* it releases
 * the legitimately remaining waiters with a final broadcast; a lost signal
 * therefore shows up as a deadlock and is not masked by the final phase.
 *
 * ABT_cond_signal/broadcast may be called without holding M (documented).
 * In the "nolock" configs S does the bookkeeping under M, releases M and then
 * signals.  Waiters that register in between may legitimately be woken, so
 * S additionally grants "floating" credits for them (upper bound only). */
#include "common.h"

enum { A_U0, A_U1, A_EXT, A_PRIM };
enum { SIG, BC };
enum { LOCKED, NOLOCK };
#define NONE (-1)
#define S_ID 7
#define MAXW 3
#define MAXOPS 3

typedef struct {
    const char *name;
    int quick;
    int nw;
    int waiter[MAXW];
    int sig_actor;
    int gate; /* S starts after `gate` waiters registered; -1: enumerate 0..nw */
    int nops;
    struct {
        int op, mode;
    } ops[MAXOPS];
} cfg_t;

static const cfg_t cfgs[] = {
    /* ---- quick ---- */
    { "signal: W=U0,U1 S=X", 1, 2, { A_U0, A_U1 }, A_EXT, 0, 1,
      { { SIG, LOCKED } } },
    { "broadcast: W=U0,X S=U1", 0, 2, { A_U0, A_EXT }, A_U1, 0, 1,
      { { BC, LOCKED } } },
    { "signal,signal: W=U1,X S=primary", 1, 2, { A_U1, A_EXT }, A_PRIM, 0, 2,
      { { SIG, LOCKED }, { SIG, LOCKED } } },
    { "signal,broadcast: W=X,X S=U0", 1, 2, { A_EXT, A_EXT }, A_U0, 0, 2,
      { { SIG, LOCKED }, { BC, LOCKED } } },
    { "signal after both wait: W=U0,X S=U1", 1, 2, { A_U0, A_EXT }, A_U1, 2, 1,
      { { SIG, LOCKED } } },
    { "signal nolock: W=U0,X S=U1", 1, 2, { A_U0, A_EXT }, A_U1, 0, 1,
      { { SIG, NOLOCK } } },
    { "broadcast after both wait: W=U1,X S=primary", 0, 2, { A_U1, A_EXT },
      A_PRIM, 2, 1, { { BC, LOCKED } } },
    { "one stream, gate 0..2: W=U0,U0 S=primary signal,signal", 1, 2,
      { A_U0, A_U0 }, A_PRIM, -1, 2, { { SIG, LOCKED }, { SIG, LOCKED } } },
    /* ---- thorough ---- */
    { "broadcast nolock: W=U1,X S=X", 0, 2, { A_U1, A_EXT }, A_EXT, 0, 1,
      { { BC, NOLOCK } } },
    { "signal,signal after both wait: W=X,U1 S=U0", 0, 2, { A_EXT, A_U1 },
      A_U0, 2, 2, { { SIG, LOCKED }, { SIG, LOCKED } } },
    { "signal,broadcast after one waits: W=U0,U1 S=X", 0, 2, { A_U0, A_U1 },
      A_EXT, 1, 2, { { SIG, LOCKED }, { BC, LOCKED } } },
    { "broadcast,signal: W=U0,X S=U1", 0, 2, { A_U0, A_EXT }, A_U1, 0, 2,
      { { BC, LOCKED }, { SIG, LOCKED } } },
    { "signal x3: W=U1,X S=primary", 0, 2, { A_U1, A_EXT }, A_PRIM, 0, 3,
      { { SIG, LOCKED }, { SIG, LOCKED }, { SIG, LOCKED } } },
    { "signal nolock x2 after one waits: W=U1,X S=U0", 0, 2, { A_U1, A_EXT },
      A_U0, 1, 2, { { SIG, NOLOCK }, { SIG, NOLOCK } } },
    { "all external: W=X,X S=X signal,broadcast", 0, 2, { A_EXT, A_EXT },
      A_EXT, 0, 2, { { SIG, LOCKED }, { BC, LOCKED } } },
    { "all on ES1, gate 0..2: W=U1,U1 S=U1 signal,broadcast", 0, 2,
      { A_U1, A_U1 }, A_U1, -1, 2, { { SIG, LOCKED }, { BC, LOCKED } } },
    { "one stream, gate 0..2: W=U0,U0 S=U0 broadcast,signal", 0, 2,
      { A_U0, A_U0 }, A_U0, -1, 2, { { BC, LOCKED }, { SIG, LOCKED } } },
    { "3 waiters, signal after all wait: W=U0,U1,X S=primary", 0, 3,
      { A_U0, A_U1, A_EXT }, A_PRIM, 3, 1, { { SIG, LOCKED } } },
    { "3 waiters, broadcast after two wait: W=U0,U1,X S=primary", 0, 3,
      { A_U0, A_U1, A_EXT }, A_PRIM, 2, 1, { { BC, LOCKED } } },
};

static const cfg_t *C;
static ABT_mutex M;
static ABT_cond CV;
static int gate;
/* protected by M (plain) */
static int nwaiting, credits, floating, closing, holder = NONE, nregistered;
static int granted, final_k;
static int klog[MAXOPS];
static char rorder[MAXW + 1]; /* order in which the waiters returned */
static int nret;
static char wstate[MAXW + 1]; /* '1' woken before the final phase, '2' woken
                                 by the final phase, 'L' arrived late */
/* hooked: polled by other threads */
static int registered, consumed, s_done, w_done;

static void mon_enter(int id)
{
    OK(ABT_mutex_lock(M));
    abtmc_check(holder == NONE, "mutex_not_exclusive",
                "%d entered the monitor while %d is inside", id, holder);
    holder = id;
}
static void mon_exit(int id)
{
    abtmc_check(holder == id, "mutex_not_exclusive",
                "holder changed under %d: %d", id, holder);
    holder = NONE;
    OK(ABT_mutex_unlock(M));
}

static void waiter_body(void *arg)
{
    int idx = (int)(intptr_t)arg;
    mon_enter(idx);
    if (closing) {
        /* the final phase is over: do not start waiting */
        wstate[idx] = 'L';
        mon_exit(idx);
        abtmc_fetch_add(&w_done, 1);
        return;
    }
    nwaiting++;
    nregistered++;
    abtmc_fetch_add(&registered, 1);
    holder = NONE;
    OK(ABT_cond_wait(CV, M)); /* once, no predicate loop */
    /* a waiter always returns holding the mutex */
    int r = ABT_mutex_trylock(M);
    abtmc_check(r == ABT_ERR_MUTEX_LOCKED, "wait_returned_without_mutex",
                "trylock after ABT_cond_wait returned %d: the mutex is not "
                "held", r);
    abtmc_check(holder == NONE, "wait_returned_without_mutex",
                "waiter %d returned from ABT_cond_wait while %d is inside the "
                "monitor", idx, holder);
    holder = idx;
    /* no return without having been signalled */
    if (credits > 0) {
        credits--;
        abtmc_fetch_add(&consumed, 1); /* consumed == granted <=> credits == 0 */
    } else if (floating > 0) {
        floating--;
        nwaiting--;
    } else {
        abtmc_check_fail("spurious_wakeup",
                         "waiter %d returned from ABT_cond_wait without a "
                         "matching signal/broadcast (credits=0, nwaiting=%d)",
                         idx, nwaiting);
    }
    wstate[idx] = closing ? '2' : '1';
    rorder[nret++] = (char)('0' + idx);
    abtmc_progress();
    mon_exit(idx);
    abtmc_fetch_add(&w_done, 1);
}

static void poll_ge(int actor, const int *p, int v, int site)
{
    if (actor == A_EXT) {
        while (abtmc_load(p) < v)
            abtmc_spin_hint(1000 + site, p);
    } else {
        while (abtmc_load(p) < v)
            OK(ABT_thread_yield());
    }
}

static void signaller_body(void *arg)
{
    (void)arg;
    poll_ge(C->sig_actor, &registered, gate, 0);
    for (int i = 0; i < C->nops; i++) {
        int op = C->ops[i].op, mode = C->ops[i].mode;
        mon_enter(S_ID);
        int k = (op == SIG) ? (nwaiting > 0 ? 1 : 0) : nwaiting;
        credits += k;
        nwaiting -= k;
        granted += k;
        klog[i] = k;
        if (mode == NOLOCK) {
            /* waiters that register after we release M may be woken too */
            int latecomers = C->nw - nregistered;
            int extra = (op == SIG) ? 1 - k : latecomers;
            if (extra > latecomers)
                extra = latecomers;
            floating += extra;
            mon_exit(S_ID);
        }
        if (op == SIG)
            OK(ABT_cond_signal(CV));
        else
            OK(ABT_cond_broadcast(CV));
        if (mode == LOCKED)
            mon_exit(S_ID);
    }
    abtmc_store(&s_done, 1);
}

static void scenario(int cfg)
{
    C = &cfgs[cfg];
    h_init();
    ABT_xstream es1 = ABT_XSTREAM_NULL;
    int need_es1 = (C->sig_actor == A_U1);
    for (int i = 0; i < C->nw; i++)
        if (C->waiter[i] == A_U1)
            need_es1 = 1;
    OK(ABT_mutex_create(&M));
    OK(ABT_cond_create(&CV));
    if (need_es1)
        OK(ABT_xstream_create(ABT_SCHED_NULL, &es1));
    ABT_pool p0 = h_main_pool(h_self_xstream());
    ABT_pool p1 = need_es1 ? h_main_pool(es1) : ABT_POOL_NULL;
    memset(wstate, '-', MAXW);

    abtmc_window_begin();
    gate = C->gate >= 0 ? C->gate : abtmc_choose(C->nw + 1, ABTMC_B_FREE);
    ABT_thread th[MAXW + 1];
    int xt[MAXW + 1];
    for (int i = 0; i <= MAXW; i++) {
        th[i] = ABT_THREAD_NULL;
        xt[i] = -1;
    }
    for (int i = 0; i < C->nw; i++) {
        void *arg = (void *)(intptr_t)i;
        if (C->waiter[i] == A_EXT)
            xt[i] = abtmc_thread_create(waiter_body, arg);
        else
            OK(ABT_thread_create(C->waiter[i] == A_U0 ? p0 : p1, waiter_body,
                                 arg, ABT_THREAD_ATTR_NULL, &th[i]));
    }
    switch (C->sig_actor) {
        case A_PRIM: signaller_body(NULL); break;
        case A_EXT: xt[MAXW] = abtmc_thread_create(signaller_body, NULL); break;
        default:
            OK(ABT_thread_create(C->sig_actor == A_U0 ? p0 : p1, signaller_body,
                                 NULL, ABT_THREAD_ATTR_NULL, &th[MAXW]));
    }
    /* the primary ES must keep scheduling its ULTs: poll, do not block */
    poll_ge(A_PRIM, &s_done, 1, 1);
    if (th[MAXW] != ABT_THREAD_NULL)
        OK(ABT_thread_free(&th[MAXW]));
    if (xt[MAXW] >= 0)
        abtmc_thread_join(xt[MAXW]);
    /* every credit S granted belongs to a waiter that was on the wait list
     * when S signalled: all of them must return without further help.  A
     * lost signal leaves this loop spinning forever => deadlock. */
    poll_ge(A_PRIM, &consumed, granted, 2);

    /* final phase: release the waiters that legitimately remain */
    mon_enter(S_ID);
    abtmc_check(credits == 0, "credits_left",
                "credits=%d although %d returns consumed %d granted credits",
                credits, consumed, granted);
    closing = 1;
    final_k = nwaiting;
    credits += nwaiting;
    nwaiting = 0;
    OK(ABT_cond_broadcast(CV));
    mon_exit(S_ID);
    poll_ge(A_PRIM, &w_done, C->nw, 3);
    for (int i = 0; i < C->nw; i++) {
        if (th[i] != ABT_THREAD_NULL)
            OK(ABT_thread_free(&th[i]));
        if (xt[i] >= 0)
            abtmc_thread_join(xt[i]);
    }
    abtmc_window_end();

    /* oracle at quiescence */
    abtmc_check(credits == 0 && nwaiting == 0, "credits_left",
                "credits=%d nwaiting=%d at the end", credits, nwaiting);
    abtmc_check(holder == NONE, "mutex_not_exclusive", "holder=%d at the end",
                holder);
    {
        int nolock = 0, n1 = 0, n2 = 0, nl = 0;
        for (int i = 0; i < C->nops; i++)
            if (C->ops[i].mode == NOLOCK)
                nolock = 1;
        for (int i = 0; i < C->nw; i++) {
            n1 += wstate[i] == '1';
            n2 += wstate[i] == '2';
            nl += wstate[i] == 'L';
        }
        abtmc_check(n1 + n2 + nl == C->nw, "lost_waiter",
                    "waiter states %.*s", C->nw, wstate);
        if (!nolock) {
            /* exact accounting: one return per granted credit */
            abtmc_check(floating == 0 && n1 == granted && n2 == final_k,
                        "wakeup_count",
                        "granted=%d woken-before-final=%d final_k=%d "
                        "woken-by-final=%d",
                        granted, n1, final_k, n2);
        } else {
            abtmc_check(n1 >= granted && n1 + n2 == nregistered,
                        "wakeup_count",
                        "granted=%d woken-before-final=%d woken-by-final=%d "
                        "registered=%d",
                        granted, n1, n2, nregistered);
        }
        wstate[C->nw] = 0;
        abtmc_observe("gate=%d k=%d%d%d final=%d w=%s ret=%s", gate, klog[0],
                      klog[1], klog[2], final_k, wstate, rorder);
    }
    /* M is free, CV is empty: both can be destroyed */
    OK(ABT_mutex_lock(M));
    OK(ABT_mutex_unlock(M));
    OK(ABT_cond_free(&CV));
    OK(ABT_mutex_free(&M));
    if (need_es1) {
        OK(ABT_xstream_join(es1));
        OK(ABT_xstream_free(&es1));
    }
    h_finalize();
}

static const char *cfg_name(int i) { return cfgs[i].name; }
static int cfg_quick(int i) { return cfgs[i].quick; }

int main(int argc, char **argv)
{
    static abtmc_driver d = { "c05_cond", "C05", ARRAY_LEN(cfgs), cfg_name,
                              scenario, cfg_quick };
    return abtmc_main(argc, argv, &d);
}
