/* c01_once.c -- C01: every work unit runs exactly once to completion; none is
 * lost or duplicated.
 *
 * 2-3 work units (named/unnamed ULTs and tasklets) are created by the primary
 * ULT, a ULT or tasklet running on ES1, or an external thread X into the
 * pool(s) Q of the scheduler under test.  Every unit function counts its
 * entries and completions, checks the argument it received and the function it
 * was entered through, and behaves in one of the ways {return, yield once,
 * pop a sibling and yield_to it, wait on an eventual set by a sibling, create a
 * child unit}.  The primary ULT joins/frees the named units, joins ES1 and
 * finalizes; at each of those returns the units that must have completed by
 * then are checked. */
#include "common.h"

enum { S_BASIC, S_BASIC2, S_BASIC_WAIT, S_PRIO, S_RANDWS, S_RANDWS3, S_USER_LIFO,
       S_STACKED };
enum { SRV_ES0, SRV_ES1, SRV_BOTH };
enum { UN, UU, TN, TU };                            /* unit kinds */
enum { B_RET, B_YIELD, B_YIELD_TO, B_WAIT, B_SET, B_CHILD };
enum { CR_PRIMARY, CR_ULT1, CR_TASK1, CR_EXT };
#define OTHER (-1) /* pool index: main pool of the stream that does not serve Q */

typedef struct {
    int kind, beh, creator, pool, sib;
} unit_t;

typedef struct {
    const char *name;
    int quick;
    ABT_pool_kind pkind;
    ABT_pool_access access;
    int sched, srv;
    int nunits;
    unit_t u[3];
    int sequential; /* documented as inherently (nearly) sequential */
} cfg_t;

#define FIFO ABT_POOL_FIFO
#define FIFOW ABT_POOL_FIFO_WAIT
#define RWS ABT_POOL_RANDWS
#define PRIV ABT_POOL_ACCESS_PRIV
#define MPSC ABT_POOL_ACCESS_MPSC
#define MPMC ABT_POOL_ACCESS_MPMC

static const cfg_t cfgs[] = {
    /* ---- quick ---------------------------------------------------------- */
    { "FIFO/MPSC BASIC@ES1: primary creates unnamed ULT+tasklet, joins the stream",
      1, FIFO, MPSC, S_BASIC, SRV_ES1, 2,
      { { UU, B_YIELD, CR_PRIMARY, 0, 0 }, { TU, B_RET, CR_PRIMARY, 0, 0 } }, 0 },
    { "FIFO/MPMC BASIC shared ES0+ES1: 2 named yielding ULTs + named tasklet", 1,
      FIFO, MPMC, S_BASIC, SRV_BOTH, 3,
      { { UN, B_YIELD, CR_PRIMARY, 0, 0 }, { UN, B_YIELD, CR_PRIMARY, 0, 0 },
        { TN, B_RET, CR_PRIMARY, 0, 0 } }, 0 },
    { "FIFO_WAIT/MPSC BASIC_WAIT@ES1: named yielding ULT by primary, tasklet by X",
      1, FIFOW, MPSC, S_BASIC_WAIT, SRV_ES1, 2,
      { { UN, B_YIELD, CR_PRIMARY, 0, 0 }, { TU, B_RET, CR_EXT, 0, 0 } }, 0 },
    { "FIFO_WAIT/MPSC BASIC_WAIT@ES1: primary creates 2 unnamed ULTs (one yields) "
      "+ unnamed tasklet, joins the stream", 1, FIFOW, MPSC, S_BASIC_WAIT, SRV_ES1,
      3,
      { { UU, B_YIELD, CR_PRIMARY, 0, 0 }, { UU, B_RET, CR_PRIMARY, 0, 0 },
        { TU, B_RET, CR_PRIMARY, 0, 0 } }, 0 },
    { "FIFO/MPMC PRIO(3 pools)@ES1: named ULT p2, unnamed ULT+child p0 by X, "
      "named tasklet p1", 1, FIFO, MPMC, S_PRIO, SRV_ES1, 3,
      { { UN, B_RET, CR_PRIMARY, 2, 0 }, { UU, B_CHILD, CR_EXT, 0, 0 },
        { TN, B_RET, CR_PRIMARY, 1, 0 } }, 0 },
    { "RANDWS/MPMC RANDWS(2 pools) shared ES0+ES1: named yielding ULT p0, "
      "unnamed ULT p1", 1, RWS, MPMC, S_RANDWS, SRV_BOTH, 2,
      { { UN, B_YIELD, CR_PRIMARY, 0, 0 }, { UU, B_RET, CR_PRIMARY, 1, 0 } }, 0 },
    { "FIFO/MPMC user LIFO scheduler@ES1: ULT waits on eventual set by tasklet, "
      "unnamed ULT", 1, FIFO, MPMC, S_USER_LIFO, SRV_ES1, 3,
      { { UN, B_WAIT, CR_PRIMARY, 0, 1 }, { TN, B_SET, CR_PRIMARY, 0, 0 },
        { UU, B_RET, CR_PRIMARY, 0, 0 } }, 0 },
    { "FIFO/MPSC BASIC stacked in ES0's pool: waiting ULT + child-creating "
      "tasklet inside, setter tasklet on ES1", 1, FIFO, MPSC, S_STACKED, SRV_ES0,
      3,
      { { UN, B_WAIT, CR_PRIMARY, 0, 2 }, { TU, B_CHILD, CR_PRIMARY, 0, 0 },
        { TN, B_SET, CR_PRIMARY, OTHER, 0 } }, 0 },
    { "FIFO/MPMC BASIC@ES0: ULT created by X pops its sibling (created by a ULT "
      "on ES1) and yields to it", 1, FIFO, MPMC, S_BASIC, SRV_ES0, 2,
      { { UN, B_YIELD_TO, CR_EXT, 0, 1 }, { UN, B_RET, CR_ULT1, 0, 0 } }, 0 },
    /* ---- thorough only --------------------------------------------------- */
    { "FIFO/PRIV second pool of BASIC@ES0: yielding ULT + child-creating tasklet "
      "(creator on the owner), independent named ULT on ES1", 0, FIFO, PRIV,
      S_BASIC2, SRV_ES0, 3,
      { { UN, B_YIELD, CR_PRIMARY, 1, 0 }, { TU, B_CHILD, CR_PRIMARY, 1, 0 },
        { UN, B_RET, CR_PRIMARY, OTHER, 0 } }, 1 },
    { "FIFO_WAIT/MPMC BASIC_WAIT shared ES0+ES1: unnamed yielding ULT, named ULT "
      "by X", 0, FIFOW, MPMC, S_BASIC_WAIT, SRV_BOTH, 2,
      { { UU, B_YIELD, CR_PRIMARY, 0, 0 }, { UN, B_RET, CR_EXT, 0, 0 } }, 0 },
    { "RANDWS/MPSC BASIC@ES1: named yielding ULT created by a ULT on ES1, unnamed "
      "tasklet created by a tasklet on ES1", 0, RWS, MPSC, S_BASIC, SRV_ES1, 2,
      { { UN, B_YIELD, CR_ULT1, 0, 0 }, { TU, B_RET, CR_TASK1, 0, 0 } }, 0 },
    /* (the engine's rand_r returns 0 unless an E deviation is spent, so a unit
     * in the second victim pool would starve: units live in p0 and victim p1) */
    { "RANDWS/MPMC RANDWS(3 pools)@ES1: named ULT in victim pool p1 (random "
      "victim), unnamed yielding ULT p0", 0, RWS, MPMC, S_RANDWS3, SRV_ES1, 2,
      { { UN, B_RET, CR_PRIMARY, 1, 0 }, { UU, B_YIELD, CR_PRIMARY, 0, 0 } }, 0 },
    { "FIFO_WAIT/MPMC PRIO(3 pools) shared ES0+ES1: named tasklet p0, unnamed "
      "yielding ULT p2", 0, FIFOW, MPMC, S_PRIO, SRV_BOTH, 2,
      { { TN, B_RET, CR_PRIMARY, 0, 0 }, { UU, B_YIELD, CR_PRIMARY, 2, 0 } }, 0 },
    { "FIFO/MPMC user LIFO scheduler shared ES0+ES1: named yielding ULT, named "
      "tasklet, unnamed ULT by X", 0, FIFO, MPMC, S_USER_LIFO, SRV_BOTH, 3,
      { { UN, B_YIELD, CR_PRIMARY, 0, 0 }, { TN, B_RET, CR_PRIMARY, 0, 0 },
        { UU, B_RET, CR_EXT, 0, 0 } }, 0 },
    { "FIFO/MPMC BASIC stacked in ES1's pool: yielding ULT + child-creating "
      "tasklet inside", 0, FIFO, MPMC, S_STACKED, SRV_ES1, 2,
      { { UN, B_YIELD, CR_PRIMARY, 0, 0 }, { TU, B_CHILD, CR_PRIMARY, 0, 0 } },
      0 },
    { "FIFO_WAIT/MPSC BASIC_WAIT@ES0: named ULT created by a ULT on ES1, unnamed "
      "tasklet created by a tasklet on ES1", 0, FIFOW, MPSC, S_BASIC_WAIT, SRV_ES0,
      2, { { UN, B_RET, CR_ULT1, 0, 0 }, { TU, B_RET, CR_TASK1, 0, 0 } }, 0 },
    { "FIFO/MPSC BASIC@ES1: ULT waits on eventual set by an unnamed ULT from X, "
      "child-creating named tasklet by a tasklet", 0, FIFO, MPSC, S_BASIC, SRV_ES1,
      3,
      { { UN, B_WAIT, CR_PRIMARY, 0, 1 }, { UU, B_SET, CR_EXT, 0, 0 },
        { TN, B_CHILD, CR_TASK1, 0, 0 } }, 0 },
    { "RANDWS/MPMC BASIC_WAIT shared ES0+ES1: named yielding ULT by X, unnamed "
      "tasklet", 0, RWS, MPMC, S_BASIC_WAIT, SRV_BOTH, 2,
      { { UN, B_YIELD, CR_EXT, 0, 0 }, { TU, B_RET, CR_PRIMARY, 0, 0 } }, 0 },
    { "FIFO/MPSC BASIC@ES1: unnamed ULT waits on eventual set by a tasklet on ES0; "
      "primary only joins the stream", 0, FIFO, MPSC, S_BASIC, SRV_ES1, 2,
      { { UU, B_WAIT, CR_PRIMARY, 0, 1 }, { TU, B_SET, CR_PRIMARY, OTHER, 0 } },
      0 },
};

/* ---- bookkeeping ------------------------------------------------------------
 * ids: 0..2 units, 3..5 child of unit id-3, 6..8 creator (ULT/tasklet) of unit
 * id-6 */
#define NID 9
#define ARG(id) ((void *)(uintptr_t)(0xC01000u + 16u * (unsigned)(id)))
static const cfg_t *C;
static int starts[NID], done[NID], expected[NID];
static char ran_on[NID + 1];
static char order[NID + 1];
static int norder;
static ABT_pool Q[3], P_ES0, P_ES1; /* P_ESx: main pool of stream x */
static int nq;
static ABT_thread H[NID];
static ABT_eventual EV;
static int ev_used;
static int in_xjoin, late; /* units started after ABT_xstream_join was called */

static ABT_pool unit_pool(int i)
{
    if (C->u[i].pool != OTHER)
        return Q[C->u[i].pool];
    return C->srv == SRV_ES0 ? P_ES1 : P_ES0;
}

static void create_unit(int i);

static void body(int id, void *arg)
{
    int s = ++starts[id];
    abtmc_check(s == 1, "started_twice", "work unit %d was started %d times", id,
                s);
    abtmc_check(expected[id], "phantom_unit",
                "function of work unit %d ran although it was never created", id);
    abtmc_check(arg == ARG(id), "wrong_argument",
                "work unit %d received argument %p instead of %p", id, arg,
                ARG(id));
    int rank = -1;
    ABT_xstream_self_rank(&rank);
    ran_on[id] = (char)('0' + rank);
    {
        /* the executing stream must be one whose scheduler serves the unit's
         * pool: ES0 has rank 0, ES1 rank 1 */
        int uid = id >= 6 ? -1 : id >= 3 ? id - 3 : id;
        int want = -1; /* -1: either stream */
        if (uid < 0)
            want = 1; /* creators are pushed to ES1's main pool */
        else if (C->u[uid].pool == OTHER)
            want = C->srv == SRV_ES0 ? 1 : 0;
        else if (C->srv == SRV_ES0)
            want = 0;
        else if (C->srv == SRV_ES1)
            want = 1;
        abtmc_check(want < 0 || rank == want, "wrong_stream",
                    "work unit %d ran on stream %d, but only stream %d serves its "
                    "pool", id, rank, want);
    }
    if (id < 3)
        order[norder++] = (char)('0' + id);
    if (in_xjoin)
        late++;
    abtmc_progress();
    if (id < 3) {
        const unit_t *u = &C->u[id];
        switch (u->beh) {
            case B_YIELD:
                OK(ABT_thread_yield());
                break;
            case B_YIELD_TO: {
                /* the documentation requires the target to be popped from its
                 * pool by the caller and to be READY */
                ABT_thread t = ABT_THREAD_NULL;
                OK(ABT_pool_pop_thread(unit_pool(id), &t));
                if (t != ABT_THREAD_NULL) {
                    if (t == H[u->sib] && starts[u->sib] == 0) {
                        OK(ABT_self_yield_to(t));
                        order[norder++] = 'y';
                    } else {
                        OK(ABT_pool_push_thread(unit_pool(id), t));
                    }
                }
                break;
            }
            case B_WAIT:
                OK(ABT_eventual_wait(EV, NULL));
                break;
            case B_SET:
                OK(ABT_eventual_set(EV, NULL, 0));
                break;
            case B_CHILD:
                create_unit(id + 3);
                break;
            default:
                break;
        }
    } else if (id >= 6) {
        create_unit(id - 6);
    }
    abtmc_progress();
    int d = ++done[id];
    abtmc_check(d == 1, "completed_twice", "work unit %d completed %d times", id,
                d);
}

/* one entry function per id, so a unit run through another unit's function or
 * with another unit's argument is noticed */
#define FN(n) static void fn##n(void *arg) { body(n, arg); }
FN(0) FN(1) FN(2) FN(3) FN(4) FN(5) FN(6) FN(7) FN(8)
static void (*const fns[NID])(void *) = { fn0, fn1, fn2, fn3, fn4,
                                          fn5, fn6, fn7, fn8 };

static void create_unit(int id)
{
    int kind;
    ABT_pool pool;
    if (id < 3) {
        kind = C->u[id].kind;
        pool = unit_pool(id);
    } else {
        /* child: unnamed, of the other type than its parent, same pool */
        int pk = C->u[id - 3].kind;
        kind = (pk == UN || pk == UU) ? TU : UU;
        pool = unit_pool(id - 3);
    }
    expected[id] = 1;
    ABT_thread h = ABT_THREAD_NULL;
    switch (kind) {
        case UN:
            OK(ABT_thread_create(pool, fns[id], ARG(id), ABT_THREAD_ATTR_NULL, &h));
            break;
        case UU:
            OK(ABT_thread_create(pool, fns[id], ARG(id), ABT_THREAD_ATTR_NULL,
                                 NULL));
            break;
        case TN:
            OK(ABT_task_create(pool, fns[id], ARG(id), &h));
            break;
        default:
            OK(ABT_task_create(pool, fns[id], ARG(id), NULL));
            break;
    }
    if (h != ABT_THREAD_NULL)
        H[id] = h;
}

static void ext_creator(void *arg)
{
    (void)arg;
    for (int i = 0; i < C->nunits; i++)
        if (C->u[i].creator == CR_EXT)
            create_unit(i);
}

/* ---- user-defined scheduler: pops everything available, runs it in LIFO
 * order ---------------------------------------------------------------------*/
static int lifo_init(ABT_sched sched, ABT_sched_config config)
{
    (void)sched;
    (void)config;
    return ABT_SUCCESS;
}
static void lifo_run(ABT_sched sched)
{
    ABT_pool pools[3];
    int np = 0;
    OK(ABT_sched_get_num_pools(sched, &np));
    OK(ABT_sched_get_pools(sched, np, 0, pools));
    for (;;) {
        ABT_thread batch[6];
        int n = 0;
        for (int p = 0; p < np; p++) {
            while (n < 6) {
                ABT_thread t = ABT_THREAD_NULL;
                OK(ABT_pool_pop_thread_ex(pools[p], &t,
                                          ABT_POOL_CONTEXT_OWNER_PRIMARY));
                if (t == ABT_THREAD_NULL)
                    break;
                batch[n++] = t;
            }
        }
        for (int i = n - 1; i >= 0; i--)
            OK(ABT_self_schedule(batch[i], ABT_POOL_NULL));
        OK(ABT_xstream_check_events(sched));
        ABT_bool stop = ABT_FALSE;
        OK(ABT_sched_has_to_stop(sched, &stop));
        if (stop == ABT_TRUE)
            break;
    }
}
static int lifo_free(ABT_sched sched)
{
    (void)sched;
    return ABT_SUCCESS;
}

static ABT_sched make_sched(int rotate)
{
    ABT_sched s = ABT_SCHED_NULL;
    ABT_pool pl[3];
    for (int i = 0; i < nq; i++)
        pl[i] = Q[(i + rotate) % nq];
    switch (C->sched) {
        case S_BASIC:
        case S_BASIC2:
            OK(ABT_sched_create_basic(ABT_SCHED_BASIC, nq, pl,
                                      ABT_SCHED_CONFIG_NULL, &s));
            break;
        case S_BASIC_WAIT:
            OK(ABT_sched_create_basic(ABT_SCHED_BASIC_WAIT, nq, pl,
                                      ABT_SCHED_CONFIG_NULL, &s));
            break;
        case S_PRIO:
            OK(ABT_sched_create_basic(ABT_SCHED_PRIO, nq, pl,
                                      ABT_SCHED_CONFIG_NULL, &s));
            break;
        case S_RANDWS:
        case S_RANDWS3:
            OK(ABT_sched_create_basic(ABT_SCHED_RANDWS, nq, pl,
                                      ABT_SCHED_CONFIG_NULL, &s));
            break;
        case S_USER_LIFO: {
            static ABT_sched_def def = { ABT_SCHED_TYPE_ULT, lifo_init, lifo_run,
                                         lifo_free, NULL };
            ABT_sched_config cf;
            OK(ABT_sched_config_create(&cf, ABT_sched_config_automatic, 1,
                                       ABT_sched_config_var_end));
            OK(ABT_sched_create(&def, nq, pl, cf, &s));
            OK(ABT_sched_config_free(&cf));
            break;
        }
        default:
            break;
    }
    return s;
}

static void check_done(int id, const char *at)
{
    abtmc_check(starts[id] == 1 && done[id] == 1, "lost_unit",
                "%s returned but work unit %d has starts=%d completions=%d "
                "(expected 1/1)", at, id, starts[id], done[id]);
}

static void check_pools_empty(const char *at)
{
    for (int p = 0; p < nq; p++) {
        size_t tot = 99;
        ABT_bool emp = ABT_FALSE;
        OK(ABT_pool_get_total_size(Q[p], &tot));
        OK(ABT_pool_is_empty(Q[p], &emp));
        abtmc_check(tot == 0 && emp == ABT_TRUE, "pool_not_empty",
                    "%s: pool %d reports total_size=%zu is_empty=%d although "
                    "every unit pushed to it completed", at, p, tot, (int)emp);
    }
}

static void scenario(int cfg)
{
    C = &cfgs[cfg];
    for (int id = 0; id < NID; id++)
        H[id] = ABT_THREAD_NULL;
    h_init();
    ABT_xstream es0 = h_self_xstream(), es1 = ABT_XSTREAM_NULL;
    int stacked = C->sched == S_STACKED;
    nq = (C->sched == S_PRIO || C->sched == S_RANDWS3) ? 3
         : (C->sched == S_RANDWS || C->sched == S_BASIC2) ? 2 : 1;
    if (C->sched == S_RANDWS3)
        abtmc_set_rand_range(nq - 1);
    for (int p = 0; p < nq; p++) {
        /* with S_BASIC2 the first pool holds the primary ULT, which is resumed
         * by ES1 when it joins: only the second pool is private */
        ABT_pool_access acc =
            (C->sched == S_BASIC2 && p == 0) ? MPMC : C->access;
        OK(ABT_pool_create_basic(C->pkind, acc, ABT_TRUE, &Q[p]));
    }
    int need_es1 = C->srv != SRV_ES0;
    for (int i = 0; i < C->nunits; i++)
        if (C->u[i].creator == CR_ULT1 || C->u[i].creator == CR_TASK1 ||
            (C->u[i].pool == OTHER && C->srv == SRV_ES0))
            need_es1 = 1;
    ABT_sched inner = ABT_SCHED_NULL;
    if (stacked) {
        /* Q is served by a BASIC scheduler that is itself a work unit in the
         * main pool of the serving stream */
        OK(ABT_sched_create_basic(ABT_SCHED_BASIC, 1, Q, ABT_SCHED_CONFIG_NULL,
                                  &inner));
        if (need_es1)
            OK(ABT_xstream_create(ABT_SCHED_NULL, &es1));
    } else {
        if (C->srv == SRV_ES0 || C->srv == SRV_BOTH)
            OK(ABT_xstream_set_main_sched(es0, make_sched(0)));
        if (C->srv == SRV_ES1 || C->srv == SRV_BOTH)
            OK(ABT_xstream_create(make_sched(C->srv == SRV_BOTH ? 1 : 0), &es1));
        else if (need_es1)
            OK(ABT_xstream_create(ABT_SCHED_NULL, &es1));
    }
    P_ES0 = h_main_pool(es0);
    P_ES1 = es1 != ABT_XSTREAM_NULL ? h_main_pool(es1) : ABT_POOL_NULL;
    for (int i = 0; i < C->nunits; i++)
        if (C->u[i].beh == B_WAIT)
            ev_used = 1;
    if (ev_used)
        OK(ABT_eventual_create(0, &EV));

    abtmc_window_begin();
    int xt = -1;
    /* creators that are work units run on ES1 */
    for (int i = 0; i < C->nunits; i++) {
        int id = 6 + i;
        if (C->u[i].creator == CR_ULT1) {
            expected[id] = 1;
            OK(ABT_thread_create(P_ES1, fns[id], ARG(id), ABT_THREAD_ATTR_NULL,
                                 &H[id]));
        } else if (C->u[i].creator == CR_TASK1) {
            expected[id] = 1;
            OK(ABT_task_create(P_ES1, fns[id], ARG(id), &H[id]));
        } else if (C->u[i].creator == CR_EXT && xt < 0) {
            xt = abtmc_thread_create(ext_creator, NULL);
        }
    }
    for (int i = 0; i < C->nunits; i++)
        if (C->u[i].creator == CR_PRIMARY)
            create_unit(i);
    if (stacked) {
        /* a stacked scheduler ends as soon as its pools are empty, so it is
         * added after its units exist */
        OK(ABT_pool_add_sched(C->srv == SRV_ES0 ? P_ES0 : P_ES1, inner));
    }
    /* join the creators, then the named units */
    if (xt >= 0)
        abtmc_thread_join(xt);
    for (int id = 6; id < NID; id++)
        if (H[id] != ABT_THREAD_NULL) {
            OK(ABT_thread_free(&H[id]));
            check_done(id, "ABT_thread_free(creator)");
        }
    int unnamed_left = 0;
    for (int i = 0; i < C->nunits; i++) {
        int named = C->u[i].kind == UN || C->u[i].kind == TN;
        if (named) {
            abtmc_check(H[i] != ABT_THREAD_NULL, "harness", "no handle for %d", i);
            if (i % 2 == 0) {
                OK(ABT_thread_join(H[i]));
                check_done(i, "ABT_thread_join");
                OK(ABT_thread_free(&H[i]));
            } else {
                OK(ABT_thread_free(&H[i]));
                check_done(i, "ABT_thread_free");
            }
        } else {
            unnamed_left++;
        }
        if (C->u[i].beh == B_CHILD)
            unnamed_left++;
    }
    if (es1 != ABT_XSTREAM_NULL) {
        abtmc_progress();
        in_xjoin = 1;
        OK(ABT_xstream_join(es1));
        in_xjoin = 0;
        if (C->srv == SRV_ES1) {
            /* ES1 was the only stream serving Q */
            for (int id = 0; id < 6; id++)
                if (expected[id] && (id >= 3 || C->u[id].pool != OTHER))
                    check_done(id, "ABT_xstream_join");
            /* (a stacked automatic scheduler frees itself and its pool) */
            if (!stacked)
                check_pools_empty("after ABT_xstream_join");
        } else {
            for (int i = 0; i < C->nunits; i++)
                if (C->u[i].pool == OTHER)
                    check_done(i, "ABT_xstream_join");
        }
    }
    if (C->srv != SRV_ES1 && unnamed_left == 0 && !stacked)
        check_pools_empty("after joining every unit");
    abtmc_window_end();

    if (es1 != ABT_XSTREAM_NULL)
        OK(ABT_xstream_free(&es1));
    if (ev_used)
        OK(ABT_eventual_free(&EV));
    h_finalize();
    for (int id = 0; id < NID; id++) {
        abtmc_check(starts[id] == expected[id] && done[id] == expected[id],
                    "lost_unit",
                    "ABT_finalize returned but work unit %d has starts=%d "
                    "completions=%d (expected %d)", id, starts[id], done[id],
                    expected[id]);
    }
    abtmc_check(abtmc_ledger_live() == 0, "leak",
                "%ld live allocations after ABT_finalize", abtmc_ledger_live());
    for (int id = 0; id < NID; id++)
        if (!ran_on[id])
            ran_on[id] = '-';
    order[norder] = 0;
    abtmc_observe("on=%.6s ord=%s late=%d", ran_on, order, late);
}

static const char *cfg_name(int i) { return cfgs[i].name; }
static int cfg_quick(int i) { return cfgs[i].quick; }

int main(int argc, char **argv)
{
    static abtmc_driver d = { "c01_once", "C01", ARRAY_LEN(cfgs), cfg_name,
                              scenario, cfg_quick };
    return abtmc_main(argc, argv, &d);
}
