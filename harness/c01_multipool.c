/* c01_multipool.c -- C01/C06: a scheduler with SEVERAL pools of mixed access
 * modes must look at all of them before it decides that it has nothing left:
 * "runs to completion before ... ABT_xstream_join/free of the only stream
 * serving its pool ... returns", for main and stacked schedulers.
 *
 *   pools = a list of {PRIV, MPMC, MPSC} FIFO pools, some empty, the work
 *   (unnamed ULT that yields once, named ULT, tasklet) in ONE of them;
 *   MAIN:    ES1's main scheduler (BASIC / PRIO / BASIC_WAIT) serves the list;
 *            the primary ULT creates the units and calls ABT_xstream_join(ES1)
 *            at once (the join request races with the units).
 *   STACKED: a scheduler over the list is pushed into the primary stream's
 *            main pool with ABT_pool_add_sched; the primary ULT joins the named
 *            unit and yields until the others ran.
 * Oracle: every unit ran exactly once when the join returns (MAIN) / all units
 * run (STACKED; a unit stranded in a pool nobody serves any more = deadlock or
 * run_count). */
#include "common.h"

enum { M_MAIN, M_STACKED };
#define ACC_END (-1)
typedef struct {
    const char *name;
    int quick, mode;
    ABT_sched_predef sched;
    int acc[4];  /* access mode per pool, ACC_END terminated */
    int work_in; /* index of the pool that holds the units */
} cfg_t;
#define PRIV ABT_POOL_ACCESS_PRIV
#define MPMC ABT_POOL_ACCESS_MPMC
#define MPSC ABT_POOL_ACCESS_MPSC
static const cfg_t cfgs[] = {
    { "MAIN BASIC {PRIV empty, MPMC work}: join at once", 1, M_MAIN, ABT_SCHED_BASIC,
      { PRIV, MPMC, ACC_END }, 1 },
    { "MAIN PRIO {MPSC empty, PRIV empty, MPMC work}: join at once", 1, M_MAIN,
      ABT_SCHED_PRIO, { MPSC, PRIV, MPMC, ACC_END }, 2 },
    { "STACKED BASIC {PRIV empty, PRIV work} in the primary's pool", 1, M_STACKED,
      ABT_SCHED_BASIC, { PRIV, PRIV, ACC_END }, 1 },
    { "MAIN BASIC_WAIT {MPMC work, PRIV empty}: join at once", 0, M_MAIN,
      ABT_SCHED_BASIC_WAIT, { MPMC, PRIV, ACC_END }, 0 },
    { "MAIN BASIC {MPMC empty, MPSC work, PRIV empty}: join at once", 0, M_MAIN,
      ABT_SCHED_BASIC, { MPMC, MPSC, PRIV, ACC_END }, 1 },
    { "STACKED PRIO {PRIV empty, MPMC empty, PRIV work} in the primary's pool", 0,
      M_STACKED, ABT_SCHED_PRIO, { PRIV, MPMC, PRIV, ACC_END }, 2 },
};

static const cfg_t *C;
static int ran[3], y_after;
static ABT_thread named;

static void u_yield(void *arg)
{
    (void)arg;
    ran[0]++;
    OK(ABT_thread_yield());
    y_after++;
}
static void u_named(void *arg)
{
    (void)arg;
    ran[1]++;
}
static void u_task(void *arg)
{
    (void)arg;
    ran[2]++;
}

static void scenario(int cfg)
{
    C = &cfgs[cfg];
    h_init();
    ABT_pool pools[4];
    int np = 0;
    for (; C->acc[np] != ACC_END; np++)
        OK(ABT_pool_create_basic(ABT_POOL_FIFO, (ABT_pool_access)C->acc[np], ABT_TRUE,
                                 &pools[np]));
    ABT_sched s;
    OK(ABT_sched_create_basic(C->sched, np, pools, ABT_SCHED_CONFIG_NULL, &s));
    ABT_pool W = pools[C->work_in];
    ABT_xstream es1 = ABT_XSTREAM_NULL;

    abtmc_window_begin();
    if (C->mode == M_MAIN) {
        /* a PRIV work pool may only be touched by its stream: not used here */
        OK(ABT_xstream_create(s, &es1));
        OK(ABT_thread_create(W, u_yield, NULL, ABT_THREAD_ATTR_NULL, NULL));
        OK(ABT_thread_create(W, u_named, NULL, ABT_THREAD_ATTR_NULL, &named));
        OK(ABT_task_create(W, u_task, NULL, NULL));
        OK(ABT_xstream_join(es1));
        abtmc_check(ran[0] == 1 && y_after == 1 && ran[1] == 1 && ran[2] == 1,
                    "unit_not_run",
                    "ABT_xstream_join returned; yielding ULT ran %d (continued %d), "
                    "named ULT %d, tasklet %d times: units were left in pool #%d of "
                    "the joined stream's scheduler", ran[0], y_after, ran[1], ran[2],
                    C->work_in);
        size_t sz = 99;
        OK(ABT_pool_get_total_size(W, &sz));
        abtmc_check(sz == 0, "unit_left_in_pool", "pool #%d still holds %zu units",
                    C->work_in, sz);
    } else {
        /* everything happens on the primary stream, which owns the PRIV pools */
        OK(ABT_thread_create(W, u_yield, NULL, ABT_THREAD_ATTR_NULL, NULL));
        OK(ABT_thread_create(W, u_named, NULL, ABT_THREAD_ATTR_NULL, &named));
        OK(ABT_task_create(W, u_task, NULL, NULL));
        OK(ABT_pool_add_sched(h_main_pool(h_self_xstream()), s));
        OK(ABT_thread_join(named));
        /* the stacked scheduler drains its pools before it ends; bounded wait */
        for (int i = 0; i < 8 && !(ran[0] == 1 && y_after == 1 && ran[2] == 1); i++)
            OK(ABT_thread_yield());
        abtmc_check(ran[0] == 1 && y_after == 1 && ran[1] == 1 && ran[2] == 1,
                    "unit_not_run",
                    "stacked scheduler gone; yielding ULT ran %d (continued %d), named "
                    "ULT %d, tasklet %d times", ran[0], y_after, ran[1], ran[2]);
    }
    abtmc_window_end();
    abtmc_observe("%d%d%d%d", ran[0], y_after, ran[1], ran[2]);
    OK(ABT_thread_free(&named));
    if (es1 != ABT_XSTREAM_NULL)
        OK(ABT_xstream_free(&es1));
    h_finalize();
    abtmc_check(abtmc_ledger_live() == 0, "leak", "%ld live allocations",
                abtmc_ledger_live());
}

static const char *cfg_name(int i) { return cfgs[i].name; }
static int cfg_quick(int i) { return cfgs[i].quick; }

int main(int argc, char **argv)
{
    static abtmc_driver d = { "c01_multipool", "C01", ARRAY_LEN(cfgs), cfg_name,
                              scenario, cfg_quick };
    return abtmc_main(argc, argv, &d);
}
