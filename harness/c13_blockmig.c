/* c13_blockmig.c -- C13 x C06: a ULT with a PENDING migration request blocks
 * (the request is performed inside the suspend: association, callback, and the
 * blocked count must then be kept on the pool the unit will come back to).
 *
 *   ES0: primary, pool A.  ES1: pool B.
 *   J (in A) requests its own migration to B and then blocks through one of
 *     ABT_thread_join(T) / ABT_eventual_wait / ABT_mutex_lock (held by T) /
 *     ABT_cond_wait / ABT_barrier_wait / ABT_self_suspend / ABT_future_wait;
 *   T (in A, named) releases it after J reads BLOCKED.
 * Oracle: the blocked count of A and B is never negative (global invariant,
 * evaluated after every write) and both are zero at the end; the callback ran
 * exactly once; after the release J continues on the stream serving B; J and T
 * complete; ABT_xstream_join(ES1) issued while J is blocked waits for J. */
#include "abti.h"
#include "common.h"

enum { K_JOIN, K_EVENTUAL, K_MUTEX, K_COND, K_BARRIER, K_SUSPEND, K_FUTURE, NKIND };
static const char *kname[] = { "join", "eventual", "mutex", "cond", "barrier", "suspend",
                               "future" };
typedef struct {
    const char *name;
    int quick, join_es1_early;
} cfg_t;
static const cfg_t cfgs[] = {
    { "J: migrate_to_pool(self,B), block (7 ways); T releases", 1, 0 },
    { "same; the primary calls ABT_xstream_join(ES1) while J is blocked", 1, 1 },
};

static const cfg_t *C;
static int kind;
static ABT_pool PA, PB;
static ABT_thread J, T;
static ABT_eventual EV;
static ABT_future FU;
static ABT_mutex MX;
static ABT_cond CV;
static ABT_barrier BA;
static int pred, t_holds, j_about, j_done, t_done, ncb, rank_after = -1, pool_after = -1;
static int es1_joined;

static void cb(ABT_thread t, void *arg)
{
    (void)arg;
    abtmc_check(t == J, "callback_args", "callback for a wrong unit");
    ncb++;
}

static void j_fn(void *arg)
{
    (void)arg;
    if (kind == K_MUTEX) /* T must hold the mutex first */
        while (abtmc_load(&t_holds) == 0)
            OK(ABT_thread_yield());
    OK(ABT_thread_migrate_to_pool(J, PB));
    abtmc_store(&j_about, 1);
    switch (kind) {
        case K_JOIN: OK(ABT_thread_join(T)); break;
        case K_EVENTUAL: OK(ABT_eventual_wait(EV, NULL)); break;
        case K_FUTURE: OK(ABT_future_wait(FU)); break;
        case K_MUTEX:
            OK(ABT_mutex_lock(MX));
            OK(ABT_mutex_unlock(MX));
            break;
        case K_COND:
            OK(ABT_mutex_lock(MX));
            while (!pred)
                OK(ABT_cond_wait(CV, MX));
            OK(ABT_mutex_unlock(MX));
            break;
        case K_BARRIER: OK(ABT_barrier_wait(BA)); break;
        case K_SUSPEND: OK(ABT_self_suspend()); break;
    }
    ABT_pool p;
    OK(ABT_xstream_self_rank(&rank_after));
    OK(ABT_self_get_last_pool(&p));
    pool_after = p == PA ? 0 : p == PB ? 1 : -1;
    j_done++;
}

static int j_blocked(void)
{
    ABT_thread_state st;
    OK(ABT_thread_get_state(J, &st));
    return st == ABT_THREAD_STATE_BLOCKED;
}

static void t_fn(void *arg)
{
    (void)arg;
    if (kind == K_MUTEX) {
        OK(ABT_mutex_lock(MX));
        abtmc_store(&t_holds, 1);
    }
    /* wait until J really sits blocked (for K_JOIN: blocked on us) */
    while (!(abtmc_load(&j_about) && j_blocked()))
        OK(ABT_thread_yield());
    if (C->join_es1_early)
        while (abtmc_load(&es1_joined) == 0)
            OK(ABT_thread_yield());
    switch (kind) {
        case K_JOIN: break; /* returning releases J */
        case K_EVENTUAL: OK(ABT_eventual_set(EV, NULL, 0)); break;
        case K_FUTURE: OK(ABT_future_set(FU, NULL)); break;
        case K_MUTEX: OK(ABT_mutex_unlock(MX)); break;
        case K_COND:
            OK(ABT_mutex_lock(MX));
            pred = 1;
            OK(ABT_cond_signal(CV));
            OK(ABT_mutex_unlock(MX));
            break;
        case K_BARRIER: OK(ABT_barrier_wait(BA)); break;
        case K_SUSPEND: OK(ABT_thread_resume(J)); break;
    }
    t_done++;
}

static void scenario(int cfg)
{
    C = &cfgs[cfg];
    h_init();
    ABT_xstream es1;
    ABT_sched s1;
    PA = h_main_pool(h_self_xstream());
    OK(ABT_pool_create_basic(ABT_POOL_FIFO, ABT_POOL_ACCESS_MPMC, ABT_FALSE, &PB));
    OK(ABT_sched_create_basic(ABT_SCHED_BASIC, 1, &PB, ABT_SCHED_CONFIG_NULL, &s1));
    OK(ABT_xstream_create(s1, &es1));
    OK(ABT_eventual_create(0, &EV));
    OK(ABT_future_create(1, NULL, &FU));
    OK(ABT_mutex_create(&MX));
    OK(ABT_cond_create(&CV));
    OK(ABT_barrier_create(2, &BA));
    h_watch_pool(PA);
    h_watch_pool(PB);

    abtmc_window_begin();
    kind = abtmc_choose(NKIND, ABTMC_B_FREE);
    OK(ABT_thread_create(PA, t_fn, NULL, ABT_THREAD_ATTR_NULL, &T));
    OK(ABT_thread_create(PA, j_fn, NULL, ABT_THREAD_ATTR_NULL, &J));
    OK(ABT_thread_set_callback(J, cb, NULL));
    if (C->join_es1_early) {
        /* ask ES1 to finish while J -- which now belongs to ES1's pool -- is
         * blocked: the join has to wait for it */
        while (!(abtmc_load(&j_about) && j_blocked()))
            OK(ABT_thread_yield());
        abtmc_store(&es1_joined, 1);
        OK(ABT_xstream_join(es1));
        abtmc_check(j_done == 1, "join_early",
                    "ABT_xstream_join(ES1) returned while J, blocked (%s) and "
                    "associated with ES1's pool, has not finished", kname[kind]);
    }
    OK(ABT_thread_join(J));
    OK(ABT_thread_join(T));
    abtmc_window_end();

    abtmc_check(j_done == 1 && t_done == 1, "run_count", "J %d T %d", j_done, t_done);
    abtmc_check(ncb == 1, "callback_count", "%d migration callbacks (%s)", ncb,
                kname[kind]);
    /* (an exiting target hands control directly to its joiner on its own stream:
     * after a join J may still be on stream 0, but it is associated with B) */
    abtmc_check((rank_after == 1 || kind == K_JOIN) && pool_after == 1,
                "request_not_honoured",
                "after blocking (%s) with a pending request J continued on stream %d, "
                "pool %c", kname[kind], rank_after, pool_after == 1 ? 'B' : 'A');
    abtmc_check(h_pool_blocked(PA) == 0 && h_pool_blocked(PB) == 0, "blocked_count",
                "at the end pool A counts %d, pool B %d blocked units (%s)",
                h_pool_blocked(PA), h_pool_blocked(PB), kname[kind]);
    abtmc_observe("%s", kname[kind]);
    OK(ABT_thread_free(&J));
    OK(ABT_thread_free(&T));
    if (!C->join_es1_early)
        OK(ABT_xstream_join(es1));
    OK(ABT_xstream_free(&es1));
    OK(ABT_pool_free(&PB));
    OK(ABT_eventual_free(&EV));
    OK(ABT_future_free(&FU));
    OK(ABT_mutex_free(&MX));
    OK(ABT_cond_free(&CV));
    OK(ABT_barrier_free(&BA));
    h_finalize();
    abtmc_check(abtmc_ledger_live() == 0, "leak", "%ld live allocations",
                abtmc_ledger_live());
}

static const char *cfg_name(int i) { return cfgs[i].name; }
static int cfg_quick(int i) { return cfgs[i].quick; }

int main(int argc, char **argv)
{
    static abtmc_driver d = { "c13_blockmig", "C13", ARRAY_LEN(cfgs), cfg_name, scenario,
                              cfg_quick };
    return abtmc_main(argc, argv, &d);
}
