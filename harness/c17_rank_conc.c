/* c17_rank_conc.c -- C17b: rank management under concurrency (kind I).
 *
 * 2-3 actors (the primary ULT, an external thread X, a ULT on ES1) each run a
 * script of 1-2 operations from {ABT_xstream_create, _create_with_rank(r),
 * _set_rank(v, r), _free(v), _get_num} on stream variables.  Every call is
 * bracketed by abtmc_step() stamps.  Oracle ("management of ranks is performed
 * atomically"): there is an order of the operations that respects each actor's
 * program order and the real-time order of non-overlapping calls, in which
 * the sequential rank model (smallest unused automatic rank; explicit rank
 * granted iff unused by another live stream; a freed rank reusable) produces
 * exactly the observed return codes and ranks, and whose final state equals
 * the ranks / ABT_xstream_get_num read at quiescence.  Ranks of live streams
 * are additionally checked pairwise distinct at quiescence.
 *
 * Scripts never touch a variable that another actor creates or frees
 * concurrently (that is undefined by the documentation of ABT_xstream_free). */
#include "common.h"

enum { A_U0, A_X, A_U1 };
enum { O_CREATE, O_CREATE_R, O_SETRANK, O_FREE, O_NUM };
#define NVAR 6
#define MAXOPS 3
#define MAXACT 3

typedef struct { int kind, var, r; } op_t;
typedef struct { int actor, nops; op_t ops[MAXOPS]; } script_t;
typedef struct {
    const char *name;
    int quick;
    int es1;            /* create ES1 first (it takes rank 1) */
    int npre;           /* variables 0..npre-1 pre-created with these ranks */
    int pre_rank[4];
    int nact;
    script_t s[MAXACT];
} cfg_t;

#define CR(v) { O_CREATE, v, -1 }
#define CRR(v, r) { O_CREATE_R, v, r }
#define SR(v, r) { O_SETRANK, v, r }
#define FR(v) { O_FREE, v, -1 }
#define NUM() { O_NUM, -1, -1 }

static const cfg_t cfgs[] = {
    /* quick tier, cheapest first (a deadline cuts the tail, not the head) */
    { "U0.set_rank(a,3) || X.set_rank(b,3)", 1, 0, 2, { 1, 2 }, 2,
      { { A_U0, 1, { SR(0, 3) } }, { A_X, 1, { SR(1, 3) } } } },
    { "U0.set_rank(a,3) || X.set_rank(b,1)  (a=1,b=2)", 1, 0, 2, { 1, 2 }, 2,
      { { A_U0, 1, { SR(0, 3) } }, { A_X, 1, { SR(1, 1) } } } },
    { "U0.set_rank(a,3) || X.set_rank(a,4)  same stream", 1, 0, 1, { 1 }, 2,
      { { A_U0, 1, { SR(0, 3) } }, { A_X, 1, { SR(0, 4) } } } },
    { "U0.set_rank(a,3) || X.set_rank(a,3)  same stream, same rank", 1, 0, 1,
      { 1 }, 2,
      { { A_U0, 1, { SR(0, 3) } }, { A_X, 1, { SR(0, 3) } } } },
    { "U0.set_rank(a,3) || X.set_rank(b,4) || U1.set_rank(c,5)  chain "
      "(ES1=1,a=2,b=3,c=4)",
      1, 1, 3, { 2, 3, 4 }, 3,
      { { A_U0, 1, { SR(0, 3) } }, { A_X, 1, { SR(1, 4) } },
        { A_U1, 1, { SR(2, 5) } } } },
    { "U0.set_rank(a,2);set_rank(a,1) || X.create_r(1)  (a=1)", 1, 0, 1, { 1 },
      2,
      { { A_U0, 2, { SR(0, 2), SR(0, 1) } }, { A_X, 1, { CRR(1, 1) } } } },
    { "U0.create_r(2) || X.get_num;get_num", 1, 0, 0, { 0 }, 2,
      { { A_U0, 1, { CRR(0, 2) } }, { A_X, 2, { NUM(), NUM() } } } },
    { "U0.create_r(2) || X.create_r(2)", 1, 0, 0, { 0 }, 2,
      { { A_U0, 1, { CRR(0, 2) } }, { A_X, 1, { CRR(1, 2) } } } },
    { "U0.create || X.create_r(1)", 1, 0, 0, { 0 }, 2,
      { { A_U0, 1, { CR(0) } }, { A_X, 1, { CRR(1, 1) } } } },
    { "U0.create || X.create", 1, 0, 0, { 0 }, 2,
      { { A_U0, 1, { CR(0) } }, { A_X, 1, { CR(1) } } } },
    /* thorough */
    { "U0.free(a) || X.create  (a=1)", 0, 0, 1, { 1 }, 2,
      { { A_U0, 1, { FR(0) } }, { A_X, 1, { CR(1) } } } },
    { "U1.set_rank(a,3) || X.free(b) || U0.get_num  (ES1=1,a=2,b=3)", 0, 1, 2,
      { 2, 3 }, 3,
      { { A_U1, 1, { SR(0, 3) } }, { A_X, 1, { FR(1) } },
        { A_U0, 2, { NUM(), NUM() } } } },
    { "U0.create;free own || X.create;set_rank(own,1)", 0, 0, 0, { 0 }, 2,
      { { A_U0, 2, { CR(0), FR(0) } }, { A_X, 2, { CR(1), SR(1, 1) } } } },
    { "U1.create || X.create  (ES1=1)", 0, 1, 0, { 0 }, 2,
      { { A_U1, 1, { CR(0) } }, { A_X, 1, { CR(1) } } } },
    { "U1.set_rank(a,3) || X.free(b) || U0.create_r(2)  (ES1=1,a=2,b=3)", 0, 1,
      2, { 2, 3 }, 3,
      { { A_U1, 1, { SR(0, 3) } }, { A_X, 1, { FR(1) } },
        { A_U0, 1, { CRR(2, 2) } } } },
    { "U0.free(a);create || X.set_rank(b,1);set_rank(b,2)  (a=1,b=2)", 0, 0, 2,
      { 1, 2 }, 2,
      { { A_U0, 2, { FR(0), CR(2) } }, { A_X, 2, { SR(1, 1), SR(1, 2) } } } },
    { "U1.create_r(2) || X.set_rank(a,2);get_num  (ES1=1,a=3)", 0, 1, 1, { 3 },
      2,
      { { A_U1, 1, { CRR(1, 2) } }, { A_X, 2, { SR(0, 2), NUM() } } } },
};

static const cfg_t *C;
static ABT_xstream var[NVAR];
static ABT_xstream es1 = ABT_XSTREAM_NULL;

/* recorded history */
typedef struct {
    op_t op;
    long t_call, t_ret;
    int ret, val; /* val: rank obtained by a create / value of get_num */
} rec_t;
static rec_t rec[MAXACT][MAXOPS];
static int nrec[MAXACT];

static void actor_body(void *arg)
{
    int a = (int)(intptr_t)arg;
    const script_t *s = &C->s[a];
    for (int i = 0; i < s->nops; i++) {
        rec_t *r = &rec[a][i];
        const op_t *o = &s->ops[i];
        r->op = *o;
        r->val = -1;
        r->t_call = abtmc_step();
        switch (o->kind) {
            case O_CREATE:
                r->ret = ABT_xstream_create(ABT_SCHED_NULL, &var[o->var]);
                break;
            case O_CREATE_R:
                r->ret = ABT_xstream_create_with_rank(ABT_SCHED_NULL, o->r,
                                                      &var[o->var]);
                break;
            case O_SETRANK:
                r->ret = ABT_xstream_set_rank(var[o->var], o->r);
                break;
            case O_FREE:
                r->ret = ABT_xstream_free(&var[o->var]);
                break;
            default:
                r->ret = ABT_xstream_get_num(&r->val);
                break;
        }
        r->t_ret = abtmc_step();
        if ((o->kind == O_CREATE || o->kind == O_CREATE_R) &&
            r->ret == ABT_SUCCESS)
            OK(ABT_xstream_get_rank(var[o->var], &r->val));
        nrec[a] = i + 1;
    }
}

/* ------------------------------------------------ linearization search */
typedef struct {
    int live[NVAR], rank[NVAR];
} lmodel_t;
static int fin_live[NVAR], fin_rank[NVAR], fin_num;
/* diagnosis only: also accept a set_rank(v, r) refused with
 * ABT_ERR_INV_XSTREAM_RANK while v itself (no other stream) holds r */
static int relax_own;

static int l_used(const lmodel_t *m, int r, int except)
{
    if (r == 0 || (C->es1 && r == 1))
        return 1;
    for (int v = 0; v < NVAR; v++)
        if (v != except && m->live[v] && m->rank[v] == r)
            return 1;
    return 0;
}
static int l_count(const lmodel_t *m)
{
    int n = 1 + (C->es1 ? 1 : 0);
    for (int v = 0; v < NVAR; v++)
        n += m->live[v];
    return n;
}

/* apply rec r to m; 0 if the observed result is impossible here */
static int l_apply(lmodel_t *m, const rec_t *r)
{
    const op_t *o = &r->op;
    switch (o->kind) {
        case O_CREATE: {
            int k = 0;
            while (l_used(m, k, -1))
                k++;
            if (r->ret != ABT_SUCCESS || r->val != k)
                return 0;
            m->live[o->var] = 1;
            m->rank[o->var] = k;
            return 1;
        }
        case O_CREATE_R:
            if (l_used(m, o->r, -1))
                return r->ret == ABT_ERR_INV_XSTREAM_RANK;
            if (r->ret != ABT_SUCCESS || r->val != o->r)
                return 0;
            m->live[o->var] = 1;
            m->rank[o->var] = o->r;
            return 1;
        case O_SETRANK:
            if (l_used(m, o->r, o->var))
                return r->ret == ABT_ERR_INV_XSTREAM_RANK;
            if (relax_own && r->ret == ABT_ERR_INV_XSTREAM_RANK &&
                m->rank[o->var] == o->r)
                return 1;
            if (r->ret != ABT_SUCCESS)
                return 0;
            m->rank[o->var] = o->r;
            return 1;
        case O_FREE:
            if (r->ret != ABT_SUCCESS)
                return 0;
            m->live[o->var] = 0;
            return 1;
        default:
            return r->ret == ABT_SUCCESS && r->val == l_count(m);
    }
}

static int l_search(const lmodel_t *m, int *pos)
{
    int done = 1;
    for (int a = 0; a < C->nact; a++)
        if (pos[a] < nrec[a])
            done = 0;
    if (done) {
        if (l_count(m) != fin_num)
            return 0;
        for (int v = 0; v < NVAR; v++) {
            if (m->live[v] != fin_live[v])
                return 0;
            if (m->live[v] && m->rank[v] != fin_rank[v])
                return 0;
        }
        return 1;
    }
    for (int a = 0; a < C->nact; a++) {
        if (pos[a] >= nrec[a])
            continue;
        const rec_t *r = &rec[a][pos[a]];
        /* real-time order: r may go next only if no other pending operation
         * returned before r was called */
        int ok = 1;
        for (int b = 0; b < C->nact; b++)
            if (b != a && pos[b] < nrec[b] &&
                rec[b][pos[b]].t_ret < r->t_call)
                ok = 0;
        if (!ok)
            continue;
        lmodel_t n = *m;
        if (!l_apply(&n, r))
            continue;
        pos[a]++;
        int found = l_search(&n, pos);
        pos[a]--;
        if (found)
            return 1;
    }
    return 0;
}

static void nop_fn(void *arg) { (void)arg; }

/* let a freshly created stream start and go idle before the window opens
 * (outside the window the creating thread keeps running until it blocks) */
static void settle(ABT_xstream x)
{
    ABT_task t;
    OK(ABT_task_create(h_main_pool(x), nop_fn, NULL, &t));
    OK(ABT_task_free(&t));
}

static void scenario(int cfg)
{
    C = &cfgs[cfg];
    h_init();
    for (int v = 0; v < NVAR; v++)
        var[v] = ABT_XSTREAM_NULL;
    if (C->es1) {
        OK(ABT_xstream_create(ABT_SCHED_NULL, &es1));
        int r;
        OK(ABT_xstream_get_rank(es1, &r));
        abtmc_check(r == 1, "auto_rank", "ES1 got rank %d", r);
        settle(es1);
    }
    lmodel_t m0;
    memset(&m0, 0, sizeof(m0));
    for (int v = 0; v < C->npre; v++) {
        OK(ABT_xstream_create_with_rank(ABT_SCHED_NULL, C->pre_rank[v],
                                        &var[v]));
        settle(var[v]);
        m0.live[v] = 1;
        m0.rank[v] = C->pre_rank[v];
    }

    abtmc_window_begin();
    ABT_thread th[MAXACT];
    int xt[MAXACT], self_actor = -1;
    for (int a = 0; a < C->nact; a++) {
        th[a] = ABT_THREAD_NULL;
        xt[a] = -1;
        void *arg = (void *)(intptr_t)a;
        if (C->s[a].actor == A_X)
            xt[a] = abtmc_thread_create(actor_body, arg);
        else if (C->s[a].actor == A_U1)
            OK(ABT_thread_create(h_main_pool(es1), actor_body, arg,
                                 ABT_THREAD_ATTR_NULL, &th[a]));
        else
            self_actor = a;
    }
    if (self_actor >= 0)
        actor_body((void *)(intptr_t)self_actor); /* the primary ULT itself */
    for (int a = 0; a < C->nact; a++) {
        if (th[a] != ABT_THREAD_NULL)
            OK(ABT_thread_free(&th[a]));
        if (xt[a] >= 0)
            abtmc_thread_join(xt[a]);
    }
    abtmc_window_end();

    /* quiescent state */
    int seen[64], nlive = 0;
    memset(seen, 0, sizeof(seen));
    seen[0] = 1;
    if (C->es1)
        seen[1] = 1;
    for (int v = 0; v < NVAR; v++) {
        fin_live[v] = (var[v] != ABT_XSTREAM_NULL);
        fin_rank[v] = -1;
        if (!fin_live[v])
            continue;
        nlive++;
        OK(ABT_xstream_get_rank(var[v], &fin_rank[v]));
        int r = fin_rank[v];
        abtmc_check(r >= 0 && r < 64 && !seen[r], "rank_duplicate",
                    "rank %d is held by two live streams at quiescence", r);
        seen[r] = 1;
    }
    OK(ABT_xstream_get_num(&fin_num));
    abtmc_check(fin_num == nlive + 1 + (C->es1 ? 1 : 0), "num_xstreams",
                "ABT_xstream_get_num = %d with %d live streams", fin_num,
                nlive + 1 + (C->es1 ? 1 : 0));
    for (int a = 0; a < C->nact; a++)
        abtmc_check(nrec[a] == C->s[a].nops, "lost_actor",
                    "actor %d finished %d of %d operations", a, nrec[a],
                    C->s[a].nops);

    char tag[160];
    int tl = 0;
    for (int a = 0; a < C->nact; a++) {
        for (int i = 0; i < nrec[a]; i++)
            tl += snprintf(tag + tl, sizeof(tag) - tl, "%s%d/%d",
                           i ? "," : "", rec[a][i].ret, rec[a][i].val);
        tl += snprintf(tag + tl, sizeof(tag) - tl, " | ");
    }
    for (int v = 0; v < NVAR; v++)
        if (fin_live[v])
            tl += snprintf(tag + tl, sizeof(tag) - tl, "v%d=%d ", v,
                           fin_rank[v]);
    /* which actor's last call returned first (distinguishes schedules whose
     * results are necessarily identical, e.g. two set_rank(x, r) on one x) */
    {
        int first = 0;
        for (int a = 1; a < C->nact; a++)
            if (rec[a][nrec[a] - 1].t_ret < rec[first][nrec[first] - 1].t_ret)
                first = a;
        abtmc_observe("%s first_done=%d", tag, first);
    }

    int pos[MAXACT] = { 0, 0, 0 };
    if (!l_search(&m0, pos)) {
        relax_own = 1;
        int own = l_search(&m0, pos);
        abtmc_check(!own, "set_rank_own_rank_refused",
                    "ABT_xstream_set_rank(x, r) returned "
                    "ABT_ERR_INV_XSTREAM_RANK although no OTHER stream held r: "
                    "x itself had just been given r by a concurrent "
                    "set_rank(x, r); no sequential order explains: %s(ret/value "
                    "per op, actors separated by |; then final ranks)",
                    tag);
        abtmc_check(0, "not_linearizable",
                    "no sequential order of the rank operations explains the "
                    "observed results: %s(ret/value per op, actors separated "
                    "by |; then final ranks)",
                    tag);
    }

    for (int v = 0; v < NVAR; v++)
        if (var[v] != ABT_XSTREAM_NULL)
            OK(ABT_xstream_free(&var[v]));
    if (C->es1)
        OK(ABT_xstream_free(&es1));
    int n;
    OK(ABT_xstream_get_num(&n));
    abtmc_check(n == 1, "num_xstreams", "ABT_xstream_get_num = %d at the end",
                n);
    h_finalize();
    abtmc_check(abtmc_ledger_live() == 0, "leak",
                "%ld resources still allocated after ABT_finalize",
                abtmc_ledger_live());
}

static const char *cfg_name(int i) { return cfgs[i].name; }
static int cfg_quick(int i) { return cfgs[i].quick; }

int main(int argc, char **argv)
{
    static abtmc_driver d = { "c17_rank_conc", "C17", ARRAY_LEN(cfgs), cfg_name,
                              scenario, cfg_quick };
    return abtmc_main(argc, argv, &d);
}
