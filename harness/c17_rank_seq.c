/* c17_rank_seq.c -- C17a: execution-stream ranks and the stream lifecycle,
 * operation histories against a reference model (kind S).
 *
 * Up to 3 secondary streams (slots 0..2), ranks 0..4 (rank 0 is held by the
 * primary stream).  Alphabet:
 *   CREATE                 ABT_xstream_create            (auto rank)
 *   CREATE_R(r)            ABT_xstream_create_with_rank
 *   SET_RANK(slot, r)      ABT_xstream_set_rank
 *   JOIN(slot)             ABT_xstream_join (also of an already joined stream)
 *   REVIVE(slot)           ABT_xstream_revive (error probe on a running one)
 *   FREE(slot)             ABT_xstream_free (running or joined)
 * Only operations that are meaningful in the current model state are offered
 * (a failing create_with_rank / set_rank IS offered).  After every operation
 * the cheap probes run (get_num, get_rank, get_state of every live stream,
 * white-box walk of the global rank list); after create / revive / a rank
 * change of a running stream a tasklet is run on that stream and reports
 * ABT_xstream_self_rank / ABT_xstream_self.
 *
 * Enumeration: histories of depth <= D chosen with abtmc_choose(FREE).  With
 * L < D the enumeration is the BFS tree with canonical-state dedup of
 * DESIGN.md: a history is extended by one more operation iff its prefix of
 * length (len+1-L) is the canonical (first, in BFS order) history of the model
 * state it reaches -- i.e. every model state reachable within D-L operations
 * is reached once and from it ALL operation sequences of length L are run on
 * the real code.  L >= D is the plain enumeration of all histories.
 * Every history runs on a fresh runtime (one execution = one history). */
#include "abti.h"
#include "common.h"
#include "c17_asan.h"

#define NSLOT 3
#define MAXRANK 5
#define MAXD 7

enum { S_ABSENT, S_RUN, S_JOINED };
typedef struct {
    uint8_t st[NSLOT];
    int8_t rank[NSLOT];
} model_t;

/* alphabet flags */
enum {
    F_CREATE = 1, F_CREATE_R = 2, F_SETRANK = 4, F_JOIN = 8, F_REVIVE = 16,
    F_FREE = 32, F_REJOIN = 64, F_REVIVE_RUNNING = 128,
    F_ALL = 255
};

typedef struct {
    const char *name;
    int quick;
    int D, L;     /* max depth, free suffix length (L >= D: all histories) */
    int nslot;    /* 1..3 */
    int nrank;    /* ranks 0..nrank-1 */
    int flags;
    int probe_units; /* run a tasklet after create/revive/set_rank */
} cfg_t;

static const cfg_t cfgs[] = {
    /* every history, short */
    { "all histories d3, 3 slots, ranks 0..4", 1, 3, 3, 3, 5, F_ALL, 1 },
    /* BFS tree with canonical-state dedup */
    { "bfs-dedup D5 L1, 3 slots, ranks 0..4", 1, 5, 1, 3, 5, F_ALL, 1 },
    { "bfs-dedup D5 L2, 3 slots, ranks 0..3", 0, 5, 2, 3, 4, F_ALL, 1 },
    /* rank management only (no join/revive), deeper */
    { "ranks only: all histories d4, 2 slots, ranks 0..3", 1, 4, 4, 2, 4,
      F_CREATE | F_CREATE_R | F_SETRANK | F_FREE, 1 },
    /* lifecycle only, one/two streams */
    { "lifecycle only: all histories d5, 2 slots", 1, 5, 5, 2, 3,
      F_CREATE | F_JOIN | F_REVIVE | F_FREE | F_REJOIN | F_REVIVE_RUNNING, 1 },
    /* thorough */
    { "bfs-dedup D7 L1, 3 slots, ranks 0..4", 0, 7, 1, 3, 5, F_ALL, 1 },
    { "bfs-dedup D7 L2, 3 slots, ranks 0..4", 0, 7, 2, 3, 5, F_ALL, 1 },
    { "bfs-dedup D7 L3, 3 slots, ranks 0..3", 0, 7, 3, 3, 4, F_ALL, 0 },
    { "all histories d4, 3 slots, ranks 0..4", 0, 4, 4, 3, 5, F_ALL, 1 },
    { "ranks only: all histories d5, 3 slots, ranks 0..4", 0, 5, 5, 3, 5,
      F_CREATE | F_CREATE_R | F_SETRANK | F_FREE, 0 },
    { "lifecycle only: all histories d7, 2 slots", 0, 7, 7, 2, 3,
      F_CREATE | F_JOIN | F_REVIVE | F_FREE | F_REJOIN | F_REVIVE_RUNNING, 1 },
};

static const cfg_t *C;

/* ---------------------------------------------------------------- ops */
/* op numbering: 0 CREATE; 1..5 CREATE_R(r); 6+8*slot+{0..4 SET_RANK(r),
 * 5 JOIN, 6 REVIVE, 7 FREE} */
#define NOPS (6 + 8 * NSLOT)
enum { K_CREATE, K_CREATE_R, K_SETRANK, K_JOIN, K_REVIVE, K_FREE };

static void op_decode(int op, int *kind, int *slot, int *r)
{
    *slot = -1;
    *r = -1;
    if (op == 0) {
        *kind = K_CREATE;
    } else if (op < 6) {
        *kind = K_CREATE_R;
        *r = op - 1;
    } else {
        int o = op - 6;
        *slot = o / 8;
        o %= 8;
        if (o < 5) {
            *kind = K_SETRANK;
            *r = o;
        } else {
            *kind = K_JOIN + (o - 5);
        }
    }
}

static int rank_used(const model_t *m, int r, int except_slot)
{
    if (r == 0)
        return 1; /* the primary stream */
    for (int i = 0; i < NSLOT; i++)
        if (i != except_slot && m->st[i] != S_ABSENT && m->rank[i] == r)
            return 1;
    return 0;
}
static int free_slot(const model_t *m)
{
    for (int i = 0; i < C->nslot; i++)
        if (m->st[i] == S_ABSENT)
            return i;
    return -1;
}
static int smallest_unused(const model_t *m)
{
    int r = 0;
    while (rank_used(m, r, -1))
        r++;
    return r;
}

static int op_enabled(const model_t *m, int op)
{
    int kind, slot, r;
    op_decode(op, &kind, &slot, &r);
    switch (kind) {
        case K_CREATE:
            return (C->flags & F_CREATE) && free_slot(m) >= 0;
        case K_CREATE_R:
            if (!(C->flags & F_CREATE_R) || r >= C->nrank)
                return 0;
            return free_slot(m) >= 0 || rank_used(m, r, -1);
        case K_SETRANK:
            return (C->flags & F_SETRANK) && slot < C->nslot &&
                   r < C->nrank && m->st[slot] != S_ABSENT;
        case K_JOIN:
            if (!(C->flags & F_JOIN) || slot >= C->nslot)
                return 0;
            return m->st[slot] == S_RUN ||
                   (m->st[slot] == S_JOINED && (C->flags & F_REJOIN));
        case K_REVIVE:
            if (!(C->flags & F_REVIVE) || slot >= C->nslot)
                return 0;
            return m->st[slot] == S_JOINED ||
                   (m->st[slot] == S_RUN && (C->flags & F_REVIVE_RUNNING));
        default:
            return (C->flags & F_FREE) && slot < C->nslot &&
                   m->st[slot] != S_ABSENT;
    }
}

/* reference model: applies op, returns the expected return code; *pslot is
 * the slot the operation acts on / fills */
static int model_apply(model_t *m, int op, int *pslot)
{
    int kind, slot, r;
    op_decode(op, &kind, &slot, &r);
    switch (kind) {
        case K_CREATE:
            slot = free_slot(m);
            m->rank[slot] = (int8_t)smallest_unused(m);
            m->st[slot] = S_RUN;
            *pslot = slot;
            return ABT_SUCCESS;
        case K_CREATE_R:
            *pslot = free_slot(m);
            if (rank_used(m, r, -1))
                return ABT_ERR_INV_XSTREAM_RANK;
            slot = *pslot;
            m->rank[slot] = (int8_t)r;
            m->st[slot] = S_RUN;
            return ABT_SUCCESS;
        case K_SETRANK:
            *pslot = slot;
            if (rank_used(m, r, slot))
                return ABT_ERR_INV_XSTREAM_RANK;
            m->rank[slot] = (int8_t)r;
            return ABT_SUCCESS;
        case K_JOIN:
            *pslot = slot;
            m->st[slot] = S_JOINED;
            return ABT_SUCCESS;
        case K_REVIVE:
            *pslot = slot;
            if (m->st[slot] == S_RUN)
                return ABT_ERR_INV_XSTREAM;
            m->st[slot] = S_RUN;
            return ABT_SUCCESS;
        default:
            *pslot = slot;
            m->st[slot] = S_ABSENT;
            m->rank[slot] = 0;
            return ABT_SUCCESS;
    }
}

/* ------------------------------------------------- BFS over the model */
#define NCODE (11 * 11 * 11)
static int model_code(const model_t *m)
{
    int c = 0;
    for (int i = NSLOT - 1; i >= 0; i--) {
        int v = (m->st[i] == S_ABSENT)
                    ? 0
                    : 1 + m->rank[i] * 2 + (m->st[i] == S_JOINED);
        c = c * 11 + v;
    }
    return c;
}
static short bfs_parent[NCODE], bfs_op[NCODE], bfs_depth[NCODE];

static void model_bfs(void)
{
    static model_t queue[NCODE];
    int qh = 0, qt = 0;
    for (int i = 0; i < NCODE; i++)
        bfs_depth[i] = -1;
    model_t m0;
    memset(&m0, 0, sizeof(m0));
    bfs_depth[model_code(&m0)] = 0;
    bfs_parent[model_code(&m0)] = -1;
    queue[qt++] = m0;
    while (qh < qt) {
        model_t m = queue[qh++];
        int c = model_code(&m);
        for (int op = 0; op < NOPS; op++) {
            if (!op_enabled(&m, op))
                continue;
            model_t n = m;
            int s;
            model_apply(&n, op, &s);
            int nc = model_code(&n);
            if (bfs_depth[nc] < 0) {
                bfs_depth[nc] = (short)(bfs_depth[c] + 1);
                bfs_parent[nc] = (short)c;
                bfs_op[nc] = (short)op;
                queue[qt++] = n;
            }
        }
    }
}

/* ------------------------------------------------------ real execution */
static model_t M;
static ABT_xstream xs[NSLOT];
static ABT_xstream primary;
static int nfail, nops_done;

typedef struct {
    int rank, ran, ret1, ret2;
    ABT_xstream self;
} probe_t;

static void probe_fn(void *arg)
{
    probe_t *p = (probe_t *)arg;
    p->ret1 = ABT_xstream_self_rank(&p->rank);
    p->ret2 = ABT_xstream_self(&p->self);
    p->ran++;
}

/* a unit pushed to the stream's main pool completes, exactly once, and sees
 * the stream's rank */
static void probe_stream(int i, const char *when)
{
    probe_t pr;
    memset(&pr, 0, sizeof(pr));
    pr.rank = -99;
    ABT_pool pool = h_main_pool(xs[i]);
    ABT_task t;
    OK(ABT_task_create(pool, probe_fn, &pr, &t));
    OK(ABT_task_free(&t));
    abtmc_check(pr.ran == 1, "unit_not_run",
                "%s: unit pushed to stream slot %d ran %d times", when, i,
                pr.ran);
    abtmc_check(pr.ret1 == ABT_SUCCESS && pr.rank == M.rank[i], "self_rank",
                "%s: ABT_xstream_self_rank on slot %d -> ret %d rank %d, "
                "model rank %d",
                when, i, pr.ret1, pr.rank, M.rank[i]);
    abtmc_check(pr.ret2 == ABT_SUCCESS && pr.self == xs[i], "self_xstream",
                "%s: ABT_xstream_self on slot %d returned another stream",
                when, i);
}

static void cheap_probes(const char *when)
{
    int live = 0, n = -1, seen[64];
    memset(seen, 0, sizeof(seen));
    seen[0] = 1;
    for (int i = 0; i < NSLOT; i++) {
        if (M.st[i] == S_ABSENT)
            continue;
        live++;
        int r = -1;
        OK(ABT_xstream_get_rank(xs[i], &r));
        abtmc_check(r == M.rank[i], "rank_mismatch",
                    "%s: ABT_xstream_get_rank(slot %d) = %d, model %d", when, i,
                    r, M.rank[i]);
        abtmc_check(r >= 0 && r < 64 && !seen[r], "rank_duplicate",
                    "%s: rank %d held by two live streams", when, r);
        seen[r] = 1;
        ABT_xstream_state st;
        OK(ABT_xstream_get_state(xs[i], &st));
        abtmc_check(st == (M.st[i] == S_RUN ? ABT_XSTREAM_STATE_RUNNING
                                            : ABT_XSTREAM_STATE_TERMINATED),
                    "xstream_state", "%s: state of slot %d is %d, model %s",
                    when, i, (int)st, M.st[i] == S_RUN ? "running" : "joined");
    }
    OK(ABT_xstream_get_num(&n));
    abtmc_check(n == live + 1, "num_xstreams",
                "%s: ABT_xstream_get_num = %d, live streams (with primary) %d",
                when, n, live + 1);
    int r0 = -1;
    OK(ABT_xstream_get_rank(primary, &r0));
    abtmc_check(r0 == 0, "rank_mismatch", "%s: primary rank %d", when, r0);

    /* white box: the global list is sorted by rank, consistently doubly
     * linked, and holds exactly the live streams */
    ABTI_global *g = ABTI_global_get_global();
    ABTI_xstream *p = g->p_xstream_head, *prev = NULL;
    int cnt = 0;
    while (p) {
        abtmc_check(++cnt <= live + 1, "list_invariant",
                    "%s: rank list longer than the live set (cycle?)", when);
        abtmc_check(p->p_prev == prev, "list_invariant",
                    "%s: p_prev of the rank-%d node is inconsistent", when,
                    p->rank);
        abtmc_check(!prev || prev->rank < p->rank, "list_invariant",
                    "%s: rank list not strictly increasing (%d then %d)", when,
                    prev ? prev->rank : -1, p->rank);
        int known = (p == ABTI_xstream_get_ptr(primary));
        for (int i = 0; i < NSLOT; i++)
            if (M.st[i] != S_ABSENT && p == ABTI_xstream_get_ptr(xs[i]))
                known = 1;
        abtmc_check(known, "list_invariant",
                    "%s: rank list holds a stream that is not live (rank %d)",
                    when, p->rank);
        prev = p;
        p = p->p_next;
    }
    abtmc_check(cnt == live + 1, "list_invariant",
                "%s: rank list has %d nodes, %d live streams", when, cnt,
                live + 1);
}

static const char *op_name(int op, char *buf, size_t n)
{
    static const char *kn[] = { "create", "create_with_rank", "set_rank",
                                "join", "revive", "free" };
    int kind, slot, r;
    op_decode(op, &kind, &slot, &r);
    snprintf(buf, n, "%s(slot=%d,r=%d)", kn[kind], slot, r);
    return buf;
}

static void apply_real(int op)
{
    char nm[64];
    op_name(op, nm, sizeof(nm));
    int kind, slot, r, tslot = -1;
    op_decode(op, &kind, &slot, &r);
    model_t before = M;
    int expect = model_apply(&M, op, &tslot);
    int ret;
    abtmc_tracef("op %s expect %d", nm, expect);
    switch (kind) {
        case K_CREATE: {
            ABT_xstream x = ABT_XSTREAM_NULL;
            ret = ABT_xstream_create(ABT_SCHED_NULL, &x);
            abtmc_check(ret == ABT_SUCCESS, "create_failed",
                        "%s returned %d", nm, ret);
            xs[tslot] = x;
            int got = -1;
            OK(ABT_xstream_get_rank(x, &got));
            abtmc_check(got == M.rank[tslot], "auto_rank",
                        "%s: automatic rank %d, smallest unused rank is %d",
                        nm, got, M.rank[tslot]);
            break;
        }
        case K_CREATE_R: {
            ABT_xstream x = ABT_XSTREAM_NULL;
            long live0 = abtmc_ledger_live();
            ret = ABT_xstream_create_with_rank(ABT_SCHED_NULL, r, &x);
            abtmc_check(ret == expect, "create_rank_code",
                        "%s returned %d, expected %d (rank %s)", nm, ret,
                        expect, expect == ABT_SUCCESS ? "free" : "in use");
            if (expect == ABT_SUCCESS) {
                xs[tslot] = x;
            } else {
                abtmc_check(x == ABT_XSTREAM_NULL, "create_rank_code",
                            "%s failed but returned a handle", nm);
                abtmc_check(abtmc_ledger_live() == live0, "leak_on_error",
                            "%s failed and left %ld resources behind", nm,
                            abtmc_ledger_live() - live0);
            }
            break;
        }
        case K_SETRANK:
            ret = ABT_xstream_set_rank(xs[slot], r);
            abtmc_check(ret == expect, "set_rank_code",
                        "%s returned %d, expected %d (old rank %d, rank %s)",
                        nm, ret, expect, before.rank[slot],
                        expect == ABT_SUCCESS ? "free or own" : "in use");
            break;
        case K_JOIN:
            ret = ABT_xstream_join(xs[slot]);
            abtmc_check(ret == expect, "join_code", "%s returned %d", nm, ret);
            break;
        case K_REVIVE:
            if (before.st[slot] == S_JOINED)
                c17_unpoison_main_sched_stack(xs[slot]); /* ASan only */
            ret = ABT_xstream_revive(xs[slot]);
            abtmc_check(ret == expect, "revive_code",
                        "%s returned %d, expected %d (stream %s)", nm, ret,
                        expect,
                        before.st[slot] == S_RUN ? "running" : "joined");
            break;
        default:
            ret = ABT_xstream_free(&xs[slot]);
            abtmc_check(ret == expect, "free_code", "%s returned %d", nm, ret);
            abtmc_check(xs[slot] == ABT_XSTREAM_NULL, "free_code",
                        "%s did not reset the handle", nm);
            break;
    }
    if (expect != ABT_SUCCESS)
        nfail++;
    nops_done++;
    cheap_probes(nm);
    /* the stream is usable and reports its rank */
    if (expect == ABT_SUCCESS && tslot >= 0 && M.st[tslot] == S_RUN) {
        int need = (kind == K_REVIVE);
        if (C->probe_units && (kind == K_CREATE || kind == K_CREATE_R ||
                               (kind == K_SETRANK &&
                                before.rank[tslot] != M.rank[tslot])))
            need = 1;
        if (need)
            probe_stream(tslot, nm);
    }
}

/* state-independent argument checks, done once per history at its end */
static void fixed_checks(void)
{
    int ret, r = smallest_unused(&M);
    ret = ABT_xstream_set_rank(primary, r);
    abtmc_check(ret == ABT_ERR_INV_XSTREAM, "primary_rank",
                "ABT_xstream_set_rank(primary, %d) returned %d", r, ret);
    ret = ABT_xstream_join(primary);
    abtmc_check(ret == ABT_ERR_INV_XSTREAM, "primary_join",
                "ABT_xstream_join(primary) returned %d", ret);
    ABT_xstream x = ABT_XSTREAM_NULL;
    ret = ABT_xstream_create_with_rank(ABT_SCHED_NULL, -1, &x);
    abtmc_check(ret == ABT_ERR_INV_XSTREAM_RANK && x == ABT_XSTREAM_NULL,
                "negative_rank", "create_with_rank(-1) returned %d", ret);
    for (int i = 0; i < NSLOT; i++)
        if (M.st[i] != S_ABSENT) {
            ret = ABT_xstream_set_rank(xs[i], -1);
            abtmc_check(ret == ABT_ERR_INV_XSTREAM_RANK, "negative_rank",
                        "set_rank(slot %d, -1) returned %d", i, ret);
            break;
        }
    cheap_probes("fixed checks");
}

static int choose_big(int m)
{
    if (m <= 10)
        return abtmc_choose(m, ABTMC_B_FREE);
    int groups = (m + 9) / 10;
    int hi = abtmc_choose(groups, ABTMC_B_FREE);
    int rest = m - hi * 10;
    int lo = abtmc_choose(rest < 10 ? rest : 10, ABTMC_B_FREE);
    return hi * 10 + lo;
}

static void scenario(int cfg)
{
    C = &cfgs[cfg];
    model_bfs();
    h_init();
    primary = h_self_xstream();
    memset(&M, 0, sizeof(M));
    for (int i = 0; i < NSLOT; i++)
        xs[i] = ABT_XSTREAM_NULL;
    cheap_probes("init");

    int canon[MAXD + 2];
    int code[MAXD + 2];
    canon[0] = 1;
    code[0] = model_code(&M);
    int d = 0;
    while (d < C->D) {
        /* extend iff the prefix of length d+1-L is canonical */
        int k = d + 1 - C->L;
        if (k > 0 && !canon[k])
            break;
        int en[NOPS], m = 0;
        for (int op = 0; op < NOPS; op++)
            if (op_enabled(&M, op))
                en[m++] = op;
        if (m == 0)
            break;
        abtmc_window_begin();
        int pick = choose_big(m);
        abtmc_window_end();
        apply_real(en[pick]);
        d++;
        code[d] = model_code(&M);
        canon[d] = canon[d - 1] && code[d] != code[d - 1] &&
                   bfs_parent[code[d]] == code[d - 1] &&
                   bfs_op[code[d]] == en[pick];
    }

    /* end of the history: every running stream still executes work, every
     * live stream can be freed, the count returns to 1, nothing leaks */
    fixed_checks();
    int live = 0, joined = 0;
    for (int i = 0; i < NSLOT; i++) {
        if (M.st[i] == S_RUN)
            probe_stream(i, "end");
        if (M.st[i] != S_ABSENT)
            live++;
        if (M.st[i] == S_JOINED)
            joined++;
    }
    abtmc_observe("len=%d live=%d joined=%d failed_ops=%d", d, live, joined,
                  nfail);
    for (int i = NSLOT - 1; i >= 0; i--) {
        if (M.st[i] == S_ABSENT)
            continue;
        OK(ABT_xstream_free(&xs[i]));
        M.st[i] = S_ABSENT;
        cheap_probes("final free");
    }
    h_finalize();
    abtmc_check(abtmc_ledger_live() == 0, "leak",
                "%ld resources still allocated after ABT_finalize",
                abtmc_ledger_live());
    abtmc_stat("ops", nops_done);
}

static const char *cfg_name(int i) { return cfgs[i].name; }
static int cfg_quick(int i) { return cfgs[i].quick; }

int main(int argc, char **argv)
{
    static abtmc_driver d = { "c17_rank_seq", "C17", ARRAY_LEN(cfgs), cfg_name,
                              scenario, cfg_quick };
    return abtmc_main(argc, argv, &d);
}
