/* c15_mempool_conc.c -- C15b: two or three controlled threads, one local
 * memory pool each on a shared global pool (real ABTI_mem_pool_* code, tiny
 * parameters), running alloc/free bursts that make take_bucket /
 * return_bucket / page carving / the partial-bucket merge run concurrently,
 * including the ABA schedule on the tagged-pointer LIFO (a pop is preempted
 * between reading top/next and its CAS while the other thread pops two
 * buckets and pushes the first one back).  Oracle: c15_pool.h (per block at
 * the moment it is handed out, whole-pool walk at quiescence, ledger).
 *
 * script letters: a = alloc from the own pool; digit k = free the k-th oldest
 * block this actor holds (gifts -- blocks allocated from the other actor's
 * pool during set-up -- are the oldest); n = free the newest; D = destroy the
 * own pool; I = (re)initialise it. */
#include "c15_pool.h"

typedef struct {
    const char *name;
    int quick;
    px_params P;   /* nlocal = number of actors */
    int prefill;   /* blocks cycled through a temporary pool during set-up so
                      that the global LIFO / partial bucket are populated */
    int gifts;     /* blocks per actor allocated from the next actor's pool */
    const char *script[3];
} cfg_t;

/* { nper, header_size, header_offset, per_page, page_slack, nlocal } */
static const cfg_t cfgs[] = {
    /* 0: the LIFO holds the single-header buckets A,B,C.  Actor 0's first
     * alloc pops (reads top=A, next=B).  Actor 1 pops A, B and C, then frees
     * A first so that its pool hands C and then A back: top is A again but B
     * now sits in actor 1's pool.  Only the tag keeps actor 0's CAS from
     * installing B as the top. */
    { "aba n1: aa | aaa100", 1, { 1, 64, 0, 4, 0, 2 }, 2, 0,
      { "aa", "aaa100" } },
    /* 1: both take from an empty LIFO: concurrent page carving, page LIFO
     * and empty-page list */
    { "carve n2 page3: aaaa0 | aaaan", 1, { 2, 64, 0, 3, 0, 2 }, 0, 0,
      { "aaaa0", "aaaan" } },
    /* 2: both return buckets (gifts) and take them again */
    { "return/take n1: 000aa | 00a0a", 1, { 1, 64, 0, 4, 0, 2 }, 0, 3,
      { "000aa", "00a0a" } },
    /* 3: concurrent destroy (partial-bucket merge under its lock) and
     * re-initialisation against each other */
    { "partial n3: aDIa | aaDIa", 1, { 3, 64, 0, 4, 8, 2 }, 4, 0,
      { "aDIa", "aaDIa" } },
    /* 4: destroy/init against take/return traffic */
    { "partial n2 vs traffic: aDIaa | 00aa0", 1, { 2, 64, 0, 5, 0, 2 }, 3, 2,
      { "aDIaa", "00aa0" } },
    /* 5: same ABA pattern with two-header buckets A=(a1,a2),B,C: actor 1
     * rebuilds bucket A with the same head and pushes it back */
    { "aba n2: aaa | aaaaaa32000", 1, { 2, 64, 0, 5, 0, 2 }, 6, 0,
      { "aaa", "aaaaaa32000" } },
    /* thorough only */
    { "3 actors n1: aa | aaa100 | 00a", 0, { 1, 64, 0, 4, 0, 3 }, 2, 2,
      { "aa", "aaa100", "00a" } },
    { "3 actors n2 stack-like destroy: aD | aaD | aaa", 0,
      { 2, 192, 128, 3, 0, 3 }, 3, 0, { "aDIa", "aaD", "aaa0" } },
    { "carve n3 page2 + init: Iaa | Iaan", 0, { 3, 64, 0, 2, 40, 2 }, 0, 0,
      { "Iaa0", "Iaan" } },
    { "aba n1 both sides: aaa10 | aaa100", 0, { 1, 64, 0, 4, 0, 2 }, 3, 0,
      { "aaa10", "aaa100" } },
    /* both pools are destroyed while holding 2 of 3 headers: the second
     * merge completes a bucket and leaves a remainder in the partial bucket */
    { "partial remainder n3: aDIaD | aDIa", 0, { 3, 64, 0, 4, 8, 2 }, 0, 0,
      { "aDIaD", "aDIa" } },
};

static px_t X;
static const cfg_t *C;
static char order[64];
static int norder;

/* index in the live table of the nth-oldest block held by `actor`
 * (nth < 0: the newest) */
static int pick(int actor, int nth)
{
    int found = -1, c = 0;
    for (int k = 0; k < X.nlive; k++)
        if (X.live[k].holder == actor) {
            if (nth < 0)
                found = k;
            else if (c++ == nth)
                return k;
        }
    return found;
}

static void actor_body(void *arg)
{
    int i = (int)(intptr_t)arg;
    for (const char *s = C->script[i]; *s; s++) {
        switch (*s) {
            case 'a': {
                int r = px_alloc(&X, i, NULL);
                abtmc_check(r == ABT_SUCCESS, "pool_alloc_failed",
                            "actor %d: alloc returned %d", i, r);
                if (norder < (int)sizeof(order) - 1)
                    order[norder++] = (char)('0' + i);
                break;
            }
            case 'n':
            default: {
                int k;
                if (*s == 'n') {
                    k = pick(i, -1);
                } else {
                    abtmc_check(*s >= '0' && *s <= '9', "harness_error",
                                "bad script");
                    k = pick(i, *s - '0');
                }
                abtmc_check(k >= 0, "harness_error",
                            "actor %d has nothing to free", i);
                px_free(&X, i, k);
                break;
            }
            case 'D':
                px_local_destroy(&X, i);
                break;
            case 'I': {
                int r = px_local_init(&X, i);
                abtmc_check(r == ABT_SUCCESS, "pool_alloc_failed",
                            "actor %d: init_local_pool returned %d", i, r);
                break;
            }
        }
    }
}

static void scenario(int cfg)
{
    C = &cfgs[cfg];
    int n = C->P.nlocal;
    px_params P = C->P;
    P.nlocal = 3; /* slot 2 doubles as the temporary set-up pool */
    px_init(&X, &P);
    for (int i = 0; i < n; i++)
        if (C->script[i][0] != 'I')
            abtmc_check(px_local_init(&X, i) == ABT_SUCCESS, "harness_error",
                        "set-up");
    /* gifts: actor i will free blocks that came from actor (i+1)%n's pool */
    for (int i = 0; i < n; i++)
        for (int k = 0; k < C->gifts; k++) {
            int from = (i + 1) % n;
            abtmc_check(px_alloc(&X, from, NULL) == ABT_SUCCESS,
                        "harness_error", "set-up");
            X.live[X.nlive - 1].holder = i;
        }
    if (C->prefill) {
        /* a temporary pool cycles `prefill` blocks into the global pool */
        int t = n < 3 ? 2 : 0;
        ABTI_mem_pool_local_pool tmp;
        void *b[16];
        abtmc_check(ABTI_mem_pool_init_local_pool(&tmp, &X.g) == ABT_SUCCESS,
                    "harness_error", "set-up");
        for (int k = 0; k < C->prefill; k++)
            abtmc_check(ABTI_mem_pool_alloc(&tmp, &b[k]) == ABT_SUCCESS,
                        "harness_error", "set-up");
        for (int k = 0; k < C->prefill; k++)
            ABTI_mem_pool_free(&tmp, b[k]);
        ABTI_mem_pool_destroy_local_pool(&tmp);
        (void)t;
    }
    px_check_structure(&X, "after set-up");

    abtmc_window_begin();
    int tid[3] = { -1, -1, -1 };
    for (int i = 1; i < n; i++)
        tid[i] = abtmc_thread_create(actor_body, (void *)(intptr_t)i);
    actor_body((void *)(intptr_t)0);
    for (int i = 1; i < n; i++)
        abtmc_thread_join(tid[i]);
    abtmc_window_end();

    px_check_structure(&X, "after the concurrent phase");
    int np = 0;
    px_carved(&X, &np);
    int lifo = 0;
    for (ABTI_sync_lifo_element *e =
             (ABTI_sync_lifo_element *)X.g.bucket_lifo.p_top.ptr;
         e && lifo < PX_MAXHDR; e = e->p_next)
        lifo++;
    order[norder] = 0;
    abtmc_observe("allocs=%s pages=%d lifo=%d part=%ld", order, np, lifo,
                  X.g.partial_bucket
                      ? (long)X.g.partial_bucket->bucket_info.num_headers
                      : 0L);
    /* everything goes back through pool 0 (or a fresh pool), then tear down */
    if (!X.l_alive[0])
        abtmc_check(px_local_init(&X, 0) == ABT_SUCCESS, "harness_error",
                    "tear-down");
    while (X.nlive > 0)
        px_free(&X, 0, X.nlive - 1);
    px_check_structure(&X, "after returning every block");
    px_teardown(&X);
}

static const char *cfg_name(int i) { return cfgs[i].name; }
static int cfg_quick(int i) { return cfgs[i].quick; }

int main(int argc, char **argv)
{
    static abtmc_driver d = { "c15_mempool_conc", "C15", ARRAY_LEN(cfgs),
                              cfg_name, scenario, cfg_quick };
    return abtmc_main(argc, argv, &d);
}
