/* c01_many.c -- C01 for the batch interfaces: every ULT created by
 * ABT_thread_create_many runs exactly once, through the i-th function with the
 * i-th argument, on a stream that serves the i-th pool, and has completed when
 * ABT_thread_join_many / ABT_thread_free_many (named units), ABT_xstream_join
 * of the only stream serving its pool, or ABT_finalize returns.
 *
 * Documented contract used (doxygen of ABT_thread_create_many, src/thread.c):
 * the i-th ULT is pushed to pool_list[i] and calls thread_func_list[i] with
 * arg_list[i]; all ULTs share the attribute attr (ABT_THREAD_ATTR_NULL =
 * default; no user-provided stack); newthread_list == NULL creates unnamed
 * ULTs that are released on completion, otherwise the handles are returned and
 * must be freed.  ABT_thread_join_many waits for all listed units,
 * ABT_thread_free_many waits for them, frees them and sets every handle to
 * ABT_THREAD_NULL.  (arg_list == NULL is not mentioned by the text; the code
 * passes NULL to every function and the repository's own benchmark
 * test/benchmark/thread_many_ops.c calls it so: one thorough config does too.)
 *
 * Creator: the primary ULT, a ULT running on ES1, an external thread X, or
 * the primary ULT and X at the same time (two batches into the same pool).
 * Pools: Q1 served only by ES1 (MPSC / FIFO_WAIT), Q1 private to ES1 (PRIV,
 * creator on ES1), Q1 shared by the schedulers of ES0 and ES1 (MPMC), ES0's
 * own pool, or alternating ES0's pool / Q1 (a real pool *list*). */
#include "common.h"

enum { CR_PRIMARY, CR_ULT1, CR_EXT, CR_TWO };
enum { L_ES1, L_SPLIT, L_SHARED, L_PRIV, L_ES0 };
enum { F_DISTINCT, F_SAME };
enum { A_DISTINCT, A_NULL };
enum { END_JOIN_FREE, END_FREE, END_NONE /* unnamed */ };
enum { J_PRIMARY, J_CREATOR };

typedef struct {
    const char *name;
    int quick;
    int creator, layout, n, named, funcs, args, attr, yield0, end, joiner;
    int wait;   /* FIFO_WAIT pool + BASIC_WAIT scheduler on ES1 */
    int pyield; /* the primary ULT yields once while the creators work */
} cfg_t;

static const cfg_t cfgs[] = {
    /* ---- quick ---------------------------------------------------------- */
    { "primary: 3 named -> Q1@ES1 (MPSC), distinct fn/arg, unit0 yields; "
      "join_many + free_many", 1, CR_PRIMARY, L_ES1, 3, 1, F_DISTINCT,
      A_DISTINCT, 0, 1, END_JOIN_FREE, J_PRIMARY, 0, 0 },
    { "primary: 3 unnamed -> [P0,Q1,P0] (pool list), same fn, distinct args; "
      "stream join + finalize", 1, CR_PRIMARY, L_SPLIT, 3, 0, F_SAME, A_DISTINCT,
      0, 1, END_NONE, J_PRIMARY, 0, 1 },
    { "X: 2 named -> Q1@ES1, unit0 yields; X join_many + free_many", 1, CR_EXT,
      L_ES1, 2, 1, F_DISTINCT, A_DISTINCT, 0, 1, END_JOIN_FREE, J_CREATOR, 0, 0 },
    { "X: 2 named -> Q1 shared by ES0+ES1 (MPMC), unit0 yields; primary "
      "join_many + free_many", 1, CR_EXT, L_SHARED, 2, 1, F_DISTINCT, A_DISTINCT,
      0, 1, END_JOIN_FREE, J_PRIMARY, 0, 1 },
    { "primary and X: 2+2 unnamed -> Q1@ES1 at the same time; stream join", 1,
      CR_TWO, L_ES1, 2, 0, F_SAME, A_DISTINCT, 0, 0, END_NONE, J_PRIMARY, 0, 0 },
    { "ULT on ES1: 2 named with attr(stacksize) -> ES0's pool; primary "
      "join_many + free_many", 1, CR_ULT1, L_ES0, 2, 1, F_DISTINCT, A_DISTINCT,
      1, 0, END_JOIN_FREE, J_PRIMARY, 0, 0 },
    /* ---- thorough only --------------------------------------------------- */
    { "X: 3 unnamed -> Q1@ES1, distinct fns, arg_list NULL; stream join", 0,
      CR_EXT, L_ES1, 3, 0, F_DISTINCT, A_NULL, 0, 1, END_NONE, J_PRIMARY, 0, 0 },
    { "primary: 3 named -> Q1 shared by ES0+ES1, unit0 yields; free_many", 0,
      CR_PRIMARY, L_SHARED, 3, 1, F_DISTINCT, A_DISTINCT, 0, 1, END_FREE,
      J_PRIMARY, 0, 0 },
    { "primary and X: 2+2 named -> Q1 shared by ES0+ES1; each join_many + "
      "free_many its batch", 0, CR_TWO, L_SHARED, 2, 1, F_SAME, A_DISTINCT, 0, 0,
      END_JOIN_FREE, J_CREATOR, 0, 0 },
    { "X: 2 unnamed -> ES0's pool while the primary yields; finalize", 0, CR_EXT,
      L_ES0, 2, 0, F_DISTINCT, A_DISTINCT, 0, 1, END_NONE, J_PRIMARY, 0, 1 },
    { "ULT on ES1: 3 named -> [P0,Q1,P0], unit0 yields; the creator join_many + "
      "free_many", 0, CR_ULT1, L_SPLIT, 3, 1, F_DISTINCT, A_DISTINCT, 0, 1,
      END_JOIN_FREE, J_CREATOR, 0, 0 },
    { "primary: 3 unnamed with attr -> Q1@ES1 FIFO_WAIT/BASIC_WAIT; stream join",
      0, CR_PRIMARY, L_ES1, 3, 0, F_SAME, A_DISTINCT, 1, 1, END_NONE, J_PRIMARY,
      1, 0 },
    { "primary and X: 2+2 named -> Q1@ES1 at the same time; each join_many + "
      "free_many its batch", 0, CR_TWO, L_ES1, 2, 1, F_SAME, A_DISTINCT, 0, 0,
      END_JOIN_FREE, J_CREATOR, 0, 0 },
    { "ULT on ES1: 2 named -> private Q1 (PRIV); the creator free_many's "
      "(sequential: one stream)", 0, CR_ULT1, L_PRIV, 2, 1, F_DISTINCT,
      A_DISTINCT, 0, 1, END_FREE, J_CREATOR, 0, 0 },
};

#define MAXU 6
#define CREATOR_ID MAXU
#define ARG(id) ((void *)(uintptr_t)(0xC01A00u + 16u * (unsigned)(id)))
#define CARG ARG(MAXU)
#define STACKSZ 32768

static const cfg_t *C;
static ABT_pool P0, M1 = ABT_POOL_NULL, Q1;
static ABT_thread H[MAXU];
static int starts[MAXU + 1], done[MAXU + 1], expected[MAXU + 1];
static char ran_on[MAXU + 1], order[4 * MAXU];
static int norder;
static int nunits; /* all batches */
static ABT_thread_attr attr = ABT_THREAD_ATTR_NULL;
static int in_xjoin, late;
static int pre; /* units already started when their create_many call returned */

static ABT_pool unit_pool(int id)
{
    int i = id % C->n; /* index inside its batch */
    switch (C->layout) {
        case L_ES0:
            return P0;
        case L_SPLIT:
            return (i % 2) ? Q1 : P0;
        default:
            return Q1;
    }
}

static void note(char c)
{
    /* (one controlled thread runs at a time: a plain update is exact) */
    if (norder < (int)sizeof(order) - 1)
        order[norder++] = c;
}

/* entered: the function slot the unit was entered through (-1: the one
 * function shared by all units) */
static void body(int entered, void *arg)
{
    int id;
    if (C->args == A_NULL) {
        abtmc_check(arg == NULL, "wrong_argument",
                    "arg_list was NULL but the function of slot %d received %p",
                    entered, arg);
        id = entered;
    } else {
        uintptr_t a = (uintptr_t)arg;
        abtmc_check(a >= (uintptr_t)ARG(0) && a <= (uintptr_t)ARG(MAXU - 1) &&
                        (a - (uintptr_t)ARG(0)) % 16 == 0,
                    "wrong_argument", "a unit received the argument %p that "
                    "is in no arg_list", arg);
        id = (int)((a - (uintptr_t)ARG(0)) / 16);
        abtmc_check(entered < 0 || entered == id, "wrong_argument",
                    "the unit entered through function %d received the "
                    "argument of unit %d", entered, id);
    }
    abtmc_check(id < nunits && expected[id], "phantom_unit",
                "unit %d ran but was never created", id);
    int s = ++starts[id];
    abtmc_check(s == 1, "started_twice", "unit %d was started %d times", id, s);
    int rank = -1;
    OK(ABT_xstream_self_rank(&rank));
    ran_on[id] = (char)('0' + rank);
    ABT_pool p = unit_pool(id);
    int want = (p == P0) ? 0 : (C->layout == L_SHARED ? -1 : 1);
    abtmc_check(want < 0 || rank == want, "wrong_stream",
                "unit %d (slot %d of its pool_list) ran on stream %d, but only "
                "stream %d serves that pool", id, id % C->n, rank, want);
    note((char)('0' + id));
    if (in_xjoin)
        late++;
    abtmc_progress();
    if (C->yield0 && id % C->n == 0) {
        OK(ABT_thread_yield());
        note('y');
    }
    abtmc_progress();
    int d = ++done[id];
    abtmc_check(d == 1, "completed_twice", "unit %d completed %d times", id, d);
}

#define FN(n) static void fn##n(void *arg) { body(n, arg); }
FN(0) FN(1) FN(2) FN(3) FN(4) FN(5)
static void fn_same(void *arg) { body(-1, arg); }
static void (*const fns[MAXU])(void *) = { fn0, fn1, fn2, fn3, fn4, fn5 };

static void check_done(int id, const char *at)
{
    int s = starts[id], d = done[id];
    abtmc_check(s == 1 && d == 1, "lost_unit",
                "%s returned but unit %d has starts=%d completions=%d "
                "(expected 1/1)", at, id, s, d);
}

/* one ABT_thread_create_many call for the batch [base, base+n) */
static void create_batch(int base)
{
    ABT_pool pools[3];
    void (*fl[3])(void *);
    void *al[3];
    for (int i = 0; i < C->n; i++) {
        int id = base + i;
        pools[i] = unit_pool(id);
        fl[i] = C->funcs == F_SAME ? fn_same : fns[id];
        al[i] = ARG(id);
        expected[id] = 1;
    }
    OK(ABT_thread_create_many(C->n, pools, fl, C->args == A_NULL ? NULL : al,
                              attr, C->named ? &H[base] : NULL));
    for (int i = 0; i < C->n; i++)
        pre += starts[base + i];
    if (!C->named)
        return;
    for (int i = 0; i < C->n; i++) {
        abtmc_check(H[base + i] != ABT_THREAD_NULL, "handle_null",
                    "ABT_thread_create_many returned no handle for unit %d",
                    base + i);
        for (int j = 0; j < i; j++)
            abtmc_check(H[base + i] != H[base + j], "handle_duplicate",
                        "units %d and %d got the same handle", base + j,
                        base + i);
        if (C->attr) {
            size_t ss = 0;
            OK(ABT_thread_get_stacksize(H[base + i], &ss));
            abtmc_check(ss == STACKSZ, "attr_not_applied",
                        "unit %d has stack size %zu, the common attribute says "
                        "%d", base + i, ss, STACKSZ);
        }
    }
}

/* join_many / free_many of [base, base+cnt) */
static void finish_batch(int base, int cnt)
{
    if (!C->named)
        return;
    if (C->end == END_JOIN_FREE) {
        OK(ABT_thread_join_many(cnt, &H[base]));
        for (int i = 0; i < cnt; i++) {
            check_done(base + i, "ABT_thread_join_many");
            ABT_thread_state st;
            OK(ABT_thread_get_state(H[base + i], &st));
            abtmc_check(st == ABT_THREAD_STATE_TERMINATED, "join_many_state",
                        "ABT_thread_join_many returned but unit %d is in state "
                        "%d", base + i, (int)st);
        }
    }
    OK(ABT_thread_free_many(cnt, &H[base]));
    for (int i = 0; i < cnt; i++) {
        check_done(base + i, "ABT_thread_free_many");
        abtmc_check(H[base + i] == ABT_THREAD_NULL, "free_many_handle",
                    "ABT_thread_free_many left handle %d set", base + i);
    }
}

static void creator_ult(void *arg)
{
    abtmc_check(arg == CARG, "wrong_argument",
                "creator ULT received %p", arg);
    starts[CREATOR_ID]++;
    create_batch(0);
    if (C->joiner == J_CREATOR)
        finish_batch(0, C->n);
    done[CREATOR_ID]++;
}

static void creator_ext(void *arg)
{
    int base = (int)(intptr_t)arg;
    create_batch(base);
    if (C->joiner == J_CREATOR)
        finish_batch(base, C->n);
}

static void pool_empty(ABT_pool p, const char *which, const char *at)
{
    size_t tot = 99;
    ABT_bool emp = ABT_FALSE;
    OK(ABT_pool_get_total_size(p, &tot));
    OK(ABT_pool_is_empty(p, &emp));
    abtmc_check(tot == 0 && emp == ABT_TRUE, "pool_not_empty",
                "%s: pool %s reports total_size=%zu is_empty=%d although every "
                "unit pushed to it completed", at, which, tot, (int)emp);
}

static void scenario(int cfg)
{
    C = &cfgs[cfg];
    for (int i = 0; i < MAXU; i++)
        H[i] = ABT_THREAD_NULL;
    nunits = C->creator == CR_TWO ? 2 * C->n : C->n;
    h_init();
    ABT_xstream es0 = h_self_xstream(), es1;
    ABT_pool_access acc = C->layout == L_PRIV   ? ABT_POOL_ACCESS_PRIV
                          : C->layout == L_ES1 ? ABT_POOL_ACCESS_MPSC
                                               : ABT_POOL_ACCESS_MPMC;
    OK(ABT_pool_create_basic(C->wait ? ABT_POOL_FIFO_WAIT : ABT_POOL_FIFO, acc,
                             ABT_TRUE, &Q1));
    ABT_pool pl[2];
    int np = 0;
    if (C->creator == CR_ULT1) {
        OK(ABT_pool_create_basic(ABT_POOL_FIFO, ABT_POOL_ACCESS_MPMC, ABT_TRUE,
                                 &M1));
        pl[np++] = M1;
    }
    pl[np++] = Q1;
    ABT_sched s1;
    OK(ABT_sched_create_basic(C->wait ? ABT_SCHED_BASIC_WAIT : ABT_SCHED_BASIC, np,
                              pl, ABT_SCHED_CONFIG_NULL, &s1));
    if (C->layout == L_SHARED) {
        /* ES0's new main scheduler serves [PA, Q1]; the primary ULT moves to
         * PA, which stays ES0's own pool */
        ABT_pool pa, both[2];
        ABT_sched s0;
        OK(ABT_pool_create_basic(ABT_POOL_FIFO, ABT_POOL_ACCESS_MPMC, ABT_TRUE,
                                 &pa));
        both[0] = pa;
        both[1] = Q1;
        OK(ABT_sched_create_basic(ABT_SCHED_BASIC, 2, both, ABT_SCHED_CONFIG_NULL,
                                  &s0));
        OK(ABT_xstream_set_main_sched(es0, s0));
    }
    P0 = h_main_pool(es0);
    OK(ABT_xstream_create(s1, &es1));
    if (C->attr) {
        OK(ABT_thread_attr_create(&attr));
        OK(ABT_thread_attr_set_stacksize(attr, STACKSZ));
    }

    abtmc_window_begin();
    int xt = -1;
    ABT_thread cr = ABT_THREAD_NULL;
    switch (C->creator) {
        case CR_PRIMARY:
            create_batch(0);
            break;
        case CR_ULT1:
            expected[CREATOR_ID] = 1;
            OK(ABT_thread_create(M1, creator_ult, CARG,
                                 ABT_THREAD_ATTR_NULL, &cr));
            break;
        case CR_EXT:
            xt = abtmc_thread_create(creator_ext, (void *)(intptr_t)0);
            break;
        default: /* CR_TWO: X takes the second batch */
            xt = abtmc_thread_create(creator_ext, (void *)(intptr_t)C->n);
            create_batch(0);
            break;
    }
    if (C->pyield)
        OK(ABT_thread_yield());
    /* the primary's own batch */
    if ((C->creator == CR_PRIMARY) ||
        (C->creator == CR_TWO && C->joiner == J_CREATOR))
        finish_batch(0, C->n);
    if (xt >= 0)
        abtmc_thread_join(xt);
    if (cr != ABT_THREAD_NULL) {
        OK(ABT_thread_free(&cr));
        abtmc_check(starts[CREATOR_ID] == 1 && done[CREATOR_ID] == 1, "lost_unit",
                    "the creator ULT did not run to completion (%d/%d)",
                    starts[CREATOR_ID], done[CREATOR_ID]);
    }
    if (C->joiner == J_PRIMARY && C->creator != CR_PRIMARY)
        finish_batch(0, nunits);
    abtmc_progress();
    in_xjoin = 1;
    OK(ABT_xstream_join(es1));
    in_xjoin = 0;
    for (int id = 0; id < nunits; id++)
        if (unit_pool(id) == Q1 && C->layout != L_SHARED)
            check_done(id, "ABT_xstream_join");
    if (C->layout != L_SHARED)
        pool_empty(Q1, "Q1", "after ABT_xstream_join");
    abtmc_window_end();

    OK(ABT_xstream_free(&es1));
    if (C->attr)
        OK(ABT_thread_attr_free(&attr));
    h_finalize();
    for (int id = 0; id <= MAXU; id++)
        abtmc_check(starts[id] == expected[id] && done[id] == expected[id],
                    "lost_unit",
                    "ABT_finalize returned but unit %d has starts=%d "
                    "completions=%d (expected %d)", id, starts[id], done[id],
                    expected[id]);
    abtmc_check(abtmc_ledger_live() == 0, "leak",
                "%ld live allocations after ABT_finalize", abtmc_ledger_live());
    for (int id = 0; id < nunits; id++)
        if (!ran_on[id])
            ran_on[id] = '-';
    ran_on[nunits] = 0;
    order[norder] = 0;
    abtmc_observe("on=%s ord=%s pre=%d late=%d", ran_on, order, pre, late);
}

static const char *cfg_name(int i) { return cfgs[i].name; }
static int cfg_quick(int i) { return cfgs[i].quick; }

int main(int argc, char **argv)
{
    static abtmc_driver d = { "c01_many", "C01", ARRAY_LEN(cfgs), cfg_name,
                              scenario, cfg_quick };
    return abtmc_main(argc, argv, &d);
}
