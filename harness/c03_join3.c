/* c03_join3.c -- C03 with three execution streams: joiner, target and the
 * primary ULT (creator) all on different streams.  Scenario code in
 * c03_join.h. */
#include "c03_join.h"

static const cfg_t cfgs[] = {
    { "U@2 join ULT@1 ret (3 streams)", 0, J_OTHER, 2, T_ULT, 1, B_RET, C_JOIN,
      NOH, O_TJ, 0, -1, 0 },
    { "T@2 join ULT@1 exit_to (3 streams)", 0, J_TASK, 2, T_ULT, 1, B_EXITTO,
      C_JOIN, NOH, O_TJ, 0, -1, 0 },
};

C03_MAIN("c03_join3", cfgs)
