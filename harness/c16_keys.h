/* c16_keys.h -- shared by c16_keys_seq.c and c16_keys_conc.c (C16):
 * destructor log, one distinct destructor function per key index, unique
 * value tokens, and the "exactly once, with that value" comparison. */
#ifndef C16_KEYS_H
#define C16_KEYS_H
#include "common.h"

#define C16_MAXK 32   /* key indices (every created key gets a new index) */
#define C16_MAXLOG 512

typedef struct {
    int key;   /* index of the key whose destructor ran */
    void *val; /* argument it received */
} c16_dcall_t;

/* Destructors may run on any controlled thread (the one that frees the unit);
 * exactly one controlled thread runs at a time and the log is only read at
 * quiescence or by the thread that just did the free. */
static c16_dcall_t c16_dlog[C16_MAXLOG];
static int c16_ndlog;

static void c16_dtor_log(int key, void *v)
{
    abtmc_check(c16_ndlog < C16_MAXLOG, "harness_dlog_overflow",
                "destructor log overflow");
    c16_dlog[c16_ndlog].key = key;
    c16_dlog[c16_ndlog].val = v;
    c16_ndlog++;
}

#define C16_D(i)                                                               \
    static void c16_dtor_##i(void *v) { c16_dtor_log(i, v); }
C16_D(0) C16_D(1) C16_D(2) C16_D(3) C16_D(4) C16_D(5) C16_D(6) C16_D(7)
C16_D(8) C16_D(9) C16_D(10) C16_D(11) C16_D(12) C16_D(13) C16_D(14) C16_D(15)
C16_D(16) C16_D(17) C16_D(18) C16_D(19) C16_D(20) C16_D(21) C16_D(22) C16_D(23)
C16_D(24) C16_D(25) C16_D(26) C16_D(27) C16_D(28) C16_D(29) C16_D(30) C16_D(31)
#define C16_F(i) c16_dtor_##i
static void (*const c16_dtors[C16_MAXK])(void *) = {
    C16_F(0),  C16_F(1),  C16_F(2),  C16_F(3),  C16_F(4),  C16_F(5),  C16_F(6),
    C16_F(7),  C16_F(8),  C16_F(9),  C16_F(10), C16_F(11), C16_F(12), C16_F(13),
    C16_F(14), C16_F(15), C16_F(16), C16_F(17), C16_F(18), C16_F(19), C16_F(20),
    C16_F(21), C16_F(22), C16_F(23), C16_F(24), C16_F(25), C16_F(26), C16_F(27),
    C16_F(28), C16_F(29), C16_F(30), C16_F(31)
};

/* value tokens: never NULL, never repeated, not valid addresses; the token
 * encodes (serial, unit, key) so that a leaked value names its origin */
static int c16_serial;
static void *c16_token(int unit, int key)
{
    c16_serial++;
    return (void *)(uintptr_t)(0x10000000u + ((unsigned)c16_serial << 12) +
                               ((unsigned)unit << 8) + (unsigned)key);
}

/* The destructor calls logged since `from` must be exactly the set
 * { (k, val[k]) : has_dtor[k] && val[k] != NULL }, each once. */
static void c16_expect_dtors(const char *who, int from, int nkeys,
                             const int *has_dtor, void *const *val)
{
    int expected = 0;
    for (int k = 0; k < nkeys; k++) {
        if (!has_dtor[k] || !val[k])
            continue;
        expected++;
        int hits = 0;
        for (int i = from; i < c16_ndlog; i++)
            if (c16_dlog[i].key == k && c16_dlog[i].val == val[k])
                hits++;
        abtmc_check(hits >= 1, "destructor_missed",
                    "%s freed: destructor of key #%d not called with the "
                    "stored value %p",
                    who, k, val[k]);
        abtmc_check(hits == 1, "destructor_twice",
                    "%s freed: destructor of key #%d called %d times with "
                    "value %p",
                    who, k, hits, val[k]);
    }
    for (int i = from; i < c16_ndlog; i++) {
        int k = c16_dlog[i].key;
        abtmc_check(c16_dlog[i].val != NULL, "destructor_null_value",
                    "%s freed: destructor of key #%d called with NULL", who,
                    k);
        abtmc_check(k < nkeys && has_dtor[k] && val[k] == c16_dlog[i].val,
                    "destructor_spurious",
                    "%s freed: destructor of key #%d called with %p but the "
                    "unit stores %p for that key",
                    who, k, c16_dlog[i].val, k < nkeys ? val[k] : NULL);
    }
    abtmc_check(c16_ndlog - from == expected, "destructor_count",
                "%s freed: %d destructor calls, expected %d", who,
                c16_ndlog - from, expected);
}

#endif
