/* c06_privsched.c -- C06: "join returns only after every work unit associated
 * with pools that only that execution stream schedules has terminated,
 * including units that were blocked ..." for a PRIVATE pool that is referenced
 * by more than one scheduler OBJECT of the same stream (a spare scheduler
 * created over the same pools, or the user-owned old main scheduler that was
 * replaced by a new one over the same pools).  A private pool is scheduled by
 * one stream whatever the number of scheduler objects naming it, so its blocked
 * units always count for that stream's termination.
 *
 *   ES1: main scheduler S1 (user-owned, BASIC) over [Q (MPSC), P (PRIV)].
 *   I (ULT pushed to Q) runs on ES1, optionally replaces the main scheduler by
 *   S2 over the same pools, creates W in P; W calls ABT_self_suspend.
 *   The primary ULT calls ABT_xstream_join(ES1) while W is BLOCKED; an external
 *   thread then pushes a tasklet to Q that resumes W from ES1.
 * Oracle: the join returns only after W completed; the resuming tasklet ran. */
#include "common.h"

enum { V_SINGLE, V_SPARE, V_REPLACED };
typedef struct {
    const char *name;
    int quick, variant;
    ABT_sched_predef s2;
} cfg_t;
static const cfg_t cfgs[] = {
    { "spare scheduler object over the same [MPSC, PRIV] pools", 1, V_SPARE,
      ABT_SCHED_BASIC },
    { "main scheduler replaced by a PRIO scheduler over the same pools (old one "
      "user-owned)", 1, V_REPLACED, ABT_SCHED_PRIO },
    { "single scheduler (control)", 0, V_SINGLE, ABT_SCHED_BASIC },
    { "main scheduler replaced by a BASIC_WAIT scheduler over the same pools", 0,
      V_REPLACED, ABT_SCHED_BASIC_WAIT },
};

static const cfg_t *C;
static ABT_pool Q, P;
static ABT_xstream es1;
static ABT_sched S1, S2;
static ABT_thread W;
static int w_created, w_done, k_ran, join_started, replaced; /* hooked flags */

static void w_fn(void *arg)
{
    (void)arg;
    OK(ABT_self_suspend());
    abtmc_store(&w_done, 1);
}

static void i_fn(void *arg)
{
    (void)arg;
    if (C->variant == V_REPLACED) {
        OK(ABT_xstream_set_main_sched(es1, S2));
        abtmc_store(&replaced, 1);
    }
    /* created by a ULT running on ES1: the private pool is touched by its stream
     * only */
    OK(ABT_thread_create(P, w_fn, NULL, ABT_THREAD_ATTR_NULL, &W));
    abtmc_store(&w_created, 1);
}

static void k_fn(void *arg)
{
    (void)arg;
    OK(ABT_thread_resume(W));
    abtmc_store(&k_ran, 1);
}

static void x_fn(void *arg)
{
    (void)arg;
    abtmc_wait_until_eq(&join_started, 1);
    OK(ABT_task_create(Q, k_fn, NULL, NULL));
}

static int w_blocked(void)
{
    ABT_thread_state st;
    if (!abtmc_load(&w_created))
        return 0;
    OK(ABT_thread_get_state(W, &st));
    return st == ABT_THREAD_STATE_BLOCKED;
}

static void scenario(int cfg)
{
    C = &cfgs[cfg];
    h_init();
    ABT_pool pools[2];
    ABT_sched_config sc;
    OK(ABT_pool_create_basic(ABT_POOL_FIFO, ABT_POOL_ACCESS_MPSC, ABT_FALSE, &Q));
    OK(ABT_pool_create_basic(ABT_POOL_FIFO, ABT_POOL_ACCESS_PRIV, ABT_FALSE, &P));
    pools[0] = Q;
    pools[1] = P;
    OK(ABT_sched_config_create(&sc, ABT_sched_config_automatic, 0,
                               ABT_sched_config_var_end));
    OK(ABT_sched_create_basic(ABT_SCHED_BASIC, 2, pools, sc, &S1));
    if (C->variant != V_SINGLE)
        OK(ABT_sched_create_basic(C->s2, 2, pools, sc, &S2));
    OK(ABT_sched_config_free(&sc));

    abtmc_window_begin();
    OK(ABT_xstream_create(S1, &es1));
    OK(ABT_thread_create(Q, i_fn, NULL, ABT_THREAD_ATTR_NULL, NULL));
    while (!w_blocked())
        OK(ABT_thread_yield());
    int x = abtmc_thread_create(x_fn, NULL);
    abtmc_store(&join_started, 1);
    OK(ABT_xstream_join(es1));
    int wd = abtmc_load(&w_done), kr = abtmc_load(&k_ran);
    abtmc_check(wd == 1, "join_early",
                "ABT_xstream_join returned although ULT W of the stream's private pool "
                "is still blocked / unfinished (resuming tasklet ran: %d)", kr);
    abtmc_thread_join(x);
    abtmc_window_end();
    abtmc_check(abtmc_load(&k_ran) == 1, "unit_not_run",
                "the tasklet pushed to the stream's MPSC pool never ran");
    abtmc_observe("ok");
    OK(ABT_thread_free(&W));
    OK(ABT_xstream_free(&es1));
    /* user-owned schedulers and pools */
    if (C->variant == V_REPLACED) {
        OK(ABT_sched_free(&S1));
        OK(ABT_sched_free(&S2));
    } else {
        OK(ABT_sched_free(&S1));
        if (C->variant == V_SPARE)
            OK(ABT_sched_free(&S2));
    }
    OK(ABT_pool_free(&Q));
    OK(ABT_pool_free(&P));
    h_finalize();
    abtmc_check(abtmc_ledger_live() == 0, "leak", "%ld live allocations",
                abtmc_ledger_live());
}

static const char *cfg_name(int i) { return cfgs[i].name; }
static int cfg_quick(int i) { return cfgs[i].quick; }

int main(int argc, char **argv)
{
    static abtmc_driver d = { "c06_privsched", "C06", ARRAY_LEN(cfgs), cfg_name,
                              scenario, cfg_quick };
    return abtmc_main(argc, argv, &d);
}
