/* c18_faults.c -- C18: a failed allocation makes the call fail cleanly and
 * leaves the runtime intact.
 *
 * One config = one family of API scenarios (a config per scenario would make
 * the exploration latency-bound: few executions each, discovered level by
 * level).  Every execution = one (scenario, variant, drain level, fault
 * position k) tuple:
 *   1. dry run on a fresh runtime: build the world, perform the call without a
 *      fault and count the acquisitions N it makes (malloc family, mmap,
 *      pthread_create, pthread_*_init), use the result, tear everything down,
 *      ABT_finalize, ledger must be empty;
 *   2. k = abtmc_choose over 1..N+1 (k = N+1 is the no-fault control);
 *   3. real run on a fresh runtime: build the world, snapshot, arm the k-th
 *      acquisition to fail, perform the call, check the oracle (see
 *      check_failed_call), retry the call without a fault, use the result, run
 *      the follow-up workload over all pre-existing objects, ABT_finalize,
 *      ledger must be empty.
 * Thorough tier ("pair" configs): the first retry is faulted as well (position
 * k2 = 1..N), i.e. every ordered pair of single faults in two consecutive
 * attempts, then the clean retry. */
#include "c18_faults.h"

/* scenario flags */
enum {
    F_EXT = 1,        /* the call is made by an external (non-Argobots) thread */
    F_FALLBACK = 2,   /* the routine is allowed to absorb the failure (documented
                         fallback) and return ABT_SUCCESS */
    F_INIT = 4,       /* the call is ABT_init itself: no world */
    F_UNIT = 8,       /* extra fault position: the user-defined pool's
                         create_unit() callback fails (returns ABT_UNIT_NULL) */
    F_NODRY = 16      /* no dry run (the path under test is taken only once per
                         process); fault positions 1..NODRY_MAX */
};
#define NODRY_MAX 20
#define PAIR_MAX_N 40
/* environments */
/* (CPU affinity is compiled out in this configuration: no affinity environment) */
enum { ENV_STD, ENV_KT64, ENV_MMAP, ENV_GUARD, ENV_HUGE, ENV_LOG };

typedef struct {
    const char *group; /* config = group of scenarios */
    const char *name; /* scenario name */
    const char *api;  /* used in violation keys */
    int quick;        /* (informative; the group decides) */
    int flags;
    int env;
    int nvariants;
    int maxdrain; /* 0: warm pools only; d: also pools drained to 0..d-1 free */
    void (*prep)(int v);
    int (*call)(int v);
    void (*use)(int v);
    void (*after_fail)(int v); /* extra scenario-specific checks after a failure */
} scen_t;

static const scen_t *S;
static char keybuf[8][96];
static int keyidx;
static const char *K(const char *what)
{
    char *b = keybuf[keyidx++ & 7];
    snprintf(b, 96, "%s:%s", what, S->api);
    return b;
}

/* out-handle registry */
typedef struct {
    void **slot;
    void *nullv;
    const char *what;
} outreg_t;
static outreg_t outs[8];
static int nouts;
#define ARM_OUT(var, NV)                                                       \
    do {                                                                       \
        (var) = SENT(__typeof__(var));                                         \
        outs[nouts].slot = (void **)&(var);                                    \
        outs[nouts].nullv = (void *)(NV);                                      \
        outs[nouts].what = #var;                                               \
        nouts++;                                                               \
    } while (0)

/* results of the call under test */
static struct {
    ABT_xstream xs;
    ABT_sched sched;
    ABT_sched_config scfg;
    ABT_pool pool, pool2;
    ABT_pool_config pcfg;
    ABT_pool_user_def udef;
    ABT_thread th, th2;
    ABT_thread_attr attr;
    ABT_mutex mtx;
    ABT_mutex_attr mattr;
    ABT_cond cond;
    ABT_rwlock rw;
    ABT_eventual ev;
    ABT_future fut;
    ABT_barrier bar;
    ABT_xstream_barrier xbar;
    ABT_timer timer;
    ABT_key key;
    int flag;
    /* objects made by prep() */
    ABT_pool ppool, ppool2;
    ABT_sched psched;
    ABT_xstream pxs;
    ABT_thread pth[4];
    ABT_thread many[66];
    ABT_key pkeys[16];
    void *stackmem;
} R;

static void body_rflag(void *arg)
{
    R.flag += (int)(intptr_t)arg;
}
static void body_rflag_yield(void *arg)
{
    R.flag += (int)(intptr_t)arg;
    OK(ABT_thread_yield());
    R.flag += (int)(intptr_t)arg;
}

#include "c18_scen.h"

/* ------------------------------------------------------------- protocol */

static void c18_env(int envkind)
{
    abtmc_std_env();
    /* small pages: a page holds ~20 descriptors / 3 stacks, so that page
     * acquisitions are reachable in small scenarios */
    setenv("ABT_MEM_PAGE_SIZE", "4096", 1);
    setenv("ABT_MEM_STACK_PAGE_SIZE", "65536", 1);
    setenv("ABT_SCHED_STACKSIZE", "131072", 1);
    unsetenv("ABT_KEY_TABLE_SIZE");
    unsetenv("ABT_STACK_OVERFLOW_CHECK");
    unsetenv("ABT_USE_LOG");
    unsetenv("ABT_MAX_NUM_XSTREAMS");
    switch (envkind) {
        case ENV_KT64: setenv("ABT_KEY_TABLE_SIZE", "64", 1); break;
        case ENV_MMAP: setenv("ABT_MEM_LP_ALLOC", "mmap_rp", 1); break;
        case ENV_HUGE: setenv("ABT_MEM_LP_ALLOC", "mmap_hp_thp", 1); break;
        case ENV_GUARD: setenv("ABT_STACK_OVERFLOW_CHECK", "mprotect", 1); break;
        case ENV_LOG: setenv("ABT_MAX_NUM_XSTREAMS", "2", 1); break;
        default: break;
    }
}

static int the_variant, the_ret, the_fired;
static long the_k;
#define K_UNITFAIL (-7L)
static void ext_call(void *arg)
{
    (void)arg;
    if (the_k == K_UNITFAIL) {
        W.fail_unit = 1;
        W.unit_failed = 0;
    } else if (the_k > 0) {
        abtmc_fail_nth(ABTMC_R_ALL, the_k);
    }
    the_ret = S->call(the_variant);
    the_fired = the_k == K_UNITFAIL ? W.unit_failed : abtmc_fault_fired();
    W.fail_unit = 0;
    abtmc_fail_nth(0, 0);
}
/* perform the call with the k-th acquisition failing (k = 0: no fault,
 * K_UNITFAIL: the user's create_unit() fails) */
static int do_call(int v, long k, int *fired)
{
    nouts = 0;
    the_variant = v;
    the_k = k;
    if (S->flags & F_EXT) {
        int t = abtmc_thread_create(ext_call, NULL);
        abtmc_thread_join(t);
    } else {
        ext_call(NULL);
    }
    if (fired)
        *fired = the_fired;
    return the_ret;
}

static const char *kdesc(long k)
{
    static char b[2][40];
    static int i;
    char *r = b[i++ & 1];
    if (k == K_UNITFAIL)
        snprintf(r, 40, "create_unit() of the user pool");
    else
        snprintf(r, 40, "acquisition #%ld", k);
    return r;
}
static blkset_t B0, B1, B2;
static snap_t SN0, SN1;

/* oracle after a call in which the injected failure fired and which returned
 * an error */
static void check_failed_call(int v, int ret, long k, long inuse_stack,
                              long inuse_desc)
{
    /* out handles: untouched or the documented NULL handle */
    for (int i = 0; i < nouts; i++)
        abtmc_check(*outs[i].slot == SENT(void *) ||
                        *outs[i].slot == outs[i].nullv,
                    K("dangling_handle"),
                    "%s failed (ret=%d, failing %s) but %s was set to %p "
                    "(neither untouched nor the NULL handle)",
                    S->name, ret, kdesc(k), outs[i].what, *outs[i].slot);
    /* ledger: nothing that existed before may have been released, and what
     * is new must be released by ABT_finalize at the latest (checked at the
     * end) */
    blk_take(&B1);
    for (int i = 0; i < B0.n; i++)
        abtmc_check(blk_has(&B1, B0.p[i], B0.sz[i]), K("freed_preexisting"),
                    "%s failed (failing %s) and released a resource that "
                    "existed before the call (block of %zu bytes)",
                    S->name, kdesc(k), B0.sz[i]);
    /* memory pools: every descriptor / stack taken during the call is back */
    long s1 = mempool_in_use(0), d1 = mempool_in_use(1);
    abtmc_check(s1 == inuse_stack, K("mempool_leak"),
                "%s failed (failing %s) and kept %ld ULT stack(s) of the "
                "memory pool (in use %ld -> %ld)",
                S->name, kdesc(k), s1 - inuse_stack, inuse_stack, s1);
    abtmc_check(d1 == inuse_desc, K("mempool_leak"),
                "%s failed (failing %s) and kept %ld descriptor(s) of the "
                "memory pool (in use %ld -> %ld)",
                S->name, kdesc(k), d1 - inuse_desc, inuse_desc, d1);
    /* getters of all pre-existing objects */
    take_snapshot(&SN1);
    abtmc_check(SN0.n == SN1.n, K("state_changed"), "snapshot size changed");
    for (int i = 0; i < SN0.n; i++)
        abtmc_check(SN0.e[i].v == SN1.e[i].v, K("state_changed"),
                    "%s failed (ret=%d, failing %s) but changed %s[%d]: "
                    "%#llx -> %#llx",
                    S->name, ret, kdesc(k), SN0.e[i].name, SN0.e[i].idx,
                    (unsigned long long)SN0.e[i].v,
                    (unsigned long long)SN1.e[i].v);
    if (S->after_fail)
        S->after_fail(v);
}

static const char *errname(int r)
{
    switch (r) {
        case ABT_SUCCESS: return "OK";
        case ABT_ERR_MEM: return "ERR_MEM";
        case ABT_ERR_SYS: return "ERR_SYS";
        case ABT_ERR_OTHER: return "ERR_OTHER";
        case ABT_ERR_UNIT: return "ERR_UNIT";
        case ABT_ERR_XSTREAM: return "ERR_XSTREAM";
        default: return "ERR_other";
    }
}

/* choose 0..n-1 with n possibly > 10 */
static long choose_big(long n)
{
    if (n <= 10)
        return abtmc_choose((int)n, ABTMC_B_FREE);
    long groups = (n + 9) / 10;
    abtmc_check(groups <= 10, "api_error", "choose_big: %ld too large", n);
    int hi = abtmc_choose((int)groups, ABTMC_B_FREE);
    long rest = n - 10L * hi;
    int lo = abtmc_choose(rest >= 10 ? 10 : (int)rest, ABTMC_B_FREE);
    return 10L * hi + lo;
}

static int is_pair_cfg(int cfg);

static void final_ledger_check(long k, int ret)
{
    long live = abtmc_ledger_live();
    if (live != 0) {
        blk_take(&B2);
        size_t tot = 0, mx = 0;
        int from_call = 0;
        for (int i = 0; i < B2.n; i++) {
            tot += B2.sz[i];
            if (B2.sz[i] > mx)
                mx = B2.sz[i];
            if (!blk_has(&B0, B2.p[i], B2.sz[i]))
                from_call++;
        }
        abtmc_check(0, K("leak"),
                    "%s with failing %s (ret=%d): %ld resource(s), %zu bytes "
                    "(largest %zu) still allocated after ABT_finalize; %d of "
                    "them acquired during or after the failed call",
                    S->name, kdesc(k), ret, live, tot, mx, from_call);
    }
}

static char statbuf[128];
static const char *STAT(const char *what)
{
    snprintf(statbuf, sizeof statbuf, "%s[%s]", what, S->name);
    return statbuf;
}

static void scenario_world(int cfg)
{
    int pair = is_pair_cfg(cfg);
    abtmc_window_begin();
    int v = abtmc_choose(S->nvariants, ABTMC_B_FREE);
    int d = abtmc_choose(1 + S->maxdrain, ABTMC_B_FREE);
    abtmc_window_end();

    /* 1. dry run: count the acquisitions of the call */
    int ret;
    long N = NODRY_MAX;
    int nodry = (S->flags & F_NODRY) != 0;
    if (!nodry) {
        c18_env(S->env);
        OK(ABT_init(0, NULL));
        build_world();
        if (S->prep)
            S->prep(v);
        if (d > 0)
            drain_pools(d - 1);
        long a0 = abtmc_ledger_acquisitions();
        ret = do_call(v, 0, NULL);
        N = abtmc_ledger_acquisitions() - a0;
        abtmc_check(ret == ABT_SUCCESS, "api_error",
                    "%s: call without a fault returned %d", S->name, ret);
        if (S->use)
            S->use(v);
        teardown_world(S->api);
        OK(ABT_finalize());
        abtmc_check(abtmc_ledger_live() == 0 && W.upool_live_units == 0,
                    "dryrun_leak",
                    "%s: %ld resources, %d user units live after the "
                    "fault-free run", S->name, abtmc_ledger_live(),
                    W.upool_live_units);
        memset(&W, 0, sizeof W);
        memset(&R, 0, sizeof R);
    }

    /* 2. fault position(s) */
    abtmc_window_begin();
    long k, k2 = 0;
    if (!pair) {
        /* N+1 = control without a fault, N+2 = the user's create_unit fails */
        k = 1 + choose_big(N + 1 + ((S->flags & F_UNIT) ? 1 : 0));
        if (k == N + 2)
            k = K_UNITFAIL;
    } else {
        if (N < 1 || N > PAIR_MAX_N || nodry) {
            /* nothing to pair / too many pairs for this variant */
            abtmc_window_end();
            abtmc_observe("%s: pair n/a (N=%s)", S->name, N < 1 ? "0" : "large");
            return;
        }
        k = 1 + choose_big(N);
        k2 = 1 + choose_big(N);
    }
    abtmc_window_end();

    /* 3. real run */
    c18_env(S->env);
    OK(ABT_init(0, NULL));
    build_world();
    if (S->prep)
        S->prep(v);
    if (d > 0)
        drain_pools(d - 1);
    take_snapshot(&SN0);
    blk_take(&B0);
    long is0 = mempool_in_use(0), id0 = mempool_in_use(1);
    int fired = 0, nfail = 0;
    ret = do_call(v, k, &fired);
    int first_ret = ret;
    if (!fired) {
        abtmc_check(k == N + 1 || k == K_UNITFAIL || nodry, "count_mismatch",
                    "%s: fault #%ld of %ld did not fire", S->name, k, N);
        abtmc_check(ret == ABT_SUCCESS, "api_error",
                    "%s: control run returned %d", S->name, ret);
    } else {
        abtmc_check(k <= N, "count_mismatch", "%s: fault #%ld fired, N=%ld",
                    S->name, k, N);
        if (ret == ABT_SUCCESS) {
            abtmc_check(S->flags & F_FALLBACK, K("success_despite_fault"),
                        "%s returned ABT_SUCCESS although its %s failed",
                        S->name, kdesc(k));
        } else {
            nfail++;
            check_failed_call(v, ret, k, is0, id0);
            if (pair) {
                int fired2 = 0;
                int ret2 = do_call(v, k2, &fired2);
                if (fired2 && ret2 != ABT_SUCCESS) {
                    nfail++;
                    check_failed_call(v, ret2, k2, is0, id0);
                    ret = do_call(v, 0, NULL);
                } else {
                    abtmc_check(ret2 == ABT_SUCCESS, K("retry_failed"),
                                "%s: second attempt returned %d although no "
                                "fault fired", S->name, ret2);
                    abtmc_check(!fired2 || (S->flags & F_FALLBACK),
                                K("success_despite_fault"),
                                "%s returned ABT_SUCCESS although acquisition "
                                "#%ld failed (second attempt)", S->name, k2);
                    ret = ret2;
                }
            } else {
                ret = do_call(v, 0, NULL);
            }
            abtmc_check(ret == ABT_SUCCESS, K("retry_failed"),
                        "%s failed with failing %s (ret=%d); the same call "
                        "without a fault then returned %d", S->name, kdesc(k),
                        first_ret, ret);
        }
    }
    if (S->use)
        S->use(v);
    teardown_world(S->api);
    int fr = ABT_finalize();
    abtmc_check(fr == ABT_SUCCESS, K("followup"), "ABT_finalize returned %d", fr);
    abtmc_check(W.upool_live_units == 0, K("leak"),
                "%s with failing %s (ret=%d): %d user-defined unit(s) were "
                "never released through free_unit()", S->name, kdesc(k),
                first_ret, W.upool_live_units);
    final_ledger_check(k, first_ret);
    abtmc_stat("faults_injected", fired ? 1 : 0);
    abtmc_stat("failed_calls_checked", nfail);
    abtmc_stat(STAT("faults"), fired ? 1 : 0);
    /* outcome tag: scenario x (kind of fault) x returned code; the fault
     * positions themselves are counted in the stats */
    abtmc_observe("%s: %s -> %s", S->name,
                  k == K_UNITFAIL ? (fired ? "create_unit fails" : "no fault")
                  : !fired        ? "no fault"
                  : pair          ? "2 faults"
                                  : "fault",
                  errname(first_ret));
}

/* ABT_init itself: there is no world; after a failed ABT_init nothing at all
 * may remain allocated and the runtime must be uninitialised */
static void init_workload(void)
{
    ABT_xstream xs;
    ABT_thread t;
    ABT_pool p;
    R.flag = 0;
    OK(ABT_xstream_create(ABT_SCHED_NULL, &xs));
    p = h_main_pool(xs);
    OK(ABT_thread_create(p, body_rflag, (void *)1, ABT_THREAD_ATTR_NULL, &t));
    OK(ABT_thread_free(&t));
    OK(ABT_thread_create(h_main_pool(h_self_xstream()), body_rflag_yield,
                         (void *)10, ABT_THREAD_ATTR_NULL, &t));
    OK(ABT_thread_free(&t));
    OK(ABT_xstream_join(xs));
    OK(ABT_xstream_free(&xs));
    abtmc_check(R.flag == 21, K("followup"), "workload after ABT_init: flag=%d",
                R.flag);
}
static void scenario_init(int cfg)
{
    int pair = is_pair_cfg(cfg);
    c18_env(S->env);
    long a0 = abtmc_ledger_acquisitions();
    OK(ABT_init(0, NULL));
    long N = abtmc_ledger_acquisitions() - a0;
    init_workload();
    OK(ABT_finalize());
    abtmc_check(abtmc_ledger_live() == 0, "dryrun_leak",
                "ABT_init/ABT_finalize: %ld resources live", abtmc_ledger_live());

    abtmc_window_begin();
    long k = 1 + choose_big(pair ? N : N + 1), k2 = 0;
    if (pair)
        k2 = 1 + choose_big(N);
    abtmc_window_end();

    c18_env(S->env);
    blk_take(&B0);
    abtmc_fail_nth(ABTMC_R_ALL, k);
    int ret = ABT_init(0, NULL);
    int fired = abtmc_fault_fired();
    abtmc_fail_nth(0, 0);
    int first_ret = ret;
    if (!fired) {
        abtmc_check(k == N + 1 && ret == ABT_SUCCESS, "count_mismatch",
                    "ABT_init: fault #%ld of %ld did not fire (ret=%d)", k, N,
                    ret);
    } else if (ret == ABT_SUCCESS) {
        abtmc_check(S->flags & F_FALLBACK, K("success_despite_fault"),
                    "ABT_init returned ABT_SUCCESS although acquisition #%ld "
                    "failed", k);
    } else {
        for (int att = 0; att < 2; att++) {
            abtmc_check(abtmc_ledger_live() == 0, K("leak"),
                        "ABT_init failed (ret=%d, fault #%ld) and left %ld "
                        "resource(s) / %ld bytes allocated",
                        ret, att ? k2 : k, abtmc_ledger_live(),
                        abtmc_ledger_live_bytes());
            abtmc_check(ABT_initialized() == ABT_ERR_UNINITIALIZED,
                        K("state_changed"),
                        "ABT_init failed (ret=%d) but ABT_initialized() says "
                        "the runtime is up", ret);
            if (!pair || att == 1)
                break;
            abtmc_fail_nth(ABTMC_R_ALL, k2);
            ret = ABT_init(0, NULL);
            int fired2 = abtmc_fault_fired();
            abtmc_fail_nth(0, 0);
            if (ret == ABT_SUCCESS) {
                abtmc_check(!fired2 || (S->flags & F_FALLBACK),
                            K("success_despite_fault"),
                            "ABT_init (second attempt) succeeded although "
                            "acquisition #%ld failed", k2);
                break;
            }
            abtmc_check(fired2, K("retry_failed"),
                        "second ABT_init returned %d without a fault", ret);
        }
        if (ret != ABT_SUCCESS)
            ret = ABT_init(0, NULL);
        abtmc_check(ret == ABT_SUCCESS, K("retry_failed"),
                    "ABT_init failed with fault #%ld (ret=%d); the retry "
                    "without a fault returned %d", k, first_ret, ret);
    }
    init_workload();
    int fr = ABT_finalize();
    abtmc_check(fr == ABT_SUCCESS, K("followup"), "ABT_finalize returned %d", fr);
    B0.n = 0;
    final_ledger_check(k, first_ret);
    abtmc_stat("faults_injected", fired ? 1 : 0);
    abtmc_stat(STAT("faults"), fired ? 1 : 0);
    abtmc_observe("%s: %s -> %s", S->name,
                  !fired ? "no fault" : pair ? "2 faults" : "fault",
                  errname(first_ret));
}

/* configs: the scenario groups (single faults), then their pair versions */
#define NSCEN ARRAY_LEN(scens)
#define MAXGROUPS 16
static struct {
    const char *name;
    int quick, n;
    int idx[40];
} groups[MAXGROUPS];
static int ngroups;
static char pairname[MAXGROUPS][96];
static void build_groups(void)
{
    for (int i = 0; i < NSCEN; i++) {
        int g;
        for (g = 0; g < ngroups; g++)
            if (!strcmp(groups[g].name, scens[i].group))
                break;
        if (g == ngroups) {
            if (ngroups == MAXGROUPS)
                abort();
            groups[g].name = scens[i].group;
            groups[g].quick = scens[i].quick;
            snprintf(pairname[g], sizeof pairname[g], "pair:%s", scens[i].group);
            ngroups++;
        }
        if (groups[g].n == 40 || groups[g].quick != scens[i].quick)
            abort(); /* table error */
        groups[g].idx[groups[g].n++] = i;
    }
}
static int is_pair_cfg(int cfg)
{
    return cfg >= ngroups;
}
static void scenario(int cfg)
{
    int g = cfg % ngroups;
    abtmc_window_begin();
    int si = (int)choose_big(groups[g].n);
    abtmc_window_end();
    S = &scens[groups[g].idx[si]];
    if (S->flags & F_INIT)
        scenario_init(cfg);
    else
        scenario_world(cfg);
}
static const char *cfg_name(int i)
{
    return is_pair_cfg(i) ? pairname[i % ngroups] : groups[i].name;
}
static int cfg_quick(int i)
{
    return !is_pair_cfg(i) && groups[i].quick;
}

int main(int argc, char **argv)
{
    build_groups();
    static abtmc_driver d = { "c18_faults", "C18", 0, cfg_name, scenario,
                              cfg_quick };
    d.nconfigs = 2 * ngroups;
    return abtmc_main(argc, argv, &d);
}
