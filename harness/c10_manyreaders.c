/* c10_manyreaders.c -- C10 at scale: "any number of readers may hold it
 * together" and "while a writer holds an ABT_rwlock no reader ... holds it".
 * The documentation counts read holds by calls of ABT_rwlock_rdlock (unlock is
 * called "as many as the number of readers"), so one ULT may take many holds.
 * A counter narrower than the number of outstanding holds wraps to 0 and lets a
 * writer in.  Boundary values of a 8/16-bit counter: 255, 256, 65535, 65536
 * holds (+1).  Sequential by construction (P = 0); each config is one run. */
#include "common.h"

typedef struct {
    const char *name;
    int quick;
    int holds;
} cfg_t;
static const cfg_t cfgs[] = {
    { "256 read holds, then a writer", 1, 256 },
    { "65536 read holds, then a writer", 1, 65536 },
    { "65537 read holds, then a writer", 0, 65537 },
    { "257 read holds, then a writer", 0, 257 },
};

static const cfg_t *C;
static ABT_rwlock RW;
static int outstanding;      /* plain: only changed by the reader ULT */
static int all_held, w_about, w_in, w_done; /* hooked flags */

static void reader_fn(void *arg)
{
    (void)arg;
    for (int i = 0; i < C->holds; i++) {
        OK(ABT_rwlock_rdlock(RW));
        outstanding++;
    }
    abtmc_store(&all_held, 1);
    /* give the writer every chance to (wrongly) get in */
    while (abtmc_load(&w_about) == 0)
        OK(ABT_thread_yield());
    for (int i = 0; i < 4; i++)
        OK(ABT_thread_yield());
    abtmc_check(abtmc_load(&w_in) == 0, "writer_with_reader",
                "the writer holds the lock while %d read holds are outstanding",
                outstanding);
    for (int i = 0; i < C->holds; i++) {
        outstanding--;
        OK(ABT_rwlock_unlock(RW));
    }
}

static void writer_fn(void *arg)
{
    (void)arg;
    while (abtmc_load(&all_held) == 0)
        OK(ABT_thread_yield());
    abtmc_store(&w_about, 1);
    OK(ABT_rwlock_wrlock(RW));
    abtmc_store(&w_in, 1);
    abtmc_check(outstanding == 0, "writer_with_reader",
                "ABT_rwlock_wrlock returned while %d read holds are outstanding",
                outstanding);
    OK(ABT_rwlock_unlock(RW));
    abtmc_store(&w_done, 1);
}

static void scenario(int cfg)
{
    C = &cfgs[cfg];
    h_init();
    OK(ABT_rwlock_create(&RW));
    ABT_pool p0 = h_main_pool(h_self_xstream());
    ABT_thread r, w;
    abtmc_window_begin();
    OK(ABT_thread_create(p0, reader_fn, NULL, ABT_THREAD_ATTR_NULL, &r));
    OK(ABT_thread_create(p0, writer_fn, NULL, ABT_THREAD_ATTR_NULL, &w));
    OK(ABT_thread_free(&r));
    OK(ABT_thread_free(&w));
    abtmc_window_end();
    abtmc_check(w_done == 1 && outstanding == 0, "lost_locker", "writer done %d", w_done);
    /* the lock is completely free: a reader and a writer get it at once */
    OK(ABT_rwlock_wrlock(RW));
    OK(ABT_rwlock_unlock(RW));
    OK(ABT_rwlock_rdlock(RW));
    OK(ABT_rwlock_unlock(RW));
    abtmc_observe("ok");
    OK(ABT_rwlock_free(&RW));
    h_finalize();
}

static const char *cfg_name(int i) { return cfgs[i].name; }
static int cfg_quick(int i) { return cfgs[i].quick; }

int main(int argc, char **argv)
{
    static abtmc_driver d = { "c10_manyreaders", "C10", ARRAY_LEN(cfgs), cfg_name,
                              scenario, cfg_quick };
    return abtmc_main(argc, argv, &d);
}
