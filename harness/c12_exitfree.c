/* c12_exitfree.c -- C12: "ABT_thread_exit/ABT_self_exit terminate the caller at
 * once ... resources are freed exactly once; an unnamed unit is freed
 * automatically on completion" for every way a ULT can end, with the stack
 * provenances whose release is immediate: an UNNAMED ULT with a malloc'ed
 * (non-default size) stack is freed -- descriptor and stack -- inside its own
 * termination path, so anything that path still reads from the dying ULT's
 * stack afterwards is a use after free (reported by the mc-asan flavour; the
 * memory-pool stacks of the default size stay mapped and hide it).
 *
 * One history per execution (abtmc_choose FREE):
 *   ending  in {return, ABT_self_exit, ABT_thread_exit, ABT_self_exit_to(T),
 *               ABT_self_resume_exit_to(T), cancelled at a yield}
 *   stack   in {default (memory pool), malloc'ed 40008 bytes, malloc'ed 1 MiB}
 *   named   in {unnamed, named and freed by the primary afterwards}
 *   where   in {primary stream, second stream}
 *   joiner  in {the primary ULT (ABT_thread_free joins), an EXTERNAL thread
 *               that is inside ABT_thread_join before U ends (futex joiner:
 *               the abnormal endings wake it through
 *               ABTI_ythread_resume_joiner, not through the normal exit path)}
 * Oracle: the unit's body ran once up to the ending and not beyond; the target
 * of a directed exit runs next and exactly once; no sanitizer report, no bad
 * free, ledger empty after ABT_finalize. */
#include "common.h"

enum { E_RETURN, E_SELF_EXIT, E_THREAD_EXIT, E_EXIT_TO, E_RESUME_EXIT_TO, E_CANCEL, NEND };
static const char *ename[] = { "return", "self_exit", "thread_exit", "exit_to",
                               "resume_exit_to", "cancel" };
static const size_t stk[] = { 0, 40008, 1048576 };

static int ending, stki, named, on_es1;
static ABT_thread U, T;
static ABT_pool scratch;
static int u_before, u_after, t_runs, t_resumed, u_yielded;
static int xjoin, x_joining, x_done;

/* external joiner: announces itself, then blocks in ABT_thread_join(U) */
static void x_fn(void *arg)
{
    (void)arg;
    ABT_thread_state st;
    abtmc_store(&x_joining, 1);
    OK(ABT_thread_join(U));
    OK(ABT_thread_get_state(U, &st));
    abtmc_check(st == ABT_THREAD_STATE_TERMINATED, "join_before_terminated",
                "external joiner of a unit ending by %s returned while the "
                "unit's state is %d", ename[ending], (int)st);
    abtmc_store(&x_done, 1);
}

static void t_fn(void *arg)
{
    (void)arg;
    if (ending == E_RESUME_EXIT_TO) {
        OK(ABT_self_suspend());
        t_resumed++;
    }
    t_runs++;
}

static void u_fn(void *arg)
{
    (void)arg;
    volatile char pad[256];
    for (int i = 0; i < 256; i++)
        pad[i] = (char)i;
    u_before++;
    if (xjoin) /* end only once the external joiner is on its way in */
        abtmc_wait_until_eq(&x_joining, 1);
    switch (ending) {
        case E_RETURN: return;
        case E_SELF_EXIT: ABT_self_exit(); break;
        case E_THREAD_EXIT: ABT_thread_exit(); break;
        case E_EXIT_TO: ABT_self_exit_to(T); break;
        case E_RESUME_EXIT_TO: {
            ABT_thread_state st;
            for (;;) {
                OK(ABT_thread_get_state(T, &st));
                if (st == ABT_THREAD_STATE_BLOCKED)
                    break;
                OK(ABT_thread_yield());
            }
            ABT_self_resume_exit_to(T);
            break;
        }
        case E_CANCEL:
            abtmc_store(&u_yielded, 1);
            /* yields until the cancellation is honoured (an ignored request
             * runs into the operation horizon) */
            for (;;)
                OK(ABT_thread_yield());
            break;
    }
    u_after++;
    (void)pad;
}

static void scenario(int cfg)
{
    (void)cfg;
    h_init();
    ABT_xstream es1;
    OK(ABT_xstream_create(ABT_SCHED_NULL, &es1));
    ABT_pool p0 = h_main_pool(h_self_xstream()), p1 = h_main_pool(es1);
    OK(ABT_pool_create_basic(ABT_POOL_FIFO, ABT_POOL_ACCESS_MPMC, ABT_FALSE, &scratch));

    abtmc_window_begin();
    ending = abtmc_choose(NEND, ABTMC_B_FREE);
    stki = abtmc_choose(3, ABTMC_B_FREE);
    named = abtmc_choose(2, ABTMC_B_FREE);
    on_es1 = abtmc_choose(2, ABTMC_B_FREE);
    ABT_pool pu = on_es1 ? p1 : p0;
    /* a cancelled unit must be named (the request needs a handle that stays
     * valid) */
    if (ending == E_CANCEL)
        named = 1;
    xjoin = named ? abtmc_choose(2, ABTMC_B_FREE) : 0;
    int xt = -1;

    if (ending == E_EXIT_TO) {
        /* a READY target that is in no pool */
        ABT_thread t;
        OK(ABT_thread_create(scratch, t_fn, NULL, ABT_THREAD_ATTR_NULL, &T));
        OK(ABT_pool_pop_thread(scratch, &t));
    } else if (ending == E_RESUME_EXIT_TO) {
        /* a target that will block itself; it lives in U's pool */
        OK(ABT_thread_create(pu, t_fn, NULL, ABT_THREAD_ATTR_NULL, &T));
    }
    ABT_thread_attr at = ABT_THREAD_ATTR_NULL;
    if (stk[stki]) {
        OK(ABT_thread_attr_create(&at));
        OK(ABT_thread_attr_set_stacksize(at, stk[stki]));
    }
    OK(ABT_thread_create(pu, u_fn, NULL, at, named ? &U : NULL));
    if (at != ABT_THREAD_ATTR_NULL)
        OK(ABT_thread_attr_free(&at));

    if (xjoin)
        xt = abtmc_thread_create(x_fn, NULL);
    if (ending == E_CANCEL) {
        while (abtmc_load(&u_yielded) == 0)
            OK(ABT_thread_yield());
        if (xjoin)
            abtmc_wait_until_eq(&x_joining, 1);
        OK(ABT_thread_cancel(U));
    }
    if (ending == E_EXIT_TO || ending == E_RESUME_EXIT_TO) {
        OK(ABT_thread_join(T));
        abtmc_check(t_runs == 1, "target_run_count",
                    "the target of %s ran %d times", ename[ending], t_runs);
        if (ending == E_RESUME_EXIT_TO)
            abtmc_check(t_resumed == 1, "target_run_count", "T resumed %d times",
                        t_resumed);
        OK(ABT_thread_free(&T));
    }
    if (xjoin) {
        /* U lives on this stream: keep scheduling until it has ended; then
         * (or at once, if U runs on the other stream) wait for the joiner */
        while (!on_es1) {
            ABT_thread_state st;
            OK(ABT_thread_get_state(U, &st));
            if (st == ABT_THREAD_STATE_TERMINATED)
                break;
            abtmc_progress();
            OK(ABT_thread_yield());
        }
        abtmc_wait_until_eq(&x_done, 1);
        abtmc_thread_join(xt);
    }
    if (named) {
        OK(ABT_thread_free(&U)); /* joins first */
    } else {
        /* an unnamed unit: wait until it has gone through its ending */
        OK(ABT_xstream_join(es1));
        while (u_before == 0)
            OK(ABT_thread_yield());
        OK(ABT_thread_yield());
    }
    abtmc_window_end();

    abtmc_check(u_before == 1, "run_count", "U's body started %d times", u_before);
    if (ending == E_RETURN)
        abtmc_check(u_after == 0, "harness", "return fell through");
    else
        abtmc_check(u_after == 0, "exit_returned", "%s returned to its caller",
                    ename[ending]);
    abtmc_observe("%s stk%d %s es%d%s", ename[ending], stki, named ? "named" : "unnamed",
                  on_es1, xjoin ? " xjoin" : "");
    {
        ABT_xstream_state st;
        OK(ABT_xstream_get_state(es1, &st));
        if (st != ABT_XSTREAM_STATE_TERMINATED)
            OK(ABT_xstream_join(es1));
    }
    OK(ABT_xstream_free(&es1));
    OK(ABT_pool_free(&scratch));
    h_finalize();
    abtmc_check(abtmc_ledger_live() == 0, "leak", "%ld live allocations",
                abtmc_ledger_live());
}

static const char *cfg_name(int i) { (void)i; return "ending x stack x named x stream x joiner"; }
static int cfg_quick(int i) { (void)i; return 1; }

int main(int argc, char **argv)
{
    static abtmc_driver d = { "c12_exitfree", "C12", 1, cfg_name, scenario, cfg_quick };
    return abtmc_main(argc, argv, &d);
}
