/* c02_race.c -- C02: "a ULT cannot be popped, resumed or joined-through by
 * another stream until its previous context has been completely saved", for
 * the directed switches to a NEVER-STARTED target (create_to, yield_to,
 * revive_to, thread_yield_to): the caller is pushed back to a pool that a
 * second stream polls.  If the push-back happened before the caller's context
 * is saved, the other stream resumes a stale context (the caller returns from
 * an earlier yield a second time) or restarts it from the top. */
#include "common.h"

enum { OP_CREATE_TO, OP_SELF_YIELD_TO, OP_THREAD_YIELD_TO, OP_REVIVE_TO, OP_JOIN,
       OP_RESUME_YIELD_TO, OP_SUSPEND };
typedef struct {
    const char *name;
    int quick, op, pre_yield; /* pre_yield: A yields once before the op */
} cfg_t;

static const cfg_t cfgs[] = {
    { "A@shared(ES1,ES2): yield, create_to(never started B)", 1, OP_CREATE_TO, 1 },
    { "A@shared(ES1,ES2): create_to(B) as first action", 1, OP_CREATE_TO, 0 },
    { "A@shared(ES1,ES2): yield, self_yield_to(never started B)", 1,
      OP_SELF_YIELD_TO, 1 },
    { "A@shared(ES1,ES2): yield, revive_to(terminated B)", 1, OP_REVIVE_TO, 1 },
    { "A@shared(ES1,ES2): yield, thread_yield_to(never started B in an unserved pool)", 0,
      OP_THREAD_YIELD_TO, 1 },
    { "A@shared(ES1,ES2): self_yield_to(B) as first action", 0, OP_SELF_YIELD_TO, 0 },
    /* the caller blocks / is pushed back while its partner runs elsewhere */
    { "A@shared(ES1,ES2): yield, join(B@shared): exit of B hands off to A", 1, OP_JOIN,
      1 },
    { "A@shared(ES1,ES2): yield, resume_yield_to(blocked B@shared)", 1,
      OP_RESUME_YIELD_TO, 1 },
    { "A@shared(ES1,ES2): yield, self_suspend; B@shared resumes it as soon as BLOCKED",
      0, OP_SUSPEND, 1 },
};

static const cfg_t *C;
static ABT_pool S, scratch;
static ABT_thread A, B;
static int a_entries, a_in, b_runs, mirror;
static char ran_on[12];
static int nran;

static void note(char who)
{
    int rank = -1;
    ABT_xstream_self_rank(&rank);
    if (nran < 10) {
        ran_on[nran++] = who;
        ran_on[nran++] = (char)('0' + rank);
    }
}

static void b_fn(void *arg)
{
    (void)arg;
    if (C->op == OP_RESUME_YIELD_TO) {
        /* become the BLOCKED target of A's resume_yield_to */
        OK(ABT_self_suspend());
    } else if (C->op == OP_SUSPEND) {
        /* resume A the moment its BLOCKED state is observable */
        ABT_thread_state st;
        for (;;) {
            OK(ABT_thread_get_state(A, &st));
            if (st == ABT_THREAD_STATE_BLOCKED)
                break;
            OK(ABT_thread_yield());
        }
        OK(ABT_thread_resume(A));
    }
    b_runs++;
    note('b');
}

static void a_fn(void *arg)
{
    (void)arg;
    volatile int step = 0; /* on A's stack */
    a_entries++;
    abtmc_check(a_entries == 1, "started_twice",
                "ULT A's function was entered %d times", a_entries);
    a_in++;
    abtmc_check(a_in == 1, "two_slices_at_once", "A runs %d slices at once", a_in);
    note('a');
    if (C->pre_yield) {
        step = 1;
        mirror = 1;
        a_in--;
        OK(ABT_thread_yield());
        a_in++;
        abtmc_check(a_in == 1, "two_slices_at_once", "A runs %d slices at once",
                    a_in);
        abtmc_check(step == mirror && step == 1, "stale_context",
                    "A resumed from a stale saved context (stack step %d, "
                    "expected %d)", step, mirror);
        note('a');
    }
    step = 2;
    mirror = 2;
    abtmc_progress();
    a_in--;
    switch (C->op) {
        case OP_CREATE_TO:
            OK(ABT_thread_create_to(S, b_fn, NULL, ABT_THREAD_ATTR_NULL, &B));
            break;
        case OP_SELF_YIELD_TO:
            OK(ABT_self_yield_to(B));
            break;
        case OP_THREAD_YIELD_TO:
            OK(ABT_thread_yield_to(B));
            break;
        case OP_REVIVE_TO:
            OK(ABT_thread_revive_to(S, b_fn, NULL, &B));
            break;
        case OP_JOIN:
            OK(ABT_thread_join(B));
            break;
        case OP_RESUME_YIELD_TO: {
            ABT_thread_state st;
            for (;;) {
                OK(ABT_thread_get_state(B, &st));
                if (st == ABT_THREAD_STATE_BLOCKED)
                    break;
                step = 2;
                OK(ABT_thread_yield());
                abtmc_check(step == mirror && step == 2, "stale_context",
                            "A resumed from a stale saved context while polling");
            }
            OK(ABT_self_resume_yield_to(B));
            break;
        }
        case OP_SUSPEND:
            OK(ABT_self_suspend());
            break;
    }
    a_in++;
    abtmc_check(a_in == 1, "two_slices_at_once", "A runs %d slices at once", a_in);
    abtmc_check(step == mirror && step == 2, "stale_context",
                "A resumed from a stale saved context after the directed switch "
                "(stack step %d, mirror %d)", step, mirror);
    note('a');
    step = 3;
    mirror = 3;
    a_in--;
}

static void scenario(int cfg)
{
    C = &cfgs[cfg];
    h_init();
    ABT_xstream es1, es2;
    ABT_sched s1, s2;
    OK(ABT_pool_create_basic(ABT_POOL_FIFO, ABT_POOL_ACCESS_MPMC, ABT_TRUE, &S));
    OK(ABT_pool_create_basic(ABT_POOL_FIFO, ABT_POOL_ACCESS_MPMC, ABT_FALSE,
                             &scratch));
    if (C->op == OP_SELF_YIELD_TO) {
        /* a READY target that is in no pool and has never run */
        ABT_thread t;
        OK(ABT_thread_create(scratch, b_fn, NULL, ABT_THREAD_ATTR_NULL, &B));
        OK(ABT_pool_pop_thread(scratch, &t));
    } else if (C->op == OP_THREAD_YIELD_TO) {
        /* ABT_thread_yield_to wants a READY target that IS in a pool: keep it
         * in a pool no stream serves, so nobody else can take it first */
        OK(ABT_thread_create(scratch, b_fn, NULL, ABT_THREAD_ATTR_NULL, &B));
    } else if (C->op == OP_JOIN || C->op == OP_RESUME_YIELD_TO || C->op == OP_SUSPEND) {
        /* B lives in the shared pool, too */
        OK(ABT_thread_create(S, b_fn, NULL, ABT_THREAD_ATTR_NULL, &B));
    } else if (C->op == OP_REVIVE_TO) {
        /* a terminated named ULT (it ran on the primary stream) */
        OK(ABT_thread_create(h_main_pool(h_self_xstream()), b_fn, NULL,
                             ABT_THREAD_ATTR_NULL, &B));
        OK(ABT_thread_join(B));
        b_runs = 0;
        nran = 0;
    }
    OK(ABT_sched_create_basic(ABT_SCHED_BASIC, 1, &S, ABT_SCHED_CONFIG_NULL, &s1));
    OK(ABT_sched_create_basic(ABT_SCHED_BASIC, 1, &S, ABT_SCHED_CONFIG_NULL, &s2));

    abtmc_window_begin();
    int a_first = C->op == OP_JOIN || C->op == OP_RESUME_YIELD_TO || C->op == OP_SUSPEND;
    if (a_first) /* B refers to A: both exist before a stream can run them */
        OK(ABT_thread_create(S, a_fn, NULL, ABT_THREAD_ATTR_NULL, &A));
    OK(ABT_xstream_create(s1, &es1));
    OK(ABT_xstream_create(s2, &es2));
    if (!a_first)
        OK(ABT_thread_create(S, a_fn, NULL, ABT_THREAD_ATTR_NULL, &A));
    OK(ABT_thread_join(A));
    /* B exists once A has passed the directed switch */
    OK(ABT_thread_join(B));
    abtmc_window_end();

    abtmc_check(a_entries == 1 && mirror == 3, "caller_incomplete",
                "A entered %d times, reached step %d", a_entries, mirror);
    abtmc_check(b_runs == 1, "target_run_count", "B ran %d times", b_runs);
    ran_on[nran] = 0;
    abtmc_observe("%s", ran_on);
    OK(ABT_thread_free(&A));
    OK(ABT_thread_free(&B));
    OK(ABT_xstream_join(es1));
    OK(ABT_xstream_join(es2));
    OK(ABT_xstream_free(&es1));
    OK(ABT_xstream_free(&es2));
    OK(ABT_pool_free(&scratch));
    h_finalize();
    abtmc_check(abtmc_ledger_live() == 0, "leak",
                "%ld live allocations after ABT_finalize", abtmc_ledger_live());
}

static const char *cfg_name(int i) { return cfgs[i].name; }
static int cfg_quick(int i) { return cfgs[i].quick; }

int main(int argc, char **argv)
{
    static abtmc_driver d = { "c02_race", "C02", ARRAY_LEN(cfgs), cfg_name,
                              scenario, cfg_quick };
    return abtmc_main(argc, argv, &d);
}
