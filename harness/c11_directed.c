/* c11_directed.c -- C11 (sequential half): ABT_self_yield_to /
 * ABT_thread_yield_to, create_to, revive_to, suspend_to, resume_yield_to,
 * resume_suspend_to, exit_to and resume_exit_to run the named ULT next on the
 * calling stream and leave the caller respectively ready in its pool,
 * blocked, or terminated; a suspended ULT does not run until it is resumed
 * and then runs exactly once per resume.  Script interpreter: see c02_ctx.h
 * (same interpreter, reference model and oracles as c02_ctx).
 *
 * The configs enumerate all conforming chains over the directed primitives
 * among the primary ULT and three ULTs, targets never started / already
 * started (initial states), caller and target in the same or in different
 * pools of the stream; further configs mix the directed primitives with
 * yield / suspend / resume / join / scheduler replacement. */
#include "c02_ctx.h"

#define D { PV_DEFAULT, 0, 0, 0 }
#define NONE { 0, 0, 0, 0 }
#define INITS6 "FYS,TAY,SFA,YTS,FFF,SSY"
#define INITS10 "FYS,TAY,SFA,YTS,FFF,SSY,AAA,YYY,TST,ASF"
#define A_MIX (A_DIRECTED | M(OP_YIELD) | M(OP_SUSPEND) | M(OP_RESUME))

static const cfg_t cfgs[] = {
    /* quick */
    { "L3 directed, all units in P0", 1, 3, A_DIRECTED, { 0, 0, 0, 0 },
      { NONE, D, D, D }, INITS10, 0 },
    { "L3 directed, ULTs in P1/P0/P1", 1, 3, A_DIRECTED, { 0, 1, 0, 1 },
      { NONE, D, D, D }, INITS10, 0 },
    { "L2 directed+yield/suspend/resume, ULTs in P1/P1/P1", 1, 2, A_MIX,
      { 0, 1, 1, 1 }, { NONE, D, D, D }, INITS10, 0 },
    /* thorough */
    { "L4 directed, ULTs in P0/P0/P1", 0, 4, A_DIRECTED, { 0, 0, 0, 1 },
      { NONE, D, D, D }, INITS10, 0 },
    { "L4 directed, ULTs in P1/P1/P1", 0, 4, A_DIRECTED, { 0, 1, 1, 1 },
      { NONE, D, D, D }, INITS6, 0 },
    { "L3 directed+yield/suspend/resume, ULTs in P1/P0/P0", 0, 3, A_MIX,
      { 0, 1, 0, 0 }, { NONE, D, D, D }, INITS10, 0 },
    { "L3 full alphabet, ULTs in P1/P1/P0", 0, 3, A_FULL, { 0, 1, 1, 0 },
      { NONE, D, D, D }, INITS6, 0 },
};

static void scenario(int cfg) { c02_scenario(cfgs, cfg); }
static const char *cfg_name(int i) { return cfgs[i].name; }
static int cfg_quick(int i) { return cfgs[i].quick; }

int main(int argc, char **argv)
{
    static abtmc_driver d = { "c11_directed", "C11", ARRAY_LEN(cfgs), cfg_name,
                              scenario, cfg_quick };
    return abtmc_main(argc, argv, &d);
}
