/* c20_config_seq.c -- C20a: ABT_sched_config / ABT_pool_config objects are
 * exact maps from int keys to typed values.
 *
 * kind S (sequential, one controlled thread).  Every history (sequence of
 * set-int / set-double / set-ptr / delete / set-with-invalid-type over a set
 * of 5 keys that collide modulo the 8-entry table, are negative, predefined
 * or extreme) of length <= D is applied to a fresh config object and the
 * object is then compared key by key with a dictionary model (get with type,
 * get of never-used keys, ABT_sched_config_read for idx 0/1), then freed
 * (ledger balance).  Prefixes are histories themselves, so every
 * intermediate state is compared as well.  One execution = one shard (the
 * first three operations modulo 1000) on one ABT_init; histories loop inside.
 */
#include <stdarg.h>
#include <limits.h>
#include "common.h"

enum { O_SCHED, O_POOL };
enum { M_TYPED, M_STRUCT }; /* operation alphabets */

typedef struct {
    const char *name;
    int quick;
    int obj;
    int keyset;
    int mode;
    int depth;
    int use_create_varargs; /* sched only: first ops go through create(...) */
} cfg_t;

#define NKEYS 5
static const int KEYSETS[][NKEYS] = {
    /* 0: bucket 0 x4 (0, 8, -8, 16) + idx 1 (read() covers idx 0 and 1) */
    { 0, 8, -8, 16, 1 },
    /* 1: bucket 4 x4 incl. ABT_sched_basic_freq (-4); -1 = var_end idx */
    { -4, 4, 12, -12, -1 },
    /* 2: the extremes: INT_MAX -> bucket 7, INT_MIN -> bucket 0 */
    { INT_MAX, INT_MIN, -1, 7, 0 },
    /* 3: bucket 6 x4 incl. ABT_pool_config_automatic / sched_config_access
     * (-2) */
    { -2, 6, 14, -10, 1 },
    /* 4: bucket 5 x3 incl. ABT_sched_config_automatic (-3), bucket 0 x2 */
    { -3, 5, -11, 1024, -1024 },
};
static const int ABSENT_PROBES[] = { 24, -16, 2, 1000003, -7 };

static const cfg_t cfgs[] = {
    { "sched typed D5 keys{0,8,-8,16,1}", 1, O_SCHED, 0, M_TYPED, 5, 0 },
    { "sched typed D4 keys{-4,4,12,-12,-1} create(...)", 1, O_SCHED, 1, M_TYPED,
      4, 1 },
    { "pool typed D4 keys{-2,6,14,-10,1}", 1, O_POOL, 3, M_TYPED, 4, 0 },
    { "sched set/delete D7 keys{MAX,MIN,-1,7,0}", 1, O_SCHED, 2, M_STRUCT, 7,
      0 },
    { "pool set/delete D6 keys{0,8,-8,16,1}", 1, O_POOL, 0, M_STRUCT, 6, 0 },
    /* thorough */
    { "pool typed D5 keys{0,8,-8,16,1}", 0, O_POOL, 0, M_TYPED, 5, 0 },
    { "sched typed D6 keys{0,8,-8,16,1} create(...)", 0, O_SCHED, 0, M_TYPED,
      6, 1 },
    { "sched typed D6 keys{-4,4,12,-12,-1}", 0, O_SCHED, 1, M_TYPED, 6, 0 },
    { "sched typed D6 keys{MAX,MIN,-1,7,0}", 0, O_SCHED, 2, M_TYPED, 6, 0 },
    { "sched typed D6 keys{-3,5,-11,1024,-1024}", 0, O_SCHED, 4, M_TYPED, 6,
      1 },
    { "pool typed D6 keys{-2,6,14,-10,1}", 0, O_POOL, 3, M_TYPED, 6, 0 },
    { "pool typed D6 keys{MAX,MIN,-1,7,0}", 0, O_POOL, 2, M_TYPED, 6, 0 },
    { "sched set/delete D8 keys{0,8,-8,16,1}", 0, O_SCHED, 0, M_STRUCT, 8, 0 },
    { "pool set/delete D8 keys{-2,6,14,-10,1}", 0, O_POOL, 3, M_STRUCT, 8, 0 },
};

/* operation kinds */
enum { K_INT, K_DBL, K_PTR, K_DEL, K_BADTYPE };
typedef struct {
    int kind;
    int ki; /* key index */
} op_t;
#define MAXOPS 24
static op_t OPS[MAXOPS];
static int NOPS;

static const cfg_t *C;
static const int *KEYS;

typedef struct {
    int present;
    int type; /* K_INT/K_DBL/K_PTR */
    int vi;
    double vd;
    void *vp;
} ment_t;
static ment_t model[NKEYS];

static long long n_hist, n_calls, n_nontrivial, n_typechg, n_chain_del;
static int max_size_seen;

/* ---- thin wrappers so that sched and pool configs share the code ---- */
static ABT_sched_config sc;
static ABT_pool_config pc;

static int cfg_set(int key, int type, const void *val)
{
    n_calls++;
    if (C->obj == O_SCHED)
        return ABT_sched_config_set(sc, key, (ABT_sched_config_type)type, val);
    return ABT_pool_config_set(pc, key, (ABT_pool_config_type)type, val);
}
static int cfg_get(int key, int *type, void *val)
{
    n_calls++;
    if (C->obj == O_SCHED) {
        ABT_sched_config_type t = (ABT_sched_config_type)0x55;
        int r = ABT_sched_config_get(sc, key, type ? &t : NULL, val);
        if (type)
            *type = (int)t;
        return r;
    } else {
        ABT_pool_config_type t = (ABT_pool_config_type)0x55;
        int r = ABT_pool_config_get(pc, key, type ? &t : NULL, val);
        if (type)
            *type = (int)t;
        return r;
    }
}

static int val_int(int step, int ki) { return (step & 1 ? -1 : 1) * (1000 * (step + 1) + ki); }
static double val_dbl(int step, int ki) { return (step & 1 ? -1.0 : 1.0) * (1000.0 * (step + 1) + ki) + 0.25; }
static void *val_ptr(int step, int ki) { return (void *)(uintptr_t)(0x7f0000000000ull + 0x1000u * (unsigned)(step + 1) + (unsigned)ki); }

static const char *hist_str(const int *h, int len)
{
    static char buf[400];
    int n = 0;
    buf[0] = 0;
    for (int i = 0; i < len && n < 360; i++) {
        static const char *kn[] = { "set-int", "set-double", "set-ptr", "delete",
                                    "set-badtype" };
        n += snprintf(buf + n, sizeof(buf) - (size_t)n, "%s%s(%d)", i ? " " : "",
                      kn[OPS[h[i]].kind], KEYS[OPS[h[i]].ki]);
    }
    return buf;
}

/* typed create(...) with 1 or 2 leading tuples */
#define ARG_0(step, ki) val_int(step, ki)
#define ARG_1(step, ki) val_dbl(step, ki)
#define ARG_2(step, ki) val_ptr(step, ki)
static int create_with(int n, const op_t *o)
{
    ABT_sched_config_var v0 = { 0, ABT_SCHED_CONFIG_INT }, v1 = v0;
    if (n >= 1) {
        v0.idx = KEYS[o[0].ki];
        v0.type = (ABT_sched_config_type)o[0].kind;
    }
    if (n >= 2) {
        v1.idx = KEYS[o[1].ki];
        v1.type = (ABT_sched_config_type)o[1].kind;
    }
    n_calls++;
    if (n == 0)
        return ABT_sched_config_create(&sc, ABT_sched_config_var_end);
#define ONE(t0)                                                                \
    case t0:                                                                   \
        return ABT_sched_config_create(&sc, v0, ARG_##t0(0, o[0].ki),          \
                                       ABT_sched_config_var_end);
#define TWO(t0, t1)                                                            \
    case t0 * 3 + t1:                                                          \
        return ABT_sched_config_create(&sc, v0, ARG_##t0(0, o[0].ki), v1,      \
                                       ARG_##t1(1, o[1].ki),                   \
                                       ABT_sched_config_var_end);
    if (n == 1) {
        switch (o[0].kind) {
            ONE(0) ONE(1) ONE(2)
        }
    } else {
        switch (o[0].kind * 3 + o[1].kind) {
            TWO(0, 0) TWO(0, 1) TWO(0, 2) TWO(1, 0) TWO(1, 1) TWO(1, 2)
            TWO(2, 0) TWO(2, 1) TWO(2, 2)
        }
    }
    return -1;
}

static void model_set(int step, const op_t *o)
{
    ment_t *m = &model[o->ki];
    if (m->present && m->type != o->kind)
        n_typechg++;
    m->present = 1;
    m->type = o->kind;
    m->vi = val_int(step, o->ki);
    m->vd = val_dbl(step, o->ki);
    m->vp = val_ptr(step, o->ki);
}

static int bucket(int key) { return (int)((((long long)key % 8) + 8) % 8); }

static void run_history(const int *h, int len)
{
    const char *on = C->obj == O_SCHED ? "ABT_sched_config" : "ABT_pool_config";
    long live0 = abtmc_ledger_live();
    int r, start = 0, nontrivial = 0;
    memset(model, 0, sizeof(model));
    n_hist++;

    if (C->obj == O_SCHED) {
        int n = 0;
        if (C->use_create_varargs) {
            /* leading set operations with distinct keys, none equal to the
             * terminator idx (-1): documented way to pre-populate */
            while (n < 2 && n < len && OPS[h[n]].kind <= K_PTR &&
                   KEYS[OPS[h[n]].ki] != -1 &&
                   (n == 0 || OPS[h[0]].ki != OPS[h[1]].ki))
                n++;
        }
        op_t o[2];
        for (int i = 0; i < n; i++) {
            o[i] = OPS[h[i]];
            model_set(i, &o[i]);
        }
        sc = ABT_SCHED_CONFIG_NULL;
        r = create_with(n, o);
        start = n;
        abtmc_check(r == ABT_SUCCESS && sc != ABT_SCHED_CONFIG_NULL,
                    "config_create", "ABT_sched_config_create (%d tuples) "
                    "returned %d", n, r);
    } else {
        pc = ABT_POOL_CONFIG_NULL;
        n_calls++;
        r = ABT_pool_config_create(&pc);
        abtmc_check(r == ABT_SUCCESS && pc != ABT_POOL_CONFIG_NULL,
                    "config_create", "ABT_pool_config_create returned %d", r);
    }

    for (int i = start; i < len; i++) {
        const op_t *o = &OPS[h[i]];
        int key = KEYS[o->ki];
        switch (o->kind) {
            case K_INT: {
                int v = val_int(i, o->ki);
                r = cfg_set(key, 0, &v);
                v = 0x0badbad0; /* the object must have copied the value */
                model_set(i, o);
                break;
            }
            case K_DBL: {
                double v = val_dbl(i, o->ki);
                r = cfg_set(key, 1, &v);
                v = 0;
                model_set(i, o);
                break;
            }
            case K_PTR: {
                void *v = val_ptr(i, o->ki);
                r = cfg_set(key, 2, &v);
                v = NULL;
                model_set(i, o);
                break;
            }
            case K_DEL: {
                if (model[o->ki].present) {
                    /* a deletion in a bucket that holds other keys */
                    for (int k = 0; k < NKEYS; k++)
                        if (k != o->ki && model[k].present &&
                            bucket(KEYS[k]) == bucket(key)) {
                            nontrivial = 1;
                            n_chain_del++;
                            break;
                        }
                }
                r = cfg_set(key, 0, NULL);
                model[o->ki].present = 0;
                break;
            }
            default: {
                int v = 5;
                r = cfg_set(key, 7, &v);
                abtmc_check(r == ABT_ERR_INV_ARG, "config_bad_type",
                            "%s_set(key %d, type 7) returned %d, expected "
                            "ABT_ERR_INV_ARG; history: %s", on, key, r,
                            hist_str(h, len));
                r = ABT_SUCCESS; /* map must be unchanged */
                break;
            }
        }
        abtmc_check(r == ABT_SUCCESS, "config_set_error",
                    "%s_set step %d returned %d; history: %s", on, i, r,
                    hist_str(h, len));
    }

    /* ---- compare with the model ---- */
    int size = 0;
    for (int k = 0; k < NKEYS; k++) {
        const ment_t *m = &model[k];
        union {
            int i;
            double d;
            void *p;
            unsigned char b[16];
        } buf;
        memset(&buf, 0xA5, sizeof(buf));
        int type = -1;
        r = cfg_get(KEYS[k], &type, &buf);
        if (!m->present) {
            abtmc_check(r == ABT_ERR_INV_ARG, "config_ghost_key",
                        "%s_get(key %d) returned %d but the key is not in the "
                        "map (expected ABT_ERR_INV_ARG); history: %s", on,
                        KEYS[k], r, hist_str(h, len));
            continue;
        }
        size++;
        abtmc_check(r == ABT_SUCCESS, "config_lost_key",
                    "%s_get(key %d) returned %d but the key was set; "
                    "history: %s", on, KEYS[k], r, hist_str(h, len));
        abtmc_check(type == m->type, "config_wrong_type",
                    "%s_get(key %d) type %d, expected %d; history: %s", on,
                    KEYS[k], type, m->type, hist_str(h, len));
        int okv, width;
        if (m->type == K_INT) {
            okv = buf.i == m->vi;
            width = sizeof(int);
        } else if (m->type == K_DBL) {
            okv = memcmp(&buf.d, &m->vd, sizeof(double)) == 0;
            width = sizeof(double);
        } else {
            okv = buf.p == m->vp;
            width = sizeof(void *);
        }
        abtmc_check(okv, "config_wrong_value",
                    "%s_get(key %d) returned a wrong value (type %d, int view "
                    "%d, expected int view %d); history: %s", on, KEYS[k],
                    m->type, buf.i, m->vi, hist_str(h, len));
        for (int b = width; b < 16; b++)
            abtmc_check(buf.b[b] == 0xA5, "config_get_overrun",
                        "%s_get(key %d) of a %d-byte value wrote byte %d; "
                        "history: %s", on, KEYS[k], width, b, hist_str(h, len));
        /* NULL type / NULL val are allowed */
        if (k == (len % NKEYS)) {
            memset(&buf, 0xA5, sizeof(buf));
            r = cfg_get(KEYS[k], NULL, &buf);
            abtmc_check(r == ABT_SUCCESS &&
                            (m->type == K_INT   ? buf.i == m->vi
                             : m->type == K_DBL ? memcmp(&buf.d, &m->vd, 8) == 0
                                                : buf.p == m->vp),
                        "config_wrong_value",
                        "%s_get(key %d, type=NULL) wrong; history: %s", on,
                        KEYS[k], hist_str(h, len));
            type = -1;
            r = cfg_get(KEYS[k], &type, NULL);
            abtmc_check(r == ABT_SUCCESS && type == m->type, "config_wrong_type",
                        "%s_get(key %d, val=NULL) type %d; history: %s", on,
                        KEYS[k], type, hist_str(h, len));
        }
    }
    /* keys never used must not exist (one probe per history, rotating) */
    {
        int pk = ABSENT_PROBES[n_hist % ARRAY_LEN(ABSENT_PROBES)];
        int type = -1;
        long long dummy[2];
        r = cfg_get(pk, &type, dummy);
        abtmc_check(r == ABT_ERR_INV_ARG, "config_ghost_key",
                    "%s_get(never-set key %d) returned %d; history: %s", on, pk,
                    r, hist_str(h, len));
    }
    /* ABT_sched_config_read: idx 0 and 1, third pointer NULL */
    if (C->obj == O_SCHED) {
        union {
            int i;
            double d;
            void *p;
            unsigned char b[16];
        } rb[2];
        memset(rb, 0xA5, sizeof(rb));
        n_calls++;
        r = ABT_sched_config_read(sc, 3, &rb[0], &rb[1], NULL);
        abtmc_check(r == ABT_SUCCESS, "config_read",
                    "ABT_sched_config_read returned %d; history: %s", r,
                    hist_str(h, len));
        for (int idx = 0; idx < 2; idx++) {
            const ment_t *m = NULL;
            for (int k = 0; k < NKEYS; k++)
                if (KEYS[k] == idx && model[k].present)
                    m = &model[k];
            int width = 0, okv = 1;
            if (m) {
                if (m->type == K_INT) {
                    okv = rb[idx].i == m->vi;
                    width = sizeof(int);
                } else if (m->type == K_DBL) {
                    okv = memcmp(&rb[idx].d, &m->vd, 8) == 0;
                    width = 8;
                } else {
                    okv = rb[idx].p == m->vp;
                    width = 8;
                }
            }
            abtmc_check(okv, "config_read",
                        "ABT_sched_config_read gave a wrong value for idx %d; "
                        "history: %s", idx, hist_str(h, len));
            for (int b = width; b < 16; b++)
                abtmc_check(rb[idx].b[b] == 0xA5, "config_read",
                            "ABT_sched_config_read wrote byte %d of the "
                            "argument for idx %d (%s); history: %s", b, idx,
                            m ? "value is narrower" : "no value associated",
                            hist_str(h, len));
        }
    }

    /* ---- free ---- */
    n_calls++;
    if (C->obj == O_SCHED) {
        r = ABT_sched_config_free(&sc);
        abtmc_check(r == ABT_SUCCESS && sc == ABT_SCHED_CONFIG_NULL,
                    "config_free", "ABT_sched_config_free returned %d", r);
    } else {
        r = ABT_pool_config_free(&pc);
        abtmc_check(r == ABT_SUCCESS && pc == ABT_POOL_CONFIG_NULL,
                    "config_free", "ABT_pool_config_free returned %d", r);
    }
    abtmc_check(abtmc_ledger_live() == live0, "config_leak",
                "%ld allocations left after %s_free; history: %s",
                abtmc_ledger_live() - live0, on, hist_str(h, len));
    if (size > max_size_seen)
        max_size_seen = size;
    if (nontrivial)
        n_nontrivial++;
}

/* NULL-handle behaviour and the documented example calls (once per config) */
static void one_off(void)
{
    int v = 1, t;
    if (C->obj == O_SCHED) {
        ABT_sched_config n = ABT_SCHED_CONFIG_NULL;
        ABT_sched_config_type ty;
        abtmc_check(ABT_sched_config_set(n, 1, ABT_SCHED_CONFIG_INT, &v) ==
                        ABT_ERR_INV_SCHED_CONFIG,
                    "config_null_handle", "set on ABT_SCHED_CONFIG_NULL");
        abtmc_check(ABT_sched_config_get(n, 1, &ty, &v) ==
                        ABT_ERR_INV_SCHED_CONFIG,
                    "config_null_handle", "get on ABT_SCHED_CONFIG_NULL");
        abtmc_check(ABT_sched_config_read(n, 1, &v) == ABT_ERR_INV_SCHED_CONFIG,
                    "config_null_handle", "read on ABT_SCHED_CONFIG_NULL");
        abtmc_check(ABT_sched_config_free(&n) == ABT_ERR_INV_SCHED_CONFIG,
                    "config_null_handle", "free of ABT_SCHED_CONFIG_NULL");
        /* the predefined variables through create(...) as documented */
        ABT_sched_config c;
        OK(ABT_sched_config_create(&c, ABT_sched_basic_freq, 5,
                                   ABT_sched_config_automatic, (int)ABT_TRUE,
                                   ABT_sched_config_var_end));
        int freq = 0, aut = 0;
        OK(ABT_sched_config_get(c, ABT_sched_basic_freq.idx, &ty, &freq));
        abtmc_check(freq == 5 && ty == ABT_SCHED_CONFIG_INT, "config_wrong_value",
                    "ABT_sched_basic_freq reads %d", freq);
        OK(ABT_sched_config_get(c, ABT_sched_config_automatic.idx, &ty, &aut));
        abtmc_check(aut == (int)ABT_TRUE, "config_wrong_value",
                    "ABT_sched_config_automatic reads %d", aut);
        /* read with 0 variables is a no-op */
        OK(ABT_sched_config_read(c, 0));
        /* documentation says ABT_ERR_INV_ARG for a negative count; recorded
         * as an observation only (outside the map semantics of C20) */
        int rn = ABT_sched_config_read(c, -1);
        abtmc_stat("read_negative_returns_success", rn == ABT_SUCCESS);
        OK(ABT_sched_config_free(&c));
    } else {
        ABT_pool_config n = ABT_POOL_CONFIG_NULL;
        ABT_pool_config_type ty;
        abtmc_check(ABT_pool_config_set(n, 1, ABT_POOL_CONFIG_INT, &v) ==
                        ABT_ERR_INV_POOL_CONFIG,
                    "config_null_handle", "set on ABT_POOL_CONFIG_NULL");
        abtmc_check(ABT_pool_config_get(n, 1, &ty, &v) ==
                        ABT_ERR_INV_POOL_CONFIG,
                    "config_null_handle", "get on ABT_POOL_CONFIG_NULL");
        abtmc_check(ABT_pool_config_free(&n) == ABT_ERR_INV_POOL_CONFIG,
                    "config_null_handle", "free of ABT_POOL_CONFIG_NULL");
        ABT_pool_config c;
        OK(ABT_pool_config_create(&c));
        v = (int)ABT_TRUE;
        OK(ABT_pool_config_set(c, ABT_pool_config_automatic.key,
                               ABT_pool_config_automatic.type, &v));
        t = 0;
        OK(ABT_pool_config_get(c, ABT_pool_config_automatic.key, &ty, &t));
        abtmc_check(t == (int)ABT_TRUE && ty == ABT_POOL_CONFIG_INT,
                    "config_wrong_value", "ABT_pool_config_automatic reads %d",
                    t);
        OK(ABT_pool_config_free(&c));
    }
}

#define NSHARD 1000

static void scenario(int cfg)
{
    C = &cfgs[cfg];
    KEYS = KEYSETS[C->keyset];
    NOPS = 0;
    for (int ki = 0; ki < NKEYS; ki++) {
        OPS[NOPS++] = (op_t){ K_INT, ki };
        if (C->mode == M_TYPED) {
            OPS[NOPS++] = (op_t){ K_DBL, ki };
            OPS[NOPS++] = (op_t){ K_PTR, ki };
        }
        OPS[NOPS++] = (op_t){ K_DEL, ki };
    }
    if (C->mode == M_TYPED)
        OPS[NOPS++] = (op_t){ K_BADTYPE, 0 };

    h_init();
    abtmc_window_begin();
    int a = abtmc_choose(10, ABTMC_B_FREE);
    int b = abtmc_choose(10, ABTMC_B_FREE);
    int c = abtmc_choose(10, ABTMC_B_FREE);
    abtmc_window_end();
    int shard = (a * 10 + b) * 10 + c;

    int h[16] = { 0 };
    if (shard == 0) {
        /* NULL handles, documented examples, histories of length 0, 1, 2 */
        one_off();
        run_history(h, 0);
        for (h[0] = 0; h[0] < NOPS; h[0]++) {
            run_history(h, 1);
            for (h[1] = 0; h[1] < NOPS; h[1]++)
                run_history(h, 2);
        }
    }
    for (int tr = shard; tr < NOPS * NOPS * NOPS; tr += NSHARD) {
        h[0] = tr / (NOPS * NOPS);
        h[1] = tr / NOPS % NOPS;
        h[2] = tr % NOPS;
        for (int len = 3; len <= C->depth; len++) {
            for (int i = 3; i < len; i++)
                h[i] = 0;
            for (;;) {
                run_history(h, len);
                int i = len - 1;
                while (i >= 3 && ++h[i] == NOPS)
                    h[i--] = 0;
                if (i < 3)
                    break;
            }
        }
    }

    abtmc_stat("cases", n_hist);
    abtmc_stat("distinct", n_hist);
    abtmc_stat("ops", n_calls);
    abtmc_stat("nontrivial", n_nontrivial);
    abtmc_stat("cfg_histories", n_hist);
    abtmc_stat("cfg_chain_deletes", n_chain_del);
    abtmc_stat("cfg_type_changes", n_typechg);
    abtmc_observe("max_map_size=%d", max_size_seen);
    h_finalize();
    abtmc_check(abtmc_ledger_live() == 0, "config_leak",
                "%ld allocations live after ABT_finalize", abtmc_ledger_live());
}

static const char *cfg_name(int i) { return cfgs[i].name; }
static int cfg_quick(int i) { return cfgs[i].quick; }

int main(int argc, char **argv)
{
    static abtmc_driver d = { "c20_config_seq", "C20", ARRAY_LEN(cfgs), cfg_name,
                              scenario, cfg_quick };
    return abtmc_main(argc, argv, &d);
}
