/* c14_userpool.c -- C14: user-defined pools see a consistent unit <-> work-unit
 * mapping.
 *
 * Two kinds of user pools are used: pools built with ABT_pool_user_def_create()
 * + ABT_pool_create() and one pool built from the legacy ABT_pool_def.  Their
 * create_unit hands out ABT_unit values from a static arena, at addresses
 * chosen so that the runtime's unit hash puts them all into one bucket (or into
 * different buckets).  Every callback checks the unit it is given against the
 * driver's own record of the unit's life (never created / live / freed): a freed
 * unit is poisoned and must never show up again.
 *
 * S configs: one stream, every history of bounded depth over create / move
 * between pools / failed move / migrate request / yield / revive-or-free.
 * I configs: the primary ULT, a second stream serving a user pool and one or
 * two external threads create, move, migrate, run and free units of the same
 * hash bucket while an observer translates a parked live unit back and forth. */
#include "abti.h"
#include "common.h"

/* ------------------------------------------------------------------ arena ---*/
#define NSLOT 48
static char arena[1 << 18] __attribute__((aligned(64)));
static ABT_unit slot_addr[NSLOT];
enum { U_UNUSED, U_LIVE, U_FREED };
typedef struct {
    int state;
    ABT_thread thread;
    int pool;     /* user pool index */
    int queued;   /* currently inside the pool's queue */
} urec_t;
static urec_t urec[NSLOT];
static int nslot;                 /* slots handed out so far */
static int recycle_units;         /* config: a freed unit address is handed out
                                     again (LIFO), as a real allocator would */
static int freed_stack[NSLOT], nfreed_stack;
static int n_create, n_free;      /* callback counters */
static int fail_next_create;      /* next create_unit returns ABT_UNIT_NULL */
static int create_failed;
static ABT_thread mig_watch = ABT_THREAD_NULL; /* see I_MIGRATE */
static int mig_at = -1;  /* slices the migrating ULT had started when its unit in
                            the target pool was created */
static const int *mig_watch_started;
static char logbuf[400];
static int loglen;

static void logev(char c, int s)
{
    if (loglen < (int)sizeof(logbuf) - 8)
        loglen += snprintf(logbuf + loglen, sizeof(logbuf) - loglen, "%c%d ", c, s);
}

/* the runtime's hash (src/unit.c unit_get_hash_index) */
static size_t uhash(ABT_unit unit)
{
    size_t val = (uintptr_t)unit;
    size_t base_val = val >> 3;
#if ABTI_UNIT_HASH_TABLE_SIZE_EXP <= 14
    base_val += val >> (ABTI_UNIT_HASH_TABLE_SIZE_EXP + 3);
#endif
#if ABTI_UNIT_HASH_TABLE_SIZE_EXP <= 9
    base_val += val >> (ABTI_UNIT_HASH_TABLE_SIZE_EXP * 2 + 3);
#endif
    return base_val & (ABTI_UNIT_HASH_TABLE_SIZE - 1);
}

static void arena_init(int collide)
{
    int n = 0;
    size_t want = 0;
    for (size_t off = 64; off + 8 <= sizeof(arena) && n < NSLOT; off += 8) {
        ABT_unit u = (ABT_unit)(arena + off);
        if (collide) {
            if (n == 0)
                want = uhash(u);
            else if (uhash(u) != want)
                continue;
        }
        slot_addr[n++] = u;
    }
    abtmc_check(n == NSLOT, "harness", "arena too small: %d slots", n);
}

static int slot_of(ABT_unit u, const char *where)
{
    for (int i = 0; i < nslot; i++)
        if (slot_addr[i] == u)
            return i;
    abtmc_check_fail("alien_unit", "%s: runtime passed unit %p which no "
                     "create_unit ever returned (log: %s)", where, (void *)u,
                     logbuf);
    return -1;
}

static int live_slot(ABT_unit u, const char *where)
{
    int s = slot_of(u, where);
    abtmc_check(urec[s].state == U_LIVE, "poisoned_unit_used",
                "%s: unit #%d was already freed by free_unit (log: %s)", where, s,
                logbuf);
    return s;
}

/* ------------------------------------------------------------- user pools ---*/
enum { POL_FIFO, POL_LIFO, POL_CHOOSE };
#define NUPOOL 3
#define QCAP 12
typedef struct {
    ABT_pool handle;
    int q[QCAP], n;
    int policy;
    int want; /* the driver asks the next pop to return this slot (-1: policy) */
} upool_t;
static upool_t UP[NUPOOL];
static int legacy_pool = -1;  /* index of the pool built from ABT_pool_def */

static int pool_index(ABT_pool pool)
{
    for (int i = 0; i < NUPOOL; i++)
        if (UP[i].handle == pool)
            return i;
    abtmc_check_fail("harness", "callback for an unknown pool");
    return -1;
}

static ABT_unit up_create(int p, ABT_thread thread)
{
    abtmc_check(thread != ABT_THREAD_NULL && thread != ABT_TASK_NULL,
                "create_unit_null_thread", "create_unit called with a null handle");
    if (fail_next_create) {
        fail_next_create = 0;
        create_failed = 1;
        logev('x', p);
        return ABT_UNIT_NULL;
    }
    for (int i = 0; i < nslot; i++)
        abtmc_check(!(urec[i].state == U_LIVE && urec[i].thread == thread &&
                      urec[i].pool == p),
                    "double_create_unit",
                    "create_unit called for a work unit that already has live "
                    "unit #%d in the same pool %d (log: %s)", i, p, logbuf);
    abtmc_check(nslot < NSLOT, "harness", "out of unit slots");
    if (mig_watch != ABT_THREAD_NULL && thread == mig_watch && p == 1)
        mig_at = mig_watch_started ? *mig_watch_started : 0;
    int s;
    if (recycle_units && nfreed_stack > 0)
        s = freed_stack[--nfreed_stack]; /* same address, new association */
    else
        s = nslot++;
    urec[s].state = U_LIVE;
    urec[s].thread = thread;
    urec[s].pool = p;
    urec[s].queued = 0;
    n_create++;
    logev('c', s);
    return slot_addr[s];
}

static void up_free_unit(int p, ABT_unit unit)
{
    abtmc_check(unit != ABT_UNIT_NULL, "free_unit_null", "free_unit(ABT_UNIT_NULL)");
    int s = slot_of(unit, "free_unit");
    abtmc_check(urec[s].state == U_LIVE, "double_free_unit",
                "free_unit called twice for unit #%d (log: %s)", s, logbuf);
    abtmc_check(p < 0 || urec[s].pool == p, "free_unit_wrong_pool",
                "free_unit of unit #%d (pool %d) through pool %d", s, urec[s].pool,
                p);
    abtmc_check(!urec[s].queued, "free_unit_in_pool",
                "free_unit of unit #%d while it is inside its pool (log: %s)", s,
                logbuf);
    urec[s].state = U_FREED;
    if (recycle_units)
        freed_stack[nfreed_stack++] = s;
    n_free++;
    logev('f', s);
}

static void up_push(int p, ABT_unit unit)
{
    int s = live_slot(unit, "push");
    abtmc_check(urec[s].pool == p, "foreign_unit_pushed",
                "unit #%d of pool %d pushed into pool %d (log: %s)", s,
                urec[s].pool, p, logbuf);
    abtmc_check(!urec[s].queued, "double_push",
                "unit #%d pushed while already inside the pool (log: %s)", s,
                logbuf);
    abtmc_check(UP[p].n < QCAP, "harness", "user pool full");
    UP[p].q[UP[p].n++] = s;
    urec[s].queued = 1;
    logev('p', s);
}

static int up_pop(int p)
{
    upool_t *P = &UP[p];
    if (P->n == 0)
        return -1;
    int k = 0;
    if (P->want >= 0) {
        k = -1;
        for (int i = 0; i < P->n; i++)
            if (P->q[i] == P->want)
                k = i;
        P->want = -1;
        if (k < 0)
            return -1;
    } else if (P->policy == POL_LIFO) {
        k = P->n - 1;
    } else if (P->policy == POL_CHOOSE && P->n > 1) {
        k = abtmc_choose(P->n, ABTMC_B_E);
    }
    int s = P->q[k];
    memmove(&P->q[k], &P->q[k + 1], sizeof(int) * (P->n - k - 1));
    P->n--;
    abtmc_check(urec[s].state == U_LIVE && urec[s].queued, "poisoned_unit_used",
                "pool %d holds unit #%d that was freed (log: %s)", p, s, logbuf);
    urec[s].queued = 0;
    logev('o', s);
    return s;
}

/* new-style callbacks */
static ABT_unit n_create_unit(ABT_pool pool, ABT_thread t)
{
    return up_create(pool_index(pool), t);
}
static void n_free_unit(ABT_pool pool, ABT_unit u) { up_free_unit(pool_index(pool), u); }
static ABT_bool n_is_empty(ABT_pool pool)
{
    return UP[pool_index(pool)].n == 0 ? ABT_TRUE : ABT_FALSE;
}
static ABT_thread n_pop(ABT_pool pool, ABT_pool_context ctx)
{
    (void)ctx;
    int s = up_pop(pool_index(pool));
    return s < 0 ? ABT_THREAD_NULL : urec[s].thread;
}
static void n_push(ABT_pool pool, ABT_unit u, ABT_pool_context ctx)
{
    (void)ctx;
    up_push(pool_index(pool), u);
}
static size_t n_get_size(ABT_pool pool) { return (size_t)UP[pool_index(pool)].n; }
static void n_free_pool(ABT_pool pool)
{
    int p = pool_index(pool);
    abtmc_check(UP[p].n == 0, "pool_freed_nonempty", "pool %d freed with %d units",
                p, UP[p].n);
}
/* legacy callbacks (no pool argument for the unit functions) */
static ABT_unit l_create(ABT_thread t) { return up_create(legacy_pool, t); }
static void l_free(ABT_unit *pu) { up_free_unit(legacy_pool, *pu); }
static ABT_bool l_is_in_pool(ABT_unit u)
{
    int s = live_slot(u, "u_is_in_pool");
    return urec[s].queued ? ABT_TRUE : ABT_FALSE;
}
static size_t l_get_size(ABT_pool pool) { return (size_t)UP[pool_index(pool)].n; }
static void l_push(ABT_pool pool, ABT_unit u) { up_push(pool_index(pool), u); }
static ABT_unit l_pop(ABT_pool pool)
{
    int s = up_pop(pool_index(pool));
    return s < 0 ? ABT_UNIT_NULL : slot_addr[s];
}
static int l_free_pool(ABT_pool pool)
{
    n_free_pool(pool);
    return ABT_SUCCESS;
}

static void make_new_pool(int p, int policy)
{
    ABT_pool_user_def def;
    OK(ABT_pool_user_def_create(n_create_unit, n_free_unit, n_is_empty, n_pop,
                                n_push, &def));
    OK(ABT_pool_user_def_set_get_size(def, n_get_size));
    OK(ABT_pool_user_def_set_free(def, n_free_pool));
    UP[p].policy = policy;
    UP[p].n = 0;
    UP[p].want = -1;
    /* the handle is needed by callbacks only after creation */
    OK(ABT_pool_create(def, ABT_POOL_CONFIG_NULL, &UP[p].handle));
    OK(ABT_pool_user_def_free(&def));
}

static void make_legacy_pool(int p, int policy)
{
    ABT_pool_def def;
    memset(&def, 0, sizeof(def));
    def.access = ABT_POOL_ACCESS_MPMC;
    def.u_create_from_thread = l_create;
    def.u_free = l_free;
    def.u_is_in_pool = l_is_in_pool;
    def.p_get_size = l_get_size;
    def.p_push = l_push;
    def.p_pop = l_pop;
    def.p_free = l_free_pool;
    UP[p].policy = policy;
    UP[p].n = 0;
    UP[p].want = -1;
    legacy_pool = p;
    OK(ABT_pool_create(&def, ABT_POOL_CONFIG_NULL, &UP[p].handle));
}

/* ------------------------------------------------- white box: the hash table */
typedef struct u2t {
    void *unit;
    void *p_thread;
    struct u2t *p_next;
} u2t; /* layout of unit_to_thread in src/unit.c */

static int mapped_entries(int *maxchain)
{
    ABTI_global *g = ABTI_global_get_global();
    int live = 0, mc = 0;
    for (size_t i = 0; i < ABTI_UNIT_HASH_TABLE_SIZE; i++) {
        int chain = 0;
        for (u2t *e = (u2t *)g->unit_to_thread_entires[i].list.val.val; e;
             e = e->p_next) {
            chain++;
            if (e->unit != (void *)ABT_UNIT_NULL)
                live++;
        }
        if (chain > mc)
            mc = chain;
    }
    if (maxchain)
        *maxchain = mc;
    return live;
}

static int live_units(void)
{
    int n = 0;
    for (int i = 0; i < nslot; i++)
        n += urec[i].state == U_LIVE;
    return n;
}

/* translation of a live work unit: handle -> unit -> handle */
static void check_translation(ABT_thread t, int user_pool, const char *when)
{
    ABT_unit u = ABT_UNIT_NULL;
    OK(ABT_thread_get_unit(t, &u));
    abtmc_check(u != ABT_UNIT_NULL, "translation", "%s: get_unit gave NULL", when);
    if (user_pool >= 0) {
        int s = live_slot(u, "ABT_thread_get_unit");
        abtmc_check(urec[s].thread == t && urec[s].pool == user_pool,
                    "translation",
                    "%s: ABT_thread_get_unit returned unit #%d which create_unit "
                    "made for another work unit / pool (%d, expected pool %d)",
                    when, s, urec[s].pool, user_pool);
    } else {
        for (int i = 0; i < nslot; i++)
            abtmc_check(slot_addr[i] != u, "translation",
                        "%s: work unit in a built-in pool still reports user "
                        "unit #%d", when, i);
    }
    ABT_thread back = ABT_THREAD_NULL;
    OK(ABT_unit_get_thread(u, &back));
    abtmc_check(back == t, "translation",
                "%s: ABT_unit_get_thread(ABT_thread_get_unit(t)) = %p, not t = %p",
                when, (void *)back, (void *)t);
}

/* ------------------------------------------------------------- work units ---*/
#define NW 6
static ABT_thread W[NW];
static int wkind[NW];            /* 0 named yielding ULT, 1 named tasklet, 2 unnamed ULT */
static int wstart[NW], wdone[NW], winc[NW];
static int wyields[NW];
static int nw;
static char ranon[NW + 1];
static int go_flag;              /* hooked: set after the migration request */
static int wpoll[NW];            /* unit first polls go_flag, yielding */
static int wslices[NW];          /* yields done so far */

static void wbody(int id, void *arg)
{
    abtmc_check(arg == (void *)(uintptr_t)(0xC14000 + id), "wrong_argument",
                "work unit %d got argument %p", id, arg);
    abtmc_check(wstart[id] == wdone[id] && wstart[id] < winc[id], "started_twice",
                "work unit %d entered again (starts=%d completions=%d "
                "incarnations=%d)", id, wstart[id], wdone[id], winc[id]);
    wstart[id]++;
    int rank = -1;
    ABT_xstream_self_rank(&rank);
    ranon[id] = (char)('0' + rank);
    if (wpoll[id])
        while (!abtmc_load(&go_flag)) {
            wslices[id] = 1;
            OK(ABT_thread_yield());
        }
    for (int y = 0; y < wyields[id]; y++) {
        wslices[id] = 2 + y;
        OK(ABT_thread_yield());
    }
    wdone[id]++;
}
#define WFN(n) static void wfn##n(void *a) { wbody(n, a); }
WFN(0) WFN(1) WFN(2) WFN(3) WFN(4) WFN(5)
static void (*const wfns[NW])(void *) = { wfn0, wfn1, wfn2, wfn3, wfn4, wfn5 };
#define WARG(id) ((void *)(uintptr_t)(0xC14000 + (id)))

/* kind: 0 named ULT, 1 named tasklet, 2 unnamed ULT, 3 unnamed tasklet */
static int new_work_unit(ABT_pool pool, int kind, int yields)
{
    abtmc_check(nw < NW, "harness", "too many work units");
    int id = nw++;
    wkind[id] = kind;
    wyields[id] = (kind == 0 || kind == 2) ? yields : 0;
    winc[id] = 1;
    W[id] = ABT_THREAD_NULL;
    switch (kind) {
        case 0:
            OK(ABT_thread_create(pool, wfns[id], WARG(id), ABT_THREAD_ATTR_NULL,
                                 &W[id]));
            break;
        case 1:
            OK(ABT_task_create(pool, wfns[id], WARG(id), &W[id]));
            break;
        case 2:
            OK(ABT_thread_create(pool, wfns[id], WARG(id), ABT_THREAD_ATTR_NULL,
                                 NULL));
            break;
        default:
            OK(ABT_task_create(pool, wfns[id], WARG(id), NULL));
            break;
    }
    return id;
}

/* ----------------------------------------------------------------- configs --*/
enum { M_SEQ, M_CONC };
enum { I_CREATE_FREE, I_EXT_CREATE, I_EXT_MOVE, I_MIGRATE, I_FOUR, I_MIXED };
typedef struct {
    const char *name;
    int quick;
    int mode;
    int depth;     /* M_SEQ */
    int icase;     /* M_CONC */
    int collide;
    int policy;
    int served_legacy; /* M_CONC: the served pool is the legacy-def pool */
    int recycle;       /* freed unit addresses are reused */
} cfg_t;

static const cfg_t cfgs[] = {
    { "S depth4: histories over create/move/fail/migrate/yield/revive, one bucket, "
      "FIFO pop", 1, M_SEQ, 4, 0, 1, POL_FIFO, 0 },
    { "I: primary creates+frees in served pool (new API) | ES1 runs | X translates "
      "parked unit", 1, M_CONC, 0, I_CREATE_FREE, 1, POL_FIFO, 0 },
    { "I: X creates unnamed units in served legacy-def pool | ES1 runs (pop "
      "translates) | primary translates parked unit", 1, M_CONC, 0, I_EXT_CREATE,
      1, POL_LIFO, 1 },
    { "I: X creates in parking pool, moves it into served pool, frees | ES1 runs | "
      "primary creates and translates", 1, M_CONC, 0, I_EXT_MOVE, 1, POL_FIFO, 0 },
    { "I: primary requests migration of a yielding ULT between two served user "
      "pools | ES1 runs | X translates", 1, M_CONC, 0, I_MIGRATE, 1, POL_FIFO, 0 },
    { "I: mixed kinds, served legacy-def pool, pop index chosen (E)", 1, M_CONC, 0,
      I_MIXED, 1, POL_CHOOSE, 1 },
    { "I: X creates/moves/frees | primary creates and translates; freed unit "
      "addresses are recycled", 1, M_CONC, 0, I_EXT_MOVE, 1, POL_FIFO, 0, 1 },
    { "I: X creates/moves/frees | primary creates into the served legacy-def pool "
      "(pop translates unit->thread); unit addresses recycled", 1, M_CONC, 0,
      I_EXT_MOVE, 1, POL_FIFO, 1, 1 },
    /* thorough only */
    { "I: primary creates+frees | ES1 | X creates | second X translates (4 "
      "threads); unit addresses recycled", 0, M_CONC, 0, I_FOUR, 1, POL_FIFO, 0, 1 },
    { "I: primary creates+frees in served legacy-def pool | X translates; unit "
      "addresses recycled", 0, M_CONC, 0, I_CREATE_FREE, 1, POL_LIFO, 1, 1 },
    { "S depth4: one bucket, FIFO pop, unit addresses recycled", 0, M_SEQ, 4, 0, 1,
      POL_FIFO, 0, 1 },
    { "S depth5: one bucket, FIFO pop", 0, M_SEQ, 5, 0, 1, POL_FIFO, 0 },
    { "S depth5: one bucket, LIFO pop", 0, M_SEQ, 5, 0, 1, POL_LIFO, 0 },
    { "S depth4: one bucket, pop index chosen (E)", 0, M_SEQ, 4, 0, 1, POL_CHOOSE,
      0 },
    { "S depth4: distinct buckets, LIFO pop", 0, M_SEQ, 4, 0, 0, POL_LIFO, 0 },
    { "I: primary creates+frees | ES1 | X creates | second X translates (4 "
      "threads)", 0, M_CONC, 0, I_FOUR, 1, POL_FIFO, 0 },
    { "I: primary creates+frees in served legacy-def pool | ES1 | X translates", 0,
      M_CONC, 0, I_CREATE_FREE, 1, POL_LIFO, 1 },
    { "I: X creates unnamed units in served pool (new API), distinct buckets", 0,
      M_CONC, 0, I_EXT_CREATE, 0, POL_FIFO, 0 },
    { "I: X moves parking->served legacy-def pool, frees | primary creates and "
      "translates", 0,
      M_CONC, 0, I_EXT_MOVE, 1, POL_LIFO, 1 },
    { "I: migration between served pools (legacy-def source), LIFO", 0, M_CONC, 0,
      I_MIGRATE, 1, POL_LIFO, 1 },
    { "I: mixed kinds, served pool (new API), pop index chosen (E)", 0, M_CONC, 0,
      I_MIXED, 1, POL_CHOOSE, 0 },
};
static const cfg_t *C;

/* =========================================================== S: histories ===*/
enum { PA, PL, PB, NPOOL };       /* UA (new API), UL (legacy), B (built-in) */
static ABT_pool POOLS[NPOOL];
static int wpool[NW];             /* model: pool of each named work unit */
static int wfreed[NW];
static int wmig[NW];              /* pending migration target or -1 */
static int wrevived[NW];

/* The primary stream runs a user-defined round-robin scheduler: one unit from
 * every pool per pass.  (BASIC always rescans from its first pool, so a primary
 * ULT that yields -- e.g. inside the yield-based join of a tasklet -- would be
 * popped again at once and units in the later pools would starve.) */
static int rr_init(ABT_sched sched, ABT_sched_config config)
{
    (void)sched;
    (void)config;
    return ABT_SUCCESS;
}
static void rr_run(ABT_sched sched)
{
    ABT_pool pools[4];
    int np = 0;
    OK(ABT_sched_get_num_pools(sched, &np));
    OK(ABT_sched_get_pools(sched, np, 0, pools));
    for (;;) {
        for (int p = 0; p < np; p++) {
            ABT_thread t = ABT_THREAD_NULL;
            OK(ABT_pool_pop_thread(pools[p], &t));
            if (t != ABT_THREAD_NULL)
                OK(ABT_self_schedule(t, ABT_POOL_NULL));
        }
        OK(ABT_xstream_check_events(sched));
        ABT_bool stop = ABT_FALSE;
        OK(ABT_sched_has_to_stop(sched, &stop));
        if (stop == ABT_TRUE)
            break;
    }
}
static int rr_free(ABT_sched sched)
{
    (void)sched;
    return ABT_SUCCESS;
}

static int pool_id(ABT_pool p)
{
    for (int i = 0; i < NPOOL; i++)
        if (POOLS[i] == p)
            return i;
    return -1;
}
static int is_user(int p) { return p == PA || p == PL; }
static int user_index(int p) { return p == PA ? 0 : 1; } /* index into UP[] */

static int oldest_named(void)
{
    for (int i = 0; i < nw; i++)
        if (wkind[i] < 2 && !wfreed[i] && wdone[i] < winc[i])
            return i;
    return -1;
}
static int newest_named_ult(void)
{
    for (int i = nw - 1; i >= 0; i--)
        if (wkind[i] == 0 && !wfreed[i] && wdone[i] < winc[i])
            return i;
    return -1;
}

/* take work unit w out of the pool it is queued in */
static void take_out(int w)
{
    int p = wpool[w];
    ABT_thread t = ABT_THREAD_NULL;
    if (is_user(p)) {
        int s = -1;
        for (int i = 0; i < nslot; i++)
            if (urec[i].state == U_LIVE && urec[i].thread == W[w] &&
                urec[i].pool == user_index(p))
                s = i;
        abtmc_check(s >= 0, "unit_accounting", "work unit %d has no live unit", w);
        UP[user_index(p)].want = s; /* pop policy: the unit the driver asks for */
        OK(ABT_pool_pop_thread(POOLS[p], &t));
    } else {
        for (int guard = 0; guard < 2 * NW; guard++) {
            OK(ABT_pool_pop_thread(POOLS[p], &t));
            if (t == W[w] || t == ABT_THREAD_NULL)
                break;
            OK(ABT_pool_push_thread(POOLS[p], t));
        }
    }
    abtmc_check(t == W[w], "lost_from_pool",
                "work unit %d is not in pool %d where it was pushed (popped %p)",
                w, p, (void *)t);
}

static void seq_check(const char *when)
{
    int expect_live = 0;
    for (int w = 0; w < nw; w++) {
        if (wkind[w] >= 2) {
            /* unnamed: stays where it was created until it has run */
            if (wdone[w] < winc[w] && is_user(wpool[w]))
                expect_live++;
            continue;
        }
        if (wfreed[w])
            continue;
        ABT_pool lp;
        OK(ABT_thread_get_last_pool(W[w], &lp));
        int real = pool_id(lp);
        if (wmig[w] >= 0) {
            abtmc_check(real == wpool[w] || real == wmig[w], "association_model",
                        "%s: work unit %d is in pool %d, expected %d or %d", when,
                        w, real, wpool[w], wmig[w]);
            if (real == wmig[w]) {
                wpool[w] = real;
                wmig[w] = -1;
            }
        }
        abtmc_check(real == wpool[w], "association_model",
                    "%s: work unit %d is associated with pool %d, expected %d",
                    when, w, real, wpool[w]);
        int live = 0;
        for (int i = 0; i < nslot; i++)
            if (urec[i].state == U_LIVE && urec[i].thread == W[w]) {
                live++;
                abtmc_check(is_user(real) && urec[i].pool == user_index(real),
                            "unit_accounting",
                            "%s: work unit %d (pool %d) owns live unit #%d of user "
                            "pool %d (log: %s)", when, w, real, i, urec[i].pool,
                            logbuf);
            }
        abtmc_check(live == (is_user(real) ? 1 : 0), "unit_accounting",
                    "%s: work unit %d in pool %d owns %d live units (log: %s)",
                    when, w, real, live, logbuf);
        expect_live += live;
        check_translation(W[w], is_user(real) ? user_index(real) : -1, when);
    }
    abtmc_check(live_units() == expect_live, "unit_accounting",
                "%s: %d live units, %d expected (creates %d frees %d, log: %s)",
                when, live_units(), expect_live, n_create, n_free, logbuf);
    int mapped = mapped_entries(NULL);
    abtmc_check(mapped == live_units(), "hash_table_entries",
                "%s: %d units mapped in the runtime's table, %d live units", when,
                mapped, live_units());
}

static void scenario_seq(void)
{
    h_init();
    arena_init(C->collide);
    recycle_units = C->recycle;
    make_new_pool(0, C->policy);
    make_legacy_pool(1, C->policy);
    POOLS[PA] = UP[0].handle;
    POOLS[PL] = UP[1].handle;
    OK(ABT_pool_create_basic(ABT_POOL_FIFO, ABT_POOL_ACCESS_MPMC, ABT_TRUE,
                             &POOLS[PB]));
    /* primary stream: round-robin scheduler over [main, UA, UL, B] */
    ABT_pool mainp, all[4];
    OK(ABT_pool_create_basic(ABT_POOL_FIFO, ABT_POOL_ACCESS_MPMC, ABT_TRUE, &mainp));
    all[0] = mainp;
    all[1] = POOLS[PA];
    all[2] = POOLS[PL];
    all[3] = POOLS[PB];
    ABT_sched sched;
    {
        static ABT_sched_def def = { ABT_SCHED_TYPE_ULT, rr_init, rr_run, rr_free,
                                     NULL };
        ABT_sched_config cf;
        OK(ABT_sched_config_create(&cf, ABT_sched_config_automatic, 1,
                                   ABT_sched_config_var_end));
        OK(ABT_sched_create(&def, 4, all, cf, &sched));
        OK(ABT_sched_config_free(&cf));
    }
    OK(ABT_xstream_set_main_sched(h_self_xstream(), sched));
    for (int i = 0; i < NW; i++)
        wmig[i] = -1;

    abtmc_window_begin();
    char hist[16] = { 0 };
    int nh = 0;
    for (int d = 0; d < C->depth; d++) {
        int op = abtmc_choose(10, ABTMC_B_FREE);
        hist[nh++] = (char)('0' + op);
        int c0 = n_create, f0 = n_free, dc = -1, df = -1; /* expected deltas */
        int ok = 1;
        switch (op) {
            case 0:
            case 1:
            case 2: { /* create in UA / UL / B; kinds cycle */
                if (nw >= NW - 1) { ok = 0; break; }
                int p = op;
                int id = new_work_unit(POOLS[p], nw % 3, 1);
                wpool[id] = p;
                dc = is_user(p) ? 1 : 0;
                df = 0;
                break;
            }
            case 3:   /* move to the next pool of the cycle UA -> UL -> B -> UA */
            case 4:   /* move to the previous pool */
            case 5: { /* take out and push back into the same pool */
                int w = oldest_named();
                if (w < 0 || wmig[w] >= 0) { ok = 0; break; }
                int from = wpool[w];
                int to = op == 3 ? (from + 1) % NPOOL
                         : op == 4 ? (from + NPOOL - 1) % NPOOL : from;
                take_out(w);
                OK(ABT_pool_push_thread(POOLS[to], W[w]));
                wpool[w] = to;
                dc = (is_user(to) && to != from) ? 1 : 0;
                df = (is_user(from) && to != from) ? 1 : 0;
                break;
            }
            case 6: { /* move whose create_unit fails: nothing may change */
                int w = oldest_named();
                if (w < 0 || wmig[w] >= 0) { ok = 0; break; }
                int from = wpool[w];
                int to = from == PA ? PL : PA;
                take_out(w);
                fail_next_create = 1;
                create_failed = 0;
                int rc = ABT_pool_push_thread(POOLS[to], W[w]);
                abtmc_check(create_failed, "harness", "create_unit not called");
                abtmc_check(rc != ABT_SUCCESS, "failed_create_ignored",
                            "push into pool %d returned success although "
                            "create_unit failed", to);
                dc = 0;
                df = 0;
                abtmc_check(n_create == c0 && n_free == f0, "callback_count",
                            "failed move: creates +%d frees +%d (log: %s)",
                            n_create - c0, n_free - f0, logbuf);
                /* the work unit must be exactly as before */
                check_translation(W[w], is_user(from) ? user_index(from) : -1,
                                  "after failed move");
                OK(ABT_pool_push_thread(POOLS[from], W[w]));
                break;
            }
            case 7: { /* migration request, fulfilled when the unit is scheduled */
                int w = newest_named_ult();
                if (w < 0) { ok = 0; break; }
                int base = wmig[w] >= 0 ? wmig[w] : wpool[w];
                int to = (base + 1) % NPOOL;
                if (to == wpool[w]) { ok = 0; break; }
                OK(ABT_thread_migrate_to_pool(W[w], POOLS[to]));
                wmig[w] = to;
                dc = df = 0;
                break;
            }
            case 8: /* let the scheduler run what is there */
                if (nw == 0) { ok = 0; break; }
                OK(ABT_thread_yield());
                break;
            case 9: { /* join the oldest named unit, then revive it into another
                         pool; the second time free it */
                int w = -1;
                for (int i = 0; i < nw; i++)
                    if (wkind[i] < 2 && !wfreed[i]) { w = i; break; }
                if (w < 0) { ok = 0; break; }
                OK(ABT_thread_join(W[w]));
                abtmc_check(wdone[w] == winc[w], "lost_unit",
                            "join returned, work unit %d ran %d of %d times", w,
                            wdone[w], winc[w]);
                seq_check("after join");
                if (!wrevived[w]) {
                    int to = (wpool[w] + 1) % NPOOL;
                    int c1 = n_create, f1 = n_free;
                    OK(ABT_thread_revive(POOLS[to], wfns[w], WARG(w), &W[w]));
                    abtmc_check(n_create - c1 == (is_user(to) ? 1 : 0) &&
                                    n_free - f1 == (is_user(wpool[w]) ? 1 : 0),
                                "callback_count",
                                "revive %d->%d: creates +%d frees +%d (log: %s)",
                                wpool[w], to, n_create - c1, n_free - f1, logbuf);
                    wpool[w] = to;
                    wmig[w] = -1;
                    wrevived[w] = 1;
                    winc[w]++;
                } else {
                    int f1 = n_free;
                    OK(ABT_thread_free(&W[w]));
                    abtmc_check(n_free - f1 == (is_user(wpool[w]) ? 1 : 0),
                                "callback_count", "free: frees +%d (log: %s)",
                                n_free - f1, logbuf);
                    wfreed[w] = 1;
                }
                break;
            }
        }
        if (!ok) {
            nh--;
            break; /* inapplicable: the history ends here */
        }
        if (dc >= 0)
            abtmc_check(n_create - c0 == dc && n_free - f0 == df, "callback_count",
                        "op %d: create_unit called %d times (expected %d), "
                        "free_unit %d times (expected %d) (log: %s)", op,
                        n_create - c0, dc, n_free - f0, df, logbuf);
        seq_check("after step");
    }
    /* wind down: everything runs and is freed */
    for (int w = 0; w < nw; w++) {
        if (wkind[w] < 2 && !wfreed[w]) {
            OK(ABT_thread_free(&W[w]));
            wfreed[w] = 1;
        }
    }
    for (int round = 0; round < 12; round++) {
        int pending = 0;
        for (int w = 0; w < nw; w++)
            pending += wdone[w] < winc[w];
        if (!pending)
            break;
        OK(ABT_thread_yield());
    }
    abtmc_window_end();
    for (int w = 0; w < nw; w++)
        abtmc_check(wstart[w] == winc[w] && wdone[w] == winc[w], "lost_unit",
                    "work unit %d: starts=%d completions=%d incarnations=%d "
                    "(log: %s)", w, wstart[w], wdone[w], winc[w], logbuf);
    abtmc_check(live_units() == 0 && n_create == n_free, "unit_leak",
                "%d units still live at the end (creates %d, frees %d, log: %s)",
                live_units(), n_create, n_free, logbuf);
    int maxchain = 0;
    int mapped = mapped_entries(&maxchain);
    abtmc_check(mapped == 0, "hash_table_entries",
                "%d units still mapped before ABT_finalize", mapped);
    hist[nh] = 0;
    abtmc_tracef("history %s", hist);
    abtmc_stat("ops", nh);
    abtmc_observe("work_units=%d units_created=%d chain=%d", nw, n_create,
                  maxchain);
    h_finalize();
    abtmc_check(abtmc_ledger_live() == 0, "leak",
                "%ld live allocations after ABT_finalize", abtmc_ledger_live());
}

/* ======================================================= I: interleavings ===*/
static ABT_thread PARKED;
static int parked_pool = 2;  /* UP[2]: never served */
static int obs_rounds;
static char obs_live[4]; /* live units of the bucket seen at each observation */

static ABT_pool SERVED, SERVED2;
static int served_idx, served2_idx;

static void observer(void *arg)
{
    (void)arg;
    for (int r = 0; r < 2; r++) {
        check_translation(PARKED, parked_pool, "observer");
        obs_live[r] = (char)('0' + live_units());
        obs_rounds++;
        abtmc_progress();
    }
}

static void ext_create(void *arg)
{
    (void)arg;
    new_work_unit(SERVED, 2, 0); /* unnamed ULT */
    new_work_unit(SERVED, 3, 0); /* unnamed tasklet */
}

static void ext_create_one(void *arg)
{
    (void)arg;
    new_work_unit(SERVED, 3, 0);
}

static int moved_id = -1;
static void ext_move(void *arg)
{
    (void)arg;
    /* create in the parking pool, take it out again, push it into the served
     * pool (custom -> custom), then wait for it and free it */
    int id = new_work_unit(UP[parked_pool].handle, 0, 1);
    moved_id = id;
    int s = -1;
    for (int i = 0; i < nslot; i++)
        if (urec[i].state == U_LIVE && urec[i].thread == W[id])
            s = i;
    UP[parked_pool].want = s;
    ABT_thread t = ABT_THREAD_NULL;
    OK(ABT_pool_pop_thread(UP[parked_pool].handle, &t));
    abtmc_check(t == W[id], "lost_from_pool", "parking pool lost the new unit");
    OK(ABT_pool_push_thread(SERVED, t));
    OK(ABT_thread_free(&W[id]));
    abtmc_check(wdone[id] == 1, "lost_unit", "free returned, unit %d ran %d times",
                id, wdone[id]);
}

static void scenario_conc(void)
{
    h_init();
    arena_init(C->collide);
    recycle_units = C->recycle;
    served_idx = 0;
    served2_idx = 1;
    if (C->served_legacy) {
        make_legacy_pool(0, C->policy);
        make_new_pool(1, C->policy);
    } else {
        make_new_pool(0, C->policy);
        make_legacy_pool(1, C->policy);
    }
    make_new_pool(2, POL_FIFO);
    SERVED = UP[0].handle;
    SERVED2 = UP[1].handle;
    ABT_pool sp[2] = { SERVED, SERVED2 };
    ABT_sched sched;
    ABT_xstream es1;
    OK(ABT_sched_create_basic(ABT_SCHED_BASIC, 2, sp, ABT_SCHED_CONFIG_NULL,
                              &sched));
    OK(ABT_xstream_create(sched, &es1));
    /* the parked live unit, same bucket as everything else */
    int pk = new_work_unit(UP[parked_pool].handle, 0, 0);
    PARKED = W[pk];

    abtmc_window_begin();
    int x1 = -1, x2 = -1;
    int named[3], nn = 0;
    switch (C->icase) {
        case I_CREATE_FREE:
            x1 = abtmc_thread_create(observer, NULL);
            new_work_unit(SERVED, 3, 0);
            named[nn++] = new_work_unit(SERVED, 0, 1);
            break;
        case I_EXT_CREATE:
            x1 = abtmc_thread_create(ext_create, NULL);
            observer(NULL);
            break;
        case I_EXT_MOVE:
            x1 = abtmc_thread_create(ext_move, NULL);
            new_work_unit(SERVED, 3, 0); /* a second concurrent mapper */
            observer(NULL);
            break;
        case I_MIGRATE: {
            x1 = abtmc_thread_create(observer, NULL);
            /* the ULT cannot terminate before the request is posted (a
             * request for a terminated unit is undefined): it polls go_flag */
            wpoll[nw] = 1;
            int id = new_work_unit(SERVED, 0, 1);
            named[nn++] = id;
            mig_watch_started = &wslices[id];
            mig_watch = W[id];
            OK(ABT_thread_migrate_to_pool(W[id], SERVED2));
            abtmc_store(&go_flag, 1);
            break;
        }
        case I_FOUR:
            x1 = abtmc_thread_create(ext_create_one, NULL);
            x2 = abtmc_thread_create(observer, NULL);
            named[nn++] = new_work_unit(SERVED, 1, 0);
            break;
        default: /* I_MIXED */
            x1 = abtmc_thread_create(observer, NULL);
            named[nn++] = new_work_unit(SERVED, 0, 1);
            new_work_unit(SERVED, 3, 0);
            break;
    }
    for (int i = 0; i < nn; i++) {
        int id = named[i];
        int f0 = n_free;
        OK(ABT_thread_join(W[id]));
        abtmc_check(wdone[id] == 1, "lost_unit",
                    "join returned, unit %d ran %d times", id, wdone[id]);
        OK(ABT_thread_free(&W[id]));
        (void)f0;
    }
    if (x1 >= 0)
        abtmc_thread_join(x1);
    if (x2 >= 0)
        abtmc_thread_join(x2);
    OK(ABT_xstream_join(es1));
    abtmc_window_end();

    abtmc_check(obs_rounds == 2, "harness", "observer rounds %d", obs_rounds);
    for (int w = 0; w < nw; w++)
        if (w != pk)
            abtmc_check(wstart[w] == 1 && wdone[w] == 1, "lost_unit",
                        "ABT_xstream_join returned, work unit %d: starts=%d "
                        "completions=%d (log: %s)", w, wstart[w], wdone[w], logbuf);
    if (C->icase == I_MIGRATE)
        abtmc_check(n_create == 3 && mig_at >= 0, "migration_units",
                    "migration SERVED->SERVED2 requested before the ULT's last "
                    "yield: %d create_unit calls instead of 3 (log: %s)", n_create,
                    logbuf);
    /* only the parked unit is left */
    abtmc_check(live_units() == 1 && n_create == n_free + 1, "unit_leak",
                "%d live units (creates %d frees %d) with one work unit left "
                "(log: %s)", live_units(), n_create, n_free, logbuf);
    int maxchain = 0;
    abtmc_check(mapped_entries(&maxchain) == 1, "hash_table_entries",
                "%d mapped units with one live work unit", mapped_entries(NULL));
    check_translation(PARKED, parked_pool, "at quiescence");
    /* user pool -> built-in pool, run it, free it */
    ABT_thread t = ABT_THREAD_NULL;
    OK(ABT_pool_pop_thread(UP[parked_pool].handle, &t));
    abtmc_check(t == PARKED, "lost_from_pool", "parked unit not in its pool");
    OK(ABT_pool_push_thread(h_main_pool(h_self_xstream()), PARKED));
    abtmc_check(live_units() == 0, "unit_leak", "unit not freed on leaving the "
                "user pool (log: %s)", logbuf);
    check_translation(PARKED, -1, "after leaving the user pool");
    OK(ABT_thread_free(&W[pk]));
    abtmc_check(wdone[pk] == 1, "lost_unit", "parked unit ran %d times", wdone[pk]);
    abtmc_check(mapped_entries(NULL) == 0, "hash_table_entries",
                "%d mapped units at the end", mapped_entries(NULL));
    for (int w = 0; w < nw; w++)
        if (!ranon[w])
            ranon[w] = '-';
    abtmc_observe("ran=%s seen=%s mig=%d chain=%d", ranon, obs_live, mig_at,
                  maxchain);
    OK(ABT_xstream_free(&es1));
    for (int p = 0; p < NUPOOL; p++)
        OK(ABT_pool_free(&UP[p].handle));
    h_finalize();
    abtmc_check(abtmc_ledger_live() == 0, "leak",
                "%ld live allocations after ABT_finalize", abtmc_ledger_live());
}

static void scenario(int cfg)
{
    C = &cfgs[cfg];
    for (int i = 0; i < NUPOOL; i++)
        UP[i].handle = ABT_POOL_NULL;
    if (C->mode == M_SEQ)
        scenario_seq();
    else
        scenario_conc();
}

static const char *cfg_name(int i) { return cfgs[i].name; }
static int cfg_quick(int i) { return cfgs[i].quick; }

int main(int argc, char **argv)
{
    static abtmc_driver d = { "c14_userpool", "C14", ARRAY_LEN(cfgs), cfg_name,
                              scenario, cfg_quick };
    return abtmc_main(argc, argv, &d);
}
