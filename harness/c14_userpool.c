/* c14_userpool.c -- C14: user-defined pools see a consistent unit <-> work-unit
 * mapping.
 *
 * Two kinds of user pools are used: pools built with ABT_pool_user_def_create()
 * + ABT_pool_create() and one pool built from the legacy ABT_pool_def.  Their
 * create_unit hands out ABT_unit values from a static arena, at addresses
 * chosen so that the runtime's unit hash puts them all into one bucket (or into
 * different buckets).  Every callback checks the unit it is given against the
 * driver's own record of the unit's life (never created / live / freed): a freed
 * unit is poisoned and must never show up again.
 *
 * S configs: one stream, every history of bounded depth over create / move
 * between pools / failed move / migrate request / yield / revive-or-free.
 * I configs: the primary ULT, a second stream serving a user pool and one or
 * two external threads create, move, migrate, run and free units of the same
 * hash bucket while an observer translates a parked live unit back and forth. */
#include "c14_common.h"

/* ----------------------------------------------------------------- configs --*/
enum { M_SEQ, M_CONC };
enum { I_CREATE_FREE, I_EXT_CREATE, I_EXT_MOVE, I_MIGRATE, I_FOUR, I_MIXED };
typedef struct {
    const char *name;
    int quick;
    int mode;
    int depth;     /* M_SEQ */
    int icase;     /* M_CONC */
    int collide;
    int policy;
    int served_legacy; /* M_CONC: the served pool is the legacy-def pool */
    int recycle;       /* freed unit addresses are reused */
} cfg_t;

static const cfg_t cfgs[] = {
    { "S depth4: histories over create/move/fail/migrate/yield/revive, one bucket, "
      "FIFO pop", 1, M_SEQ, 4, 0, 1, POL_FIFO, 0 },
    { "I: primary creates+frees in served pool (new API) | ES1 runs | X translates "
      "parked unit", 1, M_CONC, 0, I_CREATE_FREE, 1, POL_FIFO, 0 },
    { "I: X creates unnamed units in served legacy-def pool | ES1 runs (pop "
      "translates) | primary translates parked unit", 1, M_CONC, 0, I_EXT_CREATE,
      1, POL_LIFO, 1 },
    { "I: X creates in parking pool, moves it into served pool, frees | ES1 runs | "
      "primary creates and translates", 1, M_CONC, 0, I_EXT_MOVE, 1, POL_FIFO, 0 },
    { "I: primary requests migration of a yielding ULT between two served user "
      "pools | ES1 runs | X translates", 1, M_CONC, 0, I_MIGRATE, 1, POL_FIFO, 0 },
    { "I: mixed kinds, served legacy-def pool, pop index chosen (E)", 1, M_CONC, 0,
      I_MIXED, 1, POL_CHOOSE, 1 },
    { "I: X creates/moves/frees | primary creates and translates; freed unit "
      "addresses are recycled", 1, M_CONC, 0, I_EXT_MOVE, 1, POL_FIFO, 0, 1 },
    { "I: X creates/moves/frees | primary creates into the served legacy-def pool "
      "(pop translates unit->thread); unit addresses recycled", 1, M_CONC, 0,
      I_EXT_MOVE, 1, POL_FIFO, 1, 1 },
    /* thorough only */
    { "I: primary creates+frees | ES1 | X creates | second X translates (4 "
      "threads); unit addresses recycled", 0, M_CONC, 0, I_FOUR, 1, POL_FIFO, 0, 1 },
    { "I: primary creates+frees in served legacy-def pool | X translates; unit "
      "addresses recycled", 0, M_CONC, 0, I_CREATE_FREE, 1, POL_LIFO, 1, 1 },
    { "S depth4: one bucket, FIFO pop, unit addresses recycled", 0, M_SEQ, 4, 0, 1,
      POL_FIFO, 0, 1 },
    { "S depth5: one bucket, FIFO pop", 0, M_SEQ, 5, 0, 1, POL_FIFO, 0 },
    { "S depth5: one bucket, LIFO pop", 0, M_SEQ, 5, 0, 1, POL_LIFO, 0 },
    { "S depth4: one bucket, pop index chosen (E)", 0, M_SEQ, 4, 0, 1, POL_CHOOSE,
      0 },
    { "S depth4: distinct buckets, LIFO pop", 0, M_SEQ, 4, 0, 0, POL_LIFO, 0 },
    { "I: primary creates+frees | ES1 | X creates | second X translates (4 "
      "threads)", 0, M_CONC, 0, I_FOUR, 1, POL_FIFO, 0 },
    { "I: primary creates+frees in served legacy-def pool | ES1 | X translates", 0,
      M_CONC, 0, I_CREATE_FREE, 1, POL_LIFO, 1 },
    { "I: X creates unnamed units in served pool (new API), distinct buckets", 0,
      M_CONC, 0, I_EXT_CREATE, 0, POL_FIFO, 0 },
    { "I: X moves parking->served legacy-def pool, frees | primary creates and "
      "translates", 0,
      M_CONC, 0, I_EXT_MOVE, 1, POL_LIFO, 1 },
    { "I: migration between served pools (legacy-def source), LIFO", 0, M_CONC, 0,
      I_MIGRATE, 1, POL_LIFO, 1 },
    { "I: mixed kinds, served pool (new API), pop index chosen (E)", 0, M_CONC, 0,
      I_MIXED, 1, POL_CHOOSE, 0 },
};
static const cfg_t *C;

/* =========================================================== S: histories ===*/
enum { PA, PL, PB, NPOOL };       /* UA (new API), UL (legacy), B (built-in) */
static ABT_pool POOLS[NPOOL];
static int wpool[NW];             /* model: pool of each named work unit */
static int wfreed[NW];
static int wmig[NW];              /* pending migration target or -1 */
static int wrevived[NW];

/* The primary stream runs a user-defined round-robin scheduler: one unit from
 * every pool per pass.  (BASIC always rescans from its first pool, so a primary
 * ULT that yields -- e.g. inside the yield-based join of a tasklet -- would be
 * popped again at once and units in the later pools would starve.) */
static int rr_init(ABT_sched sched, ABT_sched_config config)
{
    (void)sched;
    (void)config;
    return ABT_SUCCESS;
}
static void rr_run(ABT_sched sched)
{
    ABT_pool pools[4];
    int np = 0;
    OK(ABT_sched_get_num_pools(sched, &np));
    OK(ABT_sched_get_pools(sched, np, 0, pools));
    for (;;) {
        for (int p = 0; p < np; p++) {
            ABT_thread t = ABT_THREAD_NULL;
            OK(ABT_pool_pop_thread(pools[p], &t));
            if (t != ABT_THREAD_NULL)
                OK(ABT_self_schedule(t, ABT_POOL_NULL));
        }
        OK(ABT_xstream_check_events(sched));
        ABT_bool stop = ABT_FALSE;
        OK(ABT_sched_has_to_stop(sched, &stop));
        if (stop == ABT_TRUE)
            break;
    }
}
static int rr_free(ABT_sched sched)
{
    (void)sched;
    return ABT_SUCCESS;
}

static int pool_id(ABT_pool p)
{
    for (int i = 0; i < NPOOL; i++)
        if (POOLS[i] == p)
            return i;
    return -1;
}
static int is_user(int p) { return p == PA || p == PL; }
static int user_index(int p) { return p == PA ? 0 : 1; } /* index into UP[] */

static int oldest_named(void)
{
    for (int i = 0; i < nw; i++)
        if (wkind[i] < 2 && !wfreed[i] && wdone[i] < winc[i])
            return i;
    return -1;
}
static int newest_named_ult(void)
{
    for (int i = nw - 1; i >= 0; i--)
        if (wkind[i] == 0 && !wfreed[i] && wdone[i] < winc[i])
            return i;
    return -1;
}

/* take work unit w out of the pool it is queued in */
static void take_out(int w)
{
    int p = wpool[w];
    ABT_thread t = ABT_THREAD_NULL;
    if (is_user(p)) {
        int s = -1;
        for (int i = 0; i < nslot; i++)
            if (urec[i].state == U_LIVE && urec[i].thread == W[w] &&
                urec[i].pool == user_index(p))
                s = i;
        abtmc_check(s >= 0, "unit_accounting", "work unit %d has no live unit", w);
        UP[user_index(p)].want = s; /* pop policy: the unit the driver asks for */
        OK(ABT_pool_pop_thread(POOLS[p], &t));
    } else {
        for (int guard = 0; guard < 2 * NW; guard++) {
            OK(ABT_pool_pop_thread(POOLS[p], &t));
            if (t == W[w] || t == ABT_THREAD_NULL)
                break;
            OK(ABT_pool_push_thread(POOLS[p], t));
        }
    }
    abtmc_check(t == W[w], "lost_from_pool",
                "work unit %d is not in pool %d where it was pushed (popped %p)",
                w, p, (void *)t);
}

static void seq_check(const char *when)
{
    int expect_live = 0;
    for (int w = 0; w < nw; w++) {
        if (wkind[w] >= 2) {
            /* unnamed: stays where it was created until it has run */
            if (wdone[w] < winc[w] && is_user(wpool[w]))
                expect_live++;
            continue;
        }
        if (wfreed[w])
            continue;
        ABT_pool lp;
        OK(ABT_thread_get_last_pool(W[w], &lp));
        int real = pool_id(lp);
        if (wmig[w] >= 0) {
            abtmc_check(real == wpool[w] || real == wmig[w], "association_model",
                        "%s: work unit %d is in pool %d, expected %d or %d", when,
                        w, real, wpool[w], wmig[w]);
            if (real == wmig[w]) {
                wpool[w] = real;
                wmig[w] = -1;
            }
        }
        abtmc_check(real == wpool[w], "association_model",
                    "%s: work unit %d is associated with pool %d, expected %d",
                    when, w, real, wpool[w]);
        int live = 0;
        for (int i = 0; i < nslot; i++)
            if (urec[i].state == U_LIVE && urec[i].thread == W[w]) {
                live++;
                abtmc_check(is_user(real) && urec[i].pool == user_index(real),
                            "unit_accounting",
                            "%s: work unit %d (pool %d) owns live unit #%d of user "
                            "pool %d (log: %s)", when, w, real, i, urec[i].pool,
                            logbuf);
            }
        abtmc_check(live == (is_user(real) ? 1 : 0), "unit_accounting",
                    "%s: work unit %d in pool %d owns %d live units (log: %s)",
                    when, w, real, live, logbuf);
        expect_live += live;
        check_translation(W[w], is_user(real) ? user_index(real) : -1, when);
    }
    abtmc_check(live_units() == expect_live, "unit_accounting",
                "%s: %d live units, %d expected (creates %d frees %d, log: %s)",
                when, live_units(), expect_live, n_create, n_free, logbuf);
    int mapped = mapped_entries(NULL);
    abtmc_check(mapped == live_units(), "hash_table_entries",
                "%s: %d units mapped in the runtime's table, %d live units", when,
                mapped, live_units());
}

static void scenario_seq(void)
{
    h_init();
    arena_init(C->collide);
    recycle_units = C->recycle;
    make_new_pool(0, C->policy);
    make_legacy_pool(1, C->policy);
    POOLS[PA] = UP[0].handle;
    POOLS[PL] = UP[1].handle;
    OK(ABT_pool_create_basic(ABT_POOL_FIFO, ABT_POOL_ACCESS_MPMC, ABT_TRUE,
                             &POOLS[PB]));
    /* primary stream: round-robin scheduler over [main, UA, UL, B] */
    ABT_pool mainp, all[4];
    OK(ABT_pool_create_basic(ABT_POOL_FIFO, ABT_POOL_ACCESS_MPMC, ABT_TRUE, &mainp));
    all[0] = mainp;
    all[1] = POOLS[PA];
    all[2] = POOLS[PL];
    all[3] = POOLS[PB];
    ABT_sched sched;
    {
        static ABT_sched_def def = { ABT_SCHED_TYPE_ULT, rr_init, rr_run, rr_free,
                                     NULL };
        ABT_sched_config cf;
        OK(ABT_sched_config_create(&cf, ABT_sched_config_automatic, 1,
                                   ABT_sched_config_var_end));
        OK(ABT_sched_create(&def, 4, all, cf, &sched));
        OK(ABT_sched_config_free(&cf));
    }
    OK(ABT_xstream_set_main_sched(h_self_xstream(), sched));
    for (int i = 0; i < NW; i++)
        wmig[i] = -1;

    abtmc_window_begin();
    char hist[16] = { 0 };
    int nh = 0;
    for (int d = 0; d < C->depth; d++) {
        int op = abtmc_choose(10, ABTMC_B_FREE);
        hist[nh++] = (char)('0' + op);
        int c0 = n_create, f0 = n_free, dc = -1, df = -1; /* expected deltas */
        int ok = 1;
        switch (op) {
            case 0:
            case 1:
            case 2: { /* create in UA / UL / B; kinds cycle */
                if (nw >= NW - 1) { ok = 0; break; }
                int p = op;
                int id = new_work_unit(POOLS[p], nw % 3, 1);
                wpool[id] = p;
                dc = is_user(p) ? 1 : 0;
                df = 0;
                break;
            }
            case 3:   /* move to the next pool of the cycle UA -> UL -> B -> UA */
            case 4:   /* move to the previous pool */
            case 5: { /* take out and push back into the same pool */
                int w = oldest_named();
                if (w < 0 || wmig[w] >= 0) { ok = 0; break; }
                int from = wpool[w];
                int to = op == 3 ? (from + 1) % NPOOL
                         : op == 4 ? (from + NPOOL - 1) % NPOOL : from;
                take_out(w);
                OK(ABT_pool_push_thread(POOLS[to], W[w]));
                wpool[w] = to;
                dc = (is_user(to) && to != from) ? 1 : 0;
                df = (is_user(from) && to != from) ? 1 : 0;
                break;
            }
            case 6: { /* move whose create_unit fails: nothing may change */
                int w = oldest_named();
                if (w < 0 || wmig[w] >= 0) { ok = 0; break; }
                int from = wpool[w];
                int to = from == PA ? PL : PA;
                take_out(w);
                fail_next_create = 1;
                create_failed = 0;
                int rc = ABT_pool_push_thread(POOLS[to], W[w]);
                abtmc_check(create_failed, "harness", "create_unit not called");
                abtmc_check(rc != ABT_SUCCESS, "failed_create_ignored",
                            "push into pool %d returned success although "
                            "create_unit failed", to);
                dc = 0;
                df = 0;
                abtmc_check(n_create == c0 && n_free == f0, "callback_count",
                            "failed move: creates +%d frees +%d (log: %s)",
                            n_create - c0, n_free - f0, logbuf);
                /* the work unit must be exactly as before */
                check_translation(W[w], is_user(from) ? user_index(from) : -1,
                                  "after failed move");
                OK(ABT_pool_push_thread(POOLS[from], W[w]));
                break;
            }
            case 7: { /* migration request, fulfilled when the unit is scheduled */
                int w = newest_named_ult();
                if (w < 0) { ok = 0; break; }
                int base = wmig[w] >= 0 ? wmig[w] : wpool[w];
                int to = (base + 1) % NPOOL;
                if (to == wpool[w]) { ok = 0; break; }
                OK(ABT_thread_migrate_to_pool(W[w], POOLS[to]));
                wmig[w] = to;
                dc = df = 0;
                break;
            }
            case 8: /* let the scheduler run what is there */
                if (nw == 0) { ok = 0; break; }
                OK(ABT_thread_yield());
                break;
            case 9: { /* join the oldest named unit, then revive it into another
                         pool; the second time free it */
                int w = -1;
                for (int i = 0; i < nw; i++)
                    if (wkind[i] < 2 && !wfreed[i]) { w = i; break; }
                if (w < 0) { ok = 0; break; }
                OK(ABT_thread_join(W[w]));
                abtmc_check(wdone[w] == winc[w], "lost_unit",
                            "join returned, work unit %d ran %d of %d times", w,
                            wdone[w], winc[w]);
                seq_check("after join");
                if (!wrevived[w]) {
                    int to = (wpool[w] + 1) % NPOOL;
                    int c1 = n_create, f1 = n_free;
                    OK(ABT_thread_revive(POOLS[to], wfns[w], WARG(w), &W[w]));
                    abtmc_check(n_create - c1 == (is_user(to) ? 1 : 0) &&
                                    n_free - f1 == (is_user(wpool[w]) ? 1 : 0),
                                "callback_count",
                                "revive %d->%d: creates +%d frees +%d (log: %s)",
                                wpool[w], to, n_create - c1, n_free - f1, logbuf);
                    wpool[w] = to;
                    wmig[w] = -1;
                    wrevived[w] = 1;
                    winc[w]++;
                } else {
                    int f1 = n_free;
                    OK(ABT_thread_free(&W[w]));
                    abtmc_check(n_free - f1 == (is_user(wpool[w]) ? 1 : 0),
                                "callback_count", "free: frees +%d (log: %s)",
                                n_free - f1, logbuf);
                    wfreed[w] = 1;
                }
                break;
            }
        }
        if (!ok) {
            nh--;
            break; /* inapplicable: the history ends here */
        }
        if (dc >= 0)
            abtmc_check(n_create - c0 == dc && n_free - f0 == df, "callback_count",
                        "op %d: create_unit called %d times (expected %d), "
                        "free_unit %d times (expected %d) (log: %s)", op,
                        n_create - c0, dc, n_free - f0, df, logbuf);
        seq_check("after step");
    }
    /* wind down: everything runs and is freed */
    for (int w = 0; w < nw; w++) {
        if (wkind[w] < 2 && !wfreed[w]) {
            OK(ABT_thread_free(&W[w]));
            wfreed[w] = 1;
        }
    }
    for (int round = 0; round < 12; round++) {
        int pending = 0;
        for (int w = 0; w < nw; w++)
            pending += wdone[w] < winc[w];
        if (!pending)
            break;
        OK(ABT_thread_yield());
    }
    abtmc_window_end();
    for (int w = 0; w < nw; w++)
        abtmc_check(wstart[w] == winc[w] && wdone[w] == winc[w], "lost_unit",
                    "work unit %d: starts=%d completions=%d incarnations=%d "
                    "(log: %s)", w, wstart[w], wdone[w], winc[w], logbuf);
    abtmc_check(live_units() == 0 && n_create == n_free, "unit_leak",
                "%d units still live at the end (creates %d, frees %d, log: %s)",
                live_units(), n_create, n_free, logbuf);
    int maxchain = 0;
    int mapped = mapped_entries(&maxchain);
    abtmc_check(mapped == 0, "hash_table_entries",
                "%d units still mapped before ABT_finalize", mapped);
    hist[nh] = 0;
    abtmc_tracef("history %s", hist);
    abtmc_stat("ops", nh);
    abtmc_observe("work_units=%d units_created=%d chain=%d", nw, n_create,
                  maxchain);
    h_finalize();
    abtmc_check(abtmc_ledger_live() == 0, "leak",
                "%ld live allocations after ABT_finalize", abtmc_ledger_live());
}

/* ======================================================= I: interleavings ===*/
static ABT_thread PARKED;
static int parked_pool = 2;  /* UP[2]: never served */
static int obs_rounds;
static char obs_live[4]; /* live units of the bucket seen at each observation */

static ABT_pool SERVED, SERVED2;
static int served_idx, served2_idx;

static void observer(void *arg)
{
    (void)arg;
    for (int r = 0; r < 2; r++) {
        check_translation(PARKED, parked_pool, "observer");
        obs_live[r] = (char)('0' + live_units());
        obs_rounds++;
        abtmc_progress();
    }
}

static void ext_create(void *arg)
{
    (void)arg;
    new_work_unit(SERVED, 2, 0); /* unnamed ULT */
    new_work_unit(SERVED, 3, 0); /* unnamed tasklet */
}

static void ext_create_one(void *arg)
{
    (void)arg;
    new_work_unit(SERVED, 3, 0);
}

static int moved_id = -1;
static void ext_move(void *arg)
{
    (void)arg;
    /* create in the parking pool, take it out again, push it into the served
     * pool (custom -> custom), then wait for it and free it */
    int id = new_work_unit(UP[parked_pool].handle, 0, 1);
    moved_id = id;
    int s = -1;
    for (int i = 0; i < nslot; i++)
        if (urec[i].state == U_LIVE && urec[i].thread == W[id])
            s = i;
    UP[parked_pool].want = s;
    ABT_thread t = ABT_THREAD_NULL;
    OK(ABT_pool_pop_thread(UP[parked_pool].handle, &t));
    abtmc_check(t == W[id], "lost_from_pool", "parking pool lost the new unit");
    OK(ABT_pool_push_thread(SERVED, t));
    OK(ABT_thread_free(&W[id]));
    abtmc_check(wdone[id] == 1, "lost_unit", "free returned, unit %d ran %d times",
                id, wdone[id]);
}

static void scenario_conc(void)
{
    h_init();
    arena_init(C->collide);
    recycle_units = C->recycle;
    served_idx = 0;
    served2_idx = 1;
    if (C->served_legacy) {
        make_legacy_pool(0, C->policy);
        make_new_pool(1, C->policy);
    } else {
        make_new_pool(0, C->policy);
        make_legacy_pool(1, C->policy);
    }
    make_new_pool(2, POL_FIFO);
    SERVED = UP[0].handle;
    SERVED2 = UP[1].handle;
    ABT_pool sp[2] = { SERVED, SERVED2 };
    ABT_sched sched;
    ABT_xstream es1;
    OK(ABT_sched_create_basic(ABT_SCHED_BASIC, 2, sp, ABT_SCHED_CONFIG_NULL,
                              &sched));
    OK(ABT_xstream_create(sched, &es1));
    /* the parked live unit, same bucket as everything else */
    int pk = new_work_unit(UP[parked_pool].handle, 0, 0);
    PARKED = W[pk];

    abtmc_window_begin();
    int x1 = -1, x2 = -1;
    int named[3], nn = 0;
    switch (C->icase) {
        case I_CREATE_FREE:
            x1 = abtmc_thread_create(observer, NULL);
            new_work_unit(SERVED, 3, 0);
            named[nn++] = new_work_unit(SERVED, 0, 1);
            break;
        case I_EXT_CREATE:
            x1 = abtmc_thread_create(ext_create, NULL);
            observer(NULL);
            break;
        case I_EXT_MOVE:
            x1 = abtmc_thread_create(ext_move, NULL);
            new_work_unit(SERVED, 3, 0); /* a second concurrent mapper */
            observer(NULL);
            break;
        case I_MIGRATE: {
            x1 = abtmc_thread_create(observer, NULL);
            /* the ULT cannot terminate before the request is posted (a
             * request for a terminated unit is undefined): it polls go_flag */
            wpoll[nw] = 1;
            int id = new_work_unit(SERVED, 0, 1);
            named[nn++] = id;
            mig_watch_started = &wslices[id];
            mig_watch = W[id];
            OK(ABT_thread_migrate_to_pool(W[id], SERVED2));
            abtmc_store(&go_flag, 1);
            break;
        }
        case I_FOUR:
            x1 = abtmc_thread_create(ext_create_one, NULL);
            x2 = abtmc_thread_create(observer, NULL);
            named[nn++] = new_work_unit(SERVED, 1, 0);
            break;
        default: /* I_MIXED */
            x1 = abtmc_thread_create(observer, NULL);
            named[nn++] = new_work_unit(SERVED, 0, 1);
            new_work_unit(SERVED, 3, 0);
            break;
    }
    for (int i = 0; i < nn; i++) {
        int id = named[i];
        int f0 = n_free;
        OK(ABT_thread_join(W[id]));
        abtmc_check(wdone[id] == 1, "lost_unit",
                    "join returned, unit %d ran %d times", id, wdone[id]);
        OK(ABT_thread_free(&W[id]));
        (void)f0;
    }
    if (x1 >= 0)
        abtmc_thread_join(x1);
    if (x2 >= 0)
        abtmc_thread_join(x2);
    OK(ABT_xstream_join(es1));
    abtmc_window_end();

    abtmc_check(obs_rounds == 2, "harness", "observer rounds %d", obs_rounds);
    for (int w = 0; w < nw; w++)
        if (w != pk)
            abtmc_check(wstart[w] == 1 && wdone[w] == 1, "lost_unit",
                        "ABT_xstream_join returned, work unit %d: starts=%d "
                        "completions=%d (log: %s)", w, wstart[w], wdone[w], logbuf);
    if (C->icase == I_MIGRATE)
        abtmc_check(n_create == 3 && mig_at >= 0, "migration_units",
                    "migration SERVED->SERVED2 requested before the ULT's last "
                    "yield: %d create_unit calls instead of 3 (log: %s)", n_create,
                    logbuf);
    /* only the parked unit is left */
    abtmc_check(live_units() == 1 && n_create == n_free + 1, "unit_leak",
                "%d live units (creates %d frees %d) with one work unit left "
                "(log: %s)", live_units(), n_create, n_free, logbuf);
    int maxchain = 0;
    abtmc_check(mapped_entries(&maxchain) == 1, "hash_table_entries",
                "%d mapped units with one live work unit", mapped_entries(NULL));
    check_translation(PARKED, parked_pool, "at quiescence");
    /* user pool -> built-in pool, run it, free it */
    ABT_thread t = ABT_THREAD_NULL;
    OK(ABT_pool_pop_thread(UP[parked_pool].handle, &t));
    abtmc_check(t == PARKED, "lost_from_pool", "parked unit not in its pool");
    OK(ABT_pool_push_thread(h_main_pool(h_self_xstream()), PARKED));
    abtmc_check(live_units() == 0, "unit_leak", "unit not freed on leaving the "
                "user pool (log: %s)", logbuf);
    check_translation(PARKED, -1, "after leaving the user pool");
    OK(ABT_thread_free(&W[pk]));
    abtmc_check(wdone[pk] == 1, "lost_unit", "parked unit ran %d times", wdone[pk]);
    abtmc_check(mapped_entries(NULL) == 0, "hash_table_entries",
                "%d mapped units at the end", mapped_entries(NULL));
    for (int w = 0; w < nw; w++)
        if (!ranon[w])
            ranon[w] = '-';
    abtmc_observe("ran=%s seen=%s mig=%d chain=%d", ranon, obs_live, mig_at,
                  maxchain);
    OK(ABT_xstream_free(&es1));
    for (int p = 0; p < NUPOOL; p++)
        OK(ABT_pool_free(&UP[p].handle));
    h_finalize();
    abtmc_check(abtmc_ledger_live() == 0, "leak",
                "%ld live allocations after ABT_finalize", abtmc_ledger_live());
}

static void scenario(int cfg)
{
    C = &cfgs[cfg];
    for (int i = 0; i < NUPOOL; i++)
        UP[i].handle = ABT_POOL_NULL;
    if (C->mode == M_SEQ)
        scenario_seq();
    else
        scenario_conc();
}

static const char *cfg_name(int i) { return cfgs[i].name; }
static int cfg_quick(int i) { return cfgs[i].quick; }

int main(int argc, char **argv)
{
    static abtmc_driver d = { "c14_userpool", "C14", ARRAY_LEN(cfgs), cfg_name,
                              scenario, cfg_quick };
    return abtmc_main(argc, argv, &d);
}
