/* c13_parked.c -- C13: "ABT_thread_migrate picks some other RUNNING execution
 * stream when one exists" when some streams of the global list are parked
 * (joined, not freed, i.e. TERMINATED and revivable).  A unit sent to the main
 * pool of a terminated stream would never run again.
 *
 *   ES1, ES2 created; `parked` says which of them are joined before the request.
 *   U (ULT in the primary stream's pool) requests ABT_thread_migrate(self) and
 *   yields; or the primary ULT / an external thread requests it for U while U
 *   yields.
 * Oracle: with at least one running candidate the request succeeds, the
 * callback runs once, U continues on a RUNNING stream other than the primary
 * and completes; with none, the request fails with ABT_ERR_MIGRATION_NA and U
 * stays where it is. */
#include "common.h"

enum { RQ_SELF, RQ_EXT };
typedef struct {
    const char *name;
    int quick, parked /* bit0: ES1, bit1: ES2 */, requester;
    int attr_late; /* callback through the attribute of a unit created NON-migratable;
                    * migratability is switched on later */
} cfg_t;
static const cfg_t cfgs[] = {
    { "ES1 parked, ES2 running: self ABT_thread_migrate", 1, 1, RQ_SELF },
    { "ES1 running, ES2 parked: X requests ABT_thread_migrate(U)", 1, 2, RQ_EXT },
    { "ES1 and ES2 parked: self ABT_thread_migrate -> MIGRATION_NA", 1, 3, RQ_SELF },
    { "ES1 parked, ES2 running: X requests ABT_thread_migrate(U)", 0, 1, RQ_EXT },
    { "none parked: self ABT_thread_migrate", 0, 0, RQ_SELF },
    { "ES2 parked; callback by attribute on a unit created non-migratable, made "
      "migratable later; self ABT_thread_migrate", 1, 2, RQ_SELF, 1 },
    { "none parked; callback by attribute, non-migratable at creation, migratable "
      "later; X requests ABT_thread_migrate(U)", 0, 0, RQ_EXT, 1 },
};

static const cfg_t *C;
static ABT_thread U;
static int ncb, req_rc = -99, requested, u_started, rank_after = -1, u_done;

static void cb(ABT_thread t, void *arg)
{
    (void)arg;
    abtmc_check(t == U, "callback_args", "callback for a wrong unit");
    ncb++;
}

static void u_fn(void *arg)
{
    (void)arg;
    abtmc_store(&u_started, 1);
    if (C->requester == RQ_SELF) {
        req_rc = ABT_thread_migrate(U);
        abtmc_store(&requested, 1);
    }
    /* yield until the request has been issued, then once more: the migration is
     * performed at a scheduling point after the request */
    while (abtmc_load(&requested) == 0)
        OK(ABT_thread_yield());
    OK(ABT_thread_yield());
    OK(ABT_xstream_self_rank(&rank_after));
    u_done++;
}

static void x_fn(void *arg)
{
    (void)arg;
    abtmc_wait_until_eq(&u_started, 1);
    req_rc = ABT_thread_migrate(U);
    abtmc_store(&requested, 1);
}

static void scenario(int cfg)
{
    C = &cfgs[cfg];
    h_init();
    ABT_xstream es[3] = { h_self_xstream(), ABT_XSTREAM_NULL, ABT_XSTREAM_NULL };
    OK(ABT_xstream_create(ABT_SCHED_NULL, &es[1]));
    OK(ABT_xstream_create(ABT_SCHED_NULL, &es[2]));
    for (int i = 1; i <= 2; i++)
        if (C->parked & (1 << (i - 1)))
            OK(ABT_xstream_join(es[i]));

    abtmc_window_begin();
    if (C->attr_late) {
        ABT_thread_attr at;
        ABT_bool mig = ABT_TRUE;
        OK(ABT_thread_attr_create(&at));
        OK(ABT_thread_attr_set_callback(at, cb, NULL));
        OK(ABT_thread_attr_set_migratable(at, ABT_FALSE));
        OK(ABT_thread_create(h_main_pool(es[0]), u_fn, NULL, at, &U));
        OK(ABT_thread_attr_free(&at));
        /* a request naming a non-migratable unit is rejected */
        int rc = ABT_thread_migrate(U);
        abtmc_check(rc != ABT_SUCCESS, "nonmigratable_accepted",
                    "ABT_thread_migrate of a non-migratable ULT returned success");
        OK(ABT_thread_is_migratable(U, &mig));
        abtmc_check(mig == ABT_FALSE, "harness", "attribute ignored");
        OK(ABT_thread_set_migratable(U, ABT_TRUE));
    } else {
        OK(ABT_thread_create(h_main_pool(es[0]), u_fn, NULL, ABT_THREAD_ATTR_NULL, &U));
        OK(ABT_thread_set_callback(U, cb, NULL));
    }
    int x = -1;
    if (C->requester == RQ_EXT)
        x = abtmc_thread_create(x_fn, NULL);
    OK(ABT_thread_join(U));
    if (x >= 0)
        abtmc_thread_join(x);
    abtmc_window_end();

    abtmc_check(u_done == 1, "run_count", "U completed %d times", u_done);
    if (C->parked == 3) {
        abtmc_check(req_rc == ABT_ERR_MIGRATION_NA && ncb == 0 && rank_after == 0,
                    "migrate_no_target",
                    "no other running stream: ABT_thread_migrate returned %d, %d "
                    "callbacks, U ended on rank %d", req_rc, ncb, rank_after);
    } else {
        abtmc_check(req_rc == ABT_SUCCESS, "migrate_rc",
                    "ABT_thread_migrate returned %d although a running stream exists",
                    req_rc);
        int ok_rank = rank_after >= 1 && rank_after <= 2 &&
                      !(C->parked & (1 << (rank_after - 1)));
        abtmc_check(ncb == 1, "callback_count",
                    "%d migration callbacks for one performed migration (callback "
                    "registered %s)", ncb,
                    C->attr_late ? "through the creation attribute" : "by set_callback");
        abtmc_check(ok_rank, "migrated_to_parked_stream",
                    "U continued on rank %d (parked mask %d)", rank_after, C->parked);
    }
    abtmc_observe("rc%d cb%d rank%d", req_rc, ncb, rank_after);
    OK(ABT_thread_free(&U));
    for (int i = 1; i <= 2; i++) {
        if (!(C->parked & (1 << (i - 1))))
            OK(ABT_xstream_join(es[i]));
        OK(ABT_xstream_free(&es[i]));
    }
    h_finalize();
    abtmc_check(abtmc_ledger_live() == 0, "leak", "%ld live allocations",
                abtmc_ledger_live());
}

static const char *cfg_name(int i) { return cfgs[i].name; }
static int cfg_quick(int i) { return cfgs[i].quick; }

int main(int argc, char **argv)
{
    static abtmc_driver d = { "c13_parked", "C13", ARRAY_LEN(cfgs), cfg_name, scenario,
                              cfg_quick };
    return abtmc_main(argc, argv, &d);
}
