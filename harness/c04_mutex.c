/* c04_mutex.c -- C04: ABT_mutex exclusion, recursion, no lost wake-up.
 * 2-3 lockers drawn from {ULT on ES0, second ULT on ES0, ULT on ES1, tasklet
 * on ES1, external thread}, each doing 1-2 rounds of lock/unlock variants. */
#include "common.h"

enum { A_U0, A_U1, A_TASK1, A_EXT, A_US /* ULT in a pool shared by ES1+ES2 */ };
enum { L_LOCK, L_LOW, L_HIGH, L_SPIN, L_TRY };       /* lock kinds */
enum { U_UNLOCK, U_SE, U_DE };                       /* unlock kinds */
enum { M_DYN, M_REC, M_STATIC, M_STATIC_REC };       /* mutex kinds */

typedef struct {
    int actor, lock, unlock, rounds, yield_in_cs;
} actor_t;

typedef struct {
    const char *name;
    int quick;
    int mkind;
    int nactors;
    actor_t a[3];
} cfg_t;

#define ACT(a, l, u, r, y) { a, l, u, r, y }
static const cfg_t cfgs[] = {
    { "U0.lock+U1.lock", 1, M_DYN, 2,
      { ACT(A_U0, L_LOCK, U_UNLOCK, 1, 0), ACT(A_U1, L_LOCK, U_UNLOCK, 1, 0) } },
    { "U0.lock+U0.lock(yield-in-cs)+X.lock", 1, M_DYN, 3,
      { ACT(A_U0, L_LOCK, U_UNLOCK, 1, 1), ACT(A_U0, L_LOCK, U_UNLOCK, 1, 1),
        ACT(A_EXT, L_LOCK, U_UNLOCK, 1, 0) } },
    { "U0.lock+X.lock", 1, M_DYN, 2,
      { ACT(A_U0, L_LOCK, U_UNLOCK, 1, 0), ACT(A_EXT, L_LOCK, U_UNLOCK, 1, 0) } },
    { "U1.lock+T1... tasklet+X", 1, M_DYN, 2,
      { ACT(A_TASK1, L_LOCK, U_UNLOCK, 1, 0), ACT(A_EXT, L_LOCK, U_UNLOCK, 1, 0) } },
    { "U0.low+U1.high 2 rounds", 1, M_DYN, 2,
      { ACT(A_U0, L_LOW, U_SE, 2, 0), ACT(A_U1, L_HIGH, U_DE, 2, 0) } },
    { "U0.try+U1.lock", 1, M_DYN, 2,
      { ACT(A_U0, L_TRY, U_UNLOCK, 2, 0), ACT(A_U1, L_LOCK, U_UNLOCK, 1, 0) } },
    { "recursive U0+U1", 1, M_REC, 2,
      { ACT(A_U0, L_LOCK, U_UNLOCK, 1, 0), ACT(A_U1, L_LOCK, U_UNLOCK, 1, 0) } },
    { "static U0+X spin", 1, M_STATIC, 2,
      { ACT(A_U0, L_LOCK, U_UNLOCK, 1, 0), ACT(A_EXT, L_SPIN, U_UNLOCK, 1, 0) } },
    { "U0+U1+X lock", 0, M_DYN, 3,
      { ACT(A_U0, L_LOCK, U_UNLOCK, 1, 0), ACT(A_U1, L_LOCK, U_UNLOCK, 1, 0),
        ACT(A_EXT, L_LOCK, U_UNLOCK, 1, 0) } },
    { "U0+U0+U1 lock yield", 0, M_DYN, 3,
      { ACT(A_U0, L_LOCK, U_UNLOCK, 1, 1), ACT(A_U0, L_LOCK, U_UNLOCK, 1, 0),
        ACT(A_U1, L_LOCK, U_UNLOCK, 1, 0) } },
    { "static recursive U1+X try", 0, M_STATIC_REC, 2,
      { ACT(A_U1, L_LOCK, U_UNLOCK, 1, 0), ACT(A_EXT, L_TRY, U_UNLOCK, 2, 0) } },
    { "U0.spin+U1.spin", 0, M_DYN, 2,
      { ACT(A_U0, L_SPIN, U_UNLOCK, 2, 0), ACT(A_U1, L_SPIN, U_UNLOCK, 2, 0) } },
    { "U1.lock x2 rounds+X.lock x2", 0, M_DYN, 2,
      { ACT(A_U1, L_LOCK, U_DE, 2, 0), ACT(A_EXT, L_LOCK, U_SE, 2, 0) } },
    { "task+task ES1 & U0", 0, M_DYN, 3,
      { ACT(A_TASK1, L_LOCK, U_UNLOCK, 1, 0), ACT(A_U0, L_LOCK, U_UNLOCK, 1, 0),
        ACT(A_U0, L_HIGH, U_UNLOCK, 1, 0) } },
    { "recursive U0+U0 yield +U1", 0, M_REC, 3,
      { ACT(A_U0, L_LOCK, U_UNLOCK, 1, 1), ACT(A_U0, L_LOCK, U_UNLOCK, 1, 1),
        ACT(A_U1, L_LOCK, U_UNLOCK, 1, 0) } },
    { "US.lock+US.lock x2+X.lock x2 (pool shared by ES1,ES2)", 1, M_DYN, 3,
      { ACT(A_US, L_LOCK, U_UNLOCK, 1, 0), ACT(A_US, L_LOCK, U_UNLOCK, 2, 0),
        ACT(A_EXT, L_LOCK, U_UNLOCK, 2, 0) } },
    { "US.lock+US.high+U0.lock x2 (pool shared by ES1,ES2)", 0, M_DYN, 3,
      { ACT(A_US, L_LOCK, U_UNLOCK, 1, 0), ACT(A_US, L_HIGH, U_DE, 1, 0),
        ACT(A_U0, L_LOCK, U_UNLOCK, 2, 0) } },
    { "recursive US+US+X (pool shared by ES1,ES2)", 0, M_REC, 3,
      { ACT(A_US, L_LOCK, U_UNLOCK, 1, 0), ACT(A_US, L_LOCK, U_UNLOCK, 1, 0),
        ACT(A_EXT, L_LOCK, U_UNLOCK, 1, 0) } },
    { "U0.low+U0.high+X", 0, M_DYN, 3,
      { ACT(A_U0, L_LOW, U_UNLOCK, 1, 0), ACT(A_U0, L_HIGH, U_UNLOCK, 1, 0),
        ACT(A_EXT, L_LOCK, U_UNLOCK, 1, 0) } },
    /* the holder is descheduled inside the critical section on the stream where
     * a lock_high / lock_low caller arrives while somebody else already waits */
    { "U0.lock(yield-in-cs)+X.lock+U0.high", 1, M_DYN, 3,
      { ACT(A_U0, L_LOCK, U_UNLOCK, 1, 1), ACT(A_EXT, L_LOCK, U_UNLOCK, 1, 0),
        ACT(A_U0, L_HIGH, U_UNLOCK, 1, 0) } },
    { "U0.low(yield-in-cs)+U1.lock+U0.low+ (recursive)", 0, M_REC, 3,
      { ACT(A_U0, L_LOW, U_UNLOCK, 1, 1), ACT(A_U1, L_LOCK, U_UNLOCK, 1, 0),
        ACT(A_U0, L_LOW, U_SE, 1, 0) } },
    { "U0.high(yield-in-cs)+U0.high+U1.high", 0, M_DYN, 3,
      { ACT(A_U0, L_HIGH, U_UNLOCK, 1, 1), ACT(A_U0, L_HIGH, U_DE, 1, 1),
        ACT(A_U1, L_HIGH, U_UNLOCK, 1, 0) } },
};

static const cfg_t *C;
static ABT_mutex mtx;
static ABT_mutex_memory static_mem = ABT_MUTEX_INITIALIZER;
static ABT_mutex_memory static_rec_mem = ABT_RECURSIVE_MUTEX_INITIALIZER;
static int holders;            /* plain: protected by the mutex under test */
static int acquired[3], tryfail[3];
/* outer holding intervals and failed-trylock intervals (step stamps) */
static long hold_from[3][4], hold_to[3][4];
static int nhold[3];
static long tf_from[3][4], tf_to[3][4];
static char order[16];
static int norder;

static int do_lock(int kind)
{
    switch (kind) {
        case L_LOCK: OK(ABT_mutex_lock(mtx)); return 1;
        case L_LOW: OK(ABT_mutex_lock_low(mtx)); return 1;
        case L_HIGH: OK(ABT_mutex_lock_high(mtx)); return 1;
        case L_SPIN: OK(ABT_mutex_spinlock(mtx)); return 1;
        default: {
            int r = ABT_mutex_trylock(mtx);
            abtmc_check(r == ABT_SUCCESS || r == ABT_ERR_MUTEX_LOCKED,
                        "trylock_code", "trylock returned %d", r);
            return r == ABT_SUCCESS;
        }
    }
}
static void do_unlock(int kind)
{
    if (kind == U_SE)
        OK(ABT_mutex_unlock_se(mtx));
    else if (kind == U_DE)
        OK(ABT_mutex_unlock_de(mtx));
    else
        OK(ABT_mutex_unlock(mtx));
}

static void critical(const actor_t *a, int depth)
{
    int h = ++holders;
    abtmc_check(h == 1 + depth, "mutual_exclusion",
                "mutual exclusion broken: %d holders inside the critical "
                "section (expected %d)",
                h, 1 + depth);
    abtmc_progress();
    if (a->yield_in_cs && a->actor == A_U0)
        OK(ABT_thread_yield());
    abtmc_check(holders == h, "mutual_exclusion",
                "holder count changed inside the critical section: %d -> %d",
                h, holders);
    holders--;
}

static void actor_body(void *arg)
{
    int idx = (int)(intptr_t)arg;
    const actor_t *a = &C->a[idx];
    int rec = (C->mkind == M_REC || C->mkind == M_STATIC_REC);
    for (int r = 0; r < a->rounds; r++) {
        long t0 = abtmc_step();
        int got = do_lock(a->lock);
        if (!got) {
            tf_from[idx][tryfail[idx]] = t0;
            tf_to[idx][tryfail[idx]] = abtmc_step();
            tryfail[idx]++;
            continue;
        }
        order[norder++] = (char)('0' + idx); /* protected by the mutex */
        if (rec) {
            /* second, nested acquisition must succeed immediately */
            int got2 = do_lock(a->lock == L_TRY ? L_TRY : L_LOCK);
            abtmc_check(got2, "recursion", "nested lock by the owner failed");
            int h = ++holders;
            abtmc_check(h == 1, "mutual_exclusion",
                        "mutual exclusion broken (recursive, outer): %d", h);
            critical(a, 1);
            do_unlock(a->unlock);
            /* still the owner after one unlock */
            abtmc_progress();
            abtmc_check(holders == 1, "recursion",
                        "another locker entered after 1 of 2 unlocks "
                        "(holders=%d)", holders);
            holders--;
        } else {
            critical(a, 0);
        }
        acquired[idx]++;
        hold_from[idx][nhold[idx]] = t0;
        do_unlock(a->unlock);
        hold_to[idx][nhold[idx]] = abtmc_step();
        nhold[idx]++;
    }
}

static void scenario(int cfg)
{
    C = &cfgs[cfg];
    h_init();
    ABT_xstream es1 = ABT_XSTREAM_NULL, es2 = ABT_XSTREAM_NULL;
    ABT_pool shared = ABT_POOL_NULL;
    int need_es1 = 0, need_shared = 0;
    for (int i = 0; i < C->nactors; i++) {
        if (C->a[i].actor == A_U1 || C->a[i].actor == A_TASK1)
            need_es1 = 1;
        if (C->a[i].actor == A_US)
            need_shared = 1;
    }
    switch (C->mkind) {
        case M_DYN: OK(ABT_mutex_create(&mtx)); break;
        case M_REC: {
            ABT_mutex_attr at;
            OK(ABT_mutex_attr_create(&at));
            OK(ABT_mutex_attr_set_recursive(at, ABT_TRUE));
            OK(ABT_mutex_create_with_attr(at, &mtx));
            OK(ABT_mutex_attr_free(&at));
            break;
        }
        case M_STATIC: mtx = ABT_MUTEX_MEMORY_GET_HANDLE(&static_mem); break;
        default: mtx = ABT_MUTEX_MEMORY_GET_HANDLE(&static_rec_mem); break;
    }
    if (need_shared) {
        /* two streams serve one pool: a blocked locker may resume on the other */
        ABT_sched s1, s2;
        OK(ABT_pool_create_basic(ABT_POOL_FIFO, ABT_POOL_ACCESS_MPMC, ABT_TRUE,
                                 &shared));
        OK(ABT_sched_create_basic(ABT_SCHED_BASIC, 1, &shared,
                                  ABT_SCHED_CONFIG_NULL, &s1));
        OK(ABT_sched_create_basic(ABT_SCHED_BASIC, 1, &shared,
                                  ABT_SCHED_CONFIG_NULL, &s2));
        OK(ABT_xstream_create(s1, &es1));
        OK(ABT_xstream_create(s2, &es2));
    } else if (need_es1)
        OK(ABT_xstream_create(ABT_SCHED_NULL, &es1));
    ABT_pool p0 = h_main_pool(h_self_xstream());
    ABT_pool p1 = (need_es1 && !need_shared) ? h_main_pool(es1) : ABT_POOL_NULL;

    abtmc_window_begin();
    ABT_thread th[3] = { ABT_THREAD_NULL, ABT_THREAD_NULL, ABT_THREAD_NULL };
    int xt[3] = { -1, -1, -1 };
    for (int i = 0; i < C->nactors; i++) {
        void *arg = (void *)(intptr_t)i;
        switch (C->a[i].actor) {
            case A_U0:
                OK(ABT_thread_create(p0, actor_body, arg, ABT_THREAD_ATTR_NULL,
                                     &th[i]));
                break;
            case A_U1:
                OK(ABT_thread_create(p1, actor_body, arg, ABT_THREAD_ATTR_NULL,
                                     &th[i]));
                break;
            case A_TASK1:
                OK(ABT_task_create(p1, actor_body, arg, &th[i]));
                break;
            case A_US:
                OK(ABT_thread_create(shared, actor_body, arg,
                                     ABT_THREAD_ATTR_NULL, &th[i]));
                break;
            default:
                xt[i] = abtmc_thread_create(actor_body, arg);
                break;
        }
    }
    for (int i = 0; i < C->nactors; i++) {
        if (th[i] != ABT_THREAD_NULL)
            OK(ABT_thread_free(&th[i]));
        if (xt[i] >= 0)
            abtmc_thread_join(xt[i]);
    }
    abtmc_window_end();

    /* oracle at quiescence */
    abtmc_check(holders == 0, "mutual_exclusion", "holders=%d at the end",
                holders);
    for (int i = 0; i < C->nactors; i++) {
        const actor_t *a = &C->a[i];
        abtmc_check(acquired[i] + tryfail[i] == a->rounds, "lost_locker",
                    "actor %d finished %d of %d rounds", i,
                    acquired[i] + tryfail[i], a->rounds);
        if (a->lock != L_TRY)
            abtmc_check(tryfail[i] == 0, "lost_locker", "blocking lock failed");
        /* a failed trylock must overlap somebody's (outer) holding interval */
        for (int k = 0; k < tryfail[i]; k++) {
            int overlap = 0;
            for (int j = 0; j < C->nactors; j++)
                for (int m = 0; m < nhold[j]; m++)
                    if (j != i && hold_from[j][m] < tf_to[i][k] &&
                        tf_from[i][k] < hold_to[j][m])
                        overlap = 1;
            abtmc_check(overlap, "trylock_spurious_fail",
                        "trylock failed although nobody held or was "
                        "acquiring the mutex during the call");
        }
    }
    /* order in which the actors got the mutex + trylock results */
    {
        order[norder] = 0;
        abtmc_observe("order=%s tryfail=%d%d%d", order, tryfail[0], tryfail[1],
                      tryfail[2]);
    }
    /* the mutex must be free now */
    OK(ABT_mutex_lock(mtx));
    OK(ABT_mutex_unlock(mtx));
    if (C->mkind == M_DYN || C->mkind == M_REC)
        OK(ABT_mutex_free(&mtx));
    if (es1 != ABT_XSTREAM_NULL) {
        OK(ABT_xstream_join(es1));
        OK(ABT_xstream_free(&es1));
    }
    if (es2 != ABT_XSTREAM_NULL) {
        OK(ABT_xstream_join(es2));
        OK(ABT_xstream_free(&es2));
    }
    h_finalize();
}

static const char *cfg_name(int i) { return cfgs[i].name; }
static int cfg_quick(int i) { return cfgs[i].quick; }

int main(int argc, char **argv)
{
    static abtmc_driver d = { "c04_mutex", "C04", ARRAY_LEN(cfgs), cfg_name,
                              scenario, cfg_quick };
    return abtmc_main(argc, argv, &d);
}
