/* c03_join.h -- shared code of the C03 drivers (c03_join, c03_join3): join/free return after, and only after, the target has
 * terminated.
 *
 * One joiner {ULT in the target's pool, ULT on another stream, tasklet,
 * primary ULT, external thread} joins/frees one (two for *_many) named
 * target {ULT, tasklet} that {returns, yields then returns, ABT_self_exit,
 * ABT_self_exit_to(third), is cancelled by a third party, blocks on an
 * eventual first}.  The target's last statements are the plain stores
 * payload = 42; done = 1.  "Before / during / after termination" is produced
 * by the interleavings (and by the creation order on a single stream, and by
 * the `after` mode where the joiner first waits until it sees TERMINATED). */
#ifndef HARNESS_C03_JOIN_H
#define HARNESS_C03_JOIN_H
#include "abti.h" /* white box: state word of a freed descriptor */
#include "common.h"

enum { J_SAME, J_OTHER, J_TASK, J_PRIM, J_EXT };            /* joiner kinds */
enum { T_ULT, T_TASK };                                     /* target kinds */
enum { B_RET, B_YRET, B_EXIT, B_EXITTO, B_CANCEL, B_BLOCK }; /* behaviours  */
enum { C_JOIN, C_FREE, C_JOIN2, C_JOIN_MANY, C_FREE_MANY, C_TJOIN, C_TFREE };
enum { H_NONE, H_PRIM, H_EXT, H_ULT0 }; /* who cancels / sets the eventual */
enum { O_TJ, O_JT };                    /* creation order target/joiner    */

typedef struct {
    const char *name;
    int quick;
    int jkind, jes; /* joiner kind; stream of a ULT/tasklet joiner */
    int tkind, tes; /* target kind and stream */
    int beh, call;
    int helper;
    int order;
    int mstack; /* target 0 gets a non-default stack size: malloc'ed */
    int t2es;   /* stream of the second target (*_many), -1: none */
    int after;  /* joiner first waits until it observes TERMINATED */
} cfg_t;

#define MAXT 2
static const cfg_t *cfg_table; /* set by C03_MAIN */
static const cfg_t *C;
static ABT_thread th[MAXT] = { ABT_THREAD_NULL, ABT_THREAD_NULL };
static ABT_thread third = ABT_THREAD_NULL;
static ABT_pool px = ABT_POOL_NULL; /* free-standing pool holding `third` */
static ABT_eventual ev = ABT_EVENTUAL_NULL;
static int ntargets;
static int started[MAXT];          /* hooked */
static int payload[MAXT], done[MAXT]; /* plain: the target's last stores */
static int third_ran;
static int jdone; /* hooked: the joiner finished all its checks */
static int created; /* hooked: the target handles are valid (order O_JT) */
/* white box: request word of a descriptor at the return of its free */
static ABTI_thread *freed_p[MAXT];
static uint32_t freed_req[MAXT];

/* ------------------------------------------------------------- target */
static int beh_of(int k) { return k == 0 ? C->beh : B_RET; }

static void third_body(void *arg)
{
    (void)arg;
    third_ran = 1;
}

static void target_body(void *arg)
{
    int k = (int)(intptr_t)arg;
    int beh = beh_of(k);
    abtmc_store(&started[k], 1);
    if (beh == B_YRET)
        OK(ABT_thread_yield());
    else if (beh == B_BLOCK)
        OK(ABT_eventual_wait(ev, NULL));
    abtmc_progress();
    payload[k] = 42;
    done[k] = 1;
    if (beh == B_EXIT) {
        int r = ABT_self_exit();
        abtmc_check(0, "exit_returned", "ABT_self_exit returned %d", r);
    } else if (beh == B_EXITTO) {
        ABT_thread t = ABT_THREAD_NULL;
        OK(ABT_pool_pop_thread(px, &t));
        abtmc_check(t == third, "api_error", "popped an unexpected unit");
        int r = ABT_self_exit_to(t);
        abtmc_check(0, "exit_returned", "ABT_self_exit_to returned %d", r);
    } else if (beh == B_CANCEL) {
        /* runs until the cancellation request is honoured at a yield */
        for (;;)
            OK(ABT_thread_yield());
    }
}

/* ------------------------------------------------------------- helper */
static void helper_body(void *arg)
{
    (void)arg;
    if (C->beh == B_CANCEL)
        OK(ABT_thread_cancel(th[0])); /* th[0] cannot terminate by itself */
    else if (C->beh == B_BLOCK)
        OK(ABT_eventual_set(ev, NULL, 0));
}

/* ------------------------------------------------------------- joiner */
static char state_char(ABT_thread t)
{
    ABT_thread_state s;
    OK(ABT_thread_get_state(t, &s));
    switch (s) {
        case ABT_THREAD_STATE_READY: return 'r';
        case ABT_THREAD_STATE_RUNNING: return 'u';
        case ABT_THREAD_STATE_BLOCKED: return 'b';
        default: return 'T';
    }
}

/* oracle at the return of a join on target k */
static void check_joined(int k, ABT_thread h, const char *what)
{
    if (beh_of(k) == B_CANCEL) {
        /* a cancelled target stops at a yield (after its stores) or never
         * starts */
        int s = abtmc_load(&started[k]);
        abtmc_check(done[k] == s && (!s || payload[k] == 42),
                    "join_returned_early",
                    "%s returned while the cancelled target %d was inside its "
                    "function (started=%d done=%d payload=%d)",
                    what, k, s, done[k], payload[k]);
    } else {
        abtmc_check(done[k] == 1 && payload[k] == 42, "join_returned_early",
                    "%s returned before target %d finished its function "
                    "(done=%d payload=%d)",
                    what, k, done[k], payload[k]);
    }
    if (h != ABT_THREAD_NULL) {
        ABT_thread_state s;
        OK(ABT_thread_get_state(h, &s));
        abtmc_check(s == ABT_THREAD_STATE_TERMINATED, "state_not_terminated",
                    "%s returned but ABT_thread_get_state(target %d) = %d, "
                    "not TERMINATED",
                    what, k, (int)s);
        if (C->tkind == T_TASK) {
            ABT_task_state ts;
            OK(ABT_task_get_state(h, &ts));
            abtmc_check(ts == ABT_TASK_STATE_TERMINATED, "state_not_terminated",
                        "%s returned but ABT_task_get_state = %d", what,
                        (int)ts);
        }
    }
}

/* oracle at the return of a free of target k; `p` is the old descriptor */
static void check_freed(int k, ABTI_thread *p, int was_malloc, const char *what)
{
    /* ABT_task_free documents ABT_TASK_NULL, the others ABT_THREAD_NULL */
    ABT_thread null_h = (C->call == C_TJOIN || C->call == C_TFREE)
                            ? (ABT_thread)ABT_TASK_NULL
                            : ABT_THREAD_NULL;
    abtmc_check(th[k] == null_h, "handle_not_null",
                "%s did not set the handle of target %d to NULL", what, k);
    check_joined(k, ABT_THREAD_NULL, what);
#ifdef ABTMC_NO_MEM_POOL
    was_malloc = 1; /* mc-asan-nopool flavour: every descriptor is malloc'ed */
#endif
    if (was_malloc) {
        abtmc_check(!abtmc_ledger_find(p, NULL, NULL), "not_released",
                    "%s returned but the malloc'ed descriptor+stack of target "
                    "%d is still live in the ledger",
                    what, k);
    } else {
        /* the descriptor went back to a memory pool and is still mapped: its
         * state word tells whether the unit had terminated when it was freed
         * (the pool header only overwrites p_prev/p_next) */
        int s = ABTD_atomic_relaxed_load_int(&p->state);
        abtmc_check(s == ABT_THREAD_STATE_TERMINATED, "free_before_terminated",
                    "%s released target %d while its state was %d, not "
                    "TERMINATED",
                    what, k, s);
        freed_p[k] = p;
        freed_req[k] = ABTD_atomic_relaxed_load_uint32(&p->request);
    }
}

static void joiner_body(void *arg)
{
    (void)arg;
    int n = ntargets;
    ABTI_thread *p[MAXT];
    int was_malloc[MAXT];
    char pre[MAXT], pd[MAXT];
    int yieldable = (C->jkind == J_SAME || C->jkind == J_OTHER ||
                     C->jkind == J_PRIM);

    /* created before the targets, possibly on a stream that is already
     * running: wait for the handles */
    if (C->order == O_JT)
        abtmc_wait_until_eq(&created, 1);
    for (int k = 0; k < n; k++) {
        p[k] = (ABTI_thread *)th[k];
        was_malloc[k] = (k == 0 && C->mstack);
        if (was_malloc[k])
            abtmc_check(abtmc_ledger_find(p[k], NULL, NULL), "harness",
                        "malloc'ed target not found in the ledger");
    }
    if (C->after) {
        for (int k = 0; k < n; k++) {
            while (state_char(th[k]) != 'T') {
                if (yieldable)
                    OK(ABT_thread_yield());
                else
                    abtmc_spin_hint(1001, &th[k]);
            }
        }
    }
    for (int k = 0; k < n; k++) {
        pre[k] = state_char(th[k]);
        pd[k] = (char)('0' + done[k]);
    }

    switch (C->call) {
        case C_JOIN:
            OK(ABT_thread_join(th[0]));
            check_joined(0, th[0], "ABT_thread_join");
            OK(ABT_thread_free(&th[0]));
            check_freed(0, p[0], was_malloc[0], "ABT_thread_free(joined)");
            break;
        case C_JOIN2:
            OK(ABT_thread_join(th[0]));
            check_joined(0, th[0], "ABT_thread_join");
            OK(ABT_thread_join(th[0]));
            check_joined(0, th[0], "ABT_thread_join(2nd)");
            OK(ABT_thread_free(&th[0]));
            check_freed(0, p[0], was_malloc[0], "ABT_thread_free(joined)");
            break;
        case C_FREE:
            OK(ABT_thread_free(&th[0]));
            check_freed(0, p[0], was_malloc[0], "ABT_thread_free");
            break;
        case C_TJOIN:
            OK(ABT_task_join(th[0]));
            check_joined(0, th[0], "ABT_task_join");
            OK(ABT_task_free(&th[0]));
            check_freed(0, p[0], was_malloc[0], "ABT_task_free(joined)");
            break;
        case C_TFREE:
            OK(ABT_task_free(&th[0]));
            check_freed(0, p[0], was_malloc[0], "ABT_task_free");
            break;
        case C_JOIN_MANY: {
            ABT_thread list[MAXT];
            for (int k = 0; k < n; k++)
                list[k] = th[k];
            OK(ABT_thread_join_many(n, list));
            for (int k = 0; k < n; k++)
                check_joined(k, th[k], "ABT_thread_join_many");
            OK(ABT_thread_free_many(n, th));
            for (int k = 0; k < n; k++)
                check_freed(k, p[k], was_malloc[k],
                            "ABT_thread_free_many(joined)");
            break;
        }
        default: /* C_FREE_MANY */
            OK(ABT_thread_free_many(n, th));
            for (int k = 0; k < n; k++)
                check_freed(k, p[k], was_malloc[k], "ABT_thread_free_many");
            break;
    }
    /* where was each target when the call was issued? */
    if (n == 1)
        abtmc_observe("at-call:%c%c", pre[0], pd[0]);
    else
        abtmc_observe("at-call:%c%c,%c%c", pre[0], pd[0], pre[1], pd[1]);
    abtmc_store(&jdone, 1);
}

/* ----------------------------------------------------------- scenario */
static void create_target(int k, ABT_pool pool, ABT_thread_attr attr)
{
    void *arg = (void *)(intptr_t)k;
    if (C->tkind == T_TASK)
        OK(ABT_task_create(pool, target_body, arg, &th[k]));
    else
        OK(ABT_thread_create(pool, target_body, arg,
                             (k == 0 && C->mstack) ? attr
                                                   : ABT_THREAD_ATTR_NULL,
                             &th[k]));
}

static void scenario(int cfg)
{
    C = &cfg_table[cfg];
    h_init();
    ntargets = (C->t2es >= 0) ? 2 : 1;
    int nes = 1;
    if (C->tes + 1 > nes)
        nes = C->tes + 1;
    if (C->t2es + 1 > nes)
        nes = C->t2es + 1;
    if ((C->jkind == J_SAME || C->jkind == J_OTHER || C->jkind == J_TASK) &&
        C->jes + 1 > nes)
        nes = C->jes + 1;
    ABT_xstream es[3] = { h_self_xstream(), ABT_XSTREAM_NULL,
                          ABT_XSTREAM_NULL };
    ABT_pool pool[3];
    for (int i = 1; i < nes; i++)
        OK(ABT_xstream_create(ABT_SCHED_NULL, &es[i]));
    for (int i = 0; i < nes; i++)
        pool[i] = h_main_pool(es[i]);

    ABT_thread_attr attr = ABT_THREAD_ATTR_NULL;
    if (C->mstack) {
        OK(ABT_thread_attr_create(&attr));
        OK(ABT_thread_attr_set_stacksize(attr, 32768));
    }
    if (C->beh == B_BLOCK)
        OK(ABT_eventual_create(0, &ev));
    if (C->beh == B_EXITTO) {
        OK(ABT_pool_create_basic(ABT_POOL_FIFO, ABT_POOL_ACCESS_MPMC, ABT_FALSE,
                                 &px));
        OK(ABT_thread_create(px, third_body, NULL, ABT_THREAD_ATTR_NULL,
                             &third));
    }

    abtmc_window_begin();
    ABT_thread jh = ABT_THREAD_NULL, hh = ABT_THREAD_NULL;
    int jx = -1, hx = -1;
    for (int pass = 0; pass < 2; pass++) {
        int do_targets = (C->order == O_TJ) ? (pass == 0) : (pass == 1);
        if (do_targets) {
            create_target(0, pool[C->tes], attr);
            if (ntargets == 2)
                create_target(1, pool[C->t2es], attr);
            if (C->order == O_JT)
                abtmc_store(&created, 1);
        } else {
            switch (C->jkind) {
                case J_SAME:
                case J_OTHER:
                    OK(ABT_thread_create(pool[C->jes], joiner_body, NULL,
                                         ABT_THREAD_ATTR_NULL, &jh));
                    break;
                case J_TASK:
                    OK(ABT_task_create(pool[C->jes], joiner_body, NULL, &jh));
                    break;
                case J_EXT:
                    jx = abtmc_thread_create(joiner_body, NULL);
                    break;
                default: break; /* the primary ULT joins below */
            }
        }
    }
    switch (C->helper) {
        case H_PRIM: helper_body(NULL); break;
        case H_EXT: hx = abtmc_thread_create(helper_body, NULL); break;
        case H_ULT0:
            OK(ABT_thread_create(pool[0], helper_body, NULL,
                                 ABT_THREAD_ATTR_NULL, &hh));
            break;
        default: break;
    }
    if (C->jkind == J_PRIM)
        joiner_body(NULL);
    /* wait for the joiner; the primary ULT keeps stream 0 scheduling */
    if (jh != ABT_THREAD_NULL) {
        /* the primary ULT frees the joiner: a second, nested join under test
         * (its target may itself be blocked in a join) */
        char pj = state_char(jh);
        OK(ABT_thread_free(&jh));
        abtmc_check(jdone == 1, "join_returned_early",
                    "ABT_thread_free(joiner) returned before the joiner "
                    "finished its function");
        abtmc_check(jh == ABT_THREAD_NULL, "handle_not_null",
                    "ABT_thread_free did not set the joiner handle to NULL");
        abtmc_observe("joiner-at-free:%c", pj);
    }
    while (!abtmc_load(&jdone))
        OK(ABT_thread_yield());
    if (jx >= 0)
        abtmc_thread_join(jx);
    if (hx >= 0)
        abtmc_thread_join(hx);
    if (hh != ABT_THREAD_NULL)
        OK(ABT_thread_free(&hh));
    abtmc_window_end();

    abtmc_check(abtmc_load(&jdone) == 1, "harness", "joiner did not finish");
    for (int k = 0; k < ntargets; k++)
        abtmc_check(th[k] == ABT_THREAD_NULL ||
                        th[k] == (ABT_thread)ABT_TASK_NULL,
                    "handle_not_null", "target %d handle not NULL at the end",
                    k);
    if (C->beh == B_EXITTO) {
        OK(ABT_thread_free(&third));
        abtmc_check(third_ran == 1, "exit_to_lost_target",
                    "the ULT given to ABT_self_exit_to never ran");
        OK(ABT_pool_free(&px));
    }
    if (C->beh == B_BLOCK)
        OK(ABT_eventual_free(&ev));
    if (C->mstack)
        OK(ABT_thread_attr_free(&attr));
    for (int i = 1; i < nes; i++)
        OK(ABT_xstream_join(es[i]));
    /* all streams are quiet: nothing may have written to a descriptor after
     * it was released (no unit is created after the targets are freed, so the
     * pool element has not been handed out again) */
    for (int k = 0; k < ntargets; k++) {
        ABTI_thread *p = freed_p[k];
        if (!p || !abtmc_ledger_find(p, NULL, NULL))
            continue;
        uint32_t r = ABTD_atomic_relaxed_load_uint32(&p->request);
        int s = ABTD_atomic_relaxed_load_int(&p->state);
        abtmc_check(r == freed_req[k] && s == ABT_THREAD_STATE_TERMINATED,
                    "touched_after_free",
                    "the descriptor of target %d was modified after it had "
                    "been released (request %#x -> %#x, state %d)",
                    k, (unsigned)freed_req[k], (unsigned)r, s);
    }
    for (int i = 1; i < nes; i++)
        OK(ABT_xstream_free(&es[i]));
    h_finalize();
    abtmc_check(abtmc_ledger_live() == 0, "leak",
                "%ld blocks allocated by libabt still live after ABT_finalize",
                abtmc_ledger_live());
}

#define NOH H_NONE
/* defines the driver entry points for the config table `tab` */
#define C03_MAIN(drvname, tab)                                                 \
    static const char *cfg_name(int i) { return tab[i].name; }                 \
    static int cfg_quick(int i) { return tab[i].quick; }                       \
    int main(int argc, char **argv)                                            \
    {                                                                          \
        static abtmc_driver d = { drvname,   "C03",    ARRAY_LEN(tab),         \
                                  cfg_name,  scenario, cfg_quick };            \
        cfg_table = tab;                                                       \
        return abtmc_main(argc, argv, &d);                                     \
    }

#endif
