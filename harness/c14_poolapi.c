/* c14_poolapi.c -- C14, second driver: the public operations that change or use
 * the unit <-> work-unit association and that c14_userpool.c does not call.
 *
 *   ABT_self_set_associated_pool   (primary ULT, ULT, tasklet; also with a
 *                                   failing create_unit)
 *   ABT_thread_set_associated_pool (after a pop, followed by ABT_pool_push)
 *   ABT_unit_set_associated_pool   (documented no-operation)
 *   ABT_pool_pop / ABT_pool_push / ABT_pool_remove / ABT_pool_pop_timedwait
 *                                  (the unit-level calls of legacy schedulers)
 *   ABT_pool_pop_threads / ABT_pool_push_threads / ABT_pool_pop_wait_thread on
 *   user pools that provide pop_many / push_many / pop_wait
 *   (ABT_pool_user_def_set_pop_many / _set_push_many / _set_pop_wait), on the
 *   legacy-def pool (pool_pop_many_wrapper / pool_push_many_wrapper,
 *   p_pop_timedwait, p_remove) and the predefined BASIC_WAIT scheduler on them
 *   a user-defined scheduler written against the legacy run loop
 *   ABT_pool_pop + ABT_xstream_run_unit, also handing the unit to
 *   ABT_xstream_run_unit with another pool than the one it was popped from, and
 *   stacked (ABT_pool_add_sched into a user pool).
 *
 * The user pools, their unit records and all callback checks are those of
 * c14_common.h.
 *
 * S configs: one stream whose main scheduler is the legacy run loop over
 * [main, UA (new API), UL (legacy def), B (built-in)]; every history of bounded
 * depth over the operations listed at scenario_seq().
 * K config:  one stream, a stacked legacy-loop scheduler; its position, the
 * pool it serves and the pool it runs the units with are enumerated.
 * I configs: primary ULT + second stream + external thread(s), small schedules
 * over the same operations with everything in one hash bucket. */
#include "c14_common.h"

/* ABT_pool_pop_timedwait is deprecated but public; it is what reaches p_pop_timedwait */
#pragma GCC diagnostic ignored "-Wdeprecated-declarations"

/* ----------------------------------------------------------------- configs --*/
enum { M_SEQ, M_STACK, M_CONC };
enum { J_WAITSCHED, J_LEGACY, J_LEGACY_X, J_SELFSET, J_SELFSET1, J_BULK, J_STACKED };
typedef struct {
    const char *name;
    int quick;
    int mode;
    int depth;     /* M_SEQ */
    int icase;     /* M_CONC */
    int collide;
    int policy;
    int served_legacy; /* M_CONC: the served pool is the legacy-def pool */
    int recycle;       /* freed unit addresses are reused */
} cfg_t;

static const cfg_t cfgs[] = {
    /* quick */
    { "S depth3: histories over set_associated_pool (self/thread/unit), unit-level "
      "pop/push/remove, pop_threads/push_threads, pop_wait, cross-pool run_unit; "
      "legacy-loop main scheduler, one bucket, FIFO pop", 1, M_SEQ, 3, 0, 1,
      POL_FIFO, 0, 0 },
    { "K: stacked legacy-loop scheduler in UA/UL/B serving the other user pool; "
      "run_unit with the popped pool or with the third pool", 1, M_STACK, 0, 0, 1, POL_FIFO, 0,
      0 },
    { "I: ES1 BASIC_WAIT on user pools with pop_wait | primary creates+frees | X "
      "translates parked unit", 1, M_CONC, 0, J_WAITSCHED, 1, POL_FIFO, 0, 0 },
    { "I: ES1 legacy loop runs units of SERVED with pool SERVED2 (re-association "
      "in ABT_xstream_run_unit) | primary creates+frees | X translates", 1, M_CONC,
      0, J_LEGACY_X, 1, POL_FIFO, 0, 0 },
    { "I: a ULT calls ABT_self_set_associated_pool(SERVED2) on ES1 | primary "
      "creates+frees | X translates", 1, M_CONC, 0, J_SELFSET1, 1, POL_FIFO, 0, 0 },
    { "I: X pop_threads(parking) + push_threads(SERVED), frees | ES1 runs | "
      "primary creates and translates; unit addresses recycled", 1, M_CONC, 0,
      J_BULK, 1, POL_FIFO, 0, 1 },
    /* thorough only */
    { "I: ES1 legacy loop (ABT_pool_pop + ABT_xstream_run_unit) on a legacy-def "
      "pool | X creates unnamed units | primary translates", 0, M_CONC, 0, J_LEGACY,
      1, POL_LIFO, 1, 0 },
    { "I: ULT and tasklet call ABT_self_set_associated_pool(SERVED2) on ES1 | "
      "primary creates+frees | X translates", 0, M_CONC, 0, J_SELFSET, 1, POL_FIFO,
      0, 0 },
    { "I: primary adds a stacked legacy-loop scheduler to SERVED | ES1 legacy "
      "loop | X translates", 0, M_CONC, 0, J_STACKED, 1, POL_FIFO, 0, 0 },
    { "S depth4: one bucket, FIFO pop", 0, M_SEQ, 4, 0, 1, POL_FIFO, 0, 0 },
    { "S depth4: one bucket, LIFO pop, unit addresses recycled", 0, M_SEQ, 4, 0, 1,
      POL_LIFO, 0, 1 },
    { "S depth3: one bucket, pop index chosen (E)", 0, M_SEQ, 3, 0, 1, POL_CHOOSE,
      0, 0 },
    { "S depth3: distinct buckets, LIFO pop", 0, M_SEQ, 3, 0, 0, POL_LIFO, 0, 0 },
    { "K: stacked legacy-loop scheduler, LIFO pop, unit addresses recycled", 0,
      M_STACK, 0, 0, 1, POL_LIFO, 0, 1 },
    { "I: ES1 BASIC_WAIT on a legacy-def pool with p_pop_timedwait | primary "
      "creates+frees | X translates", 0, M_CONC, 0, J_WAITSCHED, 1, POL_LIFO, 1, 0 },
    { "I: ES1 legacy loop on a new-API pool | X creates unnamed units | primary "
      "translates; unit addresses recycled", 0, M_CONC, 0, J_LEGACY, 1, POL_FIFO, 0,
      1 },
    { "I: ES1 legacy loop runs units of a legacy-def SERVED with SERVED2; unit "
      "addresses recycled", 0, M_CONC, 0, J_LEGACY_X, 1, POL_FIFO, 1, 1 },
    { "I: ABT_self_set_associated_pool from a legacy-def pool; unit addresses "
      "recycled", 0, M_CONC, 0, J_SELFSET, 1, POL_LIFO, 1, 1 },
    { "I: X pop_threads(parking) + push_threads(legacy-def SERVED) (push_many "
      "wrapper)", 0, M_CONC, 0, J_BULK, 1, POL_FIFO, 1, 0 },
    { "I: stacked legacy-loop scheduler added to a legacy-def SERVED; unit "
      "addresses recycled", 0, M_CONC, 0, J_STACKED, 1, POL_FIFO, 1, 1 },
    { "I: ES1 legacy loop with re-association, pop index chosen (E)", 0, M_CONC, 0,
      J_LEGACY_X, 1, POL_CHOOSE, 0, 0 },
};
static const cfg_t *C;

/* --------------------------------------------------------------- utilities --*/
static int user_index_of(ABT_pool pool)
{
    for (int i = 0; i < NUPOOL; i++)
        if (UP[i].handle == pool)
            return i;
    return -1;
}

/* work unit id from a handle (the argument every work unit was created with) */
static int id_of_thread(ABT_thread t)
{
    void *arg = NULL;
    if (t == ABT_THREAD_NULL)
        return -1;
    OK(ABT_thread_get_arg(t, &arg));
    uintptr_t a = (uintptr_t)arg;
    if (a >= 0xC14000 && a < 0xC14000 + NW)
        return (int)(a - 0xC14000);
    return -1;
}

/* a unit handed out by ABT_pool_pop and friends: live, belongs to that pool, is
 * not inside it any more, and translates to a work unit and back */
static ABT_thread check_popped_unit(ABT_pool pool, ABT_unit u, const char *where)
{
    ABT_thread t = ABT_THREAD_NULL;
    OK(ABT_unit_get_thread(u, &t));
    abtmc_check(t != ABT_THREAD_NULL, "translation", "%s: unit without work unit",
                where);
    int up = user_index_of(pool);
    if (up >= 0) {
        int s = live_slot(u, where);
        abtmc_check(urec[s].pool == up && !urec[s].queued && urec[s].thread == t,
                    "translation",
                    "%s: pool %d handed out unit #%d (pool %d, queued %d) whose "
                    "work unit is %p, ABT_unit_get_thread says %p (log: %s)", where,
                    up, s, urec[s].pool, urec[s].queued, (void *)urec[s].thread,
                    (void *)t, logbuf);
    } else {
        for (int i = 0; i < nslot; i++)
            abtmc_check(slot_addr[i] != u, "translation",
                        "%s: built-in pool handed out user unit #%d", where, i);
    }
    ABT_unit back = ABT_UNIT_NULL;
    OK(ABT_thread_get_unit(t, &back));
    abtmc_check(back == u, "translation",
                "%s: ABT_thread_get_unit(ABT_unit_get_thread(u)) != u", where);
    return t;
}

/* ------------------------------------------- the legacy-loop user scheduler --*/
/* pool to run the popped unit with; ABT_POOL_NULL: already dealt with */
static ABT_pool (*lg_pick)(int stacked, ABT_pool from, ABT_unit u, ABT_thread t);
static int lg_runs[2];        /* units run by the main [0] / stacked [1] loop */
static int stack_done;        /* the stacked scheduler's run function returned */

static int lg_init(ABT_sched sched, ABT_sched_config config)
{
    (void)sched;
    (void)config;
    return ABT_SUCCESS;
}
static int lg_free(ABT_sched sched)
{
    (void)sched;
    return ABT_SUCCESS;
}
static void lg_loop(ABT_sched sched, int stacked)
{
    ABT_pool pools[4];
    int np = 0;
    OK(ABT_sched_get_num_pools(sched, &np));
    abtmc_check(np <= 4, "harness", "too many pools");
    OK(ABT_sched_get_pools(sched, np, 0, pools));
    for (;;) {
        for (int p = 0; p < np; p++) {
            ABT_unit u = ABT_UNIT_NULL;
            OK(ABT_pool_pop(pools[p], &u));
            if (u == ABT_UNIT_NULL)
                continue;
            ABT_thread t = check_popped_unit(pools[p], u, "ABT_pool_pop");
            ABT_pool with = lg_pick ? lg_pick(stacked, pools[p], u, t) : pools[p];
            if (with == ABT_POOL_NULL)
                continue;
            lg_runs[stacked]++;
            OK(ABT_xstream_run_unit(u, with));
        }
        OK(ABT_xstream_check_events(sched));
        ABT_bool stop = ABT_FALSE;
        OK(ABT_sched_has_to_stop(sched, &stop));
        if (stop == ABT_TRUE)
            break;
    }
}
static void lg_run_main(ABT_sched sched) { lg_loop(sched, 0); }
static void lg_run_stacked(ABT_sched sched)
{
    lg_loop(sched, 1);
    stack_done = 1;
}

static ABT_sched make_legacy_sched(int stacked, int np, ABT_pool *pools)
{
    static ABT_sched_def def_main = { ABT_SCHED_TYPE_ULT, lg_init, lg_run_main,
                                      lg_free, NULL };
    static ABT_sched_def def_stacked = { ABT_SCHED_TYPE_ULT, lg_init,
                                         lg_run_stacked, lg_free, NULL };
    ABT_sched sched;
    ABT_sched_config cf;
    OK(ABT_sched_config_create(&cf, ABT_sched_config_automatic, 1,
                               ABT_sched_config_var_end));
    OK(ABT_sched_create(stacked ? &def_stacked : &def_main, np, pools, cf, &sched));
    OK(ABT_sched_config_free(&cf));
    return sched;
}

/* =========================================================== S: histories ===*/
enum { PA, PL, PB, NPOOL };       /* UA (new API), UL (legacy), B (built-in) */
static ABT_pool POOLS[NPOOL], MAINP;
static int wpool[NW];             /* model: pool of every work unit */
static int wfreed[NW];
static int warm[NW];              /* 1: calls ABT_self_set_associated_pool(next
                                     pool) when it starts; 2: with a failing
                                     create_unit */
static ABT_thread PRIM;
static int ppool = -1;            /* model: pool of the primary ULT, -1 = main */
static int xrun_once;             /* 1: the scheduler runs the next unit with the
                                     next pool; 2: and create_unit fails */
static int n_xrun, n_selfset, n_failed;

static int pool_id(ABT_pool p)
{
    for (int i = 0; i < NPOOL; i++)
        if (POOLS[i] == p)
            return i;
    return -1;
}
static int is_user(int p) { return p == PA || p == PL; }
static int user_index(int p) { return p == PA ? 0 : 1; } /* index into UP[] */
static ABT_pool pool_h(int p) { return p < 0 ? MAINP : POOLS[p]; }
static int pending(int w) { return wdone[w] < winc[w]; }

static int oldest_named(void)
{
    for (int i = 0; i < nw; i++)
        if (wkind[i] < 2 && !wfreed[i] && pending(i))
            return i;
    return -1;
}
static int queued_in(int p)
{
    int n = 0;
    for (int i = 0; i < nw; i++)
        n += pending(i) && wpool[i] == p;
    return n;
}
static int live_slot_of(ABT_thread t, int upool)
{
    int s = -1;
    for (int i = 0; i < nslot; i++)
        if (urec[i].state == U_LIVE && urec[i].thread == t && urec[i].pool == upool)
            s = i;
    return s;
}

/* take work unit w out of its pool with ABT_pool_pop_thread */
static void take_out_thread(int w)
{
    int p = wpool[w];
    ABT_thread t = ABT_THREAD_NULL;
    if (is_user(p)) {
        int s = live_slot_of(W[w], user_index(p));
        abtmc_check(s >= 0, "unit_accounting", "work unit %d has no live unit", w);
        UP[user_index(p)].want = s;
        OK(ABT_pool_pop_thread(POOLS[p], &t));
    } else {
        for (int guard = 0; guard < 2 * NW; guard++) {
            OK(ABT_pool_pop_thread(POOLS[p], &t));
            if (t == W[w] || t == ABT_THREAD_NULL)
                break;
            OK(ABT_pool_push_thread(POOLS[p], t));
        }
    }
    abtmc_check(t == W[w], "lost_from_pool",
                "work unit %d is not in pool %d where it was pushed (popped %p)",
                w, p, (void *)t);
}

/* take work unit w out of its pool at the unit level: ABT_pool_pop, or
 * ABT_pool_remove where the pool has p_remove (UL) */
static ABT_unit take_out_unit(int w)
{
    int p = wpool[w];
    ABT_unit u = ABT_UNIT_NULL;
    if (p == PL) {
        int r0 = n_remove;
        OK(ABT_thread_get_unit(W[w], &u));
        OK(ABT_pool_remove(POOLS[p], u));
        abtmc_check(n_remove == r0 + 1, "callback_count",
                    "ABT_pool_remove called p_remove %d times", n_remove - r0);
    } else if (p == PA) {
        int s = live_slot_of(W[w], user_index(p));
        abtmc_check(s >= 0, "unit_accounting", "work unit %d has no live unit", w);
        UP[user_index(p)].want = s;
        OK(ABT_pool_pop(POOLS[p], &u));
    } else {
        for (int guard = 0; guard < 2 * NW; guard++) {
            ABT_thread t = ABT_THREAD_NULL;
            OK(ABT_pool_pop(POOLS[p], &u));
            if (u == ABT_UNIT_NULL)
                break;
            OK(ABT_unit_get_thread(u, &t));
            if (t == W[w])
                break;
            OK(ABT_pool_push(POOLS[p], u));
            u = ABT_UNIT_NULL;
        }
    }
    abtmc_check(u != ABT_UNIT_NULL, "lost_from_pool",
                "work unit %d is not in pool %d where it was pushed", w, p);
    ABT_thread t = check_popped_unit(POOLS[p], u, "take_out_unit");
    abtmc_check(t == W[w], "lost_from_pool",
                "pool %d handed out %p instead of work unit %d", p, (void *)t, w);
    return u;
}

static void check_owner(ABT_thread t, int real, const char *what, const char *when,
                        int *expect_live)
{
    int live = 0;
    for (int i = 0; i < nslot; i++)
        if (urec[i].state == U_LIVE && urec[i].thread == t) {
            live++;
            abtmc_check(is_user(real) && urec[i].pool == user_index(real),
                        "unit_accounting",
                        "%s: %s (pool %d) owns live unit #%d of user pool %d "
                        "(log: %s)", when, what, real, i, urec[i].pool, logbuf);
        }
    abtmc_check(live == (is_user(real) ? 1 : 0), "unit_accounting",
                "%s: %s in pool %d owns %d live units (log: %s)", when, what, real,
                live, logbuf);
    *expect_live += live;
    check_translation(t, is_user(real) ? user_index(real) : -1, when);
}

static void seq_check(const char *when)
{
    int expect_live = 0;
    char what[32];
    for (int w = 0; w < nw; w++) {
        if (wkind[w] >= 2) {
            /* unnamed: gone as soon as it has run */
            if (pending(w) && is_user(wpool[w]))
                expect_live++;
            continue;
        }
        if (wfreed[w])
            continue;
        ABT_pool lp;
        OK(ABT_thread_get_last_pool(W[w], &lp));
        int real = pool_id(lp);
        abtmc_check(real == wpool[w], "association_model",
                    "%s: work unit %d is associated with pool %d, expected %d "
                    "(log: %s)", when, w, real, wpool[w], logbuf);
        snprintf(what, sizeof(what), "work unit %d", w);
        check_owner(W[w], real, what, when, &expect_live);
    }
    {
        ABT_pool lp;
        OK(ABT_thread_get_last_pool(PRIM, &lp));
        abtmc_check(lp == pool_h(ppool), "association_model",
                    "%s: the primary ULT is associated with pool %d, expected %d",
                    when, pool_id(lp), ppool);
        check_owner(PRIM, ppool, "the primary ULT", when, &expect_live);
    }
    abtmc_check(live_units() == expect_live, "unit_accounting",
                "%s: %d live units, %d expected (creates %d frees %d, log: %s)",
                when, live_units(), expect_live, n_create, n_free, logbuf);
    int mapped = mapped_entries(NULL);
    abtmc_check(mapped == live_units(), "hash_table_entries",
                "%s: %d units mapped in the runtime's table, %d live units", when,
                mapped, live_units());
}

/* what an armed work unit does when it starts (on the only stream) */
static void seq_action(int id)
{
    if (!warm[id])
        return;
    ABT_pool cur;
    ABT_thread self;
    ABT_unit u0, u1;
    OK(ABT_self_get_last_pool(&cur));
    OK(ABT_self_get_thread(&self));
    OK(ABT_self_get_unit(&u0));
    int from = pool_id(cur);
    abtmc_check(from == wpool[id], "association_model",
                "work unit %d runs associated with pool %d, expected %d", id, from,
                wpool[id]);
    int to = (from + 1) % NPOOL;
    int c0 = n_create, f0 = n_free;
    if (warm[id] == 2 && is_user(to)) {
        fail_next_create = 1;
        create_failed = 0;
        int rc = ABT_self_set_associated_pool(POOLS[to]);
        abtmc_check(create_failed, "callback_count",
                    "create_unit of the new pool was not called (log: %s)", logbuf);
        n_failed++;
        abtmc_check(rc != ABT_SUCCESS, "failed_create_ignored",
                    "ABT_self_set_associated_pool(%d) returned success although "
                    "create_unit failed", to);
        OK(ABT_self_get_last_pool(&cur));
        OK(ABT_self_get_unit(&u1));
        abtmc_check(n_create == c0 && n_free == f0 && cur == POOLS[from] && u1 == u0,
                    "callback_count",
                    "failed ABT_self_set_associated_pool: creates +%d frees +%d, "
                    "pool %d (log: %s)", n_create - c0, n_free - f0, pool_id(cur),
                    logbuf);
        check_translation(self, is_user(from) ? user_index(from) : -1,
                          "after failed self_set");
        return;
    }
    OK(ABT_self_set_associated_pool(POOLS[to]));
    n_selfset++;
    abtmc_check(n_create - c0 == (is_user(to) ? 1 : 0) &&
                    n_free - f0 == (is_user(from) ? 1 : 0),
                "callback_count",
                "ABT_self_set_associated_pool %d->%d by work unit %d: creates +%d "
                "frees +%d (log: %s)", from, to, id, n_create - c0, n_free - f0,
                logbuf);
    OK(ABT_self_get_last_pool(&cur));
    abtmc_check(cur == POOLS[to], "association_model",
                "ABT_self_get_last_pool after ABT_self_set_associated_pool(%d): %d",
                to, pool_id(cur));
    OK(ABT_self_get_unit(&u1));
    if (is_user(to)) {
        int s = live_slot(u1, "ABT_self_get_unit");
        abtmc_check(urec[s].thread == self && urec[s].pool == user_index(to) &&
                        !urec[s].queued, "translation",
                    "ABT_self_get_unit after self_set(%d): unit #%d of pool %d", to,
                    s, urec[s].pool);
    }
    check_translation(self, is_user(to) ? user_index(to) : -1, "after self_set");
    wpool[id] = to;
    if (W[id] == ABT_THREAD_NULL)
        W[id] = self; /* unnamed: now known */
}

/* the S scheduler's choice of the pool to run a popped unit with */
static ABT_pool seq_pick(int stacked, ABT_pool from, ABT_unit u, ABT_thread t)
{
    (void)stacked;
    int fp = pool_id(from);
    if (!xrun_once || fp < 0 || t == PRIM)
        return from;
    int id = id_of_thread(t);
    if (id < 0)
        return from;
    abtmc_check(wpool[id] == fp && pending(id), "association_model",
                "scheduler popped work unit %d from pool %d, model says pool %d", id,
                fp, wpool[id]);
    int to = (fp + 1) % NPOOL;
    int mode = xrun_once;
    xrun_once = 0;
    if (mode == 2 && is_user(to)) {
        int c0 = n_create, f0 = n_free;
        fail_next_create = 1;
        create_failed = 0;
        int rc = ABT_xstream_run_unit(u, POOLS[to]);
        abtmc_check(create_failed, "callback_count",
                    "create_unit of the new pool was not called (log: %s)", logbuf);
        n_failed++;
        abtmc_check(rc != ABT_SUCCESS, "failed_create_ignored",
                    "ABT_xstream_run_unit(unit, pool %d) returned success although "
                    "create_unit failed", to);
        abtmc_check(n_create == c0 && n_free == f0, "callback_count",
                    "failed ABT_xstream_run_unit: creates +%d frees +%d (log: %s)",
                    n_create - c0, n_free - f0, logbuf);
        check_translation(t, is_user(fp) ? user_index(fp) : -1,
                          "after failed run_unit");
        OK(ABT_pool_push(from, u)); /* unchanged: back where it was */
        return ABT_POOL_NULL;
    }
    n_xrun++;
    wpool[id] = to;
    if (W[id] == ABT_THREAD_NULL)
        W[id] = t;
    return POOLS[to];
}

/* Operations of the histories (abtmc_choose(10) + a sub-choice):
 *  0-2 create a work unit in UA / UL / B (kinds cycle: named yielding ULT, named
 *      tasklet, unnamed yielding ULT)
 *  3   oldest queued named unit: ABT_pool_pop_thread, ABT_thread_set_associated_
 *      pool(next | previous | next with failing create_unit),
 *      ABT_unit_set_associated_pool (must change nothing), ABT_pool_push(unit)
 *  4   the same unit at the unit level: ABT_pool_pop / ABT_pool_remove, then
 *      ABT_pool_push(next | previous | same | next with failing create_unit)
 *  5   ABT_pool_pop_threads(pool UA|UL|B, len 8 | 1) + ABT_pool_push_threads(next)
 *  6   ABT_pool_pop_wait_thread (UA, B) / ABT_pool_pop_timedwait (UL) of whatever
 *      the pool hands out + ABT_pool_push_thread(next pool)
 *  7   the primary ULT: ABT_self_set_associated_pool(next of main,UA,UL,B | with
 *      failing create_unit)
 *  8   yield | arm the newest unit that has not started (it calls
 *      ABT_self_set_associated_pool(next) when it runs; | failing) and yield |
 *      tell the scheduler to run the next unit it pops with the next pool
 *      (| failing) and yield
 *  9   join the oldest named unit, free it */
static const char *const opname[10] = {
    "op_create", "op_create", "op_create", "op_thread_set_pool",
    "op_unit_pop_push", "op_pop_push_threads", "op_waiting_pop",
    "op_primary_self_set", "op_yield_arm_xrun", "op_join_free" }; /* the engine
    keeps 12 counters per execution */

static void scenario_seq(void)
{
    h_init();
    arena_init(C->collide);
    recycle_units = C->recycle;
    /* a pool without the optional functions reports the bulk / waiting calls
     * as unsupported */
    {
        ABT_thread none[1] = { ABT_THREAD_NULL }, t;
        size_t n = 0;
        pool_opts = 0;
        make_new_pool(2, POL_FIFO);
        abtmc_check(ABT_pool_pop_threads(UP[2].handle, none, 1, &n) == ABT_ERR_POOL &&
                        ABT_pool_push_threads(UP[2].handle, none, 1) == ABT_ERR_POOL &&
                        ABT_pool_pop_wait_thread(UP[2].handle, &t, 0.0) ==
                            ABT_ERR_POOL,
                    "unsupported_feature_accepted",
                    "bulk / waiting call on a pool without the optional function "
                    "did not return ABT_ERR_POOL");
        OK(ABT_pool_free(&UP[2].handle));
    }
    pool_opts = OPT_POP_MANY | OPT_PUSH_MANY | OPT_POP_WAIT | OPT_L_TIMEDWAIT |
                OPT_L_REMOVE;
    make_new_pool(0, C->policy);
    make_legacy_pool(1, C->policy);
    POOLS[PA] = UP[0].handle;
    POOLS[PL] = UP[1].handle;
    OK(ABT_pool_create_basic(ABT_POOL_FIFO, ABT_POOL_ACCESS_MPMC, ABT_TRUE,
                             &POOLS[PB]));
    ABT_pool all[4];
    OK(ABT_pool_create_basic(ABT_POOL_FIFO, ABT_POOL_ACCESS_MPMC, ABT_TRUE, &MAINP));
    all[0] = MAINP;
    all[1] = POOLS[PA];
    all[2] = POOLS[PL];
    all[3] = POOLS[PB];
    lg_pick = seq_pick;
    w_action = seq_action;
    OK(ABT_xstream_set_main_sched(h_self_xstream(), make_legacy_sched(0, 4, all)));
    OK(ABT_thread_self(&PRIM));

    abtmc_window_begin();
    char hist[24] = { 0 };
    int nh = 0;
    for (int d = 0; d < C->depth; d++) {
        int op = abtmc_choose(10, ABTMC_B_FREE);
        int sub = 0;
        int c0 = n_create, f0 = n_free, dc = -1, df = -1; /* expected deltas */
        int ok = 1;
        switch (op) {
            case 0:
            case 1:
            case 2: {
                if (nw >= NW - 1) { ok = 0; break; }
                int p = op;
                int id = new_work_unit(POOLS[p], nw % 3, 1);
                wpool[id] = p;
                dc = is_user(p) ? 1 : 0;
                df = 0;
                break;
            }
            case 3: {
                int w = oldest_named();
                if (w < 0) { ok = 0; break; }
                sub = abtmc_choose(3, ABTMC_B_FREE);
                int from = wpool[w];
                int to = sub == 1 ? (from + NPOOL - 1) % NPOOL : (from + 1) % NPOOL;
                if (sub == 2 && !is_user(to)) { ok = 0; break; }
                take_out_thread(w);
                ABT_unit u = ABT_UNIT_NULL, u2 = ABT_UNIT_NULL;
                ABT_pool lp;
                if (sub == 2) {
                    fail_next_create = 1;
                    create_failed = 0;
                    int rc = ABT_thread_set_associated_pool(W[w], POOLS[to]);
                    abtmc_check(create_failed, "callback_count",
                    "create_unit of the new pool was not called (log: %s)", logbuf);
        n_failed++;
                    abtmc_check(rc != ABT_SUCCESS, "failed_create_ignored",
                                "ABT_thread_set_associated_pool(pool %d) returned "
                                "success although create_unit failed", to);
                    abtmc_check(n_create == c0 && n_free == f0, "callback_count",
                                "failed set_associated_pool: creates +%d frees +%d "
                                "(log: %s)", n_create - c0, n_free - f0, logbuf);
                    check_translation(W[w], is_user(from) ? user_index(from) : -1,
                                      "after failed set_associated_pool");
                    to = from;
                } else {
                    OK(ABT_thread_set_associated_pool(W[w], POOLS[to]));
                    abtmc_check(n_create - c0 == (is_user(to) ? 1 : 0) &&
                                    n_free - f0 == (is_user(from) ? 1 : 0),
                                "callback_count",
                                "ABT_thread_set_associated_pool %d->%d: creates +%d "
                                "frees +%d (log: %s)", from, to, n_create - c0,
                                n_free - f0, logbuf);
                    check_translation(W[w], is_user(to) ? user_index(to) : -1,
                                      "after set_associated_pool");
                }
                OK(ABT_thread_get_unit(W[w], &u));
                /* the documented no-operation, with the pool it is not in */
                int c1 = n_create, f1 = n_free;
                OK(ABT_unit_set_associated_pool(u, POOLS[(to + 1) % NPOOL]));
                OK(ABT_thread_get_unit(W[w], &u2));
                OK(ABT_thread_get_last_pool(W[w], &lp));
                abtmc_check(n_create == c1 && n_free == f1 && u2 == u &&
                                lp == POOLS[to], "unit_set_pool_not_noop",
                            "ABT_unit_set_associated_pool changed something: "
                            "creates +%d frees +%d pool %d (log: %s)", n_create - c1,
                            n_free - f1, pool_id(lp), logbuf);
                OK(ABT_pool_push(POOLS[to], u));
                wpool[w] = to;
                dc = (is_user(to) && to != from) ? 1 : 0;
                df = (is_user(from) && to != from) ? 1 : 0;
                break;
            }
            case 4: {
                int w = oldest_named();
                if (w < 0) { ok = 0; break; }
                sub = abtmc_choose(4, ABTMC_B_FREE);
                int from = wpool[w];
                int to = sub == 1 ? (from + NPOOL - 1) % NPOOL
                         : sub == 2 ? from : (from + 1) % NPOOL;
                if (sub == 3 && !is_user(to)) { ok = 0; break; }
                ABT_unit u = take_out_unit(w);
                c0 = n_create;
                f0 = n_free;
                if (sub == 3) {
                    fail_next_create = 1;
                    create_failed = 0;
                    int rc = ABT_pool_push(POOLS[to], u);
                    abtmc_check(create_failed, "callback_count",
                    "create_unit of the new pool was not called (log: %s)", logbuf);
        n_failed++;
                    abtmc_check(rc != ABT_SUCCESS, "failed_create_ignored",
                                "ABT_pool_push(pool %d, unit) returned success "
                                "although create_unit failed", to);
                    abtmc_check(n_create == c0 && n_free == f0, "callback_count",
                                "failed ABT_pool_push: creates +%d frees +%d (log: "
                                "%s)", n_create - c0, n_free - f0, logbuf);
                    check_translation(W[w], is_user(from) ? user_index(from) : -1,
                                      "after failed ABT_pool_push");
                    OK(ABT_pool_push(POOLS[from], u));
                    to = from;
                } else {
                    OK(ABT_pool_push(POOLS[to], u));
                }
                wpool[w] = to;
                dc = (is_user(to) && to != from) ? 1 : 0;
                df = (is_user(from) && to != from) ? 1 : 0;
                break;
            }
            case 5: {
                sub = abtmc_choose(6, ABTMC_B_FREE);
                int from = sub % 3, to = (from + 1) % NPOOL;
                size_t len = sub < 3 ? 8 : 1;
                int nq = queued_in(from);
                if (nq == 0 || (len == 1 && nq < 2)) { ok = 0; break; }
                ABT_thread arr[8];
                ABT_thread sentinel = (ABT_thread)(uintptr_t)0x5e5e5e50;
                for (int i = 0; i < 8; i++)
                    arr[i] = sentinel;
                size_t n = 99;
                int m0 = n_pop_many, p0 = n_push_many;
                OK(ABT_pool_pop_threads(POOLS[from], arr, len, &n));
                size_t expect = (size_t)nq < len ? (size_t)nq : len;
                abtmc_check(n == expect, "pop_many_count",
                            "ABT_pool_pop_threads(pool %d, len %zu) gave %zu work "
                            "units, %zu expected (log: %s)", from, len, n, expect,
                            logbuf);
                int seen = 0;
                for (size_t i = 0; i < 8; i++) {
                    if (i >= n) {
                        abtmc_check(arr[i] == sentinel, "pop_many_padding",
                                    "ABT_pool_pop_threads wrote element %zu of %zu",
                                    i, n);
                        continue;
                    }
                    int id = id_of_thread(arr[i]);
                    abtmc_check(id >= 0 && wpool[id] == from && pending(id) &&
                                    !(seen & (1 << id)), "pop_many_wrong_unit",
                                "ABT_pool_pop_threads(pool %d)[%zu] is work unit %d "
                                "(pool %d, pending %d) (log: %s)", from, i, id,
                                id >= 0 ? wpool[id] : -1, id >= 0 ? pending(id) : 0,
                                logbuf);
                    seen |= 1 << id;
                    if (W[id] == ABT_THREAD_NULL)
                        W[id] = arr[i];
                    else
                        abtmc_check(W[id] == arr[i], "translation",
                                    "pop_threads gave another handle for work "
                                    "unit %d", id);
                }
                c0 = n_create;
                f0 = n_free;
                OK(ABT_pool_push_threads(POOLS[to], arr, n));
                if (from == PA)
                    abtmc_check(n_pop_many == m0 + 1, "callback_count",
                                "pop_many called %d times", n_pop_many - m0);
                if (to == PA)
                    abtmc_check(n_push_many == p0 + 1, "callback_count",
                                "push_many called %d times", n_push_many - p0);
                for (size_t i = 0; i < n; i++)
                    wpool[id_of_thread(arr[i])] = to;
                dc = is_user(to) ? (int)n : 0;
                df = is_user(from) ? (int)n : 0;
                break;
            }
            case 6: {
                sub = abtmc_choose(3, ABTMC_B_FREE);
                int from = sub, to = (from + 1) % NPOOL;
                if (queued_in(from) == 0) { ok = 0; break; }
                ABT_thread t = ABT_THREAD_NULL;
                if (from == PL) {
                    /* 1.x ABT_pool_def has no p_pop_wait */
                    ABT_unit u = ABT_UNIT_NULL;
                    int w0 = n_pop_timedwait;
                    abtmc_check(ABT_pool_pop_wait_thread(POOLS[PL], &t, 0.0) ==
                                    ABT_ERR_POOL, "unsupported_feature_accepted",
                                "ABT_pool_pop_wait_thread on a legacy-def pool");
                    OK(ABT_pool_pop_timedwait(POOLS[PL], &u, ABT_get_wtime()));
                    abtmc_check(n_pop_timedwait == w0 + 1, "callback_count",
                                "p_pop_timedwait called %d times",
                                n_pop_timedwait - w0);
                    abtmc_check(u != ABT_UNIT_NULL, "lost_from_pool",
                                "ABT_pool_pop_timedwait found nothing in pool %d",
                                from);
                    t = check_popped_unit(POOLS[PL], u, "ABT_pool_pop_timedwait");
                } else {
                    int w0 = n_pop_wait;
                    OK(ABT_pool_pop_wait_thread(POOLS[from], &t, 0.0));
                    if (from == PA)
                        abtmc_check(n_pop_wait == w0 + 1, "callback_count",
                                    "pop_wait called %d times", n_pop_wait - w0);
                }
                int id = id_of_thread(t);
                abtmc_check(id >= 0 && wpool[id] == from && pending(id),
                            "lost_from_pool",
                            "waiting pop on pool %d gave work unit %d (log: %s)",
                            from, id, logbuf);
                if (W[id] == ABT_THREAD_NULL)
                    W[id] = t;
                c0 = n_create;
                f0 = n_free;
                OK(ABT_pool_push_thread(POOLS[to], t));
                wpool[id] = to;
                dc = is_user(to) ? 1 : 0;
                df = is_user(from) ? 1 : 0;
                break;
            }
            case 7: {
                sub = abtmc_choose(2, ABTMC_B_FREE);
                int from = ppool, to = ppool + 1 == NPOOL ? -1 : ppool + 1;
                if (sub == 1 && !is_user(to)) { ok = 0; break; }
                ABT_unit u0, u1;
                ABT_pool lp;
                OK(ABT_self_get_unit(&u0));
                if (sub == 1) {
                    fail_next_create = 1;
                    create_failed = 0;
                    int rc = ABT_self_set_associated_pool(pool_h(to));
                    abtmc_check(create_failed, "callback_count",
                    "create_unit of the new pool was not called (log: %s)", logbuf);
        n_failed++;
                    abtmc_check(rc != ABT_SUCCESS, "failed_create_ignored",
                                "ABT_self_set_associated_pool(pool %d) returned "
                                "success although create_unit failed", to);
                    OK(ABT_self_get_unit(&u1));
                    abtmc_check(u1 == u0, "callback_count",
                                "failed ABT_self_set_associated_pool changed the "
                                "unit");
                    dc = df = 0;
                } else {
                    OK(ABT_self_set_associated_pool(pool_h(to)));
                    n_selfset++;
                    ppool = to;
                    dc = is_user(to) ? 1 : 0;
                    df = is_user(from) ? 1 : 0;
                    OK(ABT_self_get_last_pool(&lp));
                    abtmc_check(lp == pool_h(to), "association_model",
                                "ABT_self_get_last_pool after "
                                "ABT_self_set_associated_pool(%d)", to);
                }
                break;
            }
            case 8: {
                sub = abtmc_choose(5, ABTMC_B_FREE);
                int npend = 0, armable = -1;
                for (int i = 0; i < nw; i++) {
                    npend += pending(i);
                    if (wstart[i] == 0 && !warm[i])
                        armable = i;
                }
                if (sub == 0 && npend == 0 && ppool < 0) { ok = 0; break; }
                if ((sub == 1 || sub == 2) && armable < 0) { ok = 0; break; }
                if ((sub == 3 || sub == 4) && (npend == 0 || xrun_once)) {
                    ok = 0;
                    break;
                }
                if (sub == 1 || sub == 2)
                    warm[armable] = sub;
                if (sub == 3 || sub == 4)
                    xrun_once = sub - 2;
                OK(ABT_thread_yield());
                break;
            }
            case 9: {
                int w = -1;
                for (int i = 0; i < nw; i++)
                    if (wkind[i] < 2 && !wfreed[i]) { w = i; break; }
                if (w < 0) { ok = 0; break; }
                /* a LIFO user pool hands the yielding primary ULT out again at
                 * once: the yield-based join of a tasklet of the same pool
                 * would starve it (the program's fault, not the runtime's) */
                if (C->policy == POL_LIFO && ppool >= 0 && is_user(ppool) &&
                    pending(w) && wpool[w] == ppool) {
                    ok = 0;
                    break;
                }
                OK(ABT_thread_join(W[w]));
                abtmc_check(wdone[w] == winc[w], "lost_unit",
                            "join returned, work unit %d ran %d of %d times", w,
                            wdone[w], winc[w]);
                seq_check("after join");
                c0 = n_create;
                f0 = n_free;
                OK(ABT_thread_free(&W[w]));
                wfreed[w] = 1;
                dc = 0;
                df = is_user(wpool[w]) ? 1 : 0;
                break;
            }
        }
        if (!ok)
            break; /* inapplicable: the history ends here */
        hist[nh++] = (char)('0' + op);
        hist[nh++] = (char)('a' + sub);
        abtmc_stat(opname[op], 1);
        if (dc >= 0)
            abtmc_check(n_create - c0 == dc && n_free - f0 == df, "callback_count",
                        "op %d.%d: create_unit called %d times (expected %d), "
                        "free_unit %d times (expected %d) (log: %s)", op, sub,
                        n_create - c0, dc, n_free - f0, df, logbuf);
        seq_check("after step");
    }
    /* wind down: the primary ULT goes home, everything runs and is freed */
    if (ppool >= 0) {
        int f0 = n_free, c0 = n_create;
        OK(ABT_self_set_associated_pool(MAINP));
        abtmc_check(n_free - f0 == (is_user(ppool) ? 1 : 0) && n_create == c0,
                    "callback_count", "primary ULT back to the main pool: creates "
                    "+%d frees +%d (log: %s)", n_create - c0, n_free - f0, logbuf);
        ppool = -1;
        seq_check("primary back home");
    }
    for (int w = 0; w < nw; w++) {
        if (wkind[w] < 2 && !wfreed[w]) {
            OK(ABT_thread_free(&W[w]));
            wfreed[w] = 1;
        }
    }
    for (int round = 0; round < 16; round++) {
        int npend = 0;
        for (int w = 0; w < nw; w++)
            npend += pending(w);
        if (!npend)
            break;
        OK(ABT_thread_yield());
    }
    abtmc_window_end();
    for (int w = 0; w < nw; w++)
        abtmc_check(wstart[w] == winc[w] && wdone[w] == winc[w], "lost_unit",
                    "work unit %d: starts=%d completions=%d incarnations=%d "
                    "(log: %s)", w, wstart[w], wdone[w], winc[w], logbuf);
    abtmc_check(live_units() == 0 && n_create == n_free, "unit_leak",
                "%d units still live at the end (creates %d, frees %d, log: %s)",
                live_units(), n_create, n_free, logbuf);
    int maxchain = 0;
    int mapped = mapped_entries(&maxchain);
    abtmc_check(mapped == 0, "hash_table_entries",
                "%d units still mapped before ABT_finalize", mapped);
    hist[nh] = 0;
    abtmc_tracef("history %s", hist);
    abtmc_stat("ops", nh / 2);
    abtmc_stat("self_set_calls", n_selfset);
    abtmc_stat("cross_pool_run_units", n_xrun);
    abtmc_stat("failed_create_units", n_failed);
    abtmc_observe("work_units=%d units_created=%d chain=%d", nw,
                  n_create > 4 ? 4 : n_create, maxchain);
    h_finalize();
    abtmc_check(abtmc_ledger_live() == 0, "leak",
                "%ld live allocations after ABT_finalize", abtmc_ledger_live());
}

/* ================================================== K: stacked scheduler ===*/
static int k_cross, k_z;
static ABT_pool stack_pick(int stacked, ABT_pool from, ABT_unit u, ABT_thread t)
{
    (void)u;
    (void)t;
    if (stacked && k_cross)
        return POOLS[k_z];
    return from;
}

static void scenario_stack(void)
{
    h_init();
    arena_init(C->collide);
    recycle_units = C->recycle;
    pool_opts = OPT_POP_MANY | OPT_PUSH_MANY | OPT_POP_WAIT | OPT_L_TIMEDWAIT |
                OPT_L_REMOVE;
    make_new_pool(0, C->policy);
    make_legacy_pool(1, C->policy);
    POOLS[PA] = UP[0].handle;
    POOLS[PL] = UP[1].handle;
    OK(ABT_pool_create_basic(ABT_POOL_FIFO, ABT_POOL_ACCESS_MPMC, ABT_TRUE,
                             &POOLS[PB]));
    OK(ABT_pool_create_basic(ABT_POOL_FIFO, ABT_POOL_ACCESS_MPMC, ABT_TRUE, &MAINP));
    OK(ABT_thread_self(&PRIM));
    lg_pick = stack_pick;

    abtmc_window_begin();
    int y = abtmc_choose(3, ABTMC_B_FREE);   /* pool that gets the scheduler */
    k_cross = abtmc_choose(2, ABTMC_B_FREE); /* it runs its units with the
                                                third pool z */
    int moved = abtmc_choose(2, ABTMC_B_FREE); /* the scheduler's own work unit
                                                  is moved to another pool */
    int x = y == PA ? PL : PA;               /* the pool it serves */
    k_z = NPOOL - x - y;                     /* user pool if y is B, else B */
    /* the main scheduler serves everything but x */
    ABT_pool mp[4];
    int nmp = 0;
    mp[nmp++] = MAINP;
    for (int p = 0; p < NPOOL; p++)
        if (p != x)
            mp[nmp++] = POOLS[p];
    OK(ABT_xstream_set_main_sched(h_self_xstream(), make_legacy_sched(0, nmp, mp)));

    int ids[3];
    ids[0] = new_work_unit(POOLS[x], 0, 1);
    ids[1] = new_work_unit(POOLS[x], 1, 0);
    ids[2] = new_work_unit(POOLS[x], 2, 1);
    abtmc_check(n_create == 3 && live_units() == 3, "callback_count",
                "3 work units in a user pool: %d units", n_create);
    int c0 = n_create;
    ABT_sched ss = make_legacy_sched(1, 1, &POOLS[x]);
    OK(ABT_pool_add_sched(POOLS[y], ss));
    abtmc_check(n_create - c0 == (is_user(y) ? 1 : 0), "callback_count",
                "ABT_pool_add_sched(pool %d): create_unit called %d times (log: %s)",
                y, n_create - c0, logbuf);
    abtmc_check(mapped_entries(NULL) == live_units(), "hash_table_entries",
                "%d mapped, %d live", mapped_entries(NULL), live_units());
    if (moved) {
        /* the scheduler's work unit is a work unit like any other: pop it and
         * push it to the next pool that the main scheduler serves */
        int z = k_z;
        ABT_unit u = ABT_UNIT_NULL;
        int c1 = n_create, f1 = n_free;
        OK(ABT_pool_pop(POOLS[y], &u));
        abtmc_check(u != ABT_UNIT_NULL, "lost_from_pool",
                    "the stacked scheduler is not in pool %d", y);
        ABT_thread t = check_popped_unit(POOLS[y], u, "pop of the scheduler");
        abtmc_check(id_of_thread(t) < 0, "lost_from_pool",
                    "pool %d handed out a work unit instead of the scheduler", y);
        OK(ABT_pool_push(POOLS[z], u));
        abtmc_check(n_create - c1 == (is_user(z) ? 1 : 0) &&
                        n_free - f1 == (is_user(y) ? 1 : 0), "callback_count",
                    "scheduler work unit %d->%d: creates +%d frees +%d (log: %s)",
                    y, z, n_create - c1, n_free - f1, logbuf);
        check_translation(t, is_user(z) ? user_index(z) : -1, "moved scheduler");
    }
    OK(ABT_thread_join(W[ids[0]]));
    abtmc_check(wdone[ids[0]] == 1, "lost_unit", "join returned, ULT ran %d times",
                wdone[ids[0]]);
    OK(ABT_thread_free(&W[ids[0]]));
    OK(ABT_thread_free(&W[ids[1]]));
    abtmc_check(wdone[ids[1]] == 1, "lost_unit",
                "free returned, tasklet ran %d times", wdone[ids[1]]);
    for (int round = 0; round < 16 && !(stack_done && wdone[ids[2]]); round++)
        OK(ABT_thread_yield());
    abtmc_window_end();
    abtmc_check(stack_done, "lost_unit", "the stacked scheduler never finished");
    for (int w = 0; w < nw; w++)
        abtmc_check(wstart[w] == 1 && wdone[w] == 1, "lost_unit",
                    "work unit %d: starts=%d completions=%d (log: %s)", w, wstart[w],
                    wdone[w], logbuf);
    abtmc_check(lg_runs[1] >= 3, "lost_unit",
                "the stacked scheduler ran %d units of its pool", lg_runs[1]);
    abtmc_check(live_units() == 0 && n_create == n_free, "unit_leak",
                "%d units still live at the end (creates %d, frees %d, log: %s)",
                live_units(), n_create, n_free, logbuf);
    int maxchain = 0;
    abtmc_check(mapped_entries(&maxchain) == 0, "hash_table_entries",
                "%d units still mapped before ABT_finalize", mapped_entries(NULL));
    abtmc_observe("sched_in=%d cross=%d moved=%d units_created=%d stack_runs=%d "
                  "chain=%d", y, k_cross, moved, n_create, lg_runs[1], maxchain);
    OK(ABT_pool_free(&POOLS[x])); /* served by the (freed) stacked scheduler only */
    h_finalize();
    abtmc_check(abtmc_ledger_live() == 0, "leak",
                "%ld live allocations after ABT_finalize", abtmc_ledger_live());
}

/* ======================================================= I: interleavings ===*/
static ABT_thread PARKED;
static int parked_pool = 2;  /* UP[2]: never served */
static int obs_rounds;
static char obs_live[4]; /* live units of the bucket seen at each observation */
static ABT_pool SERVED, SERVED2;

static void observer(void *arg)
{
    (void)arg;
    for (int r = 0; r < 2; r++) {
        check_translation(PARKED, parked_pool, "observer");
        obs_live[r] = (char)('0' + live_units());
        obs_rounds++;
        abtmc_progress();
    }
}

static void ext_create(void *arg)
{
    (void)arg;
    new_work_unit(SERVED, 2, 0); /* unnamed ULT */
    new_work_unit(SERVED, 3, 0); /* unnamed tasklet */
}

static ABT_pool conc_pick(int stacked, ABT_pool from, ABT_unit u, ABT_thread t)
{
    (void)stacked;
    (void)u;
    (void)t;
    if (C->icase == J_LEGACY_X && from == SERVED)
        return SERVED2;
    return from;
}

/* armed work units re-associate themselves with SERVED2 (on ES1) */
static void conc_action(int id)
{
    if (!warm[id])
        return;
    ABT_thread self;
    ABT_unit u;
    ABT_pool lp;
    OK(ABT_self_get_thread(&self));
    OK(ABT_self_set_associated_pool(SERVED2));
    OK(ABT_self_get_last_pool(&lp));
    abtmc_check(lp == SERVED2, "association_model",
                "ABT_self_get_last_pool after ABT_self_set_associated_pool");
    OK(ABT_self_get_unit(&u));
    int s = live_slot(u, "ABT_self_get_unit");
    abtmc_check(urec[s].thread == self && urec[s].pool == 1 && !urec[s].queued,
                "translation", "ABT_self_get_unit after self_set: unit #%d of pool "
                "%d (log: %s)", s, urec[s].pool, logbuf);
    check_translation(self, 1, "after self_set");
}

static int bulk_ids[2];
static void ext_bulk(void *arg)
{
    (void)arg;
    /* two units in the (LIFO) parking pool on top of the parked one, taken out
     * together and pushed together into the served pool, then freed */
    bulk_ids[0] = new_work_unit(UP[parked_pool].handle, 0, 1);
    bulk_ids[1] = new_work_unit(UP[parked_pool].handle, 1, 0);
    ABT_thread arr[3] = { ABT_THREAD_NULL, ABT_THREAD_NULL, ABT_THREAD_NULL };
    size_t n = 0;
    OK(ABT_pool_pop_threads(UP[parked_pool].handle, arr, 2, &n));
    abtmc_check(n == 2 && arr[0] == W[bulk_ids[1]] && arr[1] == W[bulk_ids[0]],
                "pop_many_wrong_unit",
                "ABT_pool_pop_threads(LIFO parking pool, 2): %zu units (log: %s)", n,
                logbuf);
    OK(ABT_pool_push_threads(SERVED, arr, n));
    for (int i = 0; i < 2; i++) {
        int id = bulk_ids[i];
        OK(ABT_thread_free(&W[id]));
        abtmc_check(wdone[id] == 1, "lost_unit",
                    "free returned, unit %d ran %d times", id, wdone[id]);
    }
}

static void scenario_conc(void)
{
    h_init();
    arena_init(C->collide);
    recycle_units = C->recycle;
    pool_opts = OPT_POP_MANY | OPT_PUSH_MANY | OPT_POP_WAIT | OPT_L_TIMEDWAIT |
                OPT_L_REMOVE;
    if (C->served_legacy) {
        make_legacy_pool(0, C->policy);
        make_new_pool(1, C->policy);
    } else {
        make_new_pool(0, C->policy);
        make_legacy_pool(1, C->policy);
    }
    make_new_pool(2, C->icase == J_BULK ? POL_LIFO : POL_FIFO);
    SERVED = UP[0].handle;
    SERVED2 = UP[1].handle;
    ABT_pool sp[2] = { SERVED, SERVED2 };
    ABT_sched sched;
    ABT_xstream es1;
    lg_pick = conc_pick;
    w_action = conc_action;
    switch (C->icase) {
        case J_WAITSCHED:
            OK(ABT_sched_create_basic(ABT_SCHED_BASIC_WAIT, 2, sp,
                                      ABT_SCHED_CONFIG_NULL, &sched));
            break;
        case J_LEGACY:
        case J_LEGACY_X:
        case J_STACKED:
            sched = make_legacy_sched(0, 2, sp);
            break;
        default:
            OK(ABT_sched_create_basic(ABT_SCHED_BASIC, 2, sp, ABT_SCHED_CONFIG_NULL,
                                      &sched));
            break;
    }
    OK(ABT_xstream_create(sched, &es1));
    /* the parked live unit, same bucket as everything else */
    int pk = new_work_unit(UP[parked_pool].handle, 0, 0);
    PARKED = W[pk];
    int expect_creates = -1;

    abtmc_window_begin();
    int x1 = -1;
    int named[3], nn = 0;
    switch (C->icase) {
        case J_WAITSCHED:
            x1 = abtmc_thread_create(observer, NULL);
            new_work_unit(SERVED, 3, 0);
            named[nn++] = new_work_unit(SERVED, 0, 1);
            expect_creates = 3;
            break;
        case J_LEGACY:
            x1 = abtmc_thread_create(ext_create, NULL);
            observer(NULL);
            expect_creates = 3;
            break;
        case J_LEGACY_X:
            x1 = abtmc_thread_create(observer, NULL);
            new_work_unit(SERVED, 3, 0);
            named[nn++] = new_work_unit(SERVED, 0, 1);
            /* each: one unit in SERVED, one in SERVED2 when it is run */
            expect_creates = 5;
            break;
        case J_SELFSET:
            x1 = abtmc_thread_create(observer, NULL);
            warm[nw] = 1;
            named[nn++] = new_work_unit(SERVED, 1, 0);
            warm[nw] = 1;
            named[nn++] = new_work_unit(SERVED, 0, 1);
            expect_creates = 5;
            break;
        case J_SELFSET1:
            x1 = abtmc_thread_create(observer, NULL);
            warm[nw] = 1;
            named[nn++] = new_work_unit(SERVED, 0, 1);
            expect_creates = 3;
            break;
        case J_BULK:
            x1 = abtmc_thread_create(ext_bulk, NULL);
            new_work_unit(SERVED, 3, 0); /* a concurrent mapper */
            observer(NULL);
            expect_creates = 6;
            break;
        default: { /* J_STACKED */
            x1 = abtmc_thread_create(observer, NULL);
            new_work_unit(SERVED2, 3, 0);
            named[nn++] = new_work_unit(SERVED2, 0, 1);
            /* the stacked scheduler serves SERVED2 (as ES1's main scheduler
             * does: what it finds there depends on the schedule) and is itself
             * a work unit of SERVED */
            ABT_sched ss = make_legacy_sched(1, 1, &SERVED2);
            OK(ABT_pool_add_sched(SERVED, ss));
            expect_creates = 4;
            break;
        }
    }
    for (int i = 0; i < nn; i++) {
        int id = named[i];
        OK(ABT_thread_join(W[id]));
        abtmc_check(wdone[id] == 1, "lost_unit",
                    "join returned, unit %d ran %d times", id, wdone[id]);
        OK(ABT_thread_free(&W[id]));
    }
    if (x1 >= 0)
        abtmc_thread_join(x1);
    OK(ABT_xstream_join(es1));
    abtmc_window_end();

    abtmc_check(obs_rounds == 2, "harness", "observer rounds %d", obs_rounds);
    for (int w = 0; w < nw; w++)
        if (w != pk)
            abtmc_check(wstart[w] == 1 && wdone[w] == 1, "lost_unit",
                        "ABT_xstream_join returned, work unit %d: starts=%d "
                        "completions=%d (log: %s)", w, wstart[w], wdone[w], logbuf);
    if (C->icase == J_STACKED)
        abtmc_check(stack_done, "lost_unit",
                    "ABT_xstream_join returned, the stacked scheduler has not run");
    abtmc_check(n_create == expect_creates, "callback_count",
                "%d create_unit calls, %d expected (log: %s)", n_create,
                expect_creates, logbuf);
    /* only the parked unit is left */
    abtmc_check(live_units() == 1 && n_create == n_free + 1, "unit_leak",
                "%d live units (creates %d frees %d) with one work unit left "
                "(log: %s)", live_units(), n_create, n_free, logbuf);
    int maxchain = 0;
    abtmc_check(mapped_entries(&maxchain) == 1, "hash_table_entries",
                "%d mapped units with one live work unit", mapped_entries(NULL));
    check_translation(PARKED, parked_pool, "at quiescence");
    /* user pool -> built-in pool with the waiting pop, run it, free it */
    ABT_thread t = ABT_THREAD_NULL;
    OK(ABT_pool_pop_wait_thread(UP[parked_pool].handle, &t, 0.0));
    abtmc_check(t == PARKED, "lost_from_pool", "parked unit not in its pool");
    OK(ABT_pool_push_thread(h_main_pool(h_self_xstream()), PARKED));
    abtmc_check(live_units() == 0, "unit_leak", "unit not freed on leaving the "
                "user pool (log: %s)", logbuf);
    check_translation(PARKED, -1, "after leaving the user pool");
    OK(ABT_thread_free(&W[pk]));
    abtmc_check(wdone[pk] == 1, "lost_unit", "parked unit ran %d times", wdone[pk]);
    abtmc_check(mapped_entries(NULL) == 0, "hash_table_entries",
                "%d mapped units at the end", mapped_entries(NULL));
    for (int w = 0; w < nw; w++)
        if (!ranon[w])
            ranon[w] = '-';
    abtmc_observe("ran=%s seen=%s stack_runs=%d waits=%d chain=%d", ranon, obs_live,
                  lg_runs[1], (n_pop_wait > 1) + (n_pop_timedwait > 0), maxchain);
    OK(ABT_xstream_free(&es1));
    for (int p = 0; p < NUPOOL; p++)
        OK(ABT_pool_free(&UP[p].handle));
    h_finalize();
    abtmc_check(abtmc_ledger_live() == 0, "leak",
                "%ld live allocations after ABT_finalize", abtmc_ledger_live());
}

static void scenario(int cfg)
{
    C = &cfgs[cfg];
    for (int i = 0; i < NUPOOL; i++)
        UP[i].handle = ABT_POOL_NULL;
    if (C->mode == M_SEQ)
        scenario_seq();
    else if (C->mode == M_STACK)
        scenario_stack();
    else
        scenario_conc();
}

static const char *cfg_name(int i) { return cfgs[i].name; }
static int cfg_quick(int i) { return cfgs[i].quick; }

int main(int argc, char **argv)
{
    static abtmc_driver d = { "c14_poolapi", "C14", ARRAY_LEN(cfgs), cfg_name,
                              scenario, cfg_quick };
    return abtmc_main(argc, argv, &d);
}
