/* c02_ctx.c -- C02 (sequential half): across every kind of context switch a
 * ULT resumes with its stack contents, callee-saved registers and FP control
 * state exactly as it left them, on a 16-byte aligned stack that no other
 * live ULT shares.  Script interpreter: see c02_ctx.h.
 *
 * The configs vary the stack provenance of the three script ULTs
 *   D        memory-pool stack of the default size (ABT_THREAD_ATTR_NULL)
 *   M(size)  malloc'ed stack of a non-default size (ABT_thread_attr_set_stacksize)
 *   U(off)   user-supplied stack starting at an 8-byte offset inside a
 *            64-aligned block (ABT_thread_attr_set_stack), size 8 mod 16 or
 *            0 mod 16
 * and the pools they live in, with the full alphabet of switch primitives.
 *
 * NOTE (C15's business, not checked here): ABT_thread_free of a ULT whose
 * malloc'ed stack size is not a multiple of 64 frees a pointer that malloc
 * never returned (fixes/C15-malloc-stack-size.diff).  Slots with such a size
 * are marked nofree: they are joined but never freed, so that this check
 * stays about context switches. */
#include "c02_ctx.h"

#define D { PV_DEFAULT, 0, 0, 0 }
#define MS(sz) { PV_MALLOC, (sz), 0, ((sz) % 64) != 0 }
#define US(off, sz) { PV_USER, (sz), (off), 0 }
#define NONE { 0, 0, 0, 0 }

/* initial states: every letter occurs as a possible first target */
#define INITS6 "FYS,TAY,SFA,YTS,FFF,SSY"
#define INITS10 "FYS,TAY,SFA,YTS,FFF,SSY,AAA,YYY,TST,ASF"
#define INITS3 "FYS,TAY,SSF"

static const cfg_t cfgs[] = {
    /* quick: L=3 */
    { "L3 full alphabet, D/D/D stacks, pools 0/0/1", 1, 3, A_FULL,
      { 0, 0, 0, 1 }, { NONE, D, D, D }, INITS6, 0 },
    { "L2 full, malloc 32768+64 / user off 8 / malloc 40000(+8 mod 64)", 1, 2,
      A_FULL, { 0, 1, 0, 1 },
      { NONE, MS(32768 + 64), US(8, 32768), MS(40008) }, INITS10, 0 },
    { "L1 full, user stacks at every 8-byte offset, sizes 0/8 mod 16", 1, 1,
      A_FULL, { 0, 0, 1, 1 },
      { NONE, US(0, 32768), US(16, 32768 + 8), US(40, 49152) }, INITS6, 1 },
    /* thorough */
    { "L4 full alphabet, D/D/D stacks, pools 0/0/1", 0, 4, A_FULL,
      { 0, 0, 0, 1 }, { NONE, D, D, D }, INITS3, 0 },
    { "L3 full, user off 8 / malloc 32768+64 / D, pools 1/0/1", 0, 3, A_FULL,
      { 0, 1, 0, 1 }, { NONE, US(8, 32768 + 8), MS(32768 + 64), D }, INITS10,
      0 },
    { "L3 full, malloc 40008 / D / user off 24, pools 0/1/0", 0, 3, A_FULL,
      { 0, 0, 1, 0 }, { NONE, MS(40008), D, US(24, 32768) }, INITS6, 0 },
    { "L4 full, user off 8 / malloc 32768+64 / D, pools 1/0/1", 0, 4, A_FULL,
      { 0, 1, 0, 1 }, { NONE, US(8, 32768 + 8), MS(32768 + 64), D },
      "SYF,ATS,YFT", 0 },
    { "L2 full, user stacks at every 8-byte offset, sizes 0/8 mod 16", 0, 2,
      A_FULL, { 0, 0, 1, 1 },
      { NONE, US(0, 32768), US(16, 32768 + 8), US(40, 49152) }, INITS6, 1 },
};

static void scenario(int cfg)
{
    check_c11_state = 0; /* reported states / pool counts are C11's business */
    c02_scenario(cfgs, cfg);
}
static const char *cfg_name(int i) { return cfgs[i].name; }
static int cfg_quick(int i) { return cfgs[i].quick; }

int main(int argc, char **argv)
{
    static abtmc_driver d = { "c02_ctx", "C02", ARRAY_LEN(cfgs), cfg_name,
                              scenario, cfg_quick };
    return abtmc_main(argc, argv, &d);
}
