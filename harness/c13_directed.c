/* c13_directed.c -- C13 x C11: a migration request that is pending on a BLOCKED
 * ULT when it is woken by a DIRECTED hand-over (ABT_self_resume_yield_to,
 * ABT_self_resume_suspend_to) instead of ABT_thread_resume.
 *
 * "A migration request ... makes the unit's next scheduling go through the
 * requested pool: the unit becomes associated with that pool, the migration
 * callback is invoked exactly once per performed migration, and the unit still
 * runs exactly once to completion."  A directed hand-over runs the target at
 * once on the caller's stream without a scheduling; the request stays pending
 * until the target's next scheduling point, where association change, callback
 * and push into the requested pool happen together.  What must never be seen:
 * the callback fired / the association changed while the unit keeps running
 * on a stream that does not serve its pool; a blocked count going negative.
 *
 *   ES0: primary, pool A.   ES1: pool B.
 *   T (in A): suspend; [slice]; yield; [slice]; done.
 *   W (in A): waits until T is BLOCKED and the request has been issued, wakes T
 *             (resume | resume_yield_to | resume_suspend_to -- T resumes W).
 *   requester: the primary ULT (before W may wake T) or an external thread
 *             (racing with the wake-up). */
#include "abti.h"
#include "common.h"

enum { WK_RESUME, WK_RESUME_YIELD_TO, WK_RESUME_SUSPEND_TO };
enum { RQ_PRIMARY, RQ_EXT };
typedef struct {
    const char *name;
    int quick, wake, requester;
} cfg_t;
static const cfg_t cfgs[] = {
    { "T blocked; primary: migrate_to_pool(T,B); W: resume_suspend_to(T)", 1,
      WK_RESUME_SUSPEND_TO, RQ_PRIMARY },
    { "T blocked; primary: migrate_to_pool(T,B); W: resume_yield_to(T)", 1,
      WK_RESUME_YIELD_TO, RQ_PRIMARY },
    { "T blocked; X: migrate_to_pool(T,B) racing with W: resume_suspend_to(T)", 1,
      WK_RESUME_SUSPEND_TO, RQ_EXT },
    { "T blocked; X: migrate_to_pool(T,B) racing with W: resume_yield_to(T)", 0,
      WK_RESUME_YIELD_TO, RQ_EXT },
    { "T blocked; primary: migrate_to_pool(T,B); W: ABT_thread_resume(T)", 0, WK_RESUME,
      RQ_PRIMARY },
};

static const cfg_t *C;
static ABT_pool PA, PB;
static ABT_xstream es1;
static ABT_thread T, W;
static int requested;  /* hooked: the request call returned */
static int t_started;  /* hooked */
static int t_suspending, wake_started, cb_at_suspend; /* plain bookkeeping */
static int req_rc = -1;
static int ncb, cb_at_slice[4];
static int nslices, t_done, w_done, w_after;
static int slice_rank[4], slice_pool[4], slice_cb[4];

static int pool_idx(ABT_pool p) { return p == PA ? 0 : p == PB ? 1 : -1; }

static void migration_cb(ABT_thread t, void *arg)
{
    abtmc_check(t == T && arg == (void *)&ncb, "callback_args",
                "callback called with a wrong handle or argument");
    if (ncb < 4)
        cb_at_slice[ncb] = nslices;
    /* performed at T's own suspend (a scheduling point of T), i.e. before T
     * became BLOCKED and hence before W started to wake it? */
    if (t_suspending && !wake_started)
        cb_at_suspend = 1;
    ncb++;
}

static void t_slice(void)
{
    ABT_pool p;
    int rank = -1, k = nslices;
    OK(ABT_self_get_last_pool(&p));
    OK(ABT_self_get_xstream_rank(&rank));
    slice_rank[k] = rank;
    slice_pool[k] = pool_idx(p);
    slice_cb[k] = ncb;
    nslices = k + 1;
    t_suspending = 0;
    /* The stream executing T serves the pool T is associated with.  One
     * exception is legitimate: the request was performed when T suspended (T
     * then sat BLOCKED, already associated with B) and T was woken by a directed
     * hand-over, which runs it on the waker's stream without any scheduling. */
    int directed = C->wake != WK_RESUME;
    abtmc_check(slice_pool[k] == rank || (k == 0 && directed && cb_at_suspend),
                "runs_outside_its_pool",
                "slice %d of T runs on stream %d while T is associated with pool %c "
                "(callbacks so far: %d): the migration was performed without "
                "scheduling T through the requested pool", k, rank,
                slice_pool[k] == 0 ? 'A' : slice_pool[k] == 1 ? 'B' : '?', ncb);
    /* callback count = number of association changes */
    abtmc_check(ncb == (slice_pool[k] == 1 ? 1 : 0), "callback_count",
                "slice %d of T: associated with pool %c after %d callback(s)", k,
                slice_pool[k] == 0 ? 'A' : 'B', ncb);
}

static void t_fn(void *arg)
{
    (void)arg;
    abtmc_store(&t_started, 1);
    t_suspending = 1;
    OK(ABT_self_suspend());
    t_slice();
    if (C->wake == WK_RESUME_SUSPEND_TO) {
        /* W blocked itself to wake us: let it go on */
        ABT_thread_state st;
        OK(ABT_thread_get_state(W, &st));
        abtmc_check(st == ABT_THREAD_STATE_BLOCKED, "caller_not_blocked",
                    "after resume_suspend_to the caller's state is %d", (int)st);
        OK(ABT_thread_resume(W));
    }
    abtmc_progress();
    OK(ABT_thread_yield());
    t_slice();
    /* stay alive until the requester is through (requests on a terminated unit
     * are undefined) */
    while (abtmc_load(&requested) == 0)
        OK(ABT_thread_yield());
    t_done++;
}

static void w_fn(void *arg)
{
    (void)arg;
    for (;;) {
        ABT_thread_state st;
        OK(ABT_thread_get_state(T, &st));
        if (st == ABT_THREAD_STATE_BLOCKED &&
            (C->requester == RQ_EXT || abtmc_load(&requested)))
            break;
        OK(ABT_thread_yield());
    }
    wake_started = 1;
    switch (C->wake) {
        case WK_RESUME: OK(ABT_thread_resume(T)); break;
        case WK_RESUME_YIELD_TO: OK(ABT_self_resume_yield_to(T)); break;
        case WK_RESUME_SUSPEND_TO: OK(ABT_self_resume_suspend_to(T)); break;
    }
    w_after++;
    w_done = 1;
}

static void request_fn(void *arg)
{
    int ext = (int)(intptr_t)arg;
    if (ext) {
        /* any moment after T started: before, while or after it is blocked */
        abtmc_wait_until_eq(&t_started, 1);
    } else {
        for (;;) {
            ABT_thread_state st;
            OK(ABT_thread_get_state(T, &st));
            if (st == ABT_THREAD_STATE_BLOCKED)
                break;
            OK(ABT_thread_yield());
        }
    }
    req_rc = ABT_thread_migrate_to_pool(T, PB);
    abtmc_store(&requested, 1);
}

static void scenario(int cfg)
{
    C = &cfgs[cfg];
    h_init();
    ABT_sched s1;
    PA = h_main_pool(h_self_xstream());
    OK(ABT_pool_create_basic(ABT_POOL_FIFO, ABT_POOL_ACCESS_MPMC, ABT_FALSE, &PB));
    OK(ABT_sched_create_basic(ABT_SCHED_BASIC, 1, &PB, ABT_SCHED_CONFIG_NULL, &s1));
    OK(ABT_xstream_create(s1, &es1));
    h_watch_pool(PA);
    h_watch_pool(PB);

    abtmc_window_begin();
    OK(ABT_thread_create(PA, t_fn, NULL, ABT_THREAD_ATTR_NULL, &T));
    OK(ABT_thread_set_callback(T, migration_cb, &ncb));
    OK(ABT_thread_create(PA, w_fn, NULL, ABT_THREAD_ATTR_NULL, &W));
    int x = -1;
    if (C->requester == RQ_EXT)
        x = abtmc_thread_create(request_fn, (void *)(intptr_t)1);
    else
        request_fn((void *)(intptr_t)0);
    OK(ABT_thread_join(W));
    OK(ABT_thread_join(T));
    if (x >= 0)
        abtmc_thread_join(x);
    abtmc_window_end();

    abtmc_check(t_done == 1 && nslices == 2 && w_after == 1, "run_count",
                "T finished %d times with %d slices, W continued %d times", t_done,
                nslices, w_after);
    /* The request was issued while T was BLOCKED (or, racing, at the latest while
     * T ran its first slice): it was accepted, so it has been performed by T's
     * next scheduling point -- unless the racing request came after T's yield */
    abtmc_check(req_rc == ABT_SUCCESS, "request_rc", "migrate_to_pool returned %d",
                req_rc);
    ABT_pool lp;
    OK(ABT_thread_get_last_pool(T, &lp));
    if (C->requester == RQ_PRIMARY) {
        abtmc_check(ncb == 1 && pool_idx(lp) == 1 && slice_pool[1] == 1,
                    "request_not_honoured",
                    "request issued while T was blocked: %d callbacks, T ended in pool "
                    "%c, second slice in pool %c", ncb, pool_idx(lp) ? 'B' : 'A',
                    slice_pool[1] ? 'B' : 'A');
    } else {
        abtmc_check(ncb <= 1 && ncb == (pool_idx(lp) == 1), "callback_count",
                    "%d callbacks, T ended in pool %c", ncb, pool_idx(lp) ? 'B' : 'A');
    }
    abtmc_check(h_pool_blocked(PA) == 0 && h_pool_blocked(PB) == 0, "blocked_count",
                "at the end pool A counts %d, pool B %d blocked units",
                h_pool_blocked(PA), h_pool_blocked(PB));
    abtmc_observe("s0=%c%d s1=%c%d cb=%d", "AB"[slice_pool[0]], slice_rank[0],
                  "AB"[slice_pool[1]], slice_rank[1], ncb);
    OK(ABT_thread_free(&T));
    OK(ABT_thread_free(&W));
    OK(ABT_xstream_join(es1));
    OK(ABT_xstream_free(&es1));
    OK(ABT_pool_free(&PB));
    h_finalize();
    abtmc_check(abtmc_ledger_live() == 0, "leak", "%ld live allocations",
                abtmc_ledger_live());
}

static const char *cfg_name(int i) { return cfgs[i].name; }
static int cfg_quick(int i) { return cfgs[i].quick; }

int main(int argc, char **argv)
{
    static abtmc_driver d = { "c13_directed", "C13", ARRAY_LEN(cfgs), cfg_name, scenario,
                              cfg_quick };
    return abtmc_main(argc, argv, &d);
}
