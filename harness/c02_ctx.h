/* c02_ctx.h -- script interpreter shared by c02_ctx.c (C02, sequential half:
 * "its context survives every switch") and c11_directed.c (C11, sequential
 * half: "directed switches hand control exactly as documented").
 *
 * One execution stream (the primary one) whose main scheduler is a BASIC
 * scheduler over two FIFO pools P0,P1.  Unit 0 is the primary ULT, units 1..3
 * are script ULTs ("slots").  A chain is a sequence of <= L switch primitives;
 * whichever unit is running picks the next primitive (and its target) with
 * abtmc_choose(.., ABTMC_B_FREE) among those the reference model accepts as
 * conforming to the documented preconditions:
 *
 *   yield              ABT_thread_yield / ABT_self_yield      always
 *   self_yield_to(T)   ABT_pool_remove + ABT_self_yield_to    T READY, in a pool
 *   thread_yield_to(T) ABT_thread_yield_to                    T READY, in its pool
 *   create_to(S)       ABT_thread_create_to                   slot S absent
 *   revive_to(S)       ABT_thread_revive_to                   S terminated, nobody joining it
 *   suspend            ABT_self_suspend                       somebody else can run
 *   resume(T)          ABT_thread_resume                      T blocked by a suspend
 *   suspend_to(T)      ABT_pool_remove + ABT_self_suspend_to  T READY, in a pool
 *   resume_yield_to(T) ABT_self_resume_yield_to               T blocked by a suspend
 *   resume_suspend_to  ABT_self_resume_suspend_to             T blocked by a suspend
 *   exit_to(T)         ABT_pool_remove + ABT_self_exit_to     caller,T not primary; T READY in a pool
 *   resume_exit_to(T)  ABT_self_resume_exit_to                caller not primary; T blocked by a suspend
 *   join(T)            ABT_thread_join                        T not terminated, no other joiner, no cycle
 *   setsched(order)    ABT_xstream_set_main_sched_basic       new BASIC scheduler over {P0,P1} or {P1,P0}
 *   fin                return / ABT_self_exit                 caller not primary
 *
 * (a primitive is also rejected when the model says nothing could run after
 * it: that would be a deadlock of the test program, not of Argobots.)
 *
 * The reference model: per unit {ABSENT, READY(+in pool or not), RUNNING,
 * BLOCKED(by suspend | in join | in set_main_sched), TERMINATED}, associated
 * pool, started flag, joiner; per pool the set of units inside and the number
 * of blocked units associated with it.  Directed primitives name the unit that
 * must run next; after the other primitives the scheduler chooses, and the
 * model accepts any unit that is READY and in a pool (the documentation does
 * not promise a scheduling order), the released joiner, or the unit waiting
 * in set_main_sched.
 *
 * Oracles at every hand-over (first action of whoever gets control):
 *   C11  the unit that runs is the named one / an eligible one; it reports
 *        RUNNING; the caller is READY and in its pool / BLOCKED / TERMINATED;
 *        every other unit reports the model's state; ABT_pool_get_size,
 *        total_size - size and the members of both pools equal the model's.
 *   C02  (after every return of a primitive, which is invoked through the
 *        assembly trampoline c02_tramp) rbx, rbp, r12-r15, MXCSR control
 *        bits, x87 control word and rsp are what they were at the call; the
 *        stack-resident step counter equals its mirror and the stack pattern
 *        is intact; a started unit is never re-entered from the top; rsp at
 *        function entry is 8 mod 16; the locals of a unit lie inside the stack
 *        it was given; stacks of live units are pairwise disjoint.
 */
#ifndef C02_CTX_H
#define C02_CTX_H
#include "common.h"
#include <stdint.h>
#include <stddef.h>
#include <stdarg.h>
#ifdef __SANITIZE_ADDRESS__
#include <sanitizer/asan_interface.h>
#endif

#define NU 4 /* unit 0: primary ULT; 1..3: script ULTs */
#define NPAT 24

enum { ST_ABSENT, ST_READY, ST_RUNNING, ST_BLOCKED, ST_TERM };
enum { BK_NONE, BK_SUSP, BK_JOIN, BK_REPL };
enum {
    OP_YIELD,
    OP_SELF_YIELD_TO,
    OP_THREAD_YIELD_TO,
    OP_CREATE_TO,
    OP_REVIVE_TO,
    OP_SUSPEND,
    OP_RESUME,
    OP_SUSPEND_TO,
    OP_RESUME_YIELD_TO,
    OP_RESUME_SUSPEND_TO,
    OP_EXIT_TO,
    OP_RESUME_EXIT_TO,
    OP_JOIN,
    OP_SETSCHED,
    OP_FIN,
    NOPS
};
static const char *const op_name[NOPS] = {
    "yield",           "self_yield_to",     "thread_yield_to", "create_to",
    "revive_to",       "suspend",           "resume",          "suspend_to",
    "resume_yield_to", "resume_suspend_to", "exit_to",         "resume_exit_to",
    "join",            "setsched",          "fin"
};
#define M(op) (1u << (op))
#define A_DIRECTED                                                             \
    (M(OP_SELF_YIELD_TO) | M(OP_THREAD_YIELD_TO) | M(OP_CREATE_TO) |           \
     M(OP_REVIVE_TO) | M(OP_SUSPEND_TO) | M(OP_RESUME_YIELD_TO) |              \
     M(OP_RESUME_SUSPEND_TO) | M(OP_EXIT_TO) | M(OP_RESUME_EXIT_TO))
#define A_FULL ((1u << NOPS) - 1)
/* ops whose target is named and must run next */
#define IS_DIRECTED(op) ((A_DIRECTED >> (op)) & 1)

/* stack provenance of a slot */
enum { PV_DEFAULT, PV_MALLOC, PV_USER };
typedef struct {
    int kind;
    size_t size; /* PV_MALLOC: attr stack size; PV_USER: size of the region */
    int off;     /* PV_USER: byte offset (multiple of 8) inside a 64-aligned block */
    int nofree;  /* never ABT_thread_free this unit (see c02_ctx.c: C15 defect) */
} prov_t;

typedef struct {
    const char *name;
    int quick;
    int L;             /* chain length bound */
    unsigned alphabet; /* mask of OP_* */
    int pool[NU];      /* pool a slot is created in (pool[0] unused) */
    prov_t prov[NU];   /* prov[0] unused */
    const char *inits; /* initial states of slots 1..3, ','-separated words over
                          A(bsent) F(resh, in pool) Y(started, yielded) S(started,
                          suspended) T(erminated); one word per execution */
    int vary_off;      /* 1: a FREE choice 0..7 is added (x8) to all PV_USER
                          offsets, another one 0..1 (x8) to their sizes */
} cfg_t;

/* ------------------------------------------------------------ trampoline */
typedef struct {
    uint64_t fn;          /* 0 */
    uint64_t arg[5];      /* 8 */
    uint64_t in[6];       /* 48: rbx rbp r12 r13 r14 r15 */
    uint32_t in_mxcsr;    /* 96 */
    uint32_t in_cw;       /* 100 (low 16 bits used) */
    uint64_t out[6];      /* 104 */
    uint32_t out_mxcsr;   /* 152 */
    uint32_t out_cw;      /* 156 */
    uint64_t rsp_in;      /* 160 */
    uint64_t rsp_out;     /* 168 */
    uint64_t ret;         /* 176 */
} c02_frame_t;
_Static_assert(offsetof(c02_frame_t, in) == 48, "frame layout");
_Static_assert(offsetof(c02_frame_t, in_mxcsr) == 96, "frame layout");
_Static_assert(offsetof(c02_frame_t, out) == 104, "frame layout");
_Static_assert(offsetof(c02_frame_t, out_mxcsr) == 152, "frame layout");
_Static_assert(offsetof(c02_frame_t, rsp_in) == 160, "frame layout");
_Static_assert(offsetof(c02_frame_t, ret) == 176, "frame layout");
void c02_tramp(c02_frame_t *f);
void c02_ult_entry(void *arg);
void c02_setfp(uint32_t mxcsr, uint32_t cw);
void c02_getfp(uint32_t *mxcsr, uint32_t *cw);
void c02_ult_main(void *arg, uintptr_t entry_rsp);
static const char *const reg_name[6] = { "rbx", "rbp", "r12", "r13", "r14", "r15" };

/* what lives on the stack of every unit */
typedef struct {
    volatile uint64_t pat[NPAT];
    volatile int step;
    volatile int life;
    c02_frame_t fr;
    ABT_thread_attr attr; /* attribute handed to create_to */
} locals_t;

/* --------------------------------------------------------------- state */
typedef struct {
    ABT_thread th;
    int st, bk, inpool, pool, started, life;
    int joiner;      /* unit blocked in ABT_thread_join on this one, or -1 */
    int join_target; /* unit this one is joining (until the join returns) */
    int repl_cancelled;
    int ever_created;
    int freed;
    /* C02 bookkeeping */
    int live;          /* has a live context (started, not terminated) */
    uintptr_t lo, hi;  /* its registered locals [lo,hi) */
    uintptr_t rlo, rhi; /* stack region it was given (0,0 unknown) */
    int mirror;        /* mirror of the stack-resident step counter */
} unit_t;

static const cfg_t *C;
/* 1: also compare ABT_thread_get_state of every unit and the pool sizes /
 * blocked counts / members with the model (the C11 oracle).  c02_ctx switches
 * it off: C02 is about contexts and about control going where the model says,
 * not about the states the runtime reports. */
static int check_c11_state = 1;
static unit_t U[NU];
static ABT_pool POOL[2];
static ABT_xstream XS;
static int cur = 0;          /* running unit according to the model */
static int ops_left;         /* remaining chain budget */
static int setup_phase;      /* pre-starting slots: nothing is counted */
static char pre[NU];         /* initial state letter of a slot */
static int repl_waiter = -1; /* unit blocked in set_main_sched */
static int repl_order;       /* requested pool order of the pending scheduler */
static int sched_order;      /* pool order of the current main scheduler */
static int user_off_add, user_size_add;
static uint64_t run_seed;
static struct {
    int active, op, caller, target, join_release, target_fresh;
} SW;
/* statistics */
static long n_prims, n_directed, n_regcmp, n_chain, n_fresh_tgt, n_started_tgt,
    n_diffpool, n_samepool, n_handoff;
static char chain[400];
static int chain_len;
static char last_tag[48] = "none";

/* user-supplied stacks: 64-aligned blocks */
#define USTACK_MAX (64 * 1024)
static char ustack[NU][USTACK_MAX + 128] __attribute__((aligned(64)));

#define CHK(cond, key, ...)                                                    \
    do {                                                                       \
        if (!(cond))                                                           \
            fail_with_chain(key, __VA_ARGS__);                                 \
    } while (0)

__attribute__((format(printf, 2, 3))) static void
fail_with_chain(const char *key, const char *fmt, ...)
{
    char buf[700];
    va_list ap;
    va_start(ap, fmt);
    vsnprintf(buf, sizeof buf, fmt, ap);
    va_end(ap);
    abtmc_check_fail(key, "%s  [chain:%s]", buf, chain);
}

static uint64_t mix64(uint64_t x)
{
    x += 0x9e3779b97f4a7c15ULL;
    x = (x ^ (x >> 30)) * 0xbf58476d1ce4e5b9ULL;
    x = (x ^ (x >> 27)) * 0x94d049bb133111ebULL;
    return x ^ (x >> 31);
}

static const char *uname(int u)
{
    static const char *const n[NU] = { "P", "U1", "U2", "U3" };
    return (u >= 0 && u < NU) ? n[u] : "-";
}

static void chain_add(int me, int op, int t, int var, int counted)
{
    int n = snprintf(chain + chain_len, sizeof chain - (size_t)chain_len,
                     " %s%s:%s", counted ? "" : "~", uname(me), op_name[op]);
    if (n > 0 && chain_len + n < (int)sizeof chain)
        chain_len += n;
    if (t >= 0 || op == OP_SETSCHED) {
        n = snprintf(chain + chain_len, sizeof chain - (size_t)chain_len,
                     "(%s%s)", t >= 0 ? uname(t) : "",
                     op == OP_SETSCHED ? (var ? "P1P0" : "P0P1") : "");
        if (n > 0 && chain_len + n < (int)sizeof chain)
            chain_len += n;
    }
    abtmc_tracef("c02: %s%s %s(%s) var=%d ops_left=%d", counted ? "" : "~",
                 uname(me), op_name[op], uname(t), var, ops_left);
}

/* ---------------------------------------------------- reference model */
static int m_pool_size(int p)
{
    int n = 0;
    for (int u = 0; u < NU; u++)
        n += (U[u].st == ST_READY && U[u].inpool && U[u].pool == p);
    return n;
}
static int m_pool_blocked(int p)
{
    int n = 0;
    for (int u = 0; u < NU; u++)
        n += (U[u].st == ST_BLOCKED && U[u].pool == p);
    return n;
}
static void m_push(int u)
{
    U[u].st = ST_READY;
    U[u].inpool = 1;
    U[u].bk = BK_NONE;
}
static void m_block(int u, int bk)
{
    U[u].st = ST_BLOCKED;
    U[u].bk = bk;
    U[u].inpool = 0;
}
static void m_run(int u)
{
    U[u].st = ST_RUNNING;
    U[u].bk = BK_NONE;
    U[u].inpool = 0;
}
static int ready_in_pool(int u)
{
    return U[u].st == ST_READY && U[u].inpool;
}
static int susp_blocked(int u)
{
    return U[u].st == ST_BLOCKED && U[u].bk == BK_SUSP;
}
static int someone_joining(int t)
{
    for (int u = 0; u < NU; u++)
        if (U[u].join_target == t)
            return 1;
    return 0;
}
static int join_reaches(int from, int to)
{
    /* does `from` (transitively) wait in a join for `to`? */
    for (int k = 0; k < NU && from >= 0; k++) {
        if (from == to)
            return 1;
        from = (U[from].st == ST_BLOCKED && U[from].bk == BK_JOIN)
                   ? U[from].join_target
                   : -1;
    }
    return 0;
}

/* apply primitive `op` of unit `me` to the model: afterwards the model
 * describes what must hold when the next unit starts executing */
static void m_apply(int op, int me, int t, int var)
{
    SW.active = 1;
    SW.op = op;
    SW.caller = me;
    SW.target = -1;
    SW.join_release = -1;
    SW.target_fresh = 0;
    if (IS_DIRECTED(op)) {
        SW.target = t;
        SW.target_fresh = (op == OP_CREATE_TO || op == OP_REVIVE_TO ||
                           !U[t].started);
    }
    switch (op) {
        case OP_YIELD: m_push(me); break;
        case OP_SELF_YIELD_TO:
        case OP_THREAD_YIELD_TO:
        case OP_RESUME_YIELD_TO:
            m_run(t);
            m_push(me);
            break;
        case OP_CREATE_TO:
            U[t].pool = C->pool[t];
            U[t].started = 0;
            U[t].life = 0;
            U[t].joiner = U[t].join_target = -1;
            U[t].ever_created = 1;
            m_run(t);
            m_push(me);
            break;
        case OP_REVIVE_TO:
            U[t].pool = var;
            U[t].started = 0;
            U[t].life++;
            m_run(t);
            m_push(me);
            break;
        case OP_SUSPEND: m_block(me, BK_SUSP); break;
        case OP_RESUME:
            m_push(t);
            SW.active = 0; /* not a switch */
            break;
        case OP_SUSPEND_TO:
        case OP_RESUME_SUSPEND_TO:
            m_run(t);
            m_block(me, BK_SUSP);
            break;
        case OP_EXIT_TO:
        case OP_RESUME_EXIT_TO:
            m_run(t);
            U[me].st = ST_TERM;
            U[me].inpool = 0;
            U[me].started = 0;
            if (U[me].joiner >= 0) {
                /* the joiner is made ready; the named unit runs next */
                m_push(U[me].joiner);
                U[me].joiner = -1;
            }
            break;
        case OP_JOIN:
            m_block(me, BK_JOIN);
            U[t].joiner = me;
            U[me].join_target = t;
            break;
        case OP_SETSCHED:
            if (repl_waiter >= 0) {
                /* an earlier, still pending request is superseded: its
                 * caller is made ready again */
                m_push(repl_waiter);
                U[repl_waiter].repl_cancelled = 1;
            }
            U[me].pool = var ? 1 : 0; /* first pool of the new scheduler */
            U[me].repl_cancelled = 0;
            m_block(me, BK_REPL);
            repl_waiter = me;
            repl_order = var;
            break;
        case OP_FIN:
            U[me].st = ST_TERM;
            U[me].inpool = 0;
            U[me].started = 0;
            if (U[me].joiner >= 0) {
                SW.join_release = U[me].joiner;
                U[me].joiner = -1;
            }
            break;
    }
}

/* would anything be able to run after `op`? (evaluated on a copy) */
static int m_live_after(int op, int me, int t, int var)
{
    unit_t save[NU];
    int s_repl_waiter = repl_waiter, s_repl_order = repl_order;
    memcpy(save, U, sizeof U);
    m_apply(op, me, t, var);
    int ok = 0;
    if (op == OP_RESUME || SW.target >= 0 || SW.join_release >= 0 ||
        repl_waiter >= 0)
        ok = 1;
    for (int u = 0; u < NU; u++)
        if (ready_in_pool(u))
            ok = 1;
    memcpy(U, save, sizeof U);
    repl_waiter = s_repl_waiter;
    repl_order = s_repl_order;
    memset(&SW, 0, sizeof SW);
    return ok;
}

/* ----------------------------------------------------------- oracles */
static ABT_thread seen[2][8];
static int nseen[2];
static void see0(void *arg, ABT_thread th)
{
    int p = (int)(intptr_t)arg;
    if (nseen[p] < 8)
        seen[p][nseen[p]] = th;
    nseen[p]++;
}

static const char *st_name(int s)
{
    static const char *const n[] = { "READY", "RUNNING", "BLOCKED",
                                     "TERMINATED" };
    return (s >= 0 && s < 4) ? n[s] : "?";
}

/* compare the runtime's view with the model (me is running) */
static void verify_world(int me, int op, int caller, int directed)
{
    ABT_thread self = ABT_THREAD_NULL;
    OK(ABT_self_get_thread(&self));
    CHK(self == U[me].th, "c02_wrong_self",
        "%s is executing but ABT_self_get_thread() returns another handle "
        "(after %s by %s)",
        uname(me), op_name[op], uname(caller));
    for (int u = 0; u < NU && check_c11_state; u++) {
        if (U[u].st == ST_ABSENT || U[u].freed)
            continue;
        ABT_thread_state s;
        OK(ABT_thread_get_state(U[u].th, &s));
        int want;
        switch (U[u].st) {
            case ST_READY: want = ABT_THREAD_STATE_READY; break;
            case ST_RUNNING: want = ABT_THREAD_STATE_RUNNING; break;
            case ST_TERM: want = ABT_THREAD_STATE_TERMINATED; break;
            default:
                /* blocked inside ABT_thread_join / set_main_sched: the
                 * documentation does not say what is reported */
                if (U[u].bk != BK_SUSP)
                    continue;
                want = ABT_THREAD_STATE_BLOCKED;
                break;
        }
        if ((int)s == want)
            continue;
        if (u == me)
            fail_with_chain(directed ? "c11_target_not_running"
                                     : "c11_running_unit_not_running",
                            "%s is executing (it got control through %s by %s) "
                            "but ABT_thread_get_state(%s) reports %s",
                            uname(me), op_name[op], uname(caller), uname(me),
                            st_name((int)s));
        else if (u == caller)
            fail_with_chain("c11_caller_state",
                            "after %s by %s the caller must be %s but "
                            "ABT_thread_get_state reports %s (observed by %s)",
                            op_name[op], uname(caller), st_name(want),
                            st_name((int)s), uname(me));
        else
            fail_with_chain("c11_bystander_state",
                            "after %s by %s unit %s must be %s but "
                            "ABT_thread_get_state reports %s (observed by %s)",
                            op_name[op], uname(caller), uname(u), st_name(want),
                            st_name((int)s), uname(me));
    }
    for (int p = 0; p < 2 && check_c11_state; p++) {
        size_t sz = 0, tot = 0;
        OK(ABT_pool_get_size(POOL[p], &sz));
        OK(ABT_pool_get_total_size(POOL[p], &tot));
        int blocked = (int)(int32_t)(uint32_t)(tot - sz);
        CHK((int)sz == m_pool_size(p), "c11_pool_size",
            "after %s by %s pool P%d holds %zu units, the model says %d "
            "(observed by %s)",
            op_name[op], uname(caller), p, sz, m_pool_size(p), uname(me));
        CHK(blocked >= 0, "c11_blocked_negative",
            "after %s by %s pool P%d reports %d blocked units "
            "(total_size %zu < size %zu)",
            op_name[op], uname(caller), p, blocked, tot, sz);
        CHK(blocked == m_pool_blocked(p), "c11_blocked_count",
            "after %s by %s pool P%d reports %d blocked units "
            "(total_size %zu - size %zu), the model says %d (observed by %s)",
            op_name[op], uname(caller), p, blocked, tot, sz, m_pool_blocked(p),
            uname(me));
        nseen[p] = 0;
        OK(ABT_pool_print_all_threads(POOL[p], (void *)(intptr_t)p, see0));
        CHK(nseen[p] == m_pool_size(p), "c11_pool_members",
            "after %s by %s pool P%d lists %d units, the model says %d",
            op_name[op], uname(caller), p, nseen[p], m_pool_size(p));
        for (int u = 0; u < NU; u++) {
            if (!(ready_in_pool(u) && U[u].pool == p))
                continue;
            int found = 0;
            for (int k = 0; k < nseen[p] && k < 8; k++)
                found += (seen[p][k] == U[u].th);
            CHK(found == 1, "c11_pool_members",
                "after %s by %s unit %s must be (once) in pool P%d but is "
                "listed %d times (observed by %s)",
                op_name[op], uname(caller), uname(u), p, found, uname(me));
        }
    }
    /* C02: stacks of live units pairwise disjoint; locals inside the region */
    for (int a = 0; a < NU; a++) {
        if (!U[a].live)
            continue;
        CHK(U[a].lo < U[a].hi, "c02_stack_range", "bad range of %s", uname(a));
        if (U[a].rhi)
            CHK(U[a].rlo <= U[a].lo && U[a].hi <= U[a].rhi,
                "c02_stack_outside_region",
                "locals of %s [+%ld,+%ld) relative to its stack region of %zu "
                "bytes lie outside that region",
                uname(a), (long)(U[a].lo - U[a].rlo), (long)(U[a].hi - U[a].rlo),
                (size_t)(U[a].rhi - U[a].rlo));
        for (int b = a + 1; b < NU; b++) {
            if (!U[b].live)
                continue;
            CHK(U[a].hi <= U[b].lo || U[b].hi <= U[a].lo, "c02_stack_overlap",
                "live units %s and %s use overlapping stack ranges", uname(a),
                uname(b));
        }
    }
    for (int a = 1; a < NU; a++) {
        if (!U[a].rhi || U[a].freed || U[a].st == ST_ABSENT)
            continue;
        for (int b = a + 1; b < NU; b++) {
            if (!U[b].rhi || U[b].freed || U[b].st == ST_ABSENT)
                continue;
            CHK(U[a].rhi <= U[b].rlo || U[b].rhi <= U[a].rlo,
                "c02_stack_overlap",
                "stack regions of %s and %s overlap", uname(a), uname(b));
        }
    }
}

/* first action of a unit that has just got control */
static void on_gain(int me, int fresh)
{
    CHK(SW.active, "c02_spurious_run",
        "%s got control (%s) although no switch primitive is in flight: a "
        "context was resumed twice",
        uname(me), fresh ? "from the top" : "resumed");
    int op = SW.op, caller = SW.caller, directed = (SW.target >= 0);
    if (directed) {
        CHK(me == SW.target, "c11_wrong_next",
            "%s by %s names %s, but %s ran next on the stream", op_name[op],
            uname(caller), uname(SW.target), uname(me));
        n_directed++;
        if (SW.target_fresh)
            n_fresh_tgt++;
        else
            n_started_tgt++;
        if (U[me].pool == U[caller].pool)
            n_samepool++;
        else
            n_diffpool++;
    } else {
        int jr = SW.join_release;
        if (ready_in_pool(me)) {
            if (jr >= 0) /* the released joiner must then have been pushed */
                m_push(jr);
            m_run(me);
        } else if (me == jr && U[me].st == ST_BLOCKED && U[me].bk == BK_JOIN) {
            m_run(me); /* join hand-off: the joiner runs directly */
            n_handoff++;
        } else if (me == repl_waiter && U[me].st == ST_BLOCKED &&
                   U[me].bk == BK_REPL) {
            if (jr >= 0)
                m_push(jr);
            m_run(me);
            sched_order = repl_order;
            repl_waiter = -1;
        } else {
            static const char *const sn[] = { "ABSENT", "READY (not in a pool)",
                                              "RUNNING", "BLOCKED",
                                              "TERMINATED" };
            fail_with_chain("c11_ran_unexpected",
                            "after %s by %s the scheduler ran %s, which the "
                            "model has as %s%s: it was not made runnable",
                            op_name[op], uname(caller), uname(me), sn[U[me].st],
                            U[me].st == ST_BLOCKED
                                ? (U[me].bk == BK_SUSP
                                       ? " (suspended, never resumed)"
                                       : U[me].bk == BK_JOIN
                                             ? " (joining a live unit)"
                                             : " (set_main_sched)")
                                : "");
        }
    }
    SW.active = 0;
    CHK(!(fresh && U[me].started), "c02_restarted",
        "%s was entered from the top although it had already started: its "
        "saved context was lost (after %s by %s)",
        uname(me), op_name[op], uname(caller));
    CHK(fresh || U[me].started, "c02_resumed_unstarted",
        "%s resumed in the middle although it had never started", uname(me));
    U[me].started = 1;
    cur = me;
    verify_world(me, op, caller, directed);
}

/* ------------------------------------------------------------ locals */
static uint64_t pat_val(int me, int life, int step, int i)
{
    return mix64(run_seed ^ ((uint64_t)me << 56) ^ ((uint64_t)life << 48) ^
                 ((uint64_t)step << 32) ^ (uint64_t)i);
}
static void pat_write(int me, locals_t *L)
{
    for (int i = 0; i < NPAT; i++)
        L->pat[i] = pat_val(me, L->life, L->step, i);
}
static void pat_check(int me, locals_t *L, int op)
{
    CHK(L->step == U[me].mirror, "c02_stale_context",
        "%s came back from %s with stack-resident step counter %d, expected "
        "%d: a stale context was restored",
        uname(me), op_name[op], L->step, U[me].mirror);
    CHK(L->life == U[me].life, "c02_stale_context",
        "%s came back from %s in life %d, expected %d", uname(me), op_name[op],
        L->life, U[me].life);
    for (int i = 0; i < NPAT; i++)
        CHK(L->pat[i] == pat_val(me, L->life, L->step, i), "c02_stack_pattern",
            "stack pattern of %s damaged at word %d while it was switched out "
            "(%s)",
            uname(me), i, op_name[op]);
}

/* call fn(a0..a4) through the trampoline and compare the context */
static int tramp_call(int me, locals_t *L, int op, void *fn, uint64_t a0,
                      uint64_t a1, uint64_t a2, uint64_t a3, uint64_t a4)
{
    c02_frame_t *f = &L->fr;
    uint64_t s = mix64(run_seed ^ 0xc02 ^ ((uint64_t)me << 40) ^
                       ((uint64_t)L->life << 32) ^ (uint64_t)L->step);
    f->fn = (uint64_t)(uintptr_t)fn;
    f->arg[0] = a0;
    f->arg[1] = a1;
    f->arg[2] = a2;
    f->arg[3] = a3;
    f->arg[4] = a4;
    for (int i = 0; i < 6; i++) {
        f->in[i] = mix64(s + (uint64_t)i);
        f->out[i] = 0;
    }
    /* MXCSR: all exceptions stay masked (0x1f80); rounding control (13-14),
     * flush-to-zero (15), denormals-are-zero (6) are seed-derived and never
     * all default.  x87 CW: exceptions masked; precision control (8-9) and
     * rounding control (10-11) seed-derived, never the default 0x37f. */
    unsigned rc = (unsigned)(s >> 8) & 3, ftz = (unsigned)(s >> 10) & 1,
             daz = (unsigned)(s >> 11) & 1;
    if (!rc && !ftz && !daz)
        rc = 1 + (unsigned)(s >> 12) % 3;
    f->in_mxcsr = 0x1f80u | (rc << 13) | (ftz << 15) | (daz << 6);
    static const unsigned pcs[3] = { 0, 2, 3 };
    unsigned pc = pcs[(unsigned)(s >> 16) % 3], xrc = (unsigned)(s >> 20) & 3;
    if (pc == 3 && xrc == 0)
        xrc = 1 + (unsigned)(s >> 22) % 3;
    f->in_cw = 0x007fu | (pc << 8) | (xrc << 10);
    f->out_mxcsr = f->out_cw = 0;
    f->rsp_in = f->rsp_out = 0;
    f->ret = (uint64_t)-1;
    n_prims++;
    /* a hooked, monotone write: tells the engine's spin detection that the
     * scheduler loop it is about to see again is not a busy-wait */
    abtmc_progress();
    c02_tramp(f);
    /* ---- back: possibly many switches later */
    n_regcmp++;
    CHK(f == &L->fr, "c02_stack_pattern", "frame pointer changed");
    CHK(f->rsp_out == f->rsp_in, "c02_rsp",
        "%s: stack pointer after %s differs from the one at the call by %ld "
        "bytes",
        uname(me), op_name[op], (long)(f->rsp_out - f->rsp_in));
    for (int i = 0; i < 6; i++)
        CHK(f->out[i] == f->in[i] && f->in[i] == mix64(s + (uint64_t)i),
            "c02_callee_saved",
            "%s: callee-saved register %s holds %#llx after %s, it held %#llx "
            "at the call",
            uname(me), reg_name[i], (unsigned long long)f->out[i], op_name[op],
            (unsigned long long)mix64(s + (uint64_t)i));
    CHK((f->out_mxcsr & 0xffc0u) == (f->in_mxcsr & 0xffc0u), "c02_mxcsr",
        "%s: MXCSR control bits are %#x after %s, they were %#x at the call",
        uname(me), f->out_mxcsr & 0xffc0u, op_name[op], f->in_mxcsr & 0xffc0u);
    CHK((f->out_cw & 0xffffu) == (f->in_cw & 0xffffu), "c02_x87cw",
        "%s: x87 control word is %#x after %s, it was %#x at the call",
        uname(me), f->out_cw & 0xffffu, op_name[op], f->in_cw & 0xffffu);
    return (int)f->ret;
}

/* --------------------------------------------------------- attributes */
static void slot_region(int s, void **addr, size_t *size)
{
    const prov_t *pv = &C->prov[s];
    int off = (pv->off + user_off_add + 8 * s) % 64;
    *addr = ustack[s] + off;
    *size = pv->size + (size_t)user_size_add;
}
static ABT_thread_attr slot_attr(int s)
{
    const prov_t *pv = &C->prov[s];
    ABT_thread_attr a = ABT_THREAD_ATTR_NULL;
    if (pv->kind == PV_MALLOC) {
        OK(ABT_thread_attr_create(&a));
        OK(ABT_thread_attr_set_stacksize(a, pv->size));
    } else if (pv->kind == PV_USER) {
        void *addr;
        size_t size;
        slot_region(s, &addr, &size);
        OK(ABT_thread_attr_create(&a));
        OK(ABT_thread_attr_set_stack(a, addr, size));
    }
    return a;
}

/* ------------------------------------------------------- primitives */
static int pool_order[2][2] = { { 0, 1 }, { 1, 0 } };

static void remove_from_pool(int t)
{
    /* "It is the user's responsibility to pop thread from its associated
     * pool before calling this routine" */
    ABT_unit unit;
    OK(ABT_thread_get_unit(U[t].th, &unit));
    OK(ABT_pool_remove(POOL[U[t].pool], unit));
}

/* perform primitive op (target t, variant var) as unit me; returns when (if)
 * me runs again.  OP_FIN by return is done by the callers. */
static void do_op(int me, locals_t *L, int op, int t, int var, int counted)
{
    int ret = ABT_SUCCESS;
    chain_add(me, op, t, var, counted);
    if (counted) {
        n_chain++;
        snprintf(last_tag, sizeof last_tag, "%s:%s:%s", op_name[op],
                 t < 0 ? "-"
                       : (op == OP_CREATE_TO || op == OP_REVIVE_TO ||
                          !U[t].started)
                             ? "fresh"
                             : "started",
                 t < 0 ? "-" : (U[t].pool == U[me].pool ? "same" : "diff"));
    }
    /* pool surgery required by the documentation, before the model moves */
    if (op == OP_SELF_YIELD_TO || op == OP_SUSPEND_TO || op == OP_EXIT_TO)
        remove_from_pool(t);
    int revive_pool = 0;
    if (op == OP_REVIVE_TO)
        var = revive_pool = 1 - U[t].pool; /* revive into the other pool */
    int was_cancelled_before = 0;
    (void)was_cancelled_before;
    m_apply(op, me, t, var);
    /* new epoch of the stack-resident data */
    L->step++;
    U[me].mirror = L->step;
    pat_write(me, L);
    if (op == OP_EXIT_TO || op == OP_RESUME_EXIT_TO ||
        (op == OP_FIN /* ABT_self_exit variant */))
        U[me].live = 0;
    switch (op) {
        case OP_YIELD:
            ret = tramp_call(me, L, op,
                             ((me + L->step) & 1) ? (void *)ABT_thread_yield
                                                  : (void *)ABT_self_yield,
                             0, 0, 0, 0, 0);
            break;
        case OP_SELF_YIELD_TO:
            ret = tramp_call(me, L, op, (void *)ABT_self_yield_to,
                             (uint64_t)(uintptr_t)U[t].th, 0, 0, 0, 0);
            break;
        case OP_THREAD_YIELD_TO:
            ret = tramp_call(me, L, op, (void *)ABT_thread_yield_to,
                             (uint64_t)(uintptr_t)U[t].th, 0, 0, 0, 0);
            break;
        case OP_CREATE_TO:
            L->attr = slot_attr(t);
            if (C->prov[t].kind == PV_USER) {
                void *addr;
                size_t size;
                slot_region(t, &addr, &size);
                U[t].rlo = (uintptr_t)addr;
                U[t].rhi = (uintptr_t)addr + size;
            }
            ret = tramp_call(me, L, op, (void *)ABT_thread_create_to,
                             (uint64_t)(uintptr_t)POOL[C->pool[t]],
                             (uint64_t)(uintptr_t)c02_ult_entry, (uint64_t)t,
                             (uint64_t)(uintptr_t)L->attr,
                             (uint64_t)(uintptr_t)&U[t].th);
            if (L->attr != ABT_THREAD_ATTR_NULL)
                OK(ABT_thread_attr_free(&L->attr));
            break;
        case OP_REVIVE_TO:
            ret = tramp_call(me, L, op, (void *)ABT_thread_revive_to,
                             (uint64_t)(uintptr_t)POOL[revive_pool],
                             (uint64_t)(uintptr_t)c02_ult_entry, (uint64_t)t,
                             (uint64_t)(uintptr_t)&U[t].th, 0);
            break;
        case OP_SUSPEND:
            ret = tramp_call(me, L, op, (void *)ABT_self_suspend, 0, 0, 0, 0, 0);
            break;
        case OP_RESUME:
            ret = tramp_call(me, L, op, (void *)ABT_thread_resume,
                             (uint64_t)(uintptr_t)U[t].th, 0, 0, 0, 0);
            break;
        case OP_SUSPEND_TO:
            ret = tramp_call(me, L, op, (void *)ABT_self_suspend_to,
                             (uint64_t)(uintptr_t)U[t].th, 0, 0, 0, 0);
            break;
        case OP_RESUME_YIELD_TO:
            ret = tramp_call(me, L, op, (void *)ABT_self_resume_yield_to,
                             (uint64_t)(uintptr_t)U[t].th, 0, 0, 0, 0);
            break;
        case OP_RESUME_SUSPEND_TO:
            ret = tramp_call(me, L, op, (void *)ABT_self_resume_suspend_to,
                             (uint64_t)(uintptr_t)U[t].th, 0, 0, 0, 0);
            break;
        case OP_EXIT_TO:
            ret = tramp_call(me, L, op, (void *)ABT_self_exit_to,
                             (uint64_t)(uintptr_t)U[t].th, 0, 0, 0, 0);
            fail_with_chain("c11_exit_returned",
                            "ABT_self_exit_to returned %d to %s", ret,
                            uname(me));
            break;
        case OP_RESUME_EXIT_TO:
            ret = tramp_call(me, L, op, (void *)ABT_self_resume_exit_to,
                             (uint64_t)(uintptr_t)U[t].th, 0, 0, 0, 0);
            fail_with_chain("c11_exit_returned",
                            "ABT_self_resume_exit_to returned %d to %s", ret,
                            uname(me));
            break;
        case OP_JOIN:
            ret = tramp_call(me, L, op, (void *)ABT_thread_join,
                             (uint64_t)(uintptr_t)U[t].th, 0, 0, 0, 0);
            break;
        case OP_SETSCHED: {
            static ABT_pool ord[2][2];
            ord[var][0] = POOL[pool_order[var][0]];
            ord[var][1] = POOL[pool_order[var][1]];
            ret = tramp_call(me, L, op, (void *)ABT_xstream_set_main_sched_basic,
                             (uint64_t)(uintptr_t)XS, (uint64_t)ABT_SCHED_BASIC,
                             2, (uint64_t)(uintptr_t)ord[var], 0);
            break;
        }
        case OP_FIN:
            ret = tramp_call(me, L, op, (void *)ABT_self_exit, 0, 0, 0, 0, 0);
            fail_with_chain("c11_exit_returned", "ABT_self_exit returned %d",
                            ret);
            break;
    }
    CHK(ret == ABT_SUCCESS, "c11_api_error", "%s by %s returned %d",
        op_name[op], uname(me), ret);
    pat_check(me, L, op);
    if (op == OP_RESUME) {
        CHK(cur == me, "c02_spurious_run", "cur changed across resume");
        verify_world(me, op, me, 0);
        return;
    }
    on_gain(me, 0);
    if (op == OP_JOIN) {
        ABT_thread_state s;
        OK(ABT_thread_get_state(U[t].th, &s));
        CHK(s == ABT_THREAD_STATE_TERMINATED && U[t].st == ST_TERM,
            "c11_join_returned_early",
            "ABT_thread_join(%s) returned to %s while %s is %s (model: %s)",
            uname(t), uname(me), uname(t), st_name((int)s),
            U[t].st == ST_TERM ? "TERMINATED" : "alive");
        U[me].join_target = -1;
    }
    if (op == OP_SETSCHED && !U[me].repl_cancelled) {
        ABT_pool mp[2] = { ABT_POOL_NULL, ABT_POOL_NULL }, lp = ABT_POOL_NULL;
        OK(ABT_xstream_get_main_pools(XS, 2, mp));
        CHK(sched_order == var, "c11_setsched_model", "model order mismatch");
        CHK(mp[0] == POOL[pool_order[var][0]] &&
                mp[1] == POOL[pool_order[var][1]],
            "c11_setsched_pools",
            "after set_main_sched_basic returned to %s the main scheduler "
            "does not have the requested pools",
            uname(me));
        OK(ABT_self_get_last_pool(&lp));
        CHK(lp == POOL[pool_order[var][0]], "c11_setsched_caller_pool",
            "after set_main_sched_basic %s is not associated with the first "
            "pool of the new scheduler",
            uname(me));
    }
}

/* ------------------------------------------------------ enumeration */
typedef struct {
    unsigned char op, t, var;
} cand_t;

static int choose_big(int n)
{
    if (n <= 1)
        return 0;
    if (n <= 10)
        return abtmc_choose(n, ABTMC_B_FREE);
    int groups = (n + 7) / 8;
    int g = abtmc_choose(groups, ABTMC_B_FREE);
    int m = n - 8 * g;
    if (m > 8)
        m = 8;
    return 8 * g + abtmc_choose(m, ABTMC_B_FREE);
}

static int enabled_ops(int me, cand_t *c)
{
    int n = 0;
#define ADD(o, tt, vv)                                                         \
    do {                                                                       \
        if (m_live_after((o), me, (tt), (vv))) {                               \
            c[n].op = (unsigned char)(o);                                      \
            c[n].t = (unsigned char)(tt);                                      \
            c[n].var = (unsigned char)(vv);                                    \
            n++;                                                               \
        }                                                                      \
    } while (0)
    unsigned al = C->alphabet;
    if (al & M(OP_YIELD))
        ADD(OP_YIELD, -1, 0);
    for (int t = 0; t < NU; t++) {
        if (t == me)
            continue;
        if (ready_in_pool(t)) {
            if (al & M(OP_SELF_YIELD_TO))
                ADD(OP_SELF_YIELD_TO, t, 0);
            if (al & M(OP_THREAD_YIELD_TO))
                ADD(OP_THREAD_YIELD_TO, t, 0);
            if (al & M(OP_SUSPEND_TO))
                ADD(OP_SUSPEND_TO, t, 0);
            if ((al & M(OP_EXIT_TO)) && me != 0 && t != 0)
                ADD(OP_EXIT_TO, t, 0);
        }
        if (susp_blocked(t)) {
            if (al & M(OP_RESUME))
                ADD(OP_RESUME, t, 0);
            if (al & M(OP_RESUME_YIELD_TO))
                ADD(OP_RESUME_YIELD_TO, t, 0);
            if (al & M(OP_RESUME_SUSPEND_TO))
                ADD(OP_RESUME_SUSPEND_TO, t, 0);
            if ((al & M(OP_RESUME_EXIT_TO)) && me != 0)
                ADD(OP_RESUME_EXIT_TO, t, 0);
        }
        if (t != 0 && U[t].st == ST_ABSENT && !U[t].ever_created &&
            (al & M(OP_CREATE_TO)))
            ADD(OP_CREATE_TO, t, 0);
        if (t != 0 && U[t].st == ST_TERM && !someone_joining(t) &&
            (al & M(OP_REVIVE_TO)))
            ADD(OP_REVIVE_TO, t, 1 - U[t].pool);
        if (t != 0 && (al & M(OP_JOIN)) &&
            (U[t].st == ST_READY || U[t].st == ST_BLOCKED) &&
            U[t].joiner < 0 && !someone_joining(t) && !join_reaches(t, me))
            ADD(OP_JOIN, t, 0);
    }
    if (al & M(OP_SUSPEND))
        ADD(OP_SUSPEND, -1, 0);
    if (al & M(OP_SETSCHED)) {
        ADD(OP_SETSCHED, -1, 0);
        ADD(OP_SETSCHED, -1, 1);
    }
    if ((al & M(OP_FIN)) && me != 0) {
        ADD(OP_FIN, -1, 0); /* return */
        ADD(OP_FIN, -1, 1); /* ABT_self_exit */
    }
#undef ADD
    return n;
}

/* run the script of unit me while the chain has budget.  Returns 0 when the
 * budget is exhausted (or nothing is enabled), 1 when the unit chose to
 * finish by returning from its function. */
static int run_script(int me, locals_t *L)
{
    while (ops_left > 0) {
        cand_t c[64];
        int n = enabled_ops(me, c);
        if (n == 0)
            return 0;
        int k = choose_big(n);
        ops_left--;
        int t = (c[k].t == 255) ? -1 : (int)c[k].t;
        if (c[k].op == OP_FIN && c[k].var == 0) {
            chain_add(me, OP_FIN, -1, 0, 1);
            n_chain++;
            snprintf(last_tag, sizeof last_tag, "fin:return");
            return 1;
        }
        do_op(me, L, c[k].op, t, c[k].var, 1);
    }
    return 0;
}

/* duty of a unit that ends because the chain is over: wake every unit
 * blocked by a suspend so that the program can finish */
static void finish_duty(int me, locals_t *L)
{
    for (int t = 0; t < NU; t++)
        if (t != me && susp_blocked(t))
            do_op(me, L, OP_RESUME, t, 0, 0);
}

static void locals_init(int me, locals_t *L, uintptr_t hi)
{
    L->step = 0;
    L->life = U[me].life;
    L->attr = ABT_THREAD_ATTR_NULL;
    U[me].mirror = 0;
    pat_write(me, L);
    U[me].lo = (uintptr_t)L;
    U[me].hi = hi;
    U[me].live = 1;
}

/* body of the script ULTs (entered through c02_ult_entry) */
void c02_ult_main(void *arg, uintptr_t entry_rsp)
{
    int me = (int)(intptr_t)arg;
    locals_t L;
    CHK(me >= 1 && me < NU, "c02_bad_arg", "unit argument %d", me);
    CHK(entry_rsp % 16 == 8, "c02_stack_alignment",
        "%s entered its function with rsp %% 16 == %d (the ABI requires 8: a "
        "16-byte aligned stack at the call); stack provenance %d",
        uname(me), (int)(entry_rsp % 16), C->prov[me].kind);
    c02_setfp(0x1f80, 0x37f); /* a new ULT inherits the FP state of whoever
                                 started it; normalise */
    /* stack region this unit was given */
    if (C->prov[me].kind != PV_USER) {
        ABT_thread_attr a;
        void *addr = NULL;
        size_t size = 0;
        ABT_thread self;
        OK(ABT_self_get_thread(&self));
        OK(ABT_thread_get_attr(self, &a));
        OK(ABT_thread_attr_get_stack(a, &addr, &size));
        OK(ABT_thread_attr_free(&a));
        U[me].rlo = (uintptr_t)addr;
        U[me].rhi = (uintptr_t)addr + size;
        if (C->prov[me].kind == PV_MALLOC)
            CHK(size >= C->prov[me].size, "c02_stack_size",
                "%s: stack size %zu < requested %zu", uname(me), size,
                C->prov[me].size);
    }
#ifdef __SANITIZE_ADDRESS__
    /* a previous life (or a previous owner of a pooled stack) that ended in a
     * context switch left the red zones of its dead frames poisoned; libabt
     * has no fiber annotations (see harness/c12_asan.h) */
    if (U[me].rlo && (uintptr_t)&L > U[me].rlo + 256)
        __asan_unpoison_memory_region((void *)U[me].rlo,
                                      (uintptr_t)&L - 192 - U[me].rlo);
#endif
    locals_init(me, &L, entry_rsp);
    on_gain(me, 1);
    int by_return = 0;
    if (L.life == 0 && pre[me] == 'Y') {
        pre[me] = 0;
        do {
            do_op(me, &L, OP_YIELD, -1, 0, 0);
        } while (setup_phase);
    } else if (L.life == 0 && pre[me] == 'S') {
        pre[me] = 0;
        do_op(me, &L, OP_SUSPEND, -1, 0, 0);
    } else if (L.life == 0 && pre[me] == 'T') {
        pre[me] = 0;
        by_return = 2; /* no duty during the set-up */
    }
    if (!by_return)
        by_return = run_script(me, &L);
    if (by_return == 0)
        finish_duty(me, &L);
    /* terminate */
    if (by_return == 0 && ((me + L.step) & 1)) {
        do_op(me, &L, OP_FIN, -1, 1, 0); /* ABT_self_exit: does not return */
    }
    if (by_return != 1)
        chain_add(me, OP_FIN, -1, 0, 0);
    m_apply(OP_FIN, me, -1, 0);
    U[me].live = 0;
    /* leave through the wrapper: ABTD_ythread_func_wrapper -> exit */
}

/* ------------------------------------------------------------ scenario */
static void c02_scenario(const cfg_t *cfgs, int cfg)
{
    C = &cfgs[cfg];
    locals_t L;
    h_init();
    XS = h_self_xstream();
    for (int p = 0; p < 2; p++)
        OK(ABT_pool_create_basic(ABT_POOL_FIFO, ABT_POOL_ACCESS_MPMC, ABT_TRUE,
                                 &POOL[p]));
    abtmc_window_begin();
    /* which initial state */
    char words[12][NU];
    int nw = 0;
    for (const char *s = C->inits; *s && nw < 12;) {
        int k = 0;
        while (*s && *s != ',' && k < NU - 1)
            words[nw][k++] = *s++;
        words[nw][k] = 0;
        while (*s && *s != ',')
            s++;
        if (*s == ',')
            s++;
        nw++;
    }
    int w = choose_big(nw);
    if (C->vary_off) {
        user_off_add = 8 * abtmc_choose(8, ABTMC_B_FREE);
        user_size_add = 8 * abtmc_choose(2, ABTMC_B_FREE);
    }
    run_seed = mix64(0xabcdef ^ ((uint64_t)cfg << 20) ^ ((uint64_t)w << 8) ^
                     (uint64_t)user_off_add ^ ((uint64_t)user_size_add << 4));
    for (int u = 0; u < NU; u++) {
        memset(&U[u], 0, sizeof U[u]);
        U[u].st = ST_ABSENT;
        U[u].joiner = U[u].join_target = -1;
        pre[u] = (u == 0) ? 0 : words[w][u - 1];
    }
    snprintf(chain, sizeof chain, " init=%s off+%d size+%d |", words[w],
             user_off_add, user_size_add);
    chain_len = (int)strlen(chain);
    /* the primary ULT */
    OK(ABT_self_get_thread(&U[0].th));
    U[0].st = ST_RUNNING;
    U[0].started = 1;
    U[0].pool = 0;
    U[0].ever_created = 1;
    cur = 0;
    locals_init(0, &L, (uintptr_t)__builtin_frame_address(0));
    /* two-pool BASIC scheduler (itself a scheduler replacement) */
    setup_phase = 1;
    do_op(0, &L, OP_SETSCHED, -1, 0, 0);
    /* slots that start in a started / terminated state */
    for (int pass = 0; pass < 2; pass++) {
        for (int s = 1; s < NU; s++) {
            int late = (pre[s] == 'F');
            if (pre[s] == 'A' || pre[s] == 0 || late != pass)
                continue;
            ABT_thread_attr a = slot_attr(s);
            if (C->prov[s].kind == PV_USER) {
                void *addr;
                size_t size;
                slot_region(s, &addr, &size);
                U[s].rlo = (uintptr_t)addr;
                U[s].rhi = (uintptr_t)addr + size;
            }
            OK(ABT_thread_create(POOL[C->pool[s]], c02_ult_entry,
                                 (void *)(intptr_t)s, a, &U[s].th));
            if (a != ABT_THREAD_ATTR_NULL)
                OK(ABT_thread_attr_free(&a));
            U[s].pool = C->pool[s];
            U[s].ever_created = 1;
            m_push(s);
            if (!late) {
                /* run it up to its initial state */
                do_op(0, &L, (s & 1) ? OP_SELF_YIELD_TO : OP_THREAD_YIELD_TO, s,
                      0, 0);
            } else {
                pre[s] = 0;
            }
        }
        if (pass == 0)
            setup_phase = 0;
    }
    verify_world(0, OP_YIELD, 0, 0);
    /* ---- the chain */
    int p = (int)strlen(chain);
    if (p < (int)sizeof chain - 3) {
        chain[p] = ' ';
        chain[p + 1] = '|';
        chain[p + 2] = 0;
        chain_len = p + 2;
    }
    ops_left = C->L;
    run_script(0, &L);
    ops_left = 0;
    /* ---- wind down: wake suspended units, join everything */
    for (;;) {
        finish_duty(0, &L);
        int t = -1;
        for (int s = 1; s < NU; s++)
            if (U[s].st != ST_ABSENT && U[s].st != ST_TERM && U[s].joiner < 0 &&
                !someone_joining(s))
                t = s;
        if (t < 0) {
            int alive = 0;
            for (int s = 1; s < NU; s++)
                alive += (U[s].st != ST_ABSENT && U[s].st != ST_TERM);
            CHK(!alive, "c02_harness", "live units but nothing to join");
            break;
        }
        do_op(0, &L, OP_JOIN, t, 0, 0);
    }
    abtmc_window_end();
    /* ---- quiescence */
    CHK(!SW.active && repl_waiter < 0, "c02_harness", "switch in flight");
    verify_world(0, OP_JOIN, 0, 0);
    for (int pp = 0; pp < 2 && check_c11_state; pp++) {
        int nb = h_pool_blocked(POOL[pp]);
        CHK(nb == 0, "c11_blocked_count",
            "pool P%d reports %d blocked units at quiescence", pp, nb);
    }
    for (int s = 1; s < NU; s++) {
        if (U[s].st == ST_ABSENT)
            continue;
        ABT_thread_state st;
        OK(ABT_thread_get_state(U[s].th, &st));
        CHK(st == ABT_THREAD_STATE_TERMINATED, "c11_not_terminated",
            "%s is %s at the end", uname(s), st_name((int)st));
        if (!C->prov[s].nofree) {
            OK(ABT_thread_free(&U[s].th));
            U[s].freed = 1;
        }
    }
    pat_check(0, &L, OP_JOIN);
    abtmc_stat("chains", 1);
    abtmc_stat("ops", n_prims);
    abtmc_stat("chain_ops", n_chain);
    abtmc_stat("directed", n_directed);
    abtmc_stat("ctx_compares", n_regcmp);
    abtmc_stat("tgt_fresh", n_fresh_tgt);
    abtmc_stat("tgt_started", n_started_tgt);
    abtmc_stat("tgt_samepool", n_samepool);
    abtmc_stat("tgt_diffpool", n_diffpool);
    abtmc_stat("join_handoffs", n_handoff);
    abtmc_observe("last=%s", last_tag);
    h_finalize();
}

#endif
