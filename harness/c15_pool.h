/* c15_pool.h -- white-box instantiation of ABTI_mem_pool_* with tiny
 * parameters and the oracle shared by c15_mempool_seq and c15_mempool_conc.
 *
 * The pools under test are the real ones of libabt (src/mem/mem_pool.c and the
 * inline ABTI_mem_pool_alloc/free of abti_mem_pool.h); pages come from
 * ABTU_alloc_largepage, i.e. through the engine's allocation ledger.
 *
 * Oracle (C15): every block handed out is suitably aligned, lies (with its
 * whole segment [p-offset, p-offset+header_size)) inside a live page obtained
 * through the ledger and below the page's own bookkeeping record, is disjoint
 * from every other live block, keeps the content its owner wrote until the
 * owner returns it, and -- looking into the pools -- every carved block is at
 * any quiescent point either live or reachable exactly once from a free list
 * (no duplicate, none lost); after all local pools and the global pool are
 * destroyed the ledger is back at its starting level. */
#ifndef C15_POOL_H
#define C15_POOL_H
#include "abti.h"
#include "common.h"

#define PX_MAXLOCAL 3
#define PX_MAXLIVE 64
#define PX_MAXHDR 512

typedef struct {
    int nper;            /* headers per bucket */
    size_t header_size;  /* segment size */
    size_t header_offset;
    int per_page;        /* whole segments per page */
    size_t page_slack;   /* unused tail (< header_size) in front of the record */
    int nlocal;
} px_params;

typedef struct {
    void *p;
    int owner;  /* local pool index that allocated it */
    int holder; /* actor that will free it (concurrent driver) */
    unsigned id;
} px_live;

typedef struct {
    /* the structures under test */
    ABTI_mem_pool_global_pool g;
    ABTI_mem_pool_local_pool l[PX_MAXLOCAL];
    int l_alive[PX_MAXLOCAL];
    px_params P;
    size_t page_size;
    size_t page_alloc; /* size the allocator sees (ABTU_malloc rounds up) */
    long ledger0;
    /* pages seen so far (cache of ledger look-ups; pages are only released
     * when the global pool is destroyed) */
    void *pg_base[PX_MAXHDR];
    int npg;
    /* model */
    px_live live[PX_MAXLIVE];
    int nlive;
    unsigned next_id;
    long n_alloc, n_free, n_take_page;
} px_t;

static inline size_t px_page_size(const px_params *P)
{
    return P->header_size * P->per_page + P->page_slack +
           sizeof(ABTI_mem_pool_page);
}

static inline void px_init(px_t *x, const px_params *P)
{
    memset(x->l_alive, 0, sizeof(x->l_alive));
    x->P = *P;
    x->nlive = 0;
    x->next_id = 1;
    x->n_alloc = x->n_free = 0;
    x->page_size = px_page_size(P);
    x->page_alloc = ABTU_roundup_size(x->page_size,
                                      ABT_CONFIG_STATIC_CACHELINE_SIZE);
    x->npg = 0;
    x->ledger0 = abtmc_ledger_live();
    ABTU_MEM_LARGEPAGE_TYPE t = ABTU_MEM_LARGEPAGE_MALLOC;
    ABTI_mem_pool_init_global_pool(&x->g, P->nper, P->header_size,
                                   P->header_offset, x->page_size, &t, 1,
                                   ABT_CONFIG_STATIC_CACHELINE_SIZE, NULL);
}

/* returns the ABT error code of the underlying take_bucket */
static inline int px_local_init(px_t *x, int i)
{
    int r = ABTI_mem_pool_init_local_pool(&x->l[i], &x->g);
    if (r == ABT_SUCCESS)
        x->l_alive[i] = 1;
    return r;
}

static inline void px_local_destroy(px_t *x, int i)
{
    ABTI_mem_pool_destroy_local_pool(&x->l[i]);
    x->l_alive[i] = 0;
}

/* page (ledger block of the page size) containing addr, or NULL */
static inline void *px_find_page(px_t *x, const void *addr)
{
    for (int k = 0; k < x->npg; k++)
        if ((const char *)addr >= (char *)x->pg_base[k] &&
            (const char *)addr < (char *)x->pg_base[k] + x->page_alloc)
            return x->pg_base[k];
    void *base = NULL;
    size_t sz = 0;
    if (!abtmc_ledger_find(addr, &base, &sz) || sz != x->page_alloc)
        return NULL;
    if (x->npg < PX_MAXHDR)
        x->pg_base[x->npg++] = base;
    return base;
}

static inline void px_fill(const px_t *x, void *p, unsigned id)
{
    unsigned char *s = (unsigned char *)p - x->P.header_offset;
    for (size_t k = 0; k < x->P.header_size; k++)
        s[k] = (unsigned char)(id * 37u + k * 11u + 5u);
}

static inline int px_verify(const px_t *x, void *p, unsigned id)
{
    const unsigned char *s = (const unsigned char *)p - x->P.header_offset;
    for (size_t k = 0; k < x->P.header_size; k++)
        if (s[k] != (unsigned char)(id * 37u + k * 11u + 5u))
            return (int)k;
    return -1;
}

/* checks on a block the pool has just handed out; registers it as live.
 * Must be called right after ABTI_mem_pool_alloc returned (no hooked
 * operation in between), so that it is atomic for the controlled scheduler. */
static inline void px_on_alloc(px_t *x, int owner, void *p)
{
    const px_params *P = &x->P;
    char *seg = (char *)p - P->header_offset;
    abtmc_check(p != NULL, "pool_null_block", "pool %d returned NULL", owner);
    if ((P->header_size % ABT_CONFIG_STATIC_CACHELINE_SIZE) == 0 &&
        (P->header_offset % ABT_CONFIG_STATIC_CACHELINE_SIZE) == 0)
        abtmc_check(((uintptr_t)p % ABT_CONFIG_STATIC_CACHELINE_SIZE) == 0,
                    "pool_misaligned", "block %p is not cache-line aligned", p);
    abtmc_check(((uintptr_t)p % 16) == 0, "pool_misaligned",
                "block %p is not 16-byte aligned", p);
    void *base = px_find_page(x, seg);
    size_t sz = x->page_size;
    abtmc_check(base != NULL, "pool_block_outside_page",
                "block %p (segment %p) is not inside any live page obtained "
                "from the allocator", p, (void *)seg);
    size_t off = (size_t)(seg - (char *)base);
    abtmc_check(off + P->header_size <= sz - sizeof(ABTI_mem_pool_page),
                "pool_block_outside_page",
                "segment of block %p (page offset %zu, size %zu) overlaps the "
                "page record / page end (%zu)", p, off, P->header_size,
                sz - sizeof(ABTI_mem_pool_page));
    abtmc_check(off % P->header_size == 0, "pool_block_overlap",
                "block %p is not on a segment boundary of its page (offset "
                "%zu, segment size %zu)", p, off, P->header_size);
    for (int k = 0; k < x->nlive; k++) {
        char *q = (char *)x->live[k].p;
        size_t d = q > (char *)p ? (size_t)(q - (char *)p)
                                 : (size_t)((char *)p - q);
        abtmc_check(d >= P->header_size, "pool_block_overlap",
                    "pool %d handed out %p which overlaps the live block %p "
                    "(owner %d) [distance %zu < %zu]", owner, p,
                    (void *)q, x->live[k].owner, d, P->header_size);
    }
    abtmc_check(x->nlive < PX_MAXLIVE, "harness_error", "too many live blocks");
    x->live[x->nlive].p = p;
    x->live[x->nlive].owner = owner;
    x->live[x->nlive].holder = owner;
    x->live[x->nlive].id = x->next_id++;
    px_fill(x, p, x->live[x->nlive].id);
    x->nlive++;
    x->n_alloc++;
}

/* removes live block k from the model (content check first) and returns it */
static inline void *px_before_free(px_t *x, int k)
{
    void *p = x->live[k].p;
    int bad = px_verify(x, p, x->live[k].id);
    abtmc_check(bad < 0, "pool_live_block_clobbered",
                "live block %p (owner %d) was modified at byte %d while its "
                "owner held it", p, x->live[k].owner, bad);
    for (int j = k; j + 1 < x->nlive; j++)
        x->live[j] = x->live[j + 1];
    x->nlive--;
    x->n_free++;
    return p;
}

static inline int px_alloc(px_t *x, int i, void **pp)
{
    void *p = NULL;
    int r = ABTI_mem_pool_alloc(&x->l[i], &p);
    if (r == ABT_SUCCESS) {
        px_on_alloc(x, i, p);
        if (pp)
            *pp = p;
    }
    return r;
}

static inline void px_free(px_t *x, int i, int k)
{
    void *p = px_before_free(x, k);
    ABTI_mem_pool_free(&x->l[i], p);
}

/* ---- structural walk (quiescent state only) ---- */
typedef struct {
    void *h[PX_MAXHDR];
    int n;
} px_set;

static inline void px_set_add(px_t *x, px_set *s, void *h, const char *where)
{
    for (int k = 0; k < s->n; k++)
        abtmc_check(s->h[k] != h, "pool_dup_block",
                    "block %p is reachable twice from the free lists (second "
                    "time via %s)", h, where);
    for (int k = 0; k < x->nlive; k++)
        abtmc_check(x->live[k].p != h, "pool_dup_block",
                    "live block %p (owner %d) is also on a free list (%s)", h,
                    x->live[k].owner, where);
    abtmc_check(s->n < PX_MAXHDR, "harness_error", "free set overflow");
    abtmc_check(px_find_page(x, (char *)h - x->P.header_offset) != NULL,
                "pool_invariant", "free-list entry %p (%s) is not inside a "
                "page", h, where);
    s->h[s->n++] = h;
}

static inline void px_walk_chain(px_t *x, px_set *s, ABTI_mem_pool_header *h,
                                 size_t n, const char *where)
{
    abtmc_check(n <= (size_t)PX_MAXHDR, "pool_invariant",
                "%s: header count %zu is absurd", where, n);
    for (size_t k = 0; k < n; k++) {
        abtmc_check(h != NULL, "pool_invariant",
                    "%s: chain ends after %zu of %zu headers", where, k, n);
        px_set_add(x, s, h, where);
        h = h->p_next;
    }
}

/* number of segments carved so far out of all pages, and number of pages */
static inline long px_carved(px_t *x, int *npages)
{
    long carved = 0;
    int np = 0;
    void *top = x->g.mem_page_lifo.p_top.ptr;
    ABTI_sync_lifo_element *e = (ABTI_sync_lifo_element *)top;
    while (e) {
        ABTI_mem_pool_page *pg =
            (ABTI_mem_pool_page *)((char *)e -
                                   offsetof(ABTI_mem_pool_page, lifo_elem));
        carved += (long)((pg->page_size - sizeof(ABTI_mem_pool_page) -
                          pg->mem_extra_size) / x->P.header_size);
        abtmc_check(++np <= PX_MAXHDR, "pool_invariant", "page lifo loops");
        e = e->p_next;
    }
    ABTI_mem_pool_page *pg = (ABTI_mem_pool_page *)x->g.p_mem_page_empty.val;
    while (pg) {
        carved += (long)((pg->page_size - sizeof(ABTI_mem_pool_page) -
                          pg->mem_extra_size) / x->P.header_size);
        abtmc_check(++np <= PX_MAXHDR, "pool_invariant", "page list loops");
        pg = pg->p_next_empty_page;
    }
    if (npages)
        *npages = np;
    return carved;
}

/* every carved block is live or free exactly once.  `strict_lost`: also
 * require that none is unreachable. */
/* context (e.g. the operation history so far) appended to the messages */
static const char *px_context = "";

static inline void px_check_structure(px_t *x, const char *when)
{
    static px_set s;
    static char whenbuf[200];
    if (px_context[0]) {
        snprintf(whenbuf, sizeof(whenbuf), "%s [%s]", when, px_context);
        when = whenbuf;
    }
    s.n = 0;
    const size_t N = (size_t)x->P.nper;
    for (int i = 0; i < x->P.nlocal; i++) {
        if (!x->l_alive[i])
            continue;
        ABTI_mem_pool_local_pool *lp = &x->l[i];
        abtmc_check(lp->bucket_index < ABT_MEM_POOL_MAX_LOCAL_BUCKETS,
                    "pool_invariant", "%s: local %d bucket_index %zu", when, i,
                    lp->bucket_index);
        for (size_t b = 0; b <= lp->bucket_index; b++) {
            ABTI_mem_pool_header *h = lp->buckets[b];
            abtmc_check(h != NULL, "pool_invariant",
                        "%s: local %d bucket %zu is NULL", when, i, b);
            size_t n = h->bucket_info.num_headers;
            if (b < lp->bucket_index)
                abtmc_check(n == N, "pool_invariant",
                            "%s: local %d bucket %zu below the index holds "
                            "%zu headers, not %zu", when, i, b, n, N);
            else
                abtmc_check(n >= 1 && n <= N, "pool_invariant",
                            "%s: local %d current bucket holds %zu headers "
                            "(1..%zu expected)", when, i, n, N);
            px_walk_chain(x, &s, h, n, "local bucket");
        }
    }
    ABTI_sync_lifo_element *e =
        (ABTI_sync_lifo_element *)x->g.bucket_lifo.p_top.ptr;
    int nb = 0;
    while (e) {
        ABTI_mem_pool_header *h =
            (ABTI_mem_pool_header *)((char *)e -
                                     offsetof(ABTI_mem_pool_header,
                                              bucket_info));
        ABTI_sync_lifo_element *next = e->p_next;
        px_walk_chain(x, &s, h, N, "global bucket");
        abtmc_check(++nb <= PX_MAXHDR, "pool_invariant", "bucket lifo loops");
        e = next;
    }
    if (x->g.partial_bucket) {
        size_t n = x->g.partial_bucket->bucket_info.num_headers;
        /* a count outside 1..N-1 makes the next merge drop the chain */
        abtmc_check(n >= 1 && n < N, "pool_lost_block",
                    "%s: the global partial bucket records %ld headers "
                    "(1..%zu possible): the blocks parked on it can no "
                    "longer be handed out", when, (long)n, N - 1);
        px_walk_chain(x, &s, x->g.partial_bucket, n, "partial bucket");
    }
    int npages = 0;
    long carved = px_carved(x, &npages);
    abtmc_check((long)npages == abtmc_ledger_live() - x->ledger0,
                "pool_page_lost",
                "%s: %d pages are linked in the global pool but %ld are "
                "allocated", when, npages, abtmc_ledger_live() - x->ledger0);
    abtmc_check((long)s.n + x->nlive <= carved, "pool_dup_block",
                "%s: %d free + %d live blocks but only %ld were carved", when,
                s.n, x->nlive, carved);
    abtmc_check((long)s.n + x->nlive == carved, "pool_lost_block",
                "%s: %ld blocks were carved out of pages, %d are live and "
                "only %d are reachable from the free lists: %ld block(s) "
                "lost", when, carved, x->nlive, s.n,
                carved - s.n - x->nlive);
}

/* tear everything down; the ledger must return to its starting level */
static inline void px_teardown(px_t *x)
{
    for (int i = 0; i < x->P.nlocal; i++)
        if (x->l_alive[i])
            px_local_destroy(x, i);
    px_check_structure(x, "after destroying the local pools");
    ABTI_mem_pool_destroy_global_pool(&x->g);
    abtmc_check(abtmc_ledger_live() == x->ledger0, "pool_leak",
                "%ld page(s) still allocated after destroying the global pool",
                abtmc_ledger_live() - x->ledger0);
}

#endif
