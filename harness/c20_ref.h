/* c20_ref.h -- reference semantics for the C20 drivers (numeric strings).
 *
 * Written from the description of the string-to-integer routines (abtu.h,
 * the disabled self-test table in src/util/atoi.c and DESIGN.md C20b), not
 * from atoi_impl():
 *   - blanks (' ', '\t', '\n', '\r') are skipped only at the very beginning;
 *   - then any number of '+'/'-' characters; every '-' flips the sign;
 *   - then at least one decimal digit, otherwise the string is not a number
 *     (ABT_ERR_INV_ARG);
 *   - reading stops at the first non-digit, whatever it is;
 *   - the mathematical value is saturated to the limits of the target type
 *     and the overflow flag tells whether saturation happened.
 * The magnitude is never held in a machine integer before it is known to fit:
 * it is compared as a decimal digit string against the limit.
 */
#ifndef C20_REF_H
#define C20_REF_H
#include <stdint.h>
#include <limits.h>
#include <string.h>

typedef struct {
    int ok;          /* a number was found */
    int neg;         /* odd number of '-' */
    const char *dig; /* first significant digit (leading zeros stripped) */
    int ndig;        /* number of significant digits; 0 means value 0 */
    const char *end; /* first character after the digit run */
} c20_num;

static inline int c20_isblank(char c)
{
    return c == ' ' || c == '\t' || c == '\n' || c == '\r';
}
static inline int c20_isdigit(char c) { return c >= '0' && c <= '9'; }

static inline c20_num c20_scan(const char *s)
{
    c20_num r;
    memset(&r, 0, sizeof(r));
    while (c20_isblank(*s))
        s++;
    while (*s == '+' || *s == '-') {
        if (*s == '-')
            r.neg = !r.neg;
        s++;
    }
    if (!c20_isdigit(*s))
        return r;
    r.ok = 1;
    while (*s == '0')
        s++;
    r.dig = s;
    while (c20_isdigit(*s))
        s++;
    r.ndig = (int)(s - r.dig);
    r.end = s;
    return r;
}

/* compare the significant digits with a decimal limit (no leading zeros) */
static inline int c20_cmp_dec(const c20_num *n, const char *limit)
{
    int ll = (int)strlen(limit);
    if (n->ndig != ll)
        return n->ndig < ll ? -1 : 1;
    return memcmp(n->dig, limit, (size_t)ll);
}

/* value of the digits; only call when known to be <= UINT64_MAX */
static inline uint64_t c20_value(const c20_num *n)
{
    uint64_t v = 0;
    for (int i = 0; i < n->ndig; i++)
        v = v * 10 + (uint64_t)(n->dig[i] - '0');
    return v;
}

#define C20_S_INT_MAX "2147483647"
#define C20_S_INT_MIN_MAG "2147483648"
#define C20_S_U32_MAX "4294967295"
#define C20_S_U64_MAX "18446744073709551615"

/* all return 0 = number parsed, -1 = not a number */
static inline int c20_ref_atoi(const char *s, int *val, int *ovf)
{
    c20_num n = c20_scan(s);
    if (!n.ok)
        return -1;
    if (n.neg) {
        if (c20_cmp_dec(&n, C20_S_INT_MIN_MAG) > 0) {
            *val = INT_MIN;
            *ovf = 1;
        } else {
            *val = (int)(-(int64_t)c20_value(&n));
            *ovf = 0;
        }
    } else {
        if (c20_cmp_dec(&n, C20_S_INT_MAX) > 0) {
            *val = INT_MAX;
            *ovf = 1;
        } else {
            *val = (int)c20_value(&n);
            *ovf = 0;
        }
    }
    return 0;
}

static inline int c20_ref_atou(const char *s, const char *limit_s,
                               uint64_t limit, uint64_t *val, int *ovf)
{
    c20_num n = c20_scan(s);
    if (!n.ok)
        return -1;
    if (n.neg) {
        *val = 0;
        *ovf = n.ndig != 0; /* "-0" is exactly 0 */
    } else if (c20_cmp_dec(&n, limit_s) > 0) {
        *val = limit;
        *ovf = 1;
    } else {
        *val = c20_value(&n);
        *ovf = 0;
    }
    return 0;
}
static inline int c20_ref_atoui32(const char *s, uint64_t *val, int *ovf)
{
    return c20_ref_atou(s, C20_S_U32_MAX, UINT32_MAX, val, ovf);
}
static inline int c20_ref_atoui64(const char *s, uint64_t *val, int *ovf)
{
    return c20_ref_atou(s, C20_S_U64_MAX, UINT64_MAX, val, ovf);
}

/* ---- enumeration of all strings over an alphabet, odometer style ---- */
typedef struct {
    const char *alpha;
    int nalpha;
    int len;
    int idx[16];
    char str[17];
} c20_enum;

/* start the enumeration of all strings of length len whose first nfixed
 * characters are given by fixed[] (indices into alpha) */
static inline void c20_enum_start(c20_enum *e, const char *alpha, int len,
                                  const int *fixed, int nfixed)
{
    e->alpha = alpha;
    e->nalpha = (int)strlen(alpha);
    e->len = len;
    for (int i = 0; i < len; i++) {
        e->idx[i] = i < nfixed ? fixed[i] : 0;
        e->str[i] = alpha[e->idx[i]];
    }
    e->str[len] = 0;
}
/* advance; returns 0 when the free positions wrapped around (done) */
static inline int c20_enum_next(c20_enum *e, int nfixed)
{
    for (int i = e->len - 1; i >= nfixed; i--) {
        if (++e->idx[i] < e->nalpha) {
            e->str[i] = e->alpha[e->idx[i]];
            return 1;
        }
        e->idx[i] = 0;
        e->str[i] = e->alpha[0];
    }
    return 0;
}

#endif
