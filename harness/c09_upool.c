/* c09_upool.c -- C09 (and the wait-list half of C08/C05): waiters that live in
 * a USER-DEFINED pool.  The wait list links blocked ULTs through the same
 * p_prev/p_next fields the built-in pools use for their queues; a built-in pool
 * rewrites them on every push/pop, a user-defined pool never touches them, so
 * only here does a stale link left behind by wait/broadcast survive until the
 * unit waits again.
 *
 *   ES1 serves the user pool UP (array FIFO kept by the driver; its callbacks
 *   contain no hooked operation, so they are atomic for the explorer).
 *   Waiters W0..Wn-1 (ULTs in UP) run a script of waits on objects O0..O3
 *   (eventuals, futures with one compartment, or a cond+mutex with predicate);
 *   the primary ULT (or an external thread) sets/broadcasts the objects in a
 *   scripted order, waiting for given waiters to be BLOCKED in between.
 * Oracle: a waiter returns from its wait on Ok only after the set of Ok was
 * issued and reads the value set for Ok; every step of every script runs
 * exactly once; UP never receives a unit that is already queued; everything
 * terminates. */
#include "common.h"

#define MAXW 3
#define MAXO 4
#define MAXS 4
enum { T_EVENTUAL, T_FUTURE, T_COND, T_CONDSIG, T_MUTEX };
enum { SETTER_PRIMARY, SETTER_EXT };

typedef struct {
    const char *name;
    int quick, type, nw, setter;
    int wscript[MAXW][MAXS]; /* object indices, -1 terminated */
    /* setter script: pairs (object, mask of waiters that must be blocked on
     * something before the set is issued); object -1 terminates */
    int sscript[MAXO + 1][2];
} cfg_t;

static const cfg_t cfgs[] = {
    { "eventual: W0,W1 wait O0; set O0; W0 waits O1, W1 waits O2; set O1; set O2", 1,
      T_EVENTUAL, 2, SETTER_PRIMARY,
      { { 0, 1, -1 }, { 0, 2, -1 } },
      { { 0, 3 }, { 1, 3 }, { 2, 2 }, { -1, 0 } } },
    { "future(1): W0,W1 wait O0; set O0; W0 waits O1, W1 waits O2; set O1; set O2", 1,
      T_FUTURE, 2, SETTER_PRIMARY,
      { { 0, 1, -1 }, { 0, 2, -1 } },
      { { 0, 3 }, { 1, 3 }, { 2, 2 }, { -1, 0 } } },
    { "eventual: W0,W1,W2 wait O0; X sets O0; W1 waits O1, W0,W2 wait O2; X sets O1, O2",
      1, T_EVENTUAL, 3, SETTER_EXT,
      { { 0, 2, -1 }, { 0, 1, -1 }, { 0, 2, -1 } },
      { { 0, 7 }, { 1, 7 }, { 2, 5 }, { -1, 0 } } },
    { "cond: W0,W1 wait C0; bcast C0; W0 waits C1, W1 waits C2; bcast C1; bcast C2", 1,
      T_COND, 2, SETTER_PRIMARY,
      { { 0, 1, -1 }, { 0, 2, -1 } },
      { { 0, 3 }, { 1, 3 }, { 2, 2 }, { -1, 0 } } },
    { "cond/signal: W0,W1 wait C0; signal C0 x2; W0 waits C1, W1 waits C2; signal C1; "
      "signal C2", 1, T_CONDSIG, 2, SETTER_PRIMARY,
      { { 0, 1, -1 }, { 0, 2, -1 } },
      { { 0, 3 }, { 1, 3 }, { 2, 2 }, { -1, 0 } } },
    { "mutex: W0,W1,W2 lock M0 (held by the primary); unlock M0; W1 locks M1, W0,W2 "
      "lock M2; unlock M1; unlock M2", 1, T_MUTEX, 3, SETTER_PRIMARY,
      { { 0, 2, -1 }, { 0, 1, -1 }, { 0, 2, -1 } },
      { { 0, 7 }, { 1, 7 }, { 2, 5 }, { -1, 0 } } },
    { "eventual: W0,W1 wait O0; X sets O0 (no gating afterwards); W0 waits O1, W1 "
      "waits O2; X sets O2, O1", 0, T_EVENTUAL, 2, SETTER_EXT,
      { { 0, 1, -1 }, { 0, 2, -1 } },
      { { 0, 3 }, { 2, 0 }, { 1, 0 }, { -1, 0 } } },
    { "future(1): W0,W1,W2 wait O0; X sets O0; W0 waits O1, W1 waits O2, W2 waits "
      "O3; X sets O3, O2, O1", 0, T_FUTURE, 3, SETTER_EXT,
      { { 0, 1, -1 }, { 0, 2, -1 }, { 0, 3, -1 } },
      { { 0, 7 }, { 3, 0 }, { 2, 0 }, { 1, 0 }, { -1, 0 } } },
};

static const cfg_t *C;

/* ------------------------------------------------------------ user pool */
#define QCAP 16
static ABT_thread q[QCAP];
static int qn;
static int pushed_twice;

static ABT_unit up_create_unit(ABT_pool pool, ABT_thread thread)
{
    (void)pool;
    return (ABT_unit)thread;
}
static void up_free_unit(ABT_pool pool, ABT_unit unit)
{
    (void)pool;
    (void)unit;
}
static ABT_bool up_is_empty(ABT_pool pool)
{
    (void)pool;
    return qn == 0 ? ABT_TRUE : ABT_FALSE;
}
static ABT_thread up_pop(ABT_pool pool, ABT_pool_context ctx)
{
    (void)pool;
    (void)ctx;
    if (qn == 0)
        return ABT_THREAD_NULL;
    ABT_thread t = q[0];
    for (int i = 1; i < qn; i++)
        q[i - 1] = q[i];
    qn--;
    return t;
}
static void up_push(ABT_pool pool, ABT_unit unit, ABT_pool_context ctx)
{
    (void)pool;
    (void)ctx;
    for (int i = 0; i < qn; i++)
        if (q[i] == (ABT_thread)unit)
            pushed_twice++;
    if (qn < QCAP)
        q[qn++] = (ABT_thread)unit;
}

/* ------------------------------------------------------------ objects */
static ABT_eventual EVo[MAXO];
static ABT_future FUo[MAXO];
static ABT_cond CVo[MAXO];
static ABT_mutex MX, MXo[MAXO];
static int pred[MAXO];    /* cond predicate, under MX */
static int inside[MAXO];  /* holders of MXo[k] */
static int issued[MAXO];  /* hooked: the set of Ok has been issued */
static int value[MAXO];
static ABT_thread W[MAXW];
static int steps[MAXW][MAXS], finished[MAXW];
static char order[MAXW * MAXS + 1];
static int norder;

static void do_wait(int w, int k)
{
    if (C->type == T_EVENTUAL) {
        void *p = NULL;
        OK(ABT_eventual_wait(EVo[k], &p));
        int is = abtmc_load(&issued[k]);
        abtmc_check(is == 1, "early_return",
                    "waiter %d returned from ABT_eventual_wait(O%d) but O%d was "
                    "never set", w, k, k);
        abtmc_check(p != NULL && *(int *)p == 100 + k, "wrong_value",
                    "waiter %d read %d from O%d", w, p ? *(int *)p : -1, k);
    } else if (C->type == T_FUTURE) {
        OK(ABT_future_wait(FUo[k]));
        int is = abtmc_load(&issued[k]);
        abtmc_check(is == 1, "early_return",
                    "waiter %d returned from ABT_future_wait(O%d) but O%d was "
                    "never set", w, k, k);
    } else if (C->type == T_MUTEX) {
        OK(ABT_mutex_lock(MXo[k]));
        int is = abtmc_load(&issued[k]);
        abtmc_check(is == 1, "early_return",
                    "waiter %d acquired M%d although its holder never unlocked it", w,
                    k);
        inside[k]++;
        abtmc_check(inside[k] == 1, "two_holders", "%d holders of M%d", inside[k], k);
        abtmc_progress();
        inside[k]--;
        OK(ABT_mutex_unlock(MXo[k]));
    } else {
        OK(ABT_mutex_lock(MX));
        while (!pred[k]) {
            OK(ABT_cond_wait(CVo[k], MX));
            /* no spurious wake-up (C05): woken only by C_k's broadcast */
            abtmc_check(pred[k], "spurious_wakeup",
                        "waiter %d woke up from ABT_cond_wait(C%d) without a "
                        "signal/broadcast on C%d", w, k, k);
        }
        OK(ABT_mutex_unlock(MX));
    }
}

static void do_set(int k)
{
    abtmc_store(&issued[k], 1);
    if (C->type == T_EVENTUAL) {
        value[k] = 100 + k;
        OK(ABT_eventual_set(EVo[k], &value[k], sizeof(int)));
    } else if (C->type == T_FUTURE) {
        OK(ABT_future_set(FUo[k], &value[k]));
    } else if (C->type == T_MUTEX) {
        OK(ABT_mutex_unlock(MXo[k]));
    } else {
        OK(ABT_mutex_lock(MX));
        pred[k] = 1;
        if (C->type == T_CONDSIG) {
            /* one signal per waiter that will ever wait on C_k */
            for (int w = 0; w < C->nw; w++)
                for (int i = 0; i < MAXS && C->wscript[w][i] >= 0; i++)
                    if (C->wscript[w][i] == k)
                        OK(ABT_cond_signal(CVo[k]));
        } else {
            OK(ABT_cond_broadcast(CVo[k]));
        }
        OK(ABT_mutex_unlock(MX));
    }
}

static void waiter_fn(void *arg)
{
    int w = (int)(intptr_t)arg;
    for (int s = 0; s < MAXS && C->wscript[w][s] >= 0; s++) {
        do_wait(w, C->wscript[w][s]);
        steps[w][s]++;
        if (norder < MAXW * MAXS)
            order[norder++] = (char)('a' + w * MAXS + s);
        abtmc_check(steps[w][s] == 1, "step_twice",
                    "waiter %d passed step %d %d times", w, s, steps[w][s]);
    }
    abtmc_store(&finished[w], 1);
}

static int is_blocked(int w)
{
    ABT_thread_state st;
    OK(ABT_thread_get_state(W[w], &st));
    return st == ABT_THREAD_STATE_BLOCKED;
}

static void setter_fn(void *arg)
{
    int ext = (int)(intptr_t)arg;
    for (int i = 0; C->sscript[i][0] >= 0; i++) {
        int mask = C->sscript[i][1];
        for (int w = 0; w < C->nw; w++) {
            if (!(mask & (1 << w)))
                continue;
            /* wait until waiter w is blocked (on whatever it waits for) */
            while (!is_blocked(w)) {
                if (ext)
                    abtmc_spin_hint(100 + w, NULL);
                else
                    OK(ABT_thread_yield());
            }
        }
        do_set(C->sscript[i][0]);
    }
}

static void scenario(int cfg)
{
    C = &cfgs[cfg];
    h_init();
    ABT_pool_user_def def;
    ABT_pool UP;
    ABT_sched s1;
    ABT_xstream es1;
    OK(ABT_pool_user_def_create(up_create_unit, up_free_unit, up_is_empty, up_pop,
                                up_push, &def));
    OK(ABT_pool_create(def, ABT_POOL_CONFIG_NULL, &UP));
    OK(ABT_pool_user_def_free(&def));
    OK(ABT_sched_create_basic(ABT_SCHED_BASIC, 1, &UP, ABT_SCHED_CONFIG_NULL, &s1));
    OK(ABT_mutex_create(&MX));
    for (int k = 0; k < MAXO; k++) {
        OK(ABT_eventual_create(sizeof(int), &EVo[k]));
        OK(ABT_future_create(1, NULL, &FUo[k]));
        OK(ABT_cond_create(&CVo[k]));
        OK(ABT_mutex_create(&MXo[k]));
        if (C->type == T_MUTEX)
            OK(ABT_mutex_lock(MXo[k])); /* held by the primary = the setter */
    }
    OK(ABT_xstream_create(s1, &es1));

    abtmc_window_begin();
    for (int w = 0; w < C->nw; w++)
        OK(ABT_thread_create(UP, waiter_fn, (void *)(intptr_t)w, ABT_THREAD_ATTR_NULL,
                             &W[w]));
    int x = -1;
    if (C->setter == SETTER_EXT)
        x = abtmc_thread_create(setter_fn, (void *)(intptr_t)1);
    else
        setter_fn((void *)(intptr_t)0);
    for (int w = 0; w < C->nw; w++)
        OK(ABT_thread_join(W[w]));
    if (x >= 0)
        abtmc_thread_join(x);
    abtmc_window_end();

    abtmc_check(pushed_twice == 0, "pushed_twice",
                "the user pool was handed a unit that it already holds (%d times)",
                pushed_twice);
    for (int w = 0; w < C->nw; w++) {
        for (int s = 0; s < MAXS && C->wscript[w][s] >= 0; s++)
            abtmc_check(steps[w][s] == 1, "step_count",
                        "waiter %d step %d ran %d times", w, s, steps[w][s]);
        OK(ABT_thread_free(&W[w]));
    }
    abtmc_observe("%s", order);
    abtmc_check(qn == 0, "unit_left", "%d units left in the user pool", qn);
    OK(ABT_xstream_join(es1));
    OK(ABT_xstream_free(&es1));
    OK(ABT_pool_free(&UP));
    for (int k = 0; k < MAXO; k++) {
        OK(ABT_eventual_free(&EVo[k]));
        OK(ABT_future_free(&FUo[k]));
        OK(ABT_cond_free(&CVo[k]));
        if (C->type == T_MUTEX && !abtmc_load(&issued[k]))
            OK(ABT_mutex_unlock(MXo[k])); /* never used in this script */
        OK(ABT_mutex_free(&MXo[k]));
    }
    OK(ABT_mutex_free(&MX));
    h_finalize();
    abtmc_check(abtmc_ledger_live() == 0, "leak", "%ld live allocations",
                abtmc_ledger_live());
}

static const char *cfg_name(int i) { return cfgs[i].name; }
static int cfg_quick(int i) { return cfgs[i].quick; }

int main(int argc, char **argv)
{
    static abtmc_driver d = { "c09_upool", "C09", ARRAY_LEN(cfgs), cfg_name, scenario,
                              cfg_quick };
    return abtmc_main(argc, argv, &d);
}
